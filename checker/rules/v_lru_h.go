package rules

import (
	"go/types"
	"strings"

	"golang.org/x/tools/go/ssa"

	"verif/checker/ir"
)

// LRU rules added for seeded round "h":
//
//   C08.R12 (= C09.R6, lruOpsAtomic run under C08): Remove/Clear touch the recency list in ONE critical section
//   C09.R4 / C11.R4 (lruCapacityLoweredV): the capacity changes only at construction, or the bound Len() <= capacity is
//            restored by a loop
//   C09.R11 (lruOneMutexV): the lookup that missed and the registration in the in-flight table lie in one critical
//            section of ONE mutex

// lruCapacityLoweredV. "The cache holds at most its capacity" is an invariant between calls: every insert is followed
// by ONE test Len() > capacity and evicts ONE entry, which restores it because an insert adds one entry. That argument
// needs the capacity to be constant. When the capacity field is assigned after construction (a SetMaxSize operation),
// the invariant must be re-established where it is broken - the store is followed, inside its critical section, by a
// loop that tests Len() against the capacity (evict while over) - or the overflow handling of every insert must itself be
// such a loop. Otherwise a capacity lowered below the current fill is never reached: each miss adds one and evicts one,
// the cache keeps the old fill for ever.
func (c *Ctx) lruCapacityLoweredV(r *lruRoles, rule string) {
	lv := r.locks
	const what = "capacity assigned only at construction, or the bound is restored by an eviction loop"
	isCapTest := func(x ssa.Instruction) bool {
		iff, ok := x.(*ssa.If)
		if !ok {
			return false
		}
		cm, ok := ir.AsCmp(iff.Cond)
		if !ok {
			return false
		}
		lenX := r.itemsCall(asInstr(cm.X), r.mLen) != nil
		lenY := r.itemsCall(asInstr(cm.Y), r.mLen) != nil
		_, capX := loadOfField(cm.X, r.capacity)
		_, capY := loadOfField(cm.Y, r.capacity)
		return (lenX && capY) || (capX && lenY)
	}
	// a capacity test that is the test of a loop: it can be reached again from itself
	isLoopCapTest := func(x ssa.Instruction) bool {
		if !isCapTest(x) {
			return false
		}
		w, err := (ir.Flow{Fn: x.Parent(), From: x, Target: func(y ssa.Instruction) bool { return y == x }}).Find()
		return w != nil && err == nil
	}
	var stores []ssa.Instruction
	for _, fn := range c.P.FuncsOf("container/lru") {
		ir.Instrs(fn, func(in ssa.Instruction) {
			if _, _, ok := storeToField(in, r.capacity); ok {
				if !lv.holdsInter(in, func(at ssa.Instruction) bool { return r.isCacheCtorZ(rootFnH(at.Parent())) }) {
					stores = append(stores, in)
				}
			}
		})
	}
	if len(stores) == 0 {
		c.Decide(rule, r.getOrCreate, what, nil, true, "")
		return
	}
	// the alternative: every capacity test of the package is the test of a loop
	allLoops, nTests := true, 0
	for _, fn := range c.P.FuncsOf("container/lru") {
		ir.Instrs(fn, func(in ssa.Instruction) {
			if isCapTest(in) {
				nTests++
				if !isLoopCapTest(in) {
					allLoops = false
				}
			}
		})
	}
	loopEff := newMustEffectH(lv, isLoopCapTest)
	for _, st := range stores {
		fn := st.Parent()
		ok := allLoops && nTests > 0
		if !ok {
			w, err := (ir.Flow{Fn: fn, From: st, Block: loopEff.Is, Target: func(x ssa.Instruction) bool {
				if _, isDefer := x.(*ssa.Defer); isDefer {
					return false
				}
				return r.isUnlock(x) || ir.IsExit(x)
			}}).Find()
			if err != nil {
				c.Undecided(rule, fn, what, st, err.Error())
				continue
			}
			ok = w == nil
		}
		c.Decide(rule, fn, what, st, ok, "the capacity is assigned after construction and its critical section ends without a loop that evicts while Len() exceeds the capacity, and the overflow handling of the insert path evicts one entry per insert: after the capacity is lowered below the current fill the cache never shrinks to it (each miss adds one entry and evicts one)")
	}
}

// lruOneMutexV (C09.R11). Single flight needs "this goroutine missed the key" and "this goroutine registered as the
// creator of the key" to be ONE atomic step: if another goroutine can complete a creation of the key between the two,
// the first one registers and creates a second value for a resident key (its Add fails silently: a value returned but
// never resident and never deleted). With one mutex in the cache the lockset and section rules (R1-R3) decide this.
// When the cache has several mutexes (the in-flight table gets a lock of its own) those rules lose their role "the
// cache mutex"; this rule decides the clause directly: in GetOrCreate, at the registration in the in-flight table some
// mutex of the cache is held that was already held at a lookup of the recency list and was not released in between.
func (c *Ctx) lruOneMutexV(rule string) {
	ecache := c.P.LookupType("container/lru", "ECache")
	mapT := c.P.LookupType("container/iterable", "Map")
	if ecache == nil || mapT == nil {
		return // the role resolution of the other rules reports it
	}
	st := structOf(ecache)
	if st == nil {
		return
	}
	var mutexes []*types.Var
	var items, inflight *types.Var
	for i := 0; i < st.NumFields(); i++ {
		f := st.Field(i)
		switch {
		case ir.IsNamed(f.Type(), "sync", "Mutex") || ir.IsNamed(f.Type(), "sync", "RWMutex"):
			mutexes = append(mutexes, f.Origin())
		case namedOf(f.Type()) == mapT:
			items = f.Origin()
		default:
			if m, ok := f.Type().Underlying().(*types.Map); ok {
				if _, carries := chanCarrier(m.Elem()); carries {
					inflight = f.Origin()
				}
			}
		}
	}
	goc := c.P.MethodOf(ecache, "GetOrCreate")
	const what = "miss and registration as creator lie in one critical section of one mutex"
	if len(mutexes) < 2 || items == nil || inflight == nil || goc == nil || len(goc.Blocks) == 0 {
		// one mutex (or the state grouped elsewhere): R1-R3 decide the clause on the resolved roles
		if goc != nil {
			c.Decide(rule, goc, what, nil, true, "")
		}
		return
	}
	mGet := c.P.MethodOf(mapT, "Get")
	ls := ir.ComputeLockset(goc, nil)
	var gets, regs []ssa.Instruction
	ir.Instrs(goc, func(in ssa.Instruction) {
		if call, ok := in.(*ssa.Call); ok && mGet != nil && ir.StaticCallee(call) == mGet && len(call.Call.Args) > 0 {
			if _, isItems := loadOfField(call.Call.Args[0], items); isItems {
				gets = append(gets, in)
			}
		}
		if mu, ok := in.(*ssa.MapUpdate); ok {
			if _, isIn := loadOfField(mu.Map, inflight); isIn {
				regs = append(regs, in)
			}
		}
	})
	if len(gets) == 0 || len(regs) == 0 {
		c.Undecided(rule, goc, what, nil, "the lookup of the recency list or the registration in the in-flight table is not in GetOrCreate's own body")
		return
	}
	for _, reg := range regs {
		ok := false
		for _, m := range mutexes {
			path := "recv." + m.Name()
			if !ls.Held(reg, path) {
				continue
			}
			for _, g := range gets {
				if !ls.Held(g, path) || !ir.Dominates(g, reg) {
					continue
				}
				// no release of m between the lookup and the registration
				released := betweenV(goc, g, reg, func(x ssa.Instruction) bool {
					if _, isDefer := x.(*ssa.Defer); isDefer {
						return false
					}
					p, _, rel := ir.LockOp(x)
					return rel && strings.HasSuffix(p, "."+m.Name())
				})
				if !released {
					ok = true
				}
			}
		}
		c.Decide(rule, goc, what, reg, ok, "the cache has several mutexes and no one of them is held from the lookup of the recency list that missed to the registration in the in-flight table: a creation of the key can complete in between, this goroutine then registers and creates a second value for a resident key - its insert fails silently, the value is returned but never resident and never passed to the delete callback")
	}
}
