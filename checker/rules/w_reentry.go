package rules

// No re-entrant lock acquisition (rule K1 of the properties whose mechanism is one mutex).
//
// sync.Mutex is not re-entrant: a goroutine that takes a mutex it already holds blocks for good, and with it everybody
// who needs that mutex - the timer worker stops dispatching, the storage stops answering, the cache hangs. The rule is
// decided per mutex field (type-level identity; two instances of one type are not told apart, see DESIGN 7):
//
//	while a function holds mutex L (must-lockset, with the locks a private helper is entered with at every call site),
//	(a) it does not call a function of the package that may acquire L before releasing it, and
//	(b) it does not hand a value to code outside the package (a formatting, logging or encoding call, an interface
//	    method) whose String/Error/Format/GoString/Marshal* method may acquire L - fmt and the loggers call these.
//
// "May acquire first" is a summary computed to a fixed point over the package's static call graph: there is a path from
// the function's entry to Lock(L), or to a call of such a function, that passes no Unlock(L).

import (
	"go/types"
	"sort"
	"strings"

	"golang.org/x/tools/go/ssa"

	"verif/checker/ir"
)

// reentrySources: per property, the packages whose mutex discipline is held to K1.
var reentrySources = map[string][]string{
	"C12": {"timeout"}, "C13": {"timeout"},
	"C01": {"kvs/inmem"}, "C02": {"kvs/inmem"}, "C04": {"kvs/inmem"}, "C06": {"kvs/inmem"}, "C07": {"kvs/inmem"},
	"C05": {"timeout", "kvs/inmem"},
	"C08": {"container/lru"}, "C09": {"container/lru"}, "C11": {"container/lru"},
	"C17": {"container/bytes"},
}

const reentryExplanation = "K1: no re-entrant acquisition of the mechanism's mutex (sync.Mutex is not re-entrant; the goroutine and everybody who needs the mutex would block for good): while a function holds the mutex - by its own Lock or because every call site of a private helper holds it - it calls no function of the package that may lock it again before unlocking, and hands no value to fmt, a logger, an encoder or an interface method whose String/Error/Format/Marshal method may lock it."

type lockSets map[*types.Var]bool

func lockFieldOp(in ssa.Instruction) (f *types.Var, acquire, release bool) {
	_, acq, rel := ir.LockOp(in)
	if !acq && !rel {
		return nil, false, false
	}
	ci := in.(ssa.CallInstruction)
	recv := ir.Recv(ci)
	for i := 0; i < 4 && recv != nil; i++ {
		if fld := ir.FieldOf(recv); fld != nil {
			return fld, acq, rel
		}
		r := ir.Resolve(recv)
		if r == recv {
			break
		}
		recv = r
	}
	return nil, false, false
}

// heldBefore is the forward must-analysis keyed by mutex field.
func heldBefore(fn *ssa.Function, entry lockSets) map[ssa.Instruction]lockSets {
	res := map[ssa.Instruction]lockSets{}
	if len(fn.Blocks) == 0 {
		return res
	}
	cp := func(s lockSets) lockSets {
		n := lockSets{}
		for k := range s {
			n[k] = true
		}
		return n
	}
	in := make([]lockSets, len(fn.Blocks))
	out := make([]lockSets, len(fn.Blocks))
	in[0] = cp(entry)
	transfer := func(b *ssa.BasicBlock, s lockSets, record bool) lockSets {
		cur := cp(s)
		for _, x := range b.Instrs {
			if record {
				res[x] = cp(cur)
			}
			switch x.(type) {
			case *ssa.Defer, *ssa.Go:
				continue
			}
			if f, acq, rel := lockFieldOp(x); f != nil {
				if acq {
					cur[f] = true
				} else if rel {
					delete(cur, f)
				}
			}
		}
		return cur
	}
	for changed, iter := true, 0; changed && iter < 1000; iter++ {
		changed = false
		for _, b := range fn.Blocks {
			if b.Index != 0 {
				var m lockSets
				first := true
				for _, p := range b.Preds {
					if out[p.Index] == nil {
						continue
					}
					if first {
						m, first = cp(out[p.Index]), false
					} else {
						for k := range m {
							if !out[p.Index][k] {
								delete(m, k)
							}
						}
					}
				}
				if first {
					continue
				}
				in[b.Index] = m
			}
			if in[b.Index] == nil {
				continue
			}
			o := transfer(b, in[b.Index], false)
			same := out[b.Index] != nil && len(o) == len(out[b.Index])
			if same {
				for k := range o {
					if !out[b.Index][k] {
						same = false
					}
				}
			}
			if !same {
				out[b.Index] = o
				changed = true
			}
		}
	}
	for _, b := range fn.Blocks {
		if in[b.Index] != nil {
			transfer(b, in[b.Index], true)
		}
	}
	return res
}

var fmtInvoked = map[string]bool{"String": true, "Error": true, "Format": true, "GoString": true, "MarshalJSON": true, "MarshalText": true, "MarshalBinary": true, "LogValue": true}

// noReentrantLock is rule K1 over the functions fns (one package's worth).
func (c *Ctx) noReentrantLock(rule string, fns []*ssa.Function) {
	inSet := map[*ssa.Function]bool{}
	for _, f := range fns {
		inSet[f] = true
	}
	callee := func(ci ssa.CallInstruction) *ssa.Function {
		cal := ir.StaticCallee(ci)
		if cal == nil {
			return nil
		}
		if o := cal.Origin(); o != nil {
			cal = o
		}
		if !inSet[cal] {
			return nil
		}
		return cal
	}
	universe := lockSets{}
	for _, f := range fns {
		ir.Instrs(f, func(in ssa.Instruction) {
			if l, acq, _ := lockFieldOp(in); l != nil && acq {
				universe[l] = true
			}
		})
	}
	if len(universe) == 0 {
		c.Fatalf("%s: no mutex acquisition found in the analysed functions", rule)
	}
	// --- may acquire first
	mayFirst := map[*ssa.Function]lockSets{}
	for _, f := range fns {
		mayFirst[f] = lockSets{}
	}
	for changed, iter := true, 0; changed && iter < 32; iter++ {
		changed = false
		for _, f := range fns {
			for l := range universe {
				if mayFirst[f][l] {
					continue
				}
				l := l
				w, _ := ir.Query{Fn: f,
					Block: func(in ssa.Instruction) bool {
						if _, isDefer := in.(*ssa.Defer); isDefer {
							return false
						}
						fl, _, rel := lockFieldOp(in)
						return rel && fl == l
					},
					Target: func(in ssa.Instruction) bool {
						if _, isGo := in.(*ssa.Go); isGo {
							return false
						}
						if _, isDefer := in.(*ssa.Defer); isDefer {
							return false
						}
						if fl, acq, _ := lockFieldOp(in); acq && fl == l {
							return true
						}
						if ci, ok := in.(ssa.CallInstruction); ok {
							if cal := callee(ci); cal != nil && mayFirst[cal][l] {
								return true
							}
						}
						return false
					}}.Find()
				if w != nil {
					mayFirst[f][l] = true
					changed = true
				}
			}
		}
	}
	// --- locks held on entry (must): intersection over the plain static call sites of private, non-escaping functions
	inherits := map[*ssa.Function]bool{}
	for _, f := range fns {
		if f.Parent() == nil && f.Object() != nil && !f.Object().Exported() && f.Name() != "init" {
			inherits[f] = true
		}
	}
	for _, f := range fns {
		ir.Instrs(f, func(in ssa.Instruction) {
			var ops [16]*ssa.Value
			for i, op := range in.Operands(ops[:0]) {
				if op == nil || *op == nil {
					continue
				}
				fv, ok := (*op).(*ssa.Function)
				if !ok {
					continue
				}
				if o := fv.Origin(); o != nil {
					fv = o
				}
				if call, isCall := in.(*ssa.Call); isCall && i == 0 && call.Call.Value == *op {
					continue // the plain call position
				}
				delete(inherits, fv) // go, defer, stored, passed: entered with unknown locks -> none
			}
		})
	}
	entry := map[*ssa.Function]lockSets{}
	for f := range inherits {
		entry[f] = lockSets{}
		for l := range universe {
			entry[f][l] = true
		}
	}
	for changed, iter := true, 0; changed && iter < 32; iter++ {
		changed = false
		next := map[*ssa.Function]lockSets{}
		seen := map[*ssa.Function]bool{}
		for _, caller := range fns {
			hb := heldBefore(caller, entry[caller])
			ir.Instrs(caller, func(in ssa.Instruction) {
				call, ok := in.(*ssa.Call)
				if !ok {
					return
				}
				cal := callee(call)
				if cal == nil || !inherits[cal] {
					return
				}
				if !seen[cal] {
					seen[cal] = true
					next[cal] = lockSets{}
					for k := range hb[in] {
						next[cal][k] = true
					}
					return
				}
				for k := range next[cal] {
					if !hb[in][k] {
						delete(next[cal], k)
					}
				}
			})
		}
		for f := range inherits {
			n := next[f]
			if n == nil {
				n = lockSets{} // never called: entered with nothing
			}
			if len(n) != len(entry[f]) {
				changed = true
			} else {
				for k := range n {
					if !entry[f][k] {
						changed = true
					}
				}
			}
			entry[f] = n
		}
	}
	// --- the rule
	lockName := func(l *types.Var) string { return l.Name() }
	sites := 0
	for _, f := range fns {
		hb := heldBefore(f, entry[f])
		f := f
		ir.Instrs(f, func(in ssa.Instruction) {
			ci, ok := in.(ssa.CallInstruction)
			if !ok || len(hb[in]) == 0 {
				return
			}
			if _, isGo := in.(*ssa.Go); isGo {
				return
			}
			if _, isDefer := in.(*ssa.Defer); isDefer {
				return // runs at the exit; the deferred Unlock idiom is what releases the lock
			}
			if l, _, _ := lockFieldOp(in); l != nil {
				return
			}
			var held []*types.Var
			for l := range hb[in] {
				held = append(held, l)
			}
			sort.Slice(held, func(i, j int) bool { return held[i].Name() < held[j].Name() })
			sites++
			bad := ""
			if cal := callee(ci); cal != nil {
				for _, l := range held {
					if mayFirst[cal][l] {
						bad = "it calls " + ir.FnName(cal) + ", which may lock " + lockName(l) + " before releasing it, while " + lockName(l) + " is held"
					}
				}
			} else if formatsItsOperands(ci) {
				// a call that leaves the package (or an interface method) and formats or encodes what it is given: the methods
				// fmt / loggers / encoders invoke on the values handed over
				for _, v := range interfaceOperands(ci) {
					for _, m := range c.methodsNamed(v.Type(), fmtInvoked) {
						if !inSet[m] {
							continue
						}
						for _, l := range held {
							if mayFirst[m][l] {
								bad = "it hands a " + types.TypeString(v.Type(), func(p *types.Package) string { return p.Name() }) + " to " + calleeLabel(ci) + " while " + lockName(l) + " is held, and " + ir.FnName(m) + " (called by fmt/loggers/encoders on such a value) locks " + lockName(l)
							}
						}
					}
				}
			}
			c.Decide(rule, f, "call under the lock: "+calleeLabel(ci)+" does not take the lock again", in, bad == "",
				"re-entrant acquisition of a sync.Mutex blocks for good: "+bad)
		})
	}
	_ = sites
}

func calleeLabel(ci ssa.CallInstruction) string {
	n := ir.CalleeFullName(ci)
	if n == "" {
		if ci.Common().IsInvoke() {
			return "(interface)." + ci.Common().Method.Name()
		}
		return "a function value"
	}
	if i := strings.LastIndex(n, "/"); i >= 0 {
		n = n[i+1:]
	}
	return n
}

// interfaceOperands lists the concrete values a call hands over as interfaces: arguments converted with MakeInterface,
// directly or as the elements of the variadic slice the compiler builds.
func interfaceOperands(ci ssa.CallInstruction) []ssa.Value {
	var res []ssa.Value
	seen := map[ssa.Value]bool{}
	var walk func(v ssa.Value, depth int)
	walk = func(v ssa.Value, depth int) {
		if v == nil || depth > 6 || seen[v] {
			return
		}
		seen[v] = true
		switch x := v.(type) {
		case *ssa.MakeInterface:
			res = append(res, x.X)
		case *ssa.Slice:
			walk(x.X, depth+1)
		case *ssa.Alloc:
			if x.Referrers() == nil {
				return
			}
			for _, r := range *x.Referrers() {
				switch y := r.(type) {
				case *ssa.IndexAddr:
					if y.Referrers() != nil {
						for _, rr := range *y.Referrers() {
							if st, ok := rr.(*ssa.Store); ok && st.Addr == ssa.Value(y) {
								walk(st.Val, depth+1)
							}
						}
					}
				case *ssa.Store:
					if y.Addr == ssa.Value(x) {
						walk(y.Val, depth+1)
					}
				}
			}
		case *ssa.Phi:
			for _, e := range x.Edges {
				walk(e, depth+1)
			}
		case *ssa.ChangeInterface:
			walk(x.X, depth+1)
		}
	}
	for _, a := range ci.Common().Args {
		walk(a, 0)
	}
	if ci.Common().IsInvoke() {
		walk(ci.Common().Value, 0)
	}
	return res
}

// methodsNamed returns the source functions of the methods of t (and *t) whose names are in names.
func (c *Ctx) methodsNamed(t types.Type, names map[string]bool) []*ssa.Function {
	var res []*ssa.Function
	seen := map[*ssa.Function]bool{}
	for _, tt := range []types.Type{t, types.NewPointer(t)} {
		if _, isPtr := t.(*types.Pointer); isPtr && tt != t {
			continue
		}
		ms := types.NewMethodSet(tt)
		for i := 0; i < ms.Len(); i++ {
			obj, ok := ms.At(i).Obj().(*types.Func)
			if !ok || !names[obj.Name()] {
				continue
			}
			if o := obj.Origin(); o != nil {
				obj = o
			}
			if fn := c.P.SSA.FuncValue(obj); fn != nil && len(fn.Blocks) > 0 && !seen[fn] {
				seen[fn] = true
				res = append(res, fn)
			}
		}
	}
	return res
}

// formatsItsOperands: the call is of the printf/print/log/encode kind - its signature ends in a variadic ...any (fmt,
// loggers, testify-style helpers), or it is a function of fmt, log, log/slog or an encoding package.
func formatsItsOperands(ci ssa.CallInstruction) bool {
	sig := ci.Common().Signature()
	if sig != nil && sig.Variadic() && sig.Params().Len() > 0 {
		if sl, ok := sig.Params().At(sig.Params().Len() - 1).Type().(*types.Slice); ok {
			if it, isI := sl.Elem().Underlying().(*types.Interface); isI && it.Empty() {
				return true
			}
		}
	}
	if obj := ir.CalleeObj(ci); obj != nil && obj.Pkg() != nil {
		switch p := obj.Pkg().Path(); {
		case p == "fmt", p == "log", p == "log/slog", strings.HasPrefix(p, "encoding/"):
			return true
		}
	}
	return false
}
