package rules

import (
	"go/constant"
	"go/token"
	"go/types"
	"strings"

	"golang.org/x/tools/go/ssa"

	"verif/checker/ir"
)

// redisKeyInjective is C03.R9: the caller's key reaches the redis key only through prefixing (concatenation, or
// Sprintf with a constant format made of literal text and %s/%v/%q verbs). Slicing, trimming, case folding,
// replacing, cleaning - or a merge of two differently transformed alternatives - maps distinct storage keys onto one
// redis key; the in-memory backend keeps them apart, so Get/Delete/Create/ListKeys answer differently on the two
// backends for such keys. Each lossy operation on the way from the parameter to the result is one obligation, named
// by the operation, so that a listed finding does not hide a different one.
func (c *Ctx) redisKeyInjective(r *redisRoles, rule string) {
	fn := r.mapKey
	if len(fn.Params) != 1 {
		c.Fatalf("redis key mapping: unexpected signature")
	}
	// forward flow from the parameter
	type node struct {
		v     ssa.Value
		lossy string // non-empty: this value is the result of a lossy operation
	}
	flow := map[ssa.Value]string{fn.Params[0]: ""}
	lossyAt := map[ssa.Value]ssa.Instruction{}
	feeds := map[ssa.Value][]ssa.Value{} // value -> values it was derived from
	work := []ssa.Value{fn.Params[0]}
	add := func(v ssa.Value, from ssa.Value, lossy string, at ssa.Instruction) {
		feeds[v] = append(feeds[v], from)
		if _, ok := flow[v]; ok {
			return
		}
		flow[v] = lossy
		if lossy != "" {
			lossyAt[v] = at
		}
		work = append(work, v)
	}
	isStringish := func(t types.Type) bool {
		switch u := t.Underlying().(type) {
		case *types.Basic:
			return u.Info()&types.IsString != 0
		case *types.Slice:
			return isByteSlice(t)
		case *types.Interface:
			return true
		}
		return false
	}
	for len(work) > 0 {
		v := work[len(work)-1]
		work = work[:len(work)-1]
		refs := v.Referrers()
		if refs == nil {
			continue
		}
		for _, in := range *refs {
			switch x := in.(type) {
			case *ssa.Phi:
				add(x, v, "", nil)
			case *ssa.BinOp:
				if x.Op == token.ADD {
					add(x, v, "", nil)
				}
			case *ssa.ChangeType:
				add(x, v, "", nil)
			case *ssa.Convert:
				add(x, v, "", nil)
			case *ssa.MakeInterface:
				add(x, v, "", nil)
			case *ssa.Store:
				if x.Val == v {
					switch a := x.Addr.(type) {
					case *ssa.IndexAddr:
						add(a.X, v, "", nil)
					case *ssa.Alloc:
						add(a, v, "", nil)
					}
				}
			case *ssa.UnOp:
				if x.Op == token.MUL {
					add(x, v, "", nil)
				}
			case *ssa.Slice:
				if _, isArr := x.X.Type().Underlying().(*types.Pointer); isArr {
					add(x, v, "", nil) // the variadic argument array
				} else if x.X == v {
					if x.Low != nil && x.High == nil {
						add(x, v, "strips-leading-characters", x)
					} else {
						add(x, v, "slice"+sliceText(x), x)
					}
				}
			case *ssa.Call:
				name := ir.CalleeFullName(x)
				if b := builtinCall(x, "len"); b != nil {
					continue
				}
				if !isStringish(x.Type()) {
					if tup, ok := x.Type().(*types.Tuple); !ok || tup.Len() == 0 {
						continue
					}
				}
				switch name {
				case "fmt.Sprintf":
					okFmt := false
					if cv := ir.ConstVal(x.Call.Args[0]); cv != nil && cv.Kind() == constant.String && x.Call.Args[0] != v {
						okFmt = injectiveFormat(constant.StringVal(cv))
					}
					if okFmt {
						add(x, v, "", nil)
					} else {
						add(x, v, "call fmt.Sprintf with a non-constant or truncating format", x)
					}
				case "fmt.Sprint", "strings.Join", "strings.Clone":
					add(x, v, "", nil)
				case "strings.TrimLeft", "strings.TrimPrefix":
					// the same loss as a loop slicing leading characters off
					add(x, v, "strips-leading-characters", x)
				default:
					if name == "" {
						name = "a function value"
					}
					add(x, v, "call "+name, x)
				}
			case *ssa.Extract:
				add(x, v, "", nil)
			}
		}
	}
	// which flowing values reach the result
	reaches := map[ssa.Value]bool{}
	var back func(v ssa.Value)
	back = func(v ssa.Value) {
		if reaches[v] {
			return
		}
		reaches[v] = true
		for _, f := range feeds[v] {
			back(f)
		}
	}
	for _, ret := range ir.Returns(fn) {
		for _, res := range ret.Results {
			if _, ok := flow[res]; ok {
				back(res)
			}
		}
	}
	c.Decide(rule, fn, "the redis key is derived from the storage key", nil, reaches[fn.Params[0]],
		"the result of the key mapping does not depend on the key")
	// derivedFromLossy: v has a lossy operation among its ancestors
	var fromLossy func(v ssa.Value, seen map[ssa.Value]bool) bool
	fromLossy = func(v ssa.Value, seen map[ssa.Value]bool) bool {
		if seen[v] {
			return false
		}
		seen[v] = true
		if flow[v] != "" {
			return true
		}
		for _, f := range feeds[v] {
			if fromLossy(f, seen) {
				return true
			}
		}
		return false
	}
	n := 0
	for v, lossy := range flow {
		if lossy != "" && reaches[v] {
			n++
			c.Decide(rule, fn, "lossy-step:"+strings.ReplaceAll(lossy, " ", "-"), lossyAt[v], false,
				"the storage key reaches the redis key through "+lossy+": distinct keys are mapped onto the same redis key (Get/Delete/Create find records written under another key, ListKeys reports keys that were never written); the in-memory backend keeps such keys apart")
		}
		if phi, ok := v.(*ssa.Phi); ok && reaches[v] {
			// a merge of differently transformed alternatives, none of which is already reported as lossy
			distinct := map[ssa.Value]bool{}
			clean := true
			for _, e := range phi.Edges {
				if _, fl := flow[e]; fl {
					distinct[e] = true
					if fromLossy(e, map[ssa.Value]bool{}) {
						clean = false
					}
				}
			}
			if len(distinct) >= 2 && clean {
				n++
				c.Decide(rule, fn, "lossy-step:merge-of-alternatives", phi, false,
					"the redis key is chosen among differently built alternatives of the storage key: two keys can be mapped onto the same redis key")
			}
		}
	}
	if n == 0 {
		c.Decide(rule, fn, "key reaches the redis key only through prefixing", nil, true, "")
	}
}

// injectiveFormat: literal text and %s / %v / %q verbs only (no width, precision or truncation).
func injectiveFormat(f string) bool {
	for i := 0; i < len(f); i++ {
		if f[i] != '%' {
			continue
		}
		if i+1 >= len(f) {
			return false
		}
		switch f[i+1] {
		case 's', 'v', 'q', '%':
			i++
		default:
			return false
		}
	}
	return strings.Contains(f, "%")
}

func sliceText(s *ssa.Slice) string {
	part := func(v ssa.Value) string {
		if v == nil {
			return ""
		}
		if k, ok := ir.ConstInt(v); ok {
			return strings.TrimSpace(constant.MakeInt64(k).String())
		}
		return "n"
	}
	return "[" + part(s.Low) + ":" + part(s.High) + "]"
}

// redisKeysMapped is C03.R10: every key argument of a redis command is the mapped key (the result of the key
// mapping or of a repository helper that applies it to every element).
func (c *Ctx) redisKeysMapped(r *redisRoles, rule string) {
	// helpers that apply the mapping
	mapping := map[*ssa.Function]bool{r.mapKey: true}
	for _, fn := range r.all {
		if fn != r.mapKey && fn.Signature.Recv() == nil && len(callsTo(fn, r.mapKey)) > 0 {
			if _, isStorage := r.storage[fn.Name()]; !isStorage {
				mapping[fn] = true
			}
		}
	}
	keyArg := map[string]int{"Get": 0, "Set": 0, "SetNX": 0, "SetXX": 0, "Del": 0, "MGet": 0, "Scan": 1, "GetSet": 0, "Expire": 0, "TTL": 0, "PTTL": 0, "Exists": 0, "Watch": 1, "GetEx": 0, "SetEX": 0, "Unlink": 0}
	var mapped func(v ssa.Value, depth int) bool
	mapped = func(v ssa.Value, depth int) bool {
		if depth > 6 || v == nil {
			return false
		}
		// a list assembled in place: an empty make, extended only by appends of mapped keys
		if _, isSlice := v.Type().Underlying().(*types.Slice); isSlice {
			if os := ir.Origins(v); len(os) > 0 {
				all, appended := true, false
				for _, o := range os {
					switch x := o.(type) {
					case *ssa.MakeSlice:
						if k, isC := ir.ConstInt(x.Len); !isC || k != 0 {
							all = false
						}
					case *ssa.Call:
						cc := builtinCall(x, "append")
						if cc == nil || len(cc.Args) != 2 {
							all = false
							break
						}
						// the base is one of the same origins (the loop variable) - only the elements matter
						for _, bo := range ir.Origins(cc.Args[0]) {
							found := false
							for _, o2 := range os {
								if bo == o2 {
									found = true
								}
							}
							if !found {
								all = false
							}
						}
						els := variadicArgs(cc.Args[1])
						if len(els) == 0 {
							all = false
						}
						for _, el := range els {
							if el == nil || !mapped(el, depth+1) {
								all = false
							}
						}
						appended = true
					default:
						all = false
					}
				}
				if all && appended {
					return true
				}
			}
		}
		for _, o := range ir.Origins(v) {
			switch x := o.(type) {
			case *ssa.Call:
				if cal := ir.StaticCallee(x); cal != nil && mapping[cal] {
					return true
				}
			case *ssa.Slice:
				args := variadicArgs(x)
				if len(args) > 0 {
					all := true
					for _, a := range args {
						if a == nil || !mapped(a, depth+1) {
							all = false
						}
					}
					if all {
						return true
					}
				}
			case *ssa.MakeInterface:
				if mapped(x.X, depth+1) {
					return true
				}
			case *ssa.FreeVar:
				if b := ir.BindingOf(x); b != nil && mapped(b, depth+1) {
					return true
				}
			case *ssa.Alloc:
				sts := ir.StoresTo(x)
				okAll := len(sts) > 0
				for _, st := range sts {
					if !mapped(st.Val, depth+1) {
						okAll = false
					}
				}
				if okAll {
					return true
				}
			case *ssa.UnOp:
				if x.Op == token.MUL && mapped(x.X, depth+1) {
					return true
				}
			}
		}
		return false
	}
	for _, name := range storageMethodNames() {
		for _, fn := range withClosures(r.storage[name]) {
			ir.Instrs(fn, func(in ssa.Instruction) {
				for cmd, idx := range keyArg {
					call := redisCmd(in, cmd)
					if call == nil {
						continue
					}
					args := cmdArgs(call)
					if cmd == "Watch" {
						// Watch(ctx, fn, keys...)
						args = ir.MethodArgs(call)
						idx = 2
					}
					if idx >= len(args) {
						continue
					}
					c.Decide(rule, fn, cmd+" addresses the mapped key", call, mapped(args[idx], 0),
						"the key (or pattern) argument of "+cmd+" is not the result of the key mapping: the command addresses a key outside the storage's name space, other methods do not find the record")
				}
			})
		}
	}
}

// redisNonEmptyBatches is C03.R11: a redis command that takes a caller-sized list of keys or values (MGET, MSET, DEL
// with a slice) is only issued when the list is non-empty - the server rejects the empty form ("wrong number of
// arguments"), whereas the contract (and the in-memory backend) answer an empty batch with an empty result.
func (c *Ctx) redisNonEmptyBatches(r *redisRoles, rule string) {
	// length-equivalent origins: s = f(x) where f returns make(T, len(param))
	lenEquiv := func(s ssa.Value) []ssa.Value {
		res := []ssa.Value{s}
		if call, ok := ir.Resolve(s).(*ssa.Call); ok {
			if cal := ir.StaticCallee(call); cal != nil && len(cal.Blocks) > 0 {
				for i, p := range cal.Params {
					all := true
					rets := ir.Returns(cal)
					for _, ret := range rets {
						mk, isMk := ir.Resolve(ret.Results[0]).(*ssa.MakeSlice)
						if !isMk || !isLenOf(mk.Len, p) {
							all = false
						}
					}
					if all && len(rets) > 0 && i < len(call.Call.Args) {
						res = append(res, call.Call.Args[i])
					}
				}
			}
		}
		return res
	}
	guarded := func(b *ssa.BasicBlock, s ssa.Value) bool {
		for _, e := range lenEquiv(s) {
			if lenLowerBound(b, e) >= 1 || lenLowerBound(b, ir.Resolve(e)) >= 1 {
				return true
			}
		}
		// the batch the caller passed in (a slice parameter of the method) is known to be non-empty: a list assembled
		// from it element by element is non-empty as well
		root := b.Parent()
		for root.Parent() != nil {
			root = root.Parent()
		}
		for _, p := range root.Params {
			if _, isSlice := p.Type().Underlying().(*types.Slice); isSlice && !isByteSlice(p.Type()) {
				if lenLowerBound(b, p) >= 1 || accumNonEmptyYB(b, p) {
					return true
				}
			}
		}
		return false
	}
	isSlice := func(v ssa.Value) bool {
		_, ok := v.Type().Underlying().(*types.Slice)
		return ok && !isByteSlice(v.Type())
	}
	for _, name := range storageMethodNames() {
		for _, fn := range withClosures(r.storage[name]) {
			for _, ci := range ir.Calls(fn) {
				call, ok := ci.(*ssa.Call)
				if !ok {
					continue
				}
				var sig *types.Signature
				var cmdName string
				if call.Call.IsInvoke() {
					if call.Call.Method.Pkg() == nil || call.Call.Method.Pkg().Path() != redisPkg {
						continue
					}
					sig, _ = call.Call.Method.Type().(*types.Signature)
					cmdName = call.Call.Method.Name()
				} else {
					full := ir.CalleeFullName(call)
					if !strings.HasPrefix(full, "("+redisPkg+".") && !strings.HasPrefix(full, "(*"+redisPkg+".") {
						continue
					}
					if cal := ir.StaticCallee(call); cal != nil {
						sig = cal.Signature
						cmdName = cal.Name()
					}
				}
				if sig == nil || !sig.Variadic() || len(call.Call.Args) == 0 {
					continue
				}
				if cmdName == "Watch" || cmdName == "Scan" {
					continue
				}
				va := call.Call.Args[len(call.Call.Args)-1]
				var lists []ssa.Value
				if fixed := variadicArgs(va); fixed != nil {
					// a literal argument list: an element that is itself a slice is flattened by the client
					for _, e := range fixed {
						if e == nil {
							continue
						}
						if mi, ok := e.(*ssa.MakeInterface); ok {
							e = mi.X
						}
						if isSlice(e) {
							lists = append(lists, e)
						}
					}
				} else if isSlice(va) {
					lists = append(lists, va)
				}
				for _, l := range lists {
					c.Decide(rule, fn, cmdName+" is issued with a non-empty list", call, guarded(call.Block(), l),
						cmdName+" is issued with a caller-sized list that may be empty: the server rejects it (wrong number of arguments) where the contract - and the in-memory backend - return an empty result")
				}
			}
		}
	}
}
