package rules

// C16.R3, the two-step guard of a wire length.
//
// A length prefix u is an unsigned number of the width of the machine word; before it is added to an offset or used as a
// slice bound it must be known to lie in [0, remaining input]. The original code compares it as an unsigned number with
// the (converted) remaining length. An equivalent spelling does it in two steps:
//
//	if u > math.MaxInt || int(u) > rem { fail }
//
// The first test bounds the unsigned value by a constant K that the signed type can hold (K <= 2^(bits-1)-1): the
// conversion int(u) then keeps the value, so int(u) >= 0. The second test is a signed comparison of int(u) with a
// non-negative quantity derived from len(buf). Together they give 0 <= int(u) <= rem, which is what R3 asks for. The
// two halves are separate facts in R3's "bounded": the first one supplies the sign, the second one the upper bound.
// go/ssa evaluates `int(u)` once per occurrence in the source, so the value that is compared and the value that is used
// are different SSA values: two single-step conversions of the same value to the same type are the same number.
// Without the first half (`int(u) > rem` alone) a prefix above MaxInt converts to a negative number, passes the signed
// test and is reported as before.

import (
	"go/constant"
	"go/token"
	"go/types"

	"golang.org/x/tools/go/ssa"

	"verif/checker/ir"
)

// sameConversionV: a and b are conversions of one and the same value to the same type.
func sameConversionV(a, b ssa.Value) bool {
	ca, ok1 := a.(*ssa.Convert)
	cb, ok2 := b.(*ssa.Convert)
	return ok1 && ok2 && ca != cb && ca.X == cb.X && types.Identical(ca.Type(), cb.Type())
}

// fitsSignedV: y is a constant K with 0 <= K <= max of the signed integer type of v, and v is a single conversion of the
// unsigned value u to that type (u <= K then implies v == u >= 0).
func (c *Ctx) fitsSignedV(y ssa.Value, v, u ssa.Value) bool {
	cv, ok := v.(*ssa.Convert)
	if !ok || cv.X != u {
		return false
	}
	tb, ok := v.Type().Underlying().(*types.Basic)
	if !ok || tb.Info()&types.IsInteger == 0 || tb.Info()&types.IsUnsigned != 0 {
		return false
	}
	kv := ir.ConstVal(y)
	if kv == nil || kv.Kind() != constant.Int {
		return false
	}
	bits := int64(64)
	if len(c.P.Pkgs) > 0 && c.P.Pkgs[0].TypesSizes != nil {
		bits = c.P.Pkgs[0].TypesSizes.Sizeof(v.Type()) * 8
	}
	max := constant.BinaryOp(constant.Shift(constant.MakeInt64(1), token.SHL, uint(bits-1)), token.SUB, constant.MakeInt64(1))
	return constant.Sign(kv) >= 0 && constant.Compare(kv, token.LEQ, max)
}
