package rules

import (
	"fmt"
	"go/constant"
	"go/token"
	"go/types"
	"strings"

	"golang.org/x/tools/go/ssa"

	"verif/checker/ai"
	"verif/checker/ir"
)

func init() {
	register(&Check{
		ID: "C12", Title: "Timers: never early, at most once, cancel is effective and precise",
		Pkgs:      []string{"timeout"},
		Run:       runC12,
		Technique: "static analysis: abstract interpretation of the heap.Interface methods (symbolic slots and index fields), guard dominance, origin analysis of the invoked callback, must-lockset dataflow and who-may-write census on go/ssa of timeout/timeout.go",
		Explanation: "R1: after Swap(i,j) the element in slot i has index i and the one in slot j has index j; Push gives the pushed element the length before the append (also when written as the length after it minus one: length arithmetic over the one append); Pop marks the returned element with a negative index (abstract interpretation with symbolic slots; the queue is the heap object itself or a slice field of it; the methods may have pointer or value receivers). " +
			"R2: Cancel (the function that calls heap.Remove: the future's method or the one it forwards to) removes by index only on the 'still queued' edge (idx>=0, or idx != m when m is the one negative constant every store outside Swap/Push writes into the index), known directly, through a flag or through the outcome of a read-only predicate of the package (idx>=0 at every exit of it that can give that outcome), under the lock; the removed index is that field of the tested future, read at the call or handed over together with the flag (idx, ok: every alternative possible under the flag). " +
			"R3: every heap.Pop in the worker or a helper it calls is dominated by the true edge of now.After(t) / t.Before(now) with t the fire time of element 0 of the heap (every alternative possible under the guards) and now=time.Now() (in a helper: at every call of it), all in one critical section. " +
			"R4: the callback field is invoked only in the worker, and every origin of the invoked value is nil or the callback of the future just returned by heap.Pop - directly or by a helper all of whose results are nil or such a future (a value carried over an iteration is provably nil). " +
			"R5: Call stores time.Now().Add(d) into the fire-time field before queueing (when Call is a pure delegation `return g(f, ...)` the function that builds the future is g: the roles and R5-R8 are decided there, and the stored fire time is the parameter of g that Call hands time.Now().Add(d) to). " +
			"R6: the heap, the worker count and the futures' index/callback fields are touched only with the package lock held (heap.Interface methods inherit the lock of their heap.* call sites; a private function is entered with the locks held at all of its call sites, a fixed point over the package; objects under construction - the future in Call, the control block in its constructor - and package init are exempt). " +
			"R7: the queue's slice and its elements are written only by the heap.Interface methods (all removals go through Pop, which resets the index), and the Push/Pop/Swap/Less methods of the queue are used only by container/heap - no static call, method value or heap.Interface invocation in package code (a direct queue.Pop() drops the last slot, an unrelated future); the holder of the queue (the control block's heap field, the control block, the package variable) is stored to, outside init and construction, only when the queue is known to be empty or behind a loop over the whole queue that gives every element a negative index (futures dropped with their old positions make a later Cancel remove another call); and Call hands out a freshly allocated future (a recycled object would make a late Cancel hit another caller's future). " +
			"R8: a future with a callback is in the heap when Call returns: on every path of Call on which the callback is not nil, and on every path of each function the future is handed to on the way, heap.Push of that very future is executed in the caller's own activation (plain or deferred calls, not a goroutine or a side list) - Cancel reads a negative index as 'fired or cancelled' and returns, so an insertion that happens after Call has returned cannot be cancelled; the requirement falls away when Cancel withdraws the callback on every path. When the package starts other goroutines besides the worker, the worker is the started function that pops the heap.",
		NotDecided: "actual start times and wall-clock behaviour; fairness between workers.",
		Trusted:    []string{"container/heap calls only Len/Less/Swap/Push/Pop of the interface"},
	})
	register(&Check{
		ID: "C13", Title: "Timers: every live future fires; the pool adapts and winds down",
		Pkgs:      []string{"timeout"},
		Run:       runC13,
		Technique: "static analysis: must-pass-through path queries, must-lockset dataflow and shape rules on go/ssa of timeout/timeout.go",
		Explanation: "R1: after heap.Push in add (or wherever else a future is pushed), every path to the exit starts a worker or pokes the wake channel; starting another goroutine that pops the heap (a one-shot runner) counts only under the fact that the pushed future is due, so the path on which the runner's start condition fails still has to wake a worker. With several popping goroutines the worker is the one that listens to the wake channel, the worker count the field incremented before its start. " +
			"R2: every `go worker()` is preceded in the same critical section by workers++; every return of the worker is preceded by workers-- under the lock, and a worker that deregistered does not continue (paths that contradict a step value or a flag they set themselves are not counted). " +
			"R3: callbacks are invoked with the lock released. " +
			"R4: the wake-up send is a select with default (never blocks) on a channel created with capacity >= 1 (a token is not lost while the worker is between unlock and select). " +
			"R5: Less(i,j) is elem[i].fireTime.Before(elem[j].fireTime) (or elem[j].fireTime.After(elem[i].fireTime)). " +
			"R7: the worker that consumed a wake-up token cannot retire before it has slept (with a recomputed timeout) or popped again - decided with path-sensitive constant propagation of the idle-round counter. " +
			"R6: the worker re-reads the heap under the lock after every wake-up or timer expiry (no path from the select back to the select without Lock), and sleeps/blocks only with the lock released. R8: a re-used timer is drained when Stop reports it fired. In R6-R8 the select/timer code may stand in a function literal of the worker that runs only as a plain call of the worker (never stored, passed, deferred or started with go): its select is decided where it stands, entered with what holds at every call; a call of a literal that cannot return without having slept counts as sleeping; what the literal returns on its woken paths is carried to the code behind the call. R9: a worker deregisters only when the heap is empty or another worker remains (the guard known directly, or through a flag computed under it on every way the flag can be set). R10: the worker (its body, the functions it reaches through plain calls, function literals run as plain calls) waits only with a time bound: a blocking select has a case receiving from a timer, a receive outside a select is a receive from a timer - a bare receive from another channel (the wake channel under a 'a token is there' test) blocks for good once another worker took the token, and the blocked worker is still counted, so the others retire around it and a pending future is not started. Q1-Q7: the heap index / cancel rules of C12 (a future removed by mistake never fires). R12: the cancel routine returns without heap.Remove only over an edge that tells the future is not queued: idx<0, or - relying on the index invariant Q1 decides - idx>=len(queue) or queue[idx] is another future; known directly, through a flag, or as the outcome of a read-only predicate all of whose exits with that outcome are under one of these tests.",
		NotDecided: "lateness bounds, wind-down time, behaviour under stale wake-up tokens.",
	})
}

type timerRoles struct {
	ctrl                          *types.Named
	mutex, heapF, workers, wake   *types.Var
	futuresT, futureT             *types.Named
	fF, fTime, fIdx               *types.Var
	callFn, add, cancel, worker   *ssa.Function
	notify, cancelM               *ssa.Function
	swap, push, pop, less, lenM   *ssa.Function
	ctrlMethods, heapMethods, all []*ssa.Function
	entries                       map[bool]map[*ssa.Function]map[string]bool
	locksets                      map[*ssa.Function]*ir.Lockset
	deleg                         []tmDelegation // Call -> the function that builds the future (v_timer_u3.go)
}

func resolveTimerRoles(c *Ctx) *timerRoles {
	r := &timerRoles{}
	r.callFn = c.RequireFn(c.P.Func("timeout", "Call"), "timeout.Call")
	r.tmFollowDelegation(c) // Call may be a pure delegation to the function that builds the future (v_timer_u3.go)
	r.all = c.P.FuncsOf("timeout")
	heapIface := c.P.LookupTypeAny("container/heap", "Interface")
	if heapIface == nil {
		// not established, for a reason: the rules trust container/heap for the heap order (the earliest future is at
		// slot 0 after every operation, given Less) and for "Remove(i)/Pop take out exactly slot i/slot 0"; for a
		// hand-written heap both would have to be proved of its own sift loops, which these rules do not do
		c.Fatalf("role container/heap.Interface not found (the timer package does not use container/heap: the order and removal discipline of a hand-written heap is not verified by these rules)")
	}
	hi := heapIface.Underlying().(*types.Interface)
	for _, nt := range c.P.NamedTypes("timeout") {
		st := structOf(nt)
		if st == nil {
			continue
		}
		var mu, hp *types.Var
		for i := 0; i < st.NumFields(); i++ {
			f := st.Field(i)
			if ir.IsNamed(f.Type(), "sync", "Mutex") {
				mu = f
			}
			// the heap is kept either behind a pointer (heap.Push(cc.h, x)) or by value (heap.Push(&cc.h, x))
			if types.Implements(f.Type(), hi) || types.Implements(types.NewPointer(f.Type()), hi) {
				hp = f
			}
		}
		if mu != nil && hp != nil {
			if r.ctrl != nil {
				c.Fatalf("role timer control block is ambiguous")
			}
			r.ctrl, r.mutex, r.heapF = nt, mu, hp
		}
	}
	if r.ctrl == nil {
		c.Fatalf("role timer control block (struct with sync.Mutex and a heap.Interface field) not found")
	}
	c.Role("timer.control", r.ctrl.Obj().Name(), r.ctrl.Obj().Pos())
	c.Role("timer.mutex", r.mutex.Name(), r.mutex.Pos())
	c.Role("timer.heap", r.heapF.Name(), r.heapF.Pos())
	r.futuresT = namedOf(r.heapF.Type())
	r.wake = c.oneField("timer.wake", r.ctrl, func(f *types.Var) bool { _, ok := f.Type().Underlying().(*types.Chan); return ok })
	// future type: what Call returns
	for _, ret := range ir.Returns(r.callFn) {
		if mi, ok := ir.ResultValue(ret, 0).(*ssa.MakeInterface); ok {
			r.futureT = namedOf(mi.X.Type())
		}
	}
	if r.futureT == nil {
		c.Fatalf("role future type: Call does not return a concrete named type")
	}
	c.Role("timer.future", r.futureT.Obj().Name(), r.futureT.Obj().Pos())
	r.fF = c.oneField("future.callback", r.futureT, func(f *types.Var) bool { _, ok := f.Type().Underlying().(*types.Signature); return ok })
	if fs := fieldsWhere(r.futureT, func(f *types.Var) bool { return ir.IsNamed(f.Type(), "time", "Time") }); len(fs) == 1 {
		r.fTime = fs[0]
		c.Role("future.fireTime", r.fTime.Name(), r.fTime.Pos())
	} else if len(fs) > 1 {
		c.Fatalf("role future.fireTime is ambiguous")
	}
	r.fIdx = c.oneField("future.index", r.futureT, func(f *types.Var) bool { return types.Identical(f.Type(), types.Typ[types.Int]) })
	r.ctrlMethods = c.P.MethodsOf(r.ctrl)
	r.heapMethods = c.P.MethodsOf(r.futuresT)
	hm := func(name string) *ssa.Function {
		return c.RequireFn(c.P.MethodOf(r.futuresT, name), "heap."+name)
	}
	r.swap, r.push, r.pop, r.less, r.lenM = hm("Swap"), hm("Push"), hm("Pop"), hm("Less"), hm("Len")
	// worker = callee of the go statements; when the package starts other goroutines as well, the one that pops the heap
	var started []*ssa.Function
	for _, fn := range r.all {
		ir.Instrs(fn, func(in ssa.Instruction) {
			if g, ok := in.(*ssa.Go); ok {
				if cal := ir.StaticCallee(g); cal != nil {
					started = appendUniqFn(started, cal)
				}
			}
		})
	}
	if len(started) > 0 {
		if r.worker = r.tmPickWorker(started); r.worker == nil {
			c.Fatalf("role worker: several functions are started with go")
		}
	}
	c.RequireFn(r.worker, "timer.worker")
	c.Role("timer.worker", relName(r.worker), r.worker.Pos())
	// workers count = the int field incremented next to a go statement
	var cands []*types.Var
	for _, fn := range r.all {
		hasGo := false
		ir.Instrs(fn, func(in ssa.Instruction) {
			if _, ok := in.(*ssa.Go); ok {
				hasGo = true
			}
		})
		if !hasGo {
			continue
		}
		for _, f := range fieldsWhere(r.ctrl, func(f *types.Var) bool { return types.Identical(f.Type(), types.Typ[types.Int]) }) {
			ir.Instrs(fn, func(in ssa.Instruction) {
				if _, ok := isFieldDelta(in, f, 1); ok {
					cands = appendUniq(cands, f)
				}
			})
		}
	}
	if len(cands) > 1 {
		cands = r.tmWorkerCountOf(cands) // the one incremented in front of the start of the pool worker (v_timer_g.go)
	}
	if len(cands) != 1 {
		c.Fatalf("role timer.workers: expected one int field incremented where workers are started, found %d", len(cands))
	}
	r.workers = cands[0]
	c.Role("timer.workers", r.workers.Name(), r.workers.Pos())
	// add = control method called from Call; cancel = control method called by the future's Cancel
	isCtrlMethod := func(fn *ssa.Function) bool {
		return fn != nil && fn.Signature.Recv() != nil && namedOf(fn.Signature.Recv().Type()) == r.ctrl
	}
	for _, call := range ir.Calls(r.callFn) {
		if cal := ir.StaticCallee(call); isCtrlMethod(cal) {
			r.add = cal
		}
	}
	c.RequireFn(r.add, "timer.add")
	c.Role("timer.add", relName(r.add), r.add.Pos())
	r.cancelM = c.RequireFn(c.P.MethodOf(r.futureT, "Cancel"), "future.Cancel")
	// cancel = where Cancel takes the future out of the heap (heap.Remove): the future's Cancel method itself or a
	// function of the package it calls; when nobody removes, the control method Cancel forwards to
	removes := func(fn *ssa.Function) bool {
		found := false
		ir.Instrs(fn, func(in ssa.Instruction) {
			if heapCall(in, "Remove") != nil {
				found = true
			}
		})
		return found
	}
	if removes(r.cancelM) {
		r.cancel = r.cancelM
	}
	for _, call := range ir.Calls(r.cancelM) {
		cal := ir.StaticCallee(call)
		if cal == nil || cal.Pkg != r.cancelM.Pkg || len(cal.Blocks) == 0 {
			continue
		}
		if removes(cal) {
			r.cancel = cal
		}
	}
	if r.cancel == nil {
		for _, call := range ir.Calls(r.cancelM) {
			if cal := ir.StaticCallee(call); isCtrlMethod(cal) {
				r.cancel = cal
			}
		}
	}
	c.RequireFn(r.cancel, "timer.cancel")
	c.Role("timer.cancel", relName(r.cancel), r.cancel.Pos())
	// notify = control method that sends on the wake channel
	for _, fn := range r.ctrlMethods {
		ir.Instrs(fn, func(in ssa.Instruction) {
			if sel, ok := in.(*ssa.Select); ok {
				for _, st := range sel.States {
					if st.Dir == types.SendOnly {
						if _, isWake := loadOfField(st.Chan, r.wake); isWake {
							r.notify = fn
						}
					}
				}
			}
			if snd, ok := in.(*ssa.Send); ok {
				if _, isWake := loadOfField(snd.Chan, r.wake); isWake {
					r.notify = fn
				}
			}
		})
	}
	c.RequireFn(r.notify, "timer.notify")
	c.Role("timer.notify", relName(r.notify), r.notify.Pos())
	return r
}

// isHeapSlice reports whether t is a slice of (pointers to) futures: the representation of the queue.
func (r *timerRoles) isHeapSlice(t types.Type) bool {
	if t == nil {
		return false
	}
	sl, ok := t.Underlying().(*types.Slice)
	if !ok {
		return false
	}
	p, ok := sl.Elem().(*types.Pointer)
	return ok && namedOf(p.Elem()) == r.futureT
}

// heapSliceCell reports whether addr is the address of the queue's slice inside the heap object recv of a heap method:
// the receiver itself (type *[]*future) or a slice field of it.
func (r *timerRoles) heapSliceCell(addr ssa.Value) bool {
	pt, ok := addr.Type().Underlying().(*types.Pointer)
	if !ok || !r.isHeapSlice(pt.Elem()) {
		return false
	}
	switch x := addr.(type) {
	case *ssa.Parameter:
		return true
	case *ssa.FieldAddr:
		_, isParam := ir.Resolve(x.X).(*ssa.Parameter)
		return isParam
	case *ssa.UnOp:
		// load of the spilled receiver
		_, isParam := ir.Resolve(x).(*ssa.Parameter)
		return isParam
	}
	return false
}

// pushIndexIsAppendPosition decides "Push gives the pushed future the position it is appended at" by length arithmetic
// over the one append of Push: with L the length of the queue before the append, a load of the queue's slice taken
// before the append is stored back has length L, the result of the append and any later load have length L+1; the stored
// index must evaluate to L (len before the append, or len after it minus one).
func (r *timerRoles) pushIndexIsAppendPosition() bool {
	fn := r.push
	if fn == nil || len(fn.Params) != 2 {
		return false
	}
	for _, b := range fn.Blocks {
		if b != fn.Recover && len(b.Succs) > 1 {
			return false // only straight-line Push bodies are decided here
		}
	}
	// the pushed future
	isPushed := func(v ssa.Value) bool {
		v = ir.Resolve(v)
		if ta, ok := v.(*ssa.TypeAssert); ok {
			v = ir.Resolve(ta.X)
		}
		return v == ssa.Value(fn.Params[1])
	}
	var idxStore *ssa.Store
	var app *ssa.Call
	var appStore *ssa.Store
	bad := false
	ir.Instrs(fn, func(in ssa.Instruction) {
		if base, _, ok := storeToField(in, r.fIdx); ok {
			if idxStore != nil || !isPushed(base) {
				bad = true
			}
			idxStore = in.(*ssa.Store)
		}
		if cc := builtinCall(in, "append"); cc != nil {
			if call, isCall := in.(*ssa.Call); isCall && r.isHeapSlice(call.Type()) {
				if app != nil {
					bad = true
				}
				app = call
			}
		}
	})
	if bad || idxStore == nil || app == nil || len(app.Call.Args) != 2 {
		return false
	}
	// nothing else in Push changes the length of the queue: one store to the queue's slice (the append, below), no calls
	// but append, len and the heap's own Len
	nCellStores := 0
	ir.Instrs(fn, func(in ssa.Instruction) {
		if st, isSt := in.(*ssa.Store); isSt && r.heapSliceCell(st.Addr) {
			nCellStores++
		}
		if ci, isCall := in.(ssa.CallInstruction); isCall {
			if builtinCall(in, "append") != nil || builtinCall(in, "len") != nil {
				return
			}
			if _, plain := in.(*ssa.Call); plain && ir.StaticCallee(ci) == r.lenM && r.lenM != nil {
				return
			}
			bad = true
		}
	})
	if bad || nCellStores != 1 {
		return false
	}
	// exactly one element is appended and it is the pushed future
	sl, ok := app.Call.Args[1].(*ssa.Slice)
	if !ok || sl.Low != nil || sl.High != nil {
		return false
	}
	arr, ok := sl.X.(*ssa.Alloc)
	if !ok {
		return false
	}
	at, ok := arr.Type().Underlying().(*types.Pointer).Elem().Underlying().(*types.Array)
	if !ok || at.Len() != 1 {
		return false
	}
	elemOK := false
	for _, ref := range *arr.Referrers() {
		if ia, isIA := ref.(*ssa.IndexAddr); isIA {
			for _, st := range ir.StoresTo(ia) {
				elemOK = isPushed(st.Val)
			}
		}
	}
	if !elemOK {
		return false
	}
	// the result of the append is stored back into the queue's slice
	for _, ref := range *app.Referrers() {
		if st, isSt := ref.(*ssa.Store); isSt && st.Val == ssa.Value(app) && r.heapSliceCell(st.Addr) {
			appStore = st
		}
	}
	if appStore == nil {
		return false
	}
	// length of a slice value, as a*L+b
	type lin struct{ a, b int64 }
	cellLen := func(at ssa.Instruction) (lin, bool) {
		switch {
		case ir.Dominates(at, appStore):
			return lin{1, 0}, true
		case ir.Dominates(appStore, at):
			return lin{1, 1}, true
		}
		return lin{}, false
	}
	var sliceLen func(v ssa.Value) (lin, bool)
	sliceLen = func(v ssa.Value) (lin, bool) {
		if v == ssa.Value(app) {
			return lin{1, 1}, true
		}
		if u, ok := v.(*ssa.UnOp); ok && u.Op == token.MUL && r.heapSliceCell(u.X) {
			return cellLen(u)
		}
		return lin{}, false
	}
	// the first argument of the append is the queue as it was
	if l, ok := sliceLen(app.Call.Args[0]); !ok || l != (lin{1, 0}) {
		return false
	}
	var eval func(v ssa.Value, depth int) (lin, bool)
	eval = func(v ssa.Value, depth int) (lin, bool) {
		if depth > 6 {
			return lin{}, false
		}
		if k, ok := ir.ConstInt(v); ok {
			return lin{0, k}, true
		}
		switch x := v.(type) {
		case *ssa.BinOp:
			l, ok1 := eval(x.X, depth+1)
			rr, ok2 := eval(x.Y, depth+1)
			if !ok1 || !ok2 {
				return lin{}, false
			}
			switch x.Op {
			case token.ADD:
				return lin{l.a + rr.a, l.b + rr.b}, true
			case token.SUB:
				return lin{l.a - rr.a, l.b - rr.b}, true
			}
		case *ssa.Call:
			if cc := builtinCall(x, "len"); cc != nil && len(cc.Args) == 1 {
				return sliceLen(cc.Args[0])
			}
			// the heap's own Len method on the same receiver: len of the queue at that point
			if ir.StaticCallee(x) == r.lenM && len(x.Call.Args) == 1 && ir.Resolve(x.Call.Args[0]) == ssa.Value(fn.Params[0]) && r.lenIsSliceLen() {
				return cellLen(x)
			}
		}
		return lin{}, false
	}
	l, ok := eval(idxStore.Val, 0)
	return ok && l == (lin{1, 0})
}

// lenIsSliceLen: the heap's Len method returns len of the queue's slice.
func (r *timerRoles) lenIsSliceLen() bool {
	fn := r.lenM
	rets := ir.Returns(fn)
	if fn == nil || len(rets) != 1 || len(rets[0].Results) != 1 {
		return false
	}
	call, ok := ir.Resolve(rets[0].Results[0]).(*ssa.Call)
	if !ok {
		return false
	}
	cc := builtinCall(call, "len")
	if cc == nil || len(cc.Args) != 1 {
		return false
	}
	u, ok := cc.Args[0].(*ssa.UnOp)
	return ok && u.Op == token.MUL && r.heapSliceCell(u.X)
}

// notQueuedMarker returns the one negative constant that stands for "not in the heap" in the index field: every store
// to the field outside Swap and Push (whose values are slot numbers and the length, decided by R1) - that is Pop, the
// construction of a future, and whoever else writes it - stores this constant. The index field then only ever holds the
// marker or a slot number >= 0, so "idx != marker" is the test "idx >= 0".
func (r *timerRoles) notQueuedMarker() (int64, bool) {
	var marker int64
	n := 0
	ok := true
	for _, fn := range r.all {
		if fn == r.swap || fn == r.push {
			continue
		}
		ir.Instrs(fn, func(in ssa.Instruction) {
			_, val, isSt := storeToField(in, r.fIdx)
			if !isSt {
				return
			}
			k, isC := ir.ConstInt(val)
			if !isC || k >= 0 || (n > 0 && k != marker) {
				ok = false
				return
			}
			marker = k
			n++
		})
		// a future overwritten as a whole would set the index without a store to the field
		ir.Instrs(fn, func(in ssa.Instruction) {
			if st, isSt := in.(*ssa.Store); isSt {
				if pt, isPtr := st.Addr.Type().Underlying().(*types.Pointer); isPtr && namedOf(pt.Elem()) == r.futureT {
					if _, direct := pt.Elem().(*types.Named); direct {
						ok = false
					}
				}
			}
		})
	}
	return marker, ok && n > 0
}

// meansQueued: "idx op k" is true exactly for the indexes of queued futures (idx >= 0), given what the field can hold.
func (r *timerRoles) meansQueued(op token.Token, k int64) bool {
	switch {
	case op == token.GEQ && k == 0, op == token.GTR && k == -1:
		return true
	}
	m, ok := r.notQueuedMarker()
	if !ok {
		return false
	}
	switch op {
	case token.NEQ:
		return k == m
	case token.GEQ:
		return m < k && k <= 0
	case token.GTR:
		return m <= k && k < 0
	}
	return false
}

// isHeapLen: v is the number of queued futures - the heap's Len method, or len of the queue's slice.
func (r *timerRoles) isHeapLen(v ssa.Value) bool {
	call, ok := ir.Resolve(v).(*ssa.Call)
	if !ok {
		return false
	}
	if ir.StaticCallee(call) == r.lenM {
		return true
	}
	if cc := builtinCall(call, "len"); cc != nil && len(cc.Args) == 1 && r.isHeapSlice(cc.Args[0].Type()) {
		return true
	}
	return false
}

// pushesNonNil: every heap.Push of the package pushes a value that cannot be nil - a fresh allocation, or a parameter
// that is a fresh allocation (or the result of a function returning one) at every call of its function.
func (r *timerRoles) pushesNonNil(c *Ctx) bool {
	var fresh func(v ssa.Value, d int) bool
	fresh = func(v ssa.Value, d int) bool {
		if d > 3 {
			return false
		}
		switch x := ir.Resolve(v).(type) {
		case *ssa.Alloc:
			return true
		case *ssa.MakeInterface:
			return fresh(x.X, d+1)
		case *ssa.Call:
			cal := ir.StaticCallee(x)
			if cal == nil || len(cal.Blocks) == 0 {
				return false
			}
			rets := ir.Returns(cal)
			for _, ret := range rets {
				if len(ret.Results) != 1 || !fresh(ret.Results[0], d+1) {
					return false
				}
			}
			return len(rets) > 0
		case *ssa.Parameter:
			return r.paramAlways(c, x, func(a ssa.Value) bool { return fresh(a, d+1) })
		}
		return false
	}
	n, okAll := 0, true
	for _, fn := range c.P.FuncsOf("timeout") {
		ir.Instrs(fn, func(in ssa.Instruction) {
			call, ok := in.(*ssa.Call)
			if !ok || ir.CalleeFullName(call) != "container/heap.Push" || len(call.Call.Args) != 2 {
				return
			}
			n++
			if !fresh(call.Call.Args[1], 0) {
				okAll = false
			}
		})
	}
	return n > 0 && okAll
}

// paramAlways reports whether the argument bound to parameter prm satisfies pred at every call of prm's function in
// the package (which must have at least one and must not be used as a value).
func (r *timerRoles) paramAlways(c *Ctx, prm *ssa.Parameter, pred func(ssa.Value) bool) bool {
	fn := prm.Parent()
	idx := -1
	for i, p := range fn.Params {
		if p == prm {
			idx = i
		}
	}
	if idx < 0 {
		return false
	}
	n := 0
	ok := true
	fns := append([]*ssa.Function{}, r.all...)
	if pk := c.P.SSAPkg("timeout"); pk != nil {
		if ini := pk.Func("init"); ini != nil {
			fns = append(fns, ini)
		}
	}
	seen := map[*ssa.Function]bool{}
	for _, f := range fns {
		if seen[f] {
			continue
		}
		seen[f] = true
		ir.Instrs(f, func(in ssa.Instruction) {
			if ci, isCall := in.(ssa.CallInstruction); isCall && ir.StaticCallee(ci) == fn {
				n++
				if idx >= len(ci.Common().Args) || !pred(ir.Resolve(ci.Common().Args[idx])) {
					ok = false
				}
				return
			}
			// the function used as a value: unknown callers
			var ops [16]*ssa.Value
			for _, op := range in.Operands(ops[:0]) {
				if op != nil && *op == ssa.Value(fn) {
					ok = false
				}
			}
		})
	}
	return ok && n > 0
}

// isHeadFireTime: v is the fire time of element 0 of the queue.
func (r *timerRoles) isHeadFireTime(v ssa.Value) bool {
	base, isT := loadOfField(v, r.fTime)
	if !isT {
		return false
	}
	// the element may have gone through a "head or nil" variable: nil cannot be dereferenced, the rest must be element 0
	n := 0
	for _, o := range phiClosure(ir.Resolve(base)) {
		if ir.IsNilConst(o) {
			continue
		}
		u, ok := ir.Resolve(o).(*ssa.UnOp)
		if !ok || u.Op != token.MUL {
			return false
		}
		ia, ok := u.X.(*ssa.IndexAddr)
		if !ok {
			return false
		}
		if k, isC := ir.ConstInt(ia.Index); !isC || k != 0 {
			return false
		}
		n++
	}
	return n > 0
}

// entryLocks returns the locks a function of the package is entered with: what is held at every one of its call sites
// (may == false: the must set, the intersection) or at some call site (may == true: the union). Exported functions,
// closures, goroutine bodies, deferred calls and functions used as values are entered with nothing held (must) - for the
// may set a deferred call or a value use contributes what is held where it is written down. A private helper whose
// comment says "the lock must be held" is thereby checked against its callers instead of being taken on trust.
// Computed for all functions at once as a fixed point (greatest for must, least for may), so call cycles
// (worker -> helper -> go worker) are handled.
func (r *timerRoles) entryLocks(fn *ssa.Function, may bool, _ map[*ssa.Function]bool) map[string]bool {
	if r.entries == nil {
		r.entries = map[bool]map[*ssa.Function]map[string]bool{}
	}
	if r.entries[may] == nil {
		r.entries[may] = r.computeEntries(may)
	}
	return r.entries[may][fn]
}

func (r *timerRoles) computeEntries(may bool) map[*ssa.Function]map[string]bool {
	universe := map[string]bool{}
	for _, f := range r.all {
		ir.Instrs(f, func(in ssa.Instruction) {
			if p, acq, _ := ir.LockOp(in); acq {
				universe[p] = true
			}
		})
	}
	inherits := func(fn *ssa.Function) bool {
		return fn.Parent() == nil && fn.Object() != nil && !fn.Object().Exported()
	}
	entry := map[*ssa.Function]map[string]bool{}
	for _, f := range r.all {
		if !inherits(f) {
			continue
		}
		entry[f] = map[string]bool{}
		if !may {
			for k := range universe {
				entry[f][k] = true
			}
		}
	}
	for iter := 0; iter < 32; iter++ {
		next := map[*ssa.Function]map[string]bool{}
		seenSite := map[*ssa.Function]bool{}
		merge := func(fn *ssa.Function, held map[string]bool) {
			if !seenSite[fn] {
				seenSite[fn] = true
				next[fn] = map[string]bool{}
				for k := range held {
					next[fn][k] = true
				}
				return
			}
			if may {
				for k := range held {
					next[fn][k] = true
				}
				return
			}
			for k := range next[fn] {
				if !held[k] {
					delete(next[fn], k)
				}
			}
		}
		for _, caller := range r.all {
			ls := ir.ComputeLockset(caller, entry[caller])
			ir.Instrs(caller, func(in ssa.Instruction) {
				if ci, isCall := in.(ssa.CallInstruction); isCall {
					if cal := ir.StaticCallee(ci); cal != nil && entry[cal] != nil {
						if _, plain := in.(*ssa.Call); plain {
							merge(cal, ls.Before[in])
						} else if _, isGo := in.(*ssa.Go); isGo || !may {
							merge(cal, nil)
						} else {
							merge(cal, ls.Before[in])
						}
					}
				}
				// a function used as a value: it may be called from anywhere
				var ops [16]*ssa.Value
				for _, op := range in.Operands(ops[:0]) {
					if op == nil {
						continue
					}
					f, isFn := (*op).(*ssa.Function)
					if !isFn || entry[f] == nil {
						continue
					}
					if ci, isCall := in.(ssa.CallInstruction); isCall && ci.Common().Value == ssa.Value(f) {
						continue // the callee operand of the call itself
					}
					if may {
						merge(f, ls.Before[in])
					} else {
						merge(f, nil)
					}
				}
			})
		}
		changed := false
		for f := range entry {
			n := next[f]
			if n == nil {
				n = map[string]bool{} // never called
			}
			if len(n) != len(entry[f]) {
				changed = true
			} else {
				for k := range n {
					if !entry[f][k] {
						changed = true
					}
				}
			}
			entry[f] = n
		}
		if !changed {
			return entry
		}
	}
	// no fixed point within the bound: inherit nothing
	for f := range entry {
		entry[f] = map[string]bool{}
	}
	return entry
}

// lockset is the must-lockset of fn, entered with the locks all its callers hold.
func (r *timerRoles) lockset(fn *ssa.Function) *ir.Lockset {
	if ls, ok := r.locksets[fn]; ok {
		return ls
	}
	if r.locksets == nil {
		r.locksets = map[*ssa.Function]*ir.Lockset{}
	}
	ls := ir.ComputeLockset(fn, r.entryLocks(fn, false, nil))
	r.locksets[fn] = ls
	return ls
}

// workerBodies lists the worker and the functions of the package it calls (transitively, plain calls): where the
// worker's loop body may have been moved to.
func (r *timerRoles) workerBodies() []*ssa.Function {
	heapSet := map[*ssa.Function]bool{}
	for _, m := range r.heapMethods {
		heapSet[m] = true
	}
	res := []*ssa.Function{r.worker}
	seen := map[*ssa.Function]bool{r.worker: true}
	for i := 0; i < len(res); i++ {
		ir.Instrs(res[i], func(in ssa.Instruction) {
			call, ok := in.(*ssa.Call)
			if !ok {
				return
			}
			cal := ir.StaticCallee(call)
			if cal == nil || seen[cal] || heapSet[cal] || cal.Pkg != r.worker.Pkg || len(cal.Blocks) == 0 {
				return
			}
			seen[cal] = true
			res = append(res, cal)
		})
	}
	return res
}

// poppedFuture reports whether v is the future just taken from the heap: heap.Pop(h).(*future), or the result of a
// helper of the package every exit of which returns such a value or nil.
func (r *timerRoles) poppedFuture(v ssa.Value, depth int) bool {
	v = ir.Resolve(v)
	if phi, isPhi := v.(*ssa.Phi); isPhi && depth <= 2 {
		// a "popped future or nil" variable: nil has no callback to load
		n := 0
		for _, o := range phiClosure(phi) {
			if ir.IsNilConst(o) {
				continue
			}
			if !r.poppedFuture(o, depth+1) {
				return false
			}
			n++
		}
		return n > 0
	}
	if ta, ok := v.(*ssa.TypeAssert); ok {
		if pc, ok := ta.X.(*ssa.Call); ok && heapCall(pc, "Pop") != nil {
			return true
		}
		return false
	}
	call, ok := v.(*ssa.Call)
	if !ok || depth > 2 {
		return false
	}
	cal := ir.StaticCallee(call)
	if cal == nil || cal.Pkg != r.worker.Pkg || len(cal.Blocks) == 0 || cal.Signature.Results().Len() != 1 {
		return false
	}
	n := 0
	for _, ep := range ir.ExitPoints(cal) {
		res := ep.Result(0)
		if res == nil {
			return false
		}
		for _, o := range phiClosure(res) {
			if ir.IsNilConst(o) {
				continue
			}
			if !r.poppedFuture(o, depth+1) {
				return false
			}
			n++
		}
	}
	return n > 0
}

func (r *timerRoles) mutexHeld(ls *ir.Lockset, in ssa.Instruction) bool {
	for p := range ls.Before[in] {
		if strings.HasSuffix(p, "."+r.mutex.Name()) {
			return true
		}
	}
	return false
}

func (r *timerRoles) isLock(in ssa.Instruction) bool {
	p, acq, _ := ir.LockOp(in)
	return acq && strings.HasSuffix(p, "."+r.mutex.Name())
}

func (r *timerRoles) isUnlock(in ssa.Instruction) bool {
	p, _, rel := ir.LockOp(in)
	return rel && strings.HasSuffix(p, "."+r.mutex.Name())
}

// heapCall reports whether in calls container/heap.<name> (any name when name == "").
func heapCall(in ssa.Instruction, name string) *ssa.Call {
	call, ok := in.(*ssa.Call)
	if !ok {
		return nil
	}
	fn := ir.CalleeFullName(call)
	if !strings.HasPrefix(fn, "container/heap.") {
		return nil
	}
	if name != "" && fn != "container/heap."+name {
		return nil
	}
	return call
}

func runC12(c *Ctx) {
	// R8 is about what Cancel may conclude from a negative index: an obligation of C12 only (a late insertion loses no
	// future and removes no other one, so it is not run as C13.Q / C05.T). It runs first: a hand-off of the insertion is
	// named as such before the lock rules speak about the code it moved.
	c.timerCallQueues(resolveTimerRoles(c), "C12.R8")
	timerRules(c, "C12.R")
	c.timerCancelSynchronises(resolveTimerRoles(c), "C12.R9")
}

// timerRules runs the timer rules under the rule-id prefix pfx (C12.R, C05.T).
func timerRules(c *Ctx, pfx string) {
	r := resolveTimerRoles(c)

	// R1 index maintenance by abstract interpretation
	{
		env := &ai.Env{MaxSteps: 2000, Follow: func(fn *ssa.Function) bool { return fn.Pkg == c.P.SSAPkg("timeout") }}
		env.InitMem = func(path string, t types.Type) ai.Val {
			if strings.HasPrefix(path, "arr[") && !strings.Contains(path, ".") {
				return ai.Ptr{Path: "fut@" + path}
			}
			// the slice of queued futures, wherever the heap object keeps it (the heap object itself, or a field of it)
			if (path == "H" || strings.HasPrefix(path, "H.")) && r.isHeapSlice(t) {
				return ai.Ptr{Path: "arr"}
			}
			return nil
		}
		base := func() *ai.State {
			st := &ai.State{Mem: map[string]ai.Val{}}
			if r.isHeapSlice(r.futuresT) {
				st.Mem["H"] = ai.Ptr{Path: "arr"}
			}
			return st
		}
		fs := ai.Ptr{Path: "H"}
		// the receiver of a heap method: the address of the heap object, or - for a method with a value receiver - the heap
		// object itself (its slice of futures is the abstract array either way)
		recvOf := func(fn *ssa.Function) ai.Val { return r.tmHeapRecvVal(fn, fs) }
		idxPath := func(p ai.Val) (string, bool) {
			pp, ok := p.(ai.Ptr)
			if !ok {
				return "", false
			}
			return pp.Path + "." + r.fIdx.Name(), true
		}
		// Swap
		outs, err := ai.Explore(env, r.swap, []ai.Val{recvOf(r.swap), ai.Tok{Name: "i"}, ai.Tok{Name: "j"}}, base())
		if err != nil || len(outs) != 1 || outs[0].Panic {
			c.Undecided(pfx+"1", r.swap, "Swap keeps indices current", nil, fmt.Sprintf("cannot interpret Swap: %v", err))
		} else {
			st := outs[0].State
			for _, s := range [][2]string{{"i", "j"}, {"j", "i"}} {
				slot := st.Mem["arr[<"+s[0]+">]"]
				ok, detail := false, ""
				if p, isP := idxPath(slot); !isP {
					detail = "slot " + s[0] + " does not hold a future after Swap"
				} else if slot.String() != "&fut@arr[<"+s[1]+">]" {
					detail = "after Swap slot " + s[0] + " does not hold the element that was in slot " + s[1]
				} else if got := st.Mem[p]; got == nil || got.String() != "<"+s[0]+">" {
					g := "unchanged"
					if got != nil {
						g = got.String()
					}
					detail = "after Swap(i,j) the element in slot " + s[0] + " has index " + g + ": a later Cancel removes a different future"
				} else {
					ok = true
				}
				c.Decide(pfx+"1", r.swap, "Swap: element in slot "+s[0]+" gets index "+s[0], nil, ok, detail)
			}
		}
		// Push
		outs, err = ai.Explore(env, r.push, []ai.Val{recvOf(r.push), ai.Ptr{Path: "newfut"}}, base())
		if err != nil || len(outs) != 1 || outs[0].Panic {
			c.Undecided(pfx+"1", r.push, "Push sets the index", nil, fmt.Sprintf("cannot interpret Push: %v", err))
		} else {
			got := outs[0].State.Mem["newfut."+r.fIdx.Name()]
			ok := got != nil && got.String() == "<len:arr>"
			if !ok && r.pushIndexIsAppendPosition() {
				// the same index written in terms of the slice after the append (len(s)-1), decided by length arithmetic
				ok = true
			}
			g := "nothing"
			if got != nil {
				g = got.String()
			}
			c.Decide(pfx+"1", r.push, "Push: index = length before append", nil, ok, "Push stores "+g+" as index of the pushed future instead of the length before the append")
		}
		// Pop
		outs, err = ai.Explore(env, r.pop, []ai.Val{recvOf(r.pop)}, base())
		if err != nil || len(outs) == 0 {
			c.Undecided(pfx+"1", r.pop, "Pop resets the index", nil, fmt.Sprintf("cannot interpret Pop: %v", err))
		} else {
			ok, detail := true, ""
			for _, o := range outs {
				if o.Panic || len(o.Ret) != 1 {
					continue
				}
				p, isP := idxPath(o.Ret[0])
				if !isP {
					ok, detail = false, "Pop does not return an element of the heap"
					continue
				}
				k, isC := ai.AsInt(o.State.Mem[p])
				if !isC || k >= 0 {
					ok, detail = false, "Pop returns a future whose index is not reset to a negative value: Cancel of a fired future removes whatever sits at its stale index"
				}
			}
			c.Decide(pfx+"1", r.pop, "Pop: returned element gets a negative index", nil, ok, detail)
		}
	}
	c.R.Floor(pfx+"1", 4)

	// R2 cancel is guarded
	{
		fn := r.cancel
		ls := r.lockset(fn)
		n := 0
		ir.Instrs(fn, func(in ssa.Instruction) {
			call := heapCall(in, "Remove")
			if call == nil {
				return
			}
			n++
			idxArg := call.Call.Args[1]
			// the removed index is the index field of one future - read directly, or handed over together with a "queued"
			// flag (idx, ok := ...): then every alternative that is possible under the flags known at the Remove
			base, isIdx := r.tmIndexOfOneFuture(idxArg, call.Block())
			guarded := isIdx && tmGuardHolds(call.Block(), func(cm ir.Cmp) bool {
				x, y, op := cm.X, cm.Y, cm.Op
				if _, isC := ir.ConstInt(x); isC {
					x, y, op = y, x, ir.SwapOp(op)
				}
				b2, ok := loadOfField(x, r.fIdx)
				if !ok || !same(b2, base) {
					return false
				}
				k, isC := ir.ConstInt(y)
				return isC && r.meansQueued(op, k)
			})
			// the test written as a predicate of the package: idx >= 0 at every exit of it that gives the outcome (v_timer.go)
			guarded = guarded || (isIdx && r.tmQueuedThroughOutcome(call.Block(), base))
			c.Decide(pfx+"2", fn, "heap.Remove guarded by idx>=0", call, guarded, "Cancel removes by index without the 'still queued' test: cancelling a fired or already cancelled future removes another future")
			c.Decide(pfx+"2", fn, "heap.Remove under the lock", call, r.mutexHeld(ls, in), "Cancel removes from the heap without holding the lock")
		})
		if n == 0 {
			c.Decide(pfx+"2", fn, "cancel removes the future from the heap", nil, false, "cancel does not call heap.Remove: a cancelled future stays queued")
		}
		// cancel clears the callback or removes: after cancel returns on the queued edge, the future is out of the heap (by Remove above)
	}

	// R3 pop only when due
	{
		n := 0
		for _, fn := range r.workerBodies() {
			fn := fn
			ir.Instrs(fn, func(in ssa.Instruction) {
				call := heapCall(in, "Pop")
				if call == nil {
					return
				}
				n++
				// the due test: now.After(t), or the same comparison spelled t.Before(now), known true on the way to the Pop
				var after *ssa.Call
				var now, t ssa.Value
				for _, f := range ir.Facts(call.Block()) {
					f = f.StripNot()
					if l, e, ok := tmStrictlyAfter(f.Cond); ok && f.True {
						after, now, t = f.Cond.(*ssa.Call), ir.Resolve(l), e
					}
				}
				if after == nil {
					c.Decide(pfx+"3", fn, "heap.Pop only when now.After(fireTime)", call, false, "a future is popped without the test that the current time is after its fire time (started early)")
					return
				}
				isTimeNow := func(v ssa.Value) bool {
					nc, isCall := ir.Resolve(v).(*ssa.Call)
					return isCall && ir.CalleeFullName(nc) == "time.Now"
				}
				okNow := isTimeNow(now)
				if prm, isPrm := now.(*ssa.Parameter); isPrm && fn != r.worker {
					// the current time handed to a helper of the worker: time.Now() at every call
					okNow = r.paramAlways(c, prm, isTimeNow)
				}
				// t = load of fireTime of element 0 of the heap (every alternative that is possible under the guards of the Pop)
				okT := r.fTime != nil && tmAllFeasibleOrigins(t, call.Block(), r.isHeadFireTime)
				c.Decide(pfx+"3", fn, "heap.Pop only when now.After(fireTime)", call, okNow && okT, "the due test before heap.Pop does not compare time.Now() with the fire time of the heap's first element")
				// one critical section from the After test to the Pop
				released := false
				ir.Instrs(fn, func(u ssa.Instruction) {
					if !r.isUnlock(u) {
						return
					}
					w1, _ := (ir.Query{Fn: fn, From: after, Block: func(x ssa.Instruction) bool { return x == ssa.Instruction(call) }, Target: func(x ssa.Instruction) bool { return x == u }}).Find()
					w2, _ := (ir.Query{Fn: fn, From: u, Block: func(x ssa.Instruction) bool { return x == ssa.Instruction(after) }, Target: func(x ssa.Instruction) bool { return x == ssa.Instruction(call) }}).Find()
					if w1 != nil && w2 != nil {
						released = true
					}
				})
				c.Decide(pfx+"3", fn, "due test and Pop in one critical section", call, !released, "the lock is released between the due test and heap.Pop: the popped future need not be the one that was tested")
				ls := r.lockset(fn)
				c.Decide(pfx+"3", fn, "heap.Pop under the lock", call, r.mutexHeld(ls, in) && r.mutexHeld(ls, after), "heap.Pop or its due test runs without the lock")
			})
		}
		if n == 0 {
			c.Decide(pfx+"3", r.worker, "worker pops due futures", nil, false, "the worker never calls heap.Pop")
		}
	}

	// R4 at most once
	{
		fn := r.worker
		var invoked []*ssa.Call
		for _, f := range r.all {
			ir.Instrs(f, func(in ssa.Instruction) {
				call, ok := in.(*ssa.Call)
				if !ok || call.Call.IsInvoke() || call.Call.StaticCallee() != nil {
					return
				}
				if _, isB := call.Call.Value.(*ssa.Builtin); isB {
					return
				}
				// a call of a function value of the callback's type
				if !types.Identical(call.Call.Value.Type().Underlying(), r.fF.Type().Underlying()) {
					return
				}
				// does it originate in the callback field?
				fromField := false
				for _, o := range phiClosure(call.Call.Value) {
					if _, ok := loadOfField(o, r.fF); ok {
						fromField = true
					}
				}
				if f != fn {
					if fromField {
						c.Decide(pfx+"4", f, "callback invoked only by the worker", call, false, "the future's callback is invoked outside the worker")
					}
					return
				}
				invoked = append(invoked, call)
			})
		}
		if len(invoked) == 0 {
			c.Decide(pfx+"4", fn, "worker invokes the popped callback", nil, false, "the worker never invokes a callback")
		}
		for _, call := range invoked {
			v := call.Call.Value
			seen := map[ssa.Value]bool{}
			var bad string
			var provablyNil func(x ssa.Value, at *ssa.BasicBlock, depth int) bool
			provablyNil = func(x ssa.Value, at *ssa.BasicBlock, depth int) bool {
				if depth > 6 {
					return false
				}
				if ir.IsNilConst(x) {
					return true
				}
				// guard fact x == nil (or v == nil where x is v) on the path
				if at != nil && hasFactCmp(at, func(cm ir.Cmp) bool {
					return cm.Op == token.EQL && ((cm.X == x && ir.IsNilConst(cm.Y)) || (cm.Y == x && ir.IsNilConst(cm.X)))
				}) {
					return true
				}
				if p, ok := x.(*ssa.Phi); ok {
					if seen[p] {
						return true // cycle: decided by the other operands
					}
					seen[p] = true
					defer delete(seen, p)
					for i, e := range p.Edges {
						if !provablyNil(e, p.Block().Preds[i], depth+1) {
							return false
						}
					}
					return true
				}
				return false
			}
			var check func(x ssa.Value, at *ssa.BasicBlock, depth int)
			visited := map[ssa.Value]bool{}
			check = func(x ssa.Value, at *ssa.BasicBlock, depth int) {
				if visited[x] || depth > 8 {
					return
				}
				visited[x] = true
				if provablyNil(x, at, 0) {
					return
				}
				if p, ok := x.(*ssa.Phi); ok {
					for i, e := range p.Edges {
						check(e, p.Block().Preds[i], depth+1)
					}
					return
				}
				// must be the callback of the future returned by heap.Pop
				if base, ok := loadOfField(x, r.fF); ok && r.poppedFuture(base, 0) {
					return
				}
				if x == v {
					bad = "the invoked callback is carried into the next iteration without being cleared: it is started again"
				} else {
					bad = "the invoked callback does not come from the future just returned by heap.Pop: " + x.String()
				}
			}
			// the called value itself is a phi: examine its operands (the phi at the loop head)
			if p, ok := v.(*ssa.Phi); ok {
				visited[p] = true
				for i, e := range p.Edges {
					// an operand equal to the called value itself, arriving from after the call, is the classic "f not cleared"
					if e == v {
						bad = "the invoked callback is carried into the next iteration without being cleared: it is started again"
						continue
					}
					check(e, p.Block().Preds[i], 1)
					if ph, isPhi := e.(*ssa.Phi); isPhi {
						// carried phi: every operand that is the called value must arrive with the fact "== nil"
						for j, ee := range ph.Edges {
							if ee == v && !provablyNil(ee, ph.Block().Preds[j], 0) {
								bad = "the invoked callback is carried into the next iteration without being cleared: it is started again"
							}
						}
					}
				}
			} else {
				check(v, call.Block(), 0)
			}
			c.Decide(pfx+"4", fn, "invoked callback is nil or freshly popped", call, bad == "", bad)
		}
	}

	// R5 fire time
	if r.fTime == nil {
		c.Decide(pfx+"5", r.callFn, "fire time = time.Now().Add(d)", nil, false, "the future has no time.Time fire time: the due time is not kept as time.Now().Add(timeout) (integer nanosecond arithmetic overflows for very large delays - such a call starts at once - and loses the monotonic clock reading)")
	} else {
		fn := r.callFn
		ok := false
		var st ssa.Instruction
		ir.Instrs(fn, func(in ssa.Instruction) {
			_, val, isSt := storeToField(in, r.fTime)
			if !isSt {
				return
			}
			st = in
			if add, isCall := ir.Resolve(val).(*ssa.Call); isCall && ir.CalleeFullName(add) == "(time.Time).Add" {
				if now, isNow := ir.Resolve(add.Call.Args[0]).(*ssa.Call); isNow && ir.CalleeFullName(now) == "time.Now" {
					if len(fn.Params) == 2 && ir.Resolve(add.Call.Args[1]) == ssa.Value(fn.Params[1]) {
						ok = true
					}
				}
			}
		})
		if !ok && st != nil {
			_, val, _ := storeToField(st, r.fTime)
			ok = r.tmFireTimeThroughDelegate(val) // the time parameter Call hands time.Now().Add(d) to (v_timer_u3.go)
		}
		c.Decide(pfx+"5", fn, "fire time = time.Now().Add(d)", st, ok, "Call does not store time.Now().Add(timeout) as the fire time")
		if st != nil {
			for _, ac := range callsTo(fn, r.add) {
				c.Decide(pfx+"5", fn, "fire time set before queueing", ac, ir.Dominates(st, ac), "the future is queued before its fire time is set")
			}
		}
	}

	// R6 lockset
	c.timerLockset(r, pfx+"6")

	// R7 census and fresh future
	{
		heapSet := map[*ssa.Function]bool{}
		for _, m := range r.heapMethods {
			heapSet[m] = true
		}
		for _, fn := range r.all {
			if isPkgInit(fn) {
				continue
			}
			ir.Instrs(fn, func(in ssa.Instruction) {
				st, ok := in.(*ssa.Store)
				if !ok {
					return
				}
				// a store of the queue's slice (through the heap pointer, or into the heap object's slice field), or into an
				// element of the queue; the slice header of a local copy (s := *fs) is not the queue, its elements are
				writesHeap := false
				if pt, isPtr := st.Addr.Type().Underlying().(*types.Pointer); isPtr && r.isHeapSlice(pt.Elem()) {
					if _, local := st.Addr.(*ssa.Alloc); !local {
						writesHeap = true
					}
				}
				if ia, isIA := st.Addr.(*ssa.IndexAddr); isIA && r.isHeapSlice(ia.X.Type()) {
					writesHeap = true
				}
				if writesHeap && tmUnderConstruction(tmRootObject(st.Addr), in) {
					return // initialisation of a control block under construction
				}
				if writesHeap {
					c.Decide(pfx+"7", fn, "heap slice written only by heap.Interface methods", in, heapSet[fn], "the heap slice is modified outside Swap/Push/Pop: the element leaves or moves without its index being maintained")
				}
			})
		}
		// Call returns a fresh allocation
		for _, ret := range ir.Returns(r.callFn) {
			v := ir.Resolve(ir.ResultValue(ret, 0))
			_, isAlloc := v.(*ssa.Alloc)
			c.Decide(pfx+"7", r.callFn, "Call hands out a fresh future", ret, isAlloc, "the future returned by Call is not freshly allocated (recycled objects let a late Cancel hit another caller's future)")
		}
		c.R.Floor(pfx+"7", 4)
		c.timerQueueReplaced(r, pfx+"7")     // the place that holds the queue: replaced only with all indexes reset (v_timer_g3.go)
		c.timerHeapMethodsCensus(r, pfx+"7") // Push/Pop/Swap/Less of the queue: called by container/heap only (v_timer_h.go)
	}
}

// tmNoFeasiblePath records a must-pass-through obligation like NoPath, but does not count paths that contradict
// themselves (see tmFeasSearch): a step/state value selected on the path decides the later switch over it, a flag set on
// the path decides the later test of the same flag. The searches only drop paths that cannot execute, so finding none is
// a proof.
func (c *Ctx) tmNoFeasiblePath(rule, construct string, at ssa.Instruction, q ir.Query, what string) bool {
	w, err := q.Find()
	if err == nil && w == nil {
		c.Decide(rule, q.Fn, construct, at, true, "")
		return true
	}
	plain := q.BlockEdge == nil && q.BlockFact == nil && len(q.Assume) == 0
	sensitive := func(from ssa.Instruction, stop func(ssa.Instruction) bool) bool {
		found, ferr := (tmFeasSearch{Fn: q.Fn, From: from, FromBlock: q.FromBlock, Stop: stop, Target: q.Target, MaxStates: 20000}).find()
		return ferr == nil && !found
	}
	proved := plain && sensitive(q.From, q.Block)
	if !proved && plain && q.From == nil && q.FromBlock == nil {
		// a loop that counts (idle rounds) has unboundedly many constant states; cut it at the lock acquisitions: a path
		// from the entry to the target avoiding the must-pass set either meets no acquisition, or continues from its last
		// one without meeting another. Starting a search in the middle only forgets values, so this is still a proof.
		isCut := map[ssa.Instruction]bool{}
		ir.Instrs(q.Fn, func(in ssa.Instruction) {
			if _, acq, _ := ir.LockOp(in); acq {
				if _, isDefer := in.(*ssa.Defer); !isDefer {
					isCut[in] = true
				}
			}
		})
		if len(isCut) > 0 {
			stop := func(x ssa.Instruction) bool { return isCut[x] || (q.Block != nil && q.Block(x)) }
			proved = sensitive(nil, stop)
			for from := range isCut {
				if !proved {
					break
				}
				// the guard facts of the cut's block are not assumed: the path arrives there with values of its own
				found, ferr := (tmFeasSearch{Fn: q.Fn, From: from, Stop: stop, Target: q.Target, MaxStates: 20000, NoFacts: true}).find()
				proved = ferr == nil && !found
			}
		}
	}
	if proved {
		c.Decide(rule, q.Fn, construct, at, true, "")
		return true
	}
	if err != nil {
		c.Undecided(rule, q.Fn, construct, at, err.Error())
		return false
	}
	c.Decide(rule, q.Fn, construct, at, false, what+": path "+w.String(c.P))
	return false
}

// phiClosure returns the non-phi values reachable from v through phi operands.
func phiClosure(v ssa.Value) []ssa.Value {
	seen := map[ssa.Value]bool{}
	var res []ssa.Value
	var rec func(x ssa.Value)
	rec = func(x ssa.Value) {
		if seen[x] {
			return
		}
		seen[x] = true
		if p, ok := x.(*ssa.Phi); ok {
			for _, e := range p.Edges {
				rec(e)
			}
			return
		}
		res = append(res, x)
	}
	rec(v)
	return res
}

// timerLockset is C12.R6.
func (c *Ctx) timerLockset(r *timerRoles, rule string) {
	heapSet := map[*ssa.Function]bool{}
	for _, m := range r.heapMethods {
		heapSet[m] = true
	}
	// 1. every call that enters the heap (container/heap.* with our heap, or a direct method call) is under the lock
	for _, fn := range r.all {
		if heapSet[fn] || isPkgInit(fn) {
			continue
		}
		ls := r.lockset(fn)
		ir.Instrs(fn, func(in ssa.Instruction) {
			call, ok := in.(*ssa.Call)
			if !ok {
				return
			}
			enters := heapCall(in, "") != nil || heapSet[ir.StaticCallee(call)]
			if enters && len(call.Call.Args) > 0 && tmUnderConstruction(tmRootObject(call.Call.Args[0]), in) {
				return // the heap of a control block that is still being built (constructor): nobody else can see it
			}
			if enters {
				c.Decide(rule, fn, "heap entered under the lock", in, r.mutexHeld(ls, in), "the heap is read or modified without the package lock")
			}
		})
	}
	// 2. worker count and future fields
	for _, fn := range r.all {
		if heapSet[fn] || isPkgInit(fn) {
			continue
		}
		ls := r.lockset(fn)
		ir.Instrs(fn, func(in ssa.Instruction) {
			fa, ok := in.(*ssa.FieldAddr)
			if !ok {
				return
			}
			f := ir.FieldOf(fa)
			switch f {
			case r.workers:
				if tmUnderConstruction(fa.X, in) {
					return
				}
				c.Decide(rule, fn, "worker count accessed under the lock", in, r.mutexHeld(ls, in), "the worker count is accessed without the package lock")
			case r.fIdx, r.fF:
				// the unpublished future in Call
				if _, fresh := ir.Resolve(fa.X).(*ssa.Alloc); fresh && fn == r.callFn {
					return
				}
				// a future under construction in a helper of Call
				if fn != r.callFn && tmUnderConstruction(fa.X, in) {
					return
				}
				c.Decide(rule, fn, "future "+f.Name()+" accessed under the lock", in, r.mutexHeld(ls, in), "a queued future's index/callback is accessed without the package lock")
			}
		})
	}
	c.R.Floor(rule, 12)
}

func runC13(c *Ctx) {
	timerLiveRules(c, "C13.R")
	// Q: a future that Cancel or a stale index removes by mistake is never started: the index/cancel rules of C12
	timerRules(c, "C13.Q")
}

// timerLiveRules runs the liveness-shape rules of the timer package under the prefix pfx (C13.R, C05.U).
func timerLiveRules(c *Ctx, pfx string) {
	r := resolveTimerRoles(c)
	isSpawn := func(in ssa.Instruction) bool {
		g, ok := in.(*ssa.Go)
		return ok && ir.StaticCallee(g) == r.worker
	}
	isNotify := func(in ssa.Instruction) bool { return isCallTo(in, r.notify) }

	// R1 spawn-or-notify
	{
		fn := r.add
		n := 0
		ir.Instrs(fn, func(in ssa.Instruction) {
			if heapCall(in, "Push") == nil {
				return
			}
			n++
			c.NoPath(pfx+"1", "after Push: start a worker or wake one", in, ir.Query{Fn: fn, From: in,
				Block: func(x ssa.Instruction) bool { return isSpawn(x) || r.tmNotifyTells(x) || r.tmRunnerForDue(x, in) }, Target: ir.IsExit},
				"a future is queued and nobody is told: a sleeping worker keeps sleeping towards a later deadline (or no worker exists)")
		})
		if n == 0 {
			c.Decide(pfx+"1", fn, "add pushes onto the heap", nil, false, "add does not call heap.Push")
		}
		c.timerPushAnnounced(r, pfx+"1", isSpawn, r.tmNotifyTells) // a Push outside add; a runner started for a due future (v_timer_g.go)
		// the spawn branch is taken exactly when no worker exists: spawn dominated by workers == 0; notify by workers != 0 (or unconditional)
		ir.Instrs(fn, func(in ssa.Instruction) {
			if isSpawn(in) {
				ok := hasFactCmp(in.Block(), func(cm ir.Cmp) bool {
					_, isW := loadOfField(cm.X, r.workers)
					k, isC := ir.ConstInt(cm.Y)
					return isW && isC && ((cm.Op == token.EQL && k == 0) || (cm.Op == token.LSS && k == 1) || (cm.Op == token.LEQ && k == 0))
				})
				c.Decide(pfx+"1", fn, "worker started when none exists", in, ok, "add starts a worker on an edge that is not 'no worker exists'")
			}
		})
	}

	// R2 worker accounting
	{
		nSpawn, nRet, nDec := 0, 0, 0
		for _, fn := range r.all {
			ls := r.lockset(fn)
			ir.Instrs(fn, func(in ssa.Instruction) {
				if !isSpawn(in) {
					return
				}
				// an increment dominates the go statement with no unlock in between
				var inc ssa.Instruction
				ir.Instrs(fn, func(x ssa.Instruction) {
					if _, ok := isFieldDelta(x, r.workers, 1); ok && ir.Dominates(x, in) {
						inc = x
					}
				})
				ok := inc != nil && r.mutexHeld(ls, in)
				if ok {
					if w, _ := (ir.Query{Fn: fn, From: inc, Block: func(x ssa.Instruction) bool { return x == in }, Target: func(x ssa.Instruction) bool { return r.isUnlock(x) || ir.IsExit(x) }}).Find(); w != nil {
						ok = false
					}
				}
				nSpawn++
				c.Decide(pfx+"2", fn, "go worker() preceded by workers++ in the same critical section", in, ok, "a worker is started without being counted under the lock: the pool size drifts (no worker is started although none exists, or too many)")
			})
		}
		fn := r.worker
		ls := r.lockset(fn)
		isDec := func(x ssa.Instruction) bool { _, ok := isFieldDelta(x, r.workers, -1); return ok }
		for _, ret := range ir.Returns(fn) {
			ret := ret
			nRet++
			c.tmNoFeasiblePath(pfx+"2", "worker return preceded by workers--", ret, ir.Query{Fn: fn, Block: isDec, Target: func(x ssa.Instruction) bool { return x == ssa.Instruction(ret) }},
				"the worker exits without deregistering: the count says a worker exists, so add never starts one again and pending futures never fire")
		}
		ir.Instrs(fn, func(in ssa.Instruction) {
			if !isDec(in) {
				return
			}
			c.Decide(pfx+"2", fn, "workers-- under the lock", in, r.mutexHeld(ls, in), "the worker count is decremented without the lock")
			nDec++
			c.tmNoFeasiblePath(pfx+"2", "deregistered worker does not continue", in, ir.Query{Fn: fn, From: in, Target: func(x ssa.Instruction) bool { return r.isLock(x) || isSpawn(x) }},
				"a worker that deregistered itself keeps running")
		})
		// the rule must have seen every kind of construct it is about: a worker start, a return of the worker, a
		// deregistration (two obligations each). How many statements of each kind there are depends on the style
		// (one return per exit path, or one return behind a "quit" flag / a step value).
		if nSpawn == 0 || nRet == 0 || nDec == 0 {
			c.R.Errorf("rule %s matched %d worker start(s), %d worker return(s), %d deregistration(s): the anchored code changed shape and the rule would pass vacuously", pfx+"2", nSpawn, nRet, nDec)
		}
		c.R.Floor(pfx+"2", 4)
	}

	// R3 callbacks run unlocked
	{
		fn := r.worker
		ls := r.lockset(fn)
		n := 0
		ir.Instrs(fn, func(in ssa.Instruction) {
			call, ok := in.(*ssa.Call)
			if !ok || call.Call.IsInvoke() || call.Call.StaticCallee() != nil {
				return
			}
			if _, isB := call.Call.Value.(*ssa.Builtin); isB {
				return
			}
			if !types.Identical(call.Call.Value.Type().Underlying(), r.fF.Type().Underlying()) {
				return
			}
			n++
			c.Decide(pfx+"3", fn, "callback invoked with the lock released", in, len(ls.Any(in)) == 0 && len(r.entryLocks(fn, true, nil)) == 0, "a callback runs while the package lock is held: a callback that schedules or cancels (lease renewal does) deadlocks, and no other future can fire meanwhile")
		})
		if n == 0 {
			c.Decide(pfx+"3", fn, "callback invoked with the lock released", nil, false, "the worker invokes no callback")
		}
	}

	// R4 notify never blocks, channel buffered
	{
		fn := r.notify
		ok, found := false, false
		ir.Instrs(fn, func(in ssa.Instruction) {
			if sel, isSel := in.(*ssa.Select); isSel {
				for _, st := range sel.States {
					if st.Dir == types.SendOnly {
						if _, isWake := loadOfField(st.Chan, r.wake); isWake {
							found = true
							ok = !sel.Blocking
						}
					}
				}
			}
			if snd, isSend := in.(*ssa.Send); isSend {
				if _, isWake := loadOfField(snd.Chan, r.wake); isWake {
					found = true
					ok = false
				}
			}
		})
		c.Decide(pfx+"4", fn, "wake-up send never blocks", nil, found && ok, "the wake-up send can block: add/cancel would hang under the lock when no worker is receiving")
		// capacity
		capOK := false
		for _, f := range r.all {
			ir.Instrs(f, func(in ssa.Instruction) {
				_, val, isSt := storeToField(in, r.wake)
				if !isSt {
					return
				}
				if mk, isMk := ir.Resolve(val).(*ssa.MakeChan); isMk {
					if k, isC := ir.ConstInt(mk.Size); isC {
						capOK = k >= 1
					} else if prm, isPrm := ir.Resolve(mk.Size).(*ssa.Parameter); isPrm {
						// capacity handed to a constructor: positive at every call of the constructor
						capOK = r.paramAlways(c, prm, func(v ssa.Value) bool { k, isC := ir.ConstInt(v); return isC && k >= 1 })
					} else {
						capOK = true // capacity taken from the pool size field (checked positive by construction)
						if fld := ir.LoadedField(mk.Size); fld == nil {
							capOK = false
						}
					}
				}
			})
		}
		c.Decide(pfx+"4", fn, "wake channel is buffered", nil, capOK, "the wake channel has no buffer: a wake-up sent while the worker is between unlock and select is lost and a near deadline is slept through")
	}

	// R11 the notify routine always posts. The callers (add, cancel) decide WHETHER a worker is to be told; a condition
	// inside the routine itself ("nothing queued: nobody to wake") silently un-tells the callers that rely on it - the
	// cancel of the last queued future has to wake the worker that sleeps towards that future's deadline, or the worker
	// (and the pool) stays around until a deadline nobody waits for.
	{
		fn := r.notify
		isPost := func(in ssa.Instruction) bool {
			if sel, isSel := in.(*ssa.Select); isSel {
				for _, st := range sel.States {
					if st.Dir == types.SendOnly {
						if _, isWake := loadOfField(st.Chan, r.wake); isWake {
							return true
						}
					}
				}
			}
			if snd, isSend := in.(*ssa.Send); isSend {
				_, isWake := loadOfField(snd.Chan, r.wake)
				return isWake
			}
			return false
		}
		c.NoPath(pfx+"11", "every path through the wake-up routine posts on the wake channel", nil, ir.Query{Fn: fn, Block: isPost, BlockEdge: r.tmNoWorkerEdge, Target: ir.IsExit}, // no worker exists: nobody to wake (v_timer_u.go)
			"the wake-up routine can return without posting: a caller that has decided to wake a worker (a new head, a cancelled head, the last future cancelled) is not heard, and the sleeping worker sleeps on towards a deadline that is gone or no longer the nearest")
	}

	// R12 a cancelled future leaves the queue, and a worker is told. On every path of the cancel routine that has found the
	// future queued (its index is not negative) the future is taken out with heap.Remove and, while a worker exists, the
	// wake channel is poked afterwards. A future that is merely disarmed and left in the heap keeps a worker asleep towards
	// its deadline once it is the head: the pool does not wind down although nothing is pending.
	{
		fn := r.cancel
		negativeIdxEdge := func(from, to *ssa.BasicBlock) bool {
			ef := ir.EdgeFact(from, to)
			if ef == nil {
				return false
			}
			cm, isCmp := ef.Cmp()
			if !isCmp {
				return false
			}
			// idx < 0, idx <= -1, idx == -1 (and mirrored)
			x, y, op := cm.X, cm.Y, cm.Op
			if _, isIdx := loadOfField(y, r.fIdx); isIdx {
				x, y, op = y, x, ir.SwapOp(op)
			}
			if _, isIdx := loadOfField(x, r.fIdx); !isIdx {
				return false
			}
			k, isC := ir.ConstInt(y)
			if !isC {
				return false
			}
			switch op {
			case token.LSS:
				return k <= 0
			case token.LEQ:
				return k <= -1
			case token.EQL:
				return k <= -1
			}
			return false
		}
		// "not queued" is also known from idx >= len(queue) and queue[idx] != fu - given the index invariant R1 decides - and
		// through a flag or the outcome of a read-only predicate of the package (v_timer.go)
		notQueuedEdge := func(from, to *ssa.BasicBlock) bool {
			return negativeIdxEdge(from, to) || r.tmNotQueuedEdge(fn, from, to)
		}
		isRemove := func(in ssa.Instruction) bool { return heapCall(in, "Remove") != nil }
		// asked of the one future the routine is given, or of every element of a batch it loops over (v_timer_u.go)
		c.timerCancelRemoves(r, pfx+"12", fn, isRemove, notQueuedEdge,
			"the cancel routine can return for a future that is still queued without taking it out of the heap: the disarmed entry stays, becomes the head and a worker sleeps towards its deadline with nothing pending")
		noWorkerEdge := func(from, to *ssa.BasicBlock) bool {
			ef := ir.EdgeFact(from, to)
			if ef == nil {
				return false
			}
			cm, isCmp := ef.Cmp()
			if !isCmp {
				return false
			}
			x, y, op := cm.X, cm.Y, cm.Op
			if ir.LoadedField(y) == r.workers {
				x, y, op = y, x, ir.SwapOp(op)
			}
			if ir.LoadedField(x) != r.workers {
				return false
			}
			k, isC := ir.ConstInt(y)
			if !isC {
				return false
			}
			switch op {
			case token.EQL:
				return k == 0
			case token.LEQ:
				return k == 0
			case token.LSS:
				return k == 1
			}
			return false
		}
		ir.Instrs(fn, func(in ssa.Instruction) {
			if !isRemove(in) {
				return
			}
			c.tmNoPathConsts(pfx+"12", "after the removal a worker is woken", in, ir.Query{Fn: fn, From: in, Block: isNotify, BlockEdge: noWorkerEdge, Target: ir.IsExit},
				"a future was taken out of the heap and no worker is told while one exists: the worker sleeping towards the cancelled deadline is not re-planned")
		})
	}

	// R5 comparator
	{
		fn := r.less
		ok := false
		for _, ret := range ir.Returns(fn) {
			// elem[i].t.Before(elem[j].t), or the same comparison spelled elem[j].t.After(elem[i].t)
			later, earlier, isCmp := tmStrictlyAfter(ir.Resolve(ret.Results[0]))
			if !isCmp || len(fn.Params) != 3 {
				continue
			}
			elemIdx := func(v ssa.Value) ssa.Value {
				if r.fTime == nil {
					return nil
				}
				base, isT := loadOfField(v, r.fTime)
				if !isT {
					return nil
				}
				if u, ok := ir.Resolve(base).(*ssa.UnOp); ok {
					if ia, ok := u.X.(*ssa.IndexAddr); ok {
						return ir.Resolve(ia.Index)
					}
				}
				return nil
			}
			if elemIdx(earlier) == ssa.Value(fn.Params[1]) && elemIdx(later) == ssa.Value(fn.Params[2]) {
				ok = true
			}
		}
		c.Decide(pfx+"5", fn, "Less = elem[i].fireTime.Before(elem[j].fireTime)", nil, ok, "the heap order is not 'earliest fire time first': the worker sleeps towards the wrong deadline and earlier futures fire late")
	}

	// R6 re-read under lock after every wake-up; block only unlocked
	// The select may be written in the worker itself or in a function literal of the worker that runs only as a plain
	// call of the worker (sleep := func(d) bool { ... select ... }): a piece of the worker's body written aside. A call of
	// such a literal is a place where the worker may sleep; the select inside is decided where it stands, entered with
	// what holds at every call of the literal.
	sleepClosures, maySleep, mustSleep := tmSleepClosures(r.worker)
	isSleepPoint := func(x ssa.Instruction) bool { return tmIsBlockingSelect(x) || maySleep[x] != nil }
	{
		fn := r.worker
		ls := r.lockset(fn)
		n := 0
		listensOnWake := func(sel *ssa.Select, lc *tmLocalClosure) bool {
			for _, st := range sel.States {
				if st.Dir == types.RecvOnly && r.tmIsWakeChan(st.Chan, lc) {
					return true
				}
			}
			return false
		}
		ir.Instrs(fn, func(in ssa.Instruction) {
			sel, ok := in.(*ssa.Select)
			if !ok || !sel.Blocking {
				return
			}
			n++
			c.Decide(pfx+"6", fn, "worker sleeps with the lock released", in, len(ls.Any(in)) == 0 && len(r.entryLocks(fn, true, nil)) == 0, "the worker blocks in select while holding the lock")
			// the select listens on the wake channel
			c.Decide(pfx+"6", fn, "sleeping worker listens on the wake channel", in, listensOnWake(sel, nil), "the sleeping worker does not listen on the wake channel: a nearer deadline queued meanwhile is slept through")
			c.NoPath(pfx+"6", "heap re-read under the lock after waking", in, ir.Query{Fn: fn, From: in, Block: r.isLock,
				Target: isSleepPoint}, "the worker goes back to sleep without re-reading the heap under the lock")
		})
		for _, lc := range sleepClosures {
			lc := lc
			g := lc.Fn
			lsg := ir.ComputeLockset(g, nil)
			ir.Instrs(g, func(in ssa.Instruction) {
				sel, ok := in.(*ssa.Select)
				if !ok || !sel.Blocking {
					return
				}
				n++
				// nothing held where the literal is called, nothing acquired inside it before the select
				released := len(lsg.Any(in)) == 0 && len(r.entryLocks(fn, true, nil)) == 0
				for _, call := range lc.Calls {
					released = released && len(ls.Any(call)) == 0
				}
				c.Decide(pfx+"6", fn, "worker sleeps with the lock released", in, released, "the worker blocks in select while holding the lock")
				c.Decide(pfx+"6", fn, "sleeping worker listens on the wake channel", in, listensOnWake(sel, &lc), "the sleeping worker does not listen on the wake channel: a nearer deadline queued meanwhile is slept through")
				// from this select to the next sleep without Lock: inside the literal, or after it returned to the worker
				what := "the worker goes back to sleep without re-reading the heap under the lock"
				w, err := (ir.Query{Fn: g, From: in, Block: r.isLock, Target: tmIsBlockingSelect}).Find()
				for _, call := range lc.Calls {
					if w != nil || err != nil {
						break
					}
					w, err = (ir.Query{Fn: fn, From: call, Block: r.isLock, Target: isSleepPoint}).Find()
				}
				switch {
				case err != nil:
					c.Undecided(pfx+"6", fn, "heap re-read under the lock after waking", in, err.Error())
				case w != nil:
					c.Decide(pfx+"6", fn, "heap re-read under the lock after waking", in, false, what+": path "+w.String(c.P))
				default:
					c.Decide(pfx+"6", fn, "heap re-read under the lock after waking", in, true, "")
				}
			})
		}
		if n == 0 {
			c.Decide(pfx+"6", fn, "worker sleeps in a select", nil, false, "the worker has no blocking select")
		}
	}
	// R7 the worker that consumed a wake-up token re-arms: it does not retire before it slept or popped again
	{
		fn := r.worker
		n := 0
		wakeCase := func(sel *ssa.Select, lc *tmLocalClosure) int {
			wakeIdx := -1
			for i, st := range sel.States {
				if st.Dir == types.RecvOnly && r.tmIsWakeChan(st.Chan, lc) {
					wakeIdx = i
				}
			}
			return wakeIdx
		}
		// sleeping again: a blocking select, or a call of a local literal no path of which avoids its blocking select
		rearms := func(x ssa.Instruction) bool {
			return tmIsBlockingSelect(x) || mustSleep[x] != nil || heapCall(x, "Pop") != nil
		}
		what := "the worker that took the wake-up token can retire in the same round without recomputing its sleep: the token is consumed, the other workers keep sleeping towards an older deadline, and the newly queued future starts up to an idle period late"
		ir.Instrs(fn, func(in ssa.Instruction) {
			sel, ok := in.(*ssa.Select)
			if !ok || !sel.Blocking {
				return
			}
			wakeIdx := wakeCase(sel, nil)
			if wakeIdx < 0 {
				return
			}
			// the block entered when the select index equals wakeIdx
			for _, b := range tmWokenBlocks(fn, sel, wakeIdx) {
				n++
				c.tmNoFeasiblePath(pfx+"7", "woken worker re-arms before it may retire", b.Instrs[0], ir.Query{Fn: fn, FromBlock: b, TrackConsts: true,
					Block: rearms, Target: ir.IsExit}, what)
			}
		})
		// the select in a local literal of the worker: the woken paths run to the returns of the literal - with what they
		// return, as far as it is a constant on the path - and go on in the worker behind every call of the literal
		for _, lc := range sleepClosures {
			lc := lc
			g := lc.Fn
			ir.Instrs(g, func(in ssa.Instruction) {
				sel, ok := in.(*ssa.Select)
				if !ok || !sel.Blocking {
					return
				}
				wakeIdx := wakeCase(sel, &lc)
				if wakeIdx < 0 {
					return
				}
				for _, b := range tmWokenBlocks(g, sel, wakeIdx) {
					n++
					// what the literal hands back on the woken paths that neither sleep nor pop again inside it
					type outcome struct{ known, val bool }
					var outs []outcome
					oneBool := g.Signature.Results().Len() == 1 && types.Identical(g.Signature.Results().At(0).Type().Underlying(), types.Typ[types.Bool])
					_, ferr := (tmFeasSearch{Fn: g, FromBlock: b, Stop: rearms, Target: ir.IsExit, MaxStates: 20000,
						Collect: func(at ssa.Instruction, eval func(ssa.Value) (constant.Value, bool)) {
							o := outcome{}
							if ret, isRet := at.(*ssa.Return); isRet && oneBool && len(ret.Results) == 1 {
								if k, isK := eval(ir.ResultValue(ret, 0)); isK && k.Kind() == constant.Bool {
									o = outcome{true, constant.BoolVal(k)}
								}
							}
							for _, have := range outs {
								if have == o {
									return
								}
							}
							outs = append(outs, o)
						}}).find()
					if ferr != nil {
						c.Undecided(pfx+"7", fn, "woken worker re-arms before it may retire", b.Instrs[0], ferr.Error())
						continue
					}
					var wit *ir.Witness
					var err error
					proved := true
					for _, call := range lc.Calls {
						for _, o := range outs {
							if !proved {
								break
							}
							proved, wit, err = tmNoFeasiblePathAfterCall(fn, call, o.known, o.val, rearms, ir.IsExit)
						}
					}
					switch {
					case proved:
						c.Decide(pfx+"7", fn, "woken worker re-arms before it may retire", b.Instrs[0], true, "")
					case err != nil:
						c.Undecided(pfx+"7", fn, "woken worker re-arms before it may retire", b.Instrs[0], err.Error())
					default:
						d := what
						if wit != nil {
							d += ": path " + wit.String(c.P)
						}
						c.Decide(pfx+"7", fn, "woken worker re-arms before it may retire", b.Instrs[0], false, d)
					}
				}
			})
		}
		if n == 0 {
			c.Decide(pfx+"7", fn, "woken worker re-arms before it may retire", nil, false, "cannot find the wake-up case of the worker's select")
		}
	}
	// R8 a re-used timer is drained when Stop reports that it already fired (in the worker or in a local literal of it:
	// a timer kept across rounds lives in a variable both can see)
	{
		fn := r.worker
		bodies := []*ssa.Function{fn}
		for _, lc := range tmLocalClosures(fn) {
			bodies = append(bodies, lc.Fn)
		}
		reuses := false
		for _, body := range bodies {
			ir.Instrs(body, func(in ssa.Instruction) {
				if call, ok := in.(*ssa.Call); ok && ir.CalleeFullName(call) == "(*time.Timer).Reset" {
					reuses = true
				}
			})
		}
		for _, body := range bodies {
			body := body
			ir.Instrs(body, func(in ssa.Instruction) {
				call, ok := in.(*ssa.Call)
				if !ok || ir.CalleeFullName(call) != "(*time.Timer).Stop" {
					return
				}
				if !reuses {
					c.Decide(pfx+"8", fn, "stopped timer is not re-used (or drained)", in, true, "")
					return
				}
				// the false edge of Stop() receives from the timer's channel
				drained := false
				ir.Instrs(body, func(x ssa.Instruction) {
					u, isRecv := x.(*ssa.UnOp)
					if !isRecv || u.Op != token.ARROW {
						return
					}
					if ir.HasFact(x.Block(), func(f ir.Fact) bool { ff := f.StripNot(); return ff.Cond == ssa.Value(call) && !ff.True }) {
						drained = true
					}
				})
				c.Decide(pfx+"8", fn, "stopped timer is not re-used (or drained)", in, drained, "the worker re-uses its timer (Reset) but does not drain the channel when Stop reports that the timer already fired: the stale tick makes the next sleep return at once as a fake idle round and the worker that should re-arm retires")
			})
		}
	}
	// R9 a worker retires while futures are pending only if another worker remains
	{
		fn := r.worker
		ir.Instrs(fn, func(in ssa.Instruction) {
			if _, ok := isFieldDelta(in, r.workers, -1); !ok {
				return
			}
			// the guards may be known directly or through a flag computed under them (quit := ...; if quit { workers-- });
			// a flag may have been set under either guard, so the alternative is decided per way of reaching the statement
			empty := func(cm ir.Cmp) bool {
				x, y, op := cm.X, cm.Y, cm.Op
				if _, isC := ir.ConstInt(x); isC {
					x, y, op = y, x, ir.SwapOp(op)
				}
				k, isC := ir.ConstInt(y)
				if !isC || !r.isHeapLen(x) {
					return false
				}
				// a length is never negative: len == 0, len <= 0, len < 1
				return (op == token.EQL && k == 0) || (op == token.LEQ && k == 0) || (op == token.LSS && k == 1)
			}
			others := func(cm ir.Cmp) bool {
				x, y, op := cm.X, cm.Y, cm.Op
				if _, isC := ir.ConstInt(x); isC {
					x, y, op = y, x, ir.SwapOp(op)
				}
				_, isW := loadOfField(x, r.workers)
				k, isC := ir.ConstInt(y)
				return isW && isC && ((op == token.GTR && k >= 1) || (op == token.GEQ && k >= 2))
			}
			// "no head": head := nil if Len() == 0 else heap[0]; head == nil. It means "empty" because no nil future is
			// ever pushed (every heap.Push of the package pushes a freshly allocated future, directly or as the argument
			// of every call of the pushing function)
			noHead := func(cm ir.Cmp) bool {
				if cm.Op != token.EQL {
					return false
				}
				x, y := cm.X, cm.Y
				if ir.IsNilConst(x) {
					x, y = y, x
				}
				phi, isPhi := x.(*ssa.Phi)
				if !isPhi || !ir.IsNilConst(y) || !r.pushesNonNil(c) {
					return false
				}
				for j, e := range phi.Edges {
					pred := phi.Block().Preds[j]
					if ir.IsNilConst(e) {
						okE := hasFactCmp(pred, empty)
						if ef := ir.EdgeFact(pred, phi.Block()); ef != nil {
							if ecm, isCmp := ef.Cmp(); isCmp && empty(ecm) {
								okE = true
							}
						}
						if !okE {
							return false
						}
						continue
					}
					// the first element of the queue
					isHead := false
					for _, o := range ir.Origins(e) {
						if ld, isLd := o.(*ssa.UnOp); isLd && ld.Op == token.MUL {
							if ia, isIA := ld.X.(*ssa.IndexAddr); isIA && r.isHeapSlice(ia.X.Type()) {
								if k, isC := ir.ConstInt(ia.Index); isC && k == 0 {
									isHead = true
								}
							}
						}
					}
					if !isHead {
						return false
					}
				}
				return len(phi.Edges) > 0
			}
			ok := tmGuardHolds(in.Block(), func(cm ir.Cmp) bool { return empty(cm) || others(cm) || noHead(cm) })
			c.Decide(pfx+"9", fn, "worker retires only with an empty heap or another worker left", in, ok,
				"a worker can deregister while futures are pending and it may be the last one: nobody is left to start them until some later Call spawns a worker")
		})
	}
	// R10 the worker waits only with a time bound
	c.timerBoundedWaits(r, pfx+"10")
	c.Saw(r.add, r.worker, r.notify, r.less)
}

// isPkgInit reports whether fn is a package initialiser (synthetic init or a source init function).
func isPkgInit(fn *ssa.Function) bool {
	return fn.Signature.Recv() == nil && (fn.Name() == "init" || strings.HasPrefix(fn.Name(), "init#"))
}
