package rules

import (
	"fmt"
	"go/token"
	"go/types"
	"sort"

	"golang.org/x/tools/go/ssa"

	"verif/checker/ir"
)

// ===========================================================================
// C20.R12: entry name -> any call that changes the file system, also through captured variables
//
// What it decides. (1) In every function that reads archive entry names, every argument that names the object of a call
// that changes the file system - fsMutators below, and repository functions whose parameter reaches one; the (call,
// argument) pairs R1 already answers for are left to R1 - and that derives from an entry name is covered by a
// containment test known to have succeeded: the test dominates the call, or every value that can flow into the argument
// through phi nodes was covered when it flowed (edge by edge, so a variable that is only ever assigned checked paths
// stays checked round a loop), or - asked per path - no path reaches the call with the selected value unchecked.
// (2) A closure made in such a function that reads a captured variable holding an entry-name-derived value and hands it
// to such a call (here every mutator counts, R1 does not look into closures) either makes the test itself, or runs only
// at points where the value the variable then holds has been tested: for every assignment of a derived value to the
// variable, no path leads from the assignment - without another assignment in between - to a point where the closure
// runs (its call sites; for a deferred closure every `rundefers` of the function once the defer statement has been
// passed) on which the test on the assigned value is not known to have succeeded.
//
// Why it is necessary. "For any archive whatsoever, UnzipToFolder creates or modifies files only inside the destination
// directory": removing, renaming, re-moding or truncating a path is modifying a file, and a path joined from an entry
// name lies outside of the destination for ../x and /abs names unless the containment test said otherwise. A closure
// reads its captured variable when it runs, not when it is written down: a clean-up deferred at the top of the function
// sees whatever the loop assigned last, including the name the test has just rejected.
//
// Over-approximations (right code it would flag or leave undecided): a closure that escapes (stored in a field, passed
// on, started with go) is only accepted when the value is already tested at the assignment; a captured variable that is
// also assigned inside a closure is left undecided; like R1, only the tested value itself and its Dir/Clean count as
// covered (a name derived from a tested path by appending a suffix is not).

// fsMutators: calls that create, remove or change a file-system object named by the listed argument.
var fsMutators = map[string][]int{
	"os.Remove": {0}, "os.RemoveAll": {0}, "os.Rename": {0, 1}, "os.Chmod": {0}, "os.Chown": {0}, "os.Lchown": {0},
	"os.Chtimes": {0}, "os.Truncate": {0}, "os.Mkdir": {0}, "os.MkdirAll": {0}, "os.MkdirTemp": {0}, "os.CreateTemp": {0},
	"os.Create": {0}, "os.OpenFile": {0}, "os.WriteFile": {0}, "os.Symlink": {1}, "os.Link": {1},
	"io/ioutil.WriteFile": {0}, "io/ioutil.TempFile": {0}, "io/ioutil.TempDir": {0},
	"syscall.Unlink": {0}, "syscall.Rmdir": {0}, "syscall.Rename": {0, 1}, "syscall.Chmod": {0}, "syscall.Chown": {0},
	"syscall.Lchown": {0}, "syscall.Truncate": {0}, "syscall.Mkdir": {0}, "syscall.Symlink": {1}, "syscall.Link": {1},
	"syscall.Mkfifo": {0}, "syscall.Mknod": {0}, "syscall.Creat": {0},
}

// mutArgs: the arguments of call that name something the call changes (directly, or through the parameter summary of a
// repository function).
func (h *zipHard) mutArgs(call ssa.CallInstruction) []ssa.Value {
	args := call.Common().Args
	var res []ssa.Value
	if idx, ok := fsMutators[ir.CalleeFullName(call)]; ok {
		if h.readOnlyOpen(call) {
			return nil
		}
		for _, i := range idx {
			if i < len(args) {
				res = append(res, args[i])
			}
		}
		return res
	}
	if cal := ir.StaticCallee(call); cal != nil {
		var is []int
		for i := range h.reachMut[cal] {
			is = append(is, i)
		}
		sort.Ints(is)
		for _, i := range is {
			if i < len(args) {
				res = append(res, args[i])
			}
		}
	}
	return res
}

// computeReachMut: the string parameters of repository functions from which a mutator argument derives (fixed point).
func (h *zipHard) computeReachMut() {
	h.reachMut = map[*ssa.Function]map[int]bool{}
	for changed := true; changed; {
		changed = false
		for _, fn := range h.fns {
			for i, p := range fn.Params {
				if !isStringType(p.Type()) || h.reachMut[fn][i] {
					continue
				}
				t := h.env.derives(fn, map[ssa.Value]bool{p: true})
				hit := false
				for _, call := range ir.Calls(fn) {
					for _, a := range h.mutArgs(call) {
						if t[a] {
							hit = true
						}
					}
				}
				if hit {
					if h.reachMut[fn] == nil {
						h.reachMut[fn] = map[int]bool{}
					}
					h.reachMut[fn][i] = true
					changed = true
				}
			}
		}
	}
}

func (h *zipHard) mutationTaint(rule string) {
	c := h.c
	h.computeReachMut()
	for _, fn := range h.fns {
		src := h.sourcesOf(fn)
		if len(src) == 0 {
			continue
		}
		t := h.env.derives(fn, src)
		n := 0
		for _, call := range ir.Calls(fn) {
			covered := map[ssa.Value]bool{}
			for _, a := range h.r1Sinks(call) {
				covered[a] = true
			}
			for _, a := range h.mutArgs(call) {
				if !t[a] {
					continue
				}
				if covered[a] {
					// R1 answers for this argument - with ITS sink set. When R1 accepts the call because the repository
					// function it goes to makes the test itself, that function must make it before the mutators R1
					// does not know as well (v_zip_u.go); reported only when it does not.
					if cal := ir.StaticCallee(call); cal != nil && h.env.inPkg[cal] && len(h.reachMut[cal]) > 0 {
						if g, _, err := h.guardedSink(fn, t, call, a); err == nil && !g && !h.calleeGuards(call, a, h.mutArgs, 0) && h.calleeGuards(call, a, h.r1Sinks, 0) {
							c.Decide(rule, fn, "entry name -> "+shortCallee(call)+" makes the containment test before every call that changes the file system", call, false,
								"the repository function the entry name is handed to tests it before it creates, but not before every call that removes or changes a file-system object: for an entry named ../x or /abs an object outside of the destination directory is removed or changed")
						}
					}
					continue
				}
				n++
				construct := "entry name -> " + shortCallee(call) + " is guarded"
				guarded, weak, err := h.guardedSink(fn, t, call, a)
				if err != nil {
					c.Undecided(rule, fn, construct, call, err.Error())
					continue
				}
				if !guarded && h.calleeGuards(call, a, h.mutArgs, 0) {
					guarded = true // the function the name is handed to makes the test itself (v_zip_u.go)
				}
				detail := "a path built from a zip entry name reaches " + ir.CalleeFullName(call) + " without a containment test known to have succeeded on it: for an entry named ../x or /abs an object outside of the destination directory is removed or changed"
				if !guarded && weak != "" {
					detail = "the only containment test on this path is unsound: " + weak
				}
				c.Decide(rule, fn, construct, call, guarded, detail)
			}
		}
		n += h.closureSinks(rule, fn, t)
		if n == 0 {
			c.Decide(rule, fn, "no further call that changes the file system is fed by an entry name", nil, true, "")
		}
	}
}

// guardedSink: argument a of call (in fn, taint t) is covered by a containment test at the call.
func (h *zipHard) guardedSink(fn *ssa.Function, t map[ssa.Value]bool, call ssa.CallInstruction, a ssa.Value) (bool, string, error) {
	weak := ""
	if h.guardedAt(t, a, call.Block(), nil, map[string]bool{}, &weak) {
		return true, "", nil
	}
	ev := h.c.containmentEvidence(fn, t, h.env.isContainment)
	ctors := h.env.ctorCalls(fn, 0)
	used := map[*ssa.Call]*ssa.Function{}
	q := ir.PathQuery{Fn: fn, Target: func(in ssa.Instruction, val *ir.Valuation) bool {
		if in != call.(ssa.Instruction) {
			return false
		}
		ra := val.Selected(a)
		if !t[ra] {
			return false
		}
		return !h.env.guardedOn(fn, t, ev, ctors, val, ra, used, &weak)
	}}
	w, err := q.Find()
	if err != nil {
		return false, "", err
	}
	return w == nil, weak, nil
}

// guardedAt: whenever control is in block b (entered over the edge from `from`, when given) the derived value v has
// passed a containment test: a test on v (or on the value v is the Dir/Clean of) is known true there, or v is a phi
// every operand of which had passed one when it left its predecessor (coinductively: a cycle of phis - a variable
// carried round a loop - is checked if every value entering the cycle is).
func (h *zipHard) guardedAt(t map[ssa.Value]bool, v ssa.Value, b, from *ssa.BasicBlock, seen map[string]bool, weak *string) bool {
	if !t[v] {
		return true
	}
	key := fmt.Sprintf("%s@%d", v.Name(), b.Index)
	if from != nil {
		key += fmt.Sprintf("<%d", from.Index)
	}
	if seen[key] {
		return true
	}
	seen[key] = true
	facts := ir.Facts(b)
	if from != nil {
		facts = ir.Facts(from)
		if ef := ir.EdgeFact(from, b); ef != nil {
			facts = append(append([]ir.Fact{}, facts...), *ef)
		}
	}
	for _, f := range facts {
		f = f.StripNot()
		gc, ok := f.Cond.(*ssa.Call)
		if !ok || !f.True {
			continue
		}
		isC, pred := h.env.isContainment(gc)
		if !isC {
			continue
		}
		covers := false
		for _, ga := range gc.Call.Args {
			if t[ga] && (same(ga, v) || dirOf(v, ga)) {
				covers = true
			}
		}
		if !covers {
			continue
		}
		if pred != nil {
			if ok, detail := h.env.predOK(pred); !ok {
				*weak = detail
				continue
			}
		}
		return true
	}
	if phi, ok := v.(*ssa.Phi); ok && len(phi.Edges) > 0 {
		for i, e := range phi.Edges {
			if !h.guardedAt(t, e, phi.Block(), phi.Block().Preds[i], seen, weak) {
				return false
			}
		}
		return true
	}
	return false
}

// closureRuns: where the closure value mc runs in its parent.
type closureRuns struct {
	defers  []*ssa.Defer // deferred in place
	calls   []ssa.Instruction
	escapes bool
}

func runsOf(mc *ssa.MakeClosure) closureRuns {
	var r closureRuns
	var uses func(v ssa.Value, depth int)
	uses = func(v ssa.Value, depth int) {
		refs := v.Referrers()
		if refs == nil {
			return
		}
		for _, ref := range *refs {
			switch x := ref.(type) {
			case *ssa.Defer:
				if x.Call.Value == v && !x.Call.IsInvoke() {
					r.defers = append(r.defers, x)
				} else {
					r.escapes = true
				}
			case *ssa.Call:
				if x.Call.Value == v && !x.Call.IsInvoke() {
					r.calls = append(r.calls, x)
				} else {
					r.escapes = true
				}
			case *ssa.Store:
				// kept in a local variable that is only loaded and stored (cleanup := func() {...})
				a, isAlloc := x.Addr.(*ssa.Alloc)
				if !isAlloc || x.Val != v || depth > 0 || a.Referrers() == nil {
					r.escapes = true
					continue
				}
				for _, ar := range *a.Referrers() {
					switch y := ar.(type) {
					case *ssa.Store:
						if y.Addr != ssa.Value(a) || (y != x && !ir.IsNilConst(y.Val)) {
							r.escapes = true
						}
					case *ssa.UnOp:
						if y.Op == token.MUL {
							uses(y, depth+1)
						} else {
							r.escapes = true
						}
					case *ssa.DebugRef:
					default:
						r.escapes = true
					}
				}
			case *ssa.DebugRef:
			default:
				r.escapes = true
			}
		}
	}
	uses(mc, 0)
	return r
}

// closureSinks is part (2) of the rule. Returns the number of sinks it found.
func (h *zipHard) closureSinks(rule string, fn *ssa.Function, t map[ssa.Value]bool) int {
	c := h.c
	n := 0
	ir.Instrs(fn, func(in ssa.Instruction) {
		mc, ok := in.(*ssa.MakeClosure)
		if !ok {
			return
		}
		k, ok := mc.Fn.(*ssa.Function)
		if !ok || len(k.Blocks) == 0 {
			return
		}
		seeds := map[ssa.Value]bool{}
		byCell := map[*ssa.Alloc]map[ssa.Value]bool{}
		var cells []*ssa.Alloc
		for i, b := range mc.Bindings {
			cell, isAlloc := b.(*ssa.Alloc)
			if !isAlloc || !t[cell] || i >= len(k.FreeVars) {
				continue
			}
			pt, isPtr := cell.Type().Underlying().(*types.Pointer)
			if !isPtr || !isStringType(pt.Elem()) {
				continue
			}
			fv := k.FreeVars[i]
			if fv.Referrers() == nil {
				continue
			}
			for _, r := range *fv.Referrers() {
				if u, isLoad := r.(*ssa.UnOp); isLoad && u.Op == token.MUL && u.X == ssa.Value(fv) {
					seeds[u] = true
					if byCell[cell] == nil {
						byCell[cell] = map[ssa.Value]bool{}
						cells = append(cells, cell)
					}
					byCell[cell][u] = true
				}
			}
		}
		if len(seeds) == 0 {
			return
		}
		c.Saw(k)
		tk := h.env.derives(k, seeds)
		for _, call := range ir.Calls(k) {
			for _, a := range h.mutArgs(call) {
				if !tk[a] {
					continue
				}
				n++
				construct := "entry name -> " + shortCallee(call) + " in a closure is guarded where the closure runs"
				// the closure makes the test itself
				if guarded, _, err := h.guardedSink(k, tk, call, a); err == nil && guarded {
					c.Decide(rule, fn, construct, call, true, "")
					continue
				}
				ok, undecided, detail := true, "", ""
				for _, cell := range cells {
					if !h.env.derives(k, byCell[cell])[a] {
						continue
					}
					o, u, d := h.cellCheckedAtRuns(fn, t, mc, cell)
					if u != "" && undecided == "" {
						undecided = u
					}
					if !o && u == "" && ok {
						ok, detail = false, d
					}
				}
				switch {
				case !ok:
					c.Decide(rule, fn, construct, call, false, detail)
				case undecided != "":
					c.Undecided(rule, fn, construct, call, undecided)
				default:
					c.Decide(rule, fn, construct, call, true, "")
				}
			}
		}
	})
	return n
}

// cellCheckedAtRuns: at every point of fn where the closure mc runs, the captured variable `cell` holds no
// entry-name-derived value that has not passed the containment test.
func (h *zipHard) cellCheckedAtRuns(fn *ssa.Function, t map[ssa.Value]bool, mc *ssa.MakeClosure, cell *ssa.Alloc) (ok bool, undecided, detail string) {
	// assignments inside closures are not followed
	var anon []*ssa.Function
	var collect func(f *ssa.Function)
	collect = func(f *ssa.Function) {
		for _, g := range f.AnonFuncs {
			anon = append(anon, g)
			collect(g)
		}
	}
	collect(fn)
	for _, g := range anon {
		for _, fv := range g.FreeVars {
			if ir.BindingOf(fv) != ssa.Value(cell) || fv.Referrers() == nil {
				continue
			}
			for _, r := range *fv.Referrers() {
				if st, isStore := r.(*ssa.Store); isStore && st.Addr == ssa.Value(fv) {
					return false, "the captured variable is also assigned inside a closure: which value the closure reads is not followed", ""
				}
				if _, isLoad := r.(*ssa.UnOp); !isLoad {
					if _, isDbg := r.(*ssa.DebugRef); !isDbg {
						return false, "the address of the captured variable is handed on inside a closure", ""
					}
				}
			}
		}
	}
	var stores []*ssa.Store
	var loads []*ssa.UnOp
	if cell.Referrers() != nil {
		for _, r := range *cell.Referrers() {
			switch x := r.(type) {
			case *ssa.Store:
				if x.Addr == ssa.Value(cell) && t[x.Val] {
					stores = append(stores, x)
				}
			case *ssa.UnOp:
				if x.Op == token.MUL {
					loads = append(loads, x)
				}
			}
		}
	}
	if len(stores) == 0 {
		return true, "", ""
	}
	runs := runsOf(mc)
	ev := h.c.containmentEvidence(fn, t, h.env.isContainment)
	ctors := h.env.ctorCalls(fn, 0)
	used := map[*ssa.Call]*ssa.Function{}
	weak := ""
	// loads of the variable that read what store s put there (on a path from s without another assignment)
	after := func(s *ssa.Store) []ssa.Value {
		var res []ssa.Value
		for _, l := range loads {
			if l.Block() == s.Block() {
				si, li := -1, -1
				for i, in := range s.Block().Instrs {
					if in == ssa.Instruction(s) {
						si = i
					}
					if in == ssa.Instruction(l) {
						li = i
					}
				}
				if li > si {
					res = append(res, l)
				}
				continue
			}
			if s.Block().Dominates(l.Block()) {
				res = append(res, l)
			}
		}
		return res
	}
	checked := func(val *ir.Valuation, s *ssa.Store, post []ssa.Value) bool {
		if h.env.guardedOn(fn, t, ev, ctors, val, s.Val, used, &weak) {
			return true
		}
		for _, l := range post {
			if h.env.guardedOn(fn, t, ev, ctors, val, l, used, &weak) {
				return true
			}
		}
		return false
	}
	isCellStore := func(in ssa.Instruction) bool {
		st, isStore := in.(*ssa.Store)
		return isStore && st.Addr == ssa.Value(cell)
	}
	for _, s := range stores {
		s := s
		post := after(s)
		if runs.escapes {
			// the closure may run at any time after it was made: the value must be tested when it is assigned
			q := ir.PathQuery{Fn: fn, Target: func(in ssa.Instruction, val *ir.Valuation) bool {
				return in == ssa.Instruction(s) && !checked(val, s, nil)
			}}
			w, err := q.Find()
			if err != nil {
				return false, err.Error(), ""
			}
			if w != nil {
				return false, "the closure that reads the captured variable escapes (it is stored, passed on or started with go) and the variable is assigned an entry-name-derived value that is not tested yet: when the closure runs is not followed", ""
			}
			continue
		}
		registered := map[*ssa.Defer]bool{}
		for _, d := range runs.defers {
			if ir.Dominates(d, s) {
				registered[d] = true
			}
		}
		q := ir.PathQuery{Fn: fn, From: s, FromFacts: true, Stop: isCellStore,
			Target: func(in ssa.Instruction, val *ir.Valuation) bool {
				// The test is a fact about the value the variable holds, and it stays one until the variable is assigned
				// again (the query stops there): the path remembers that it has seen the test succeed. Once the path
				// passes the definition of the assigned value again (the next iteration computes a new value under the
				// same SSA name) what is known about that name no longer speaks about the content of the variable.
				if def, isIn := s.Val.(ssa.Instruction); isIn && in == def {
					val.Mark("redefined")
				}
				if !val.Marked("tested") && !val.Marked("redefined") && checked(val, s, post) {
					val.Mark("tested")
				}
				for i, d := range runs.defers {
					if in == ssa.Instruction(d) {
						val.Mark(fmt.Sprintf("deferred%d", i))
						return false
					}
				}
				runsHere := false
				for _, rc := range runs.calls {
					if in == rc {
						runsHere = true
					}
				}
				if _, isRD := in.(*ssa.RunDefers); isRD {
					for i, d := range runs.defers {
						if registered[d] || val.Marked(fmt.Sprintf("deferred%d", i)) {
							runsHere = true
						}
					}
				}
				return runsHere && !val.Marked("tested")
			}}
		w, err := q.Find()
		if err != nil {
			return false, err.Error(), ""
		}
		if w != nil {
			d := "a closure reads the captured variable when it runs, and it runs on a path on which the entry-name-derived value assigned to the variable has not passed the containment test (the variable is assigned before the test): for an entry named ../x or /abs the closure removes or changes an object outside of the destination directory"
			if weak != "" {
				d = "the only containment test on this path is unsound: " + weak
			}
			return false, "", d + ": path " + w.String(h.c.P)
		}
	}
	return true, "", ""
}
