package rules

import (
	"go/token"
	"go/types"

	"golang.org/x/tools/go/ssa"

	"verif/checker/ir"
)

// Generalisations of the cancel rules of the timer family (c12_c13.go: R2 "heap.Remove only on the 'still queued' edge",
// R12 "a queued future is removed from the heap") for a 'still queued' test that is written as a predicate of the
// package (`if !heap.holds(fu) { return }`) and/or as the full membership test
//
//	idx >= 0 && idx < len(queue) && queue[idx] == fu
//
// instead of the bare `idx >= 0`.
//
// What the two rules need to know about the test:
//
//	R2   on the way to heap.Remove(h, fu.idx) the index is one of a queued future: idx >= 0 is known. Through a predicate:
//	     the Remove is guarded by an outcome of a static call, and idx >= 0 - of the future the call was given - is a guard
//	     fact at every exit of the callee that can produce that outcome (what inlining the predicate would show).
//	R12  an exit of the cancel routine that has not removed is taken only when the future is NOT queued. "Not queued" is
//	     known from idx < 0, and - RELYING ON R1 - from idx >= len(queue) and from queue[idx] != fu: R1 decides that
//	     Swap/Push/Pop keep `queue[i].idx == i` for every queued future and a negative index for every other one, so a
//	     future whose index is out of range, or at whose index somebody else sits, is not in the queue. (Without R1 the
//	     last two tests would say nothing; R1 is an obligation of every property that runs R12.) Through a predicate: the
//	     edge is an outcome of a static call and every exit of the callee that can produce that outcome is under one of
//	     the three tests (ir.ExitPoints splits `a && b && c` into its alternatives, each with its own facts).
//
// The callee of such a call must be a read-only function of the package (tmReadOnly): then the index it tested is the
// index the caller reads afterwards, under the same lock.

// tmIndexCmp normalises a comparison so that X is a load of the index field of a future accepted by isBase; ok == false
// when neither side is one.
func (r *timerRoles) tmIndexCmp(cm ir.Cmp, isBase func(ssa.Value) bool) (base, other ssa.Value, op token.Token, ok bool) {
	if b, isIdx := loadOfField(cm.X, r.fIdx); isIdx && isBase(b) {
		return b, cm.Y, cm.Op, true
	}
	if b, isIdx := loadOfField(cm.Y, r.fIdx); isIdx && isBase(b) {
		return b, cm.X, ir.SwapOp(cm.Op), true
	}
	return nil, nil, cm.Op, false
}

// tmQueuedCmp: the comparison says that the index of the future is the index of a queued one (idx >= 0, or a spelling
// that means the same given the values the field can hold: meansQueued).
func (r *timerRoles) tmQueuedCmp(cm ir.Cmp, isBase func(ssa.Value) bool) bool {
	_, y, op, ok := r.tmIndexCmp(cm, isBase)
	if !ok {
		return false
	}
	k, isC := ir.ConstInt(y)
	return isC && r.meansQueued(op, k)
}

// tmQueueSlice: v is the slice the queued futures live in - a value of the heap type itself when that is the slice
// (`type futures []*future`: *fs, cc.futures, a value receiver), or the slice-of-futures field of the heap object.
func (r *timerRoles) tmQueueSlice(v ssa.Value) bool {
	v = ir.Resolve(v)
	if v == nil || !r.isHeapSlice(v.Type()) {
		return false
	}
	if n, isNamed := v.Type().(*types.Named); isNamed && n.Origin() == r.futuresT {
		return true
	}
	switch x := v.(type) {
	case *ssa.UnOp:
		if fa, isFA := x.X.(*ssa.FieldAddr); isFA && x.Op == token.MUL {
			return namedOf(fa.X.Type()) == r.futuresT
		}
	case *ssa.Field:
		return namedOf(x.X.Type()) == r.futuresT
	}
	return false
}

// tmQueueLen: v is the number of queued futures: len of the queue's slice, or the heap's Len method when that is what
// it returns.
func (r *timerRoles) tmQueueLen(v ssa.Value) bool {
	call, ok := ir.Resolve(v).(*ssa.Call)
	if !ok {
		return false
	}
	if cc := builtinCall(call, "len"); cc != nil && len(cc.Args) == 1 {
		return r.tmQueueSlice(cc.Args[0])
	}
	return r.lenM != nil && ir.StaticCallee(call) == r.lenM && r.lenIsSliceLen()
}

// tmNotQueuedCmp: the comparison contradicts "the future is queued":
//
//	idx < 0 (idx <= -1, idx == -1 ...)   the index of a future outside the heap
//	idx >= len(queue) (>, ==)            given R1: a queued future's index is its position, which is < len(queue)
//	queue[idx] != fu                     given R1: a queued future sits at its index
func (r *timerRoles) tmNotQueuedCmp(cm ir.Cmp, isBase func(ssa.Value) bool) bool {
	if _, y, op, ok := r.tmIndexCmp(cm, isBase); ok {
		if k, isC := ir.ConstInt(y); isC {
			switch op {
			case token.LSS:
				return k <= 0
			case token.LEQ, token.EQL:
				return k <= -1
			}
			return false
		}
		if r.tmQueueLen(y) {
			return op == token.GEQ || op == token.GTR || op == token.EQL
		}
		return false
	}
	if cm.Op != token.NEQ {
		return false
	}
	// queue[fu.idx] != fu
	elemOf := func(v ssa.Value) (ssa.Value, bool) {
		u, ok := ir.Resolve(v).(*ssa.UnOp)
		if !ok || u.Op != token.MUL {
			return nil, false
		}
		ia, ok := u.X.(*ssa.IndexAddr)
		if !ok || !r.tmQueueSlice(ia.X) {
			return nil, false
		}
		b, isIdx := loadOfField(ia.Index, r.fIdx)
		if !isIdx || !isBase(b) {
			return nil, false
		}
		return b, true
	}
	if b, ok := elemOf(cm.X); ok && same(b, cm.Y) {
		return true
	}
	if b, ok := elemOf(cm.Y); ok && same(b, cm.X) {
		return true
	}
	return false
}

// tmReadOnly: fn is a function of the timer package that only reads: no store except to its own locals, no map update,
// no channel operation, no go/defer, and no call except len/cap, the heap's Len and functions of the same kind. What such
// a function has found out about a future (its index, the slot it sits in) still holds when it has returned, as long as
// the caller holds the lock it held at the call.
func (r *timerRoles) tmReadOnly(fn *ssa.Function, depth int) bool {
	if fn == nil || len(fn.Blocks) == 0 || fn.Pkg != r.callFn.Pkg || depth > 3 {
		return false
	}
	ok := true
	ir.Instrs(fn, func(in ssa.Instruction) {
		switch x := in.(type) {
		case *ssa.Store:
			if _, local := x.Addr.(*ssa.Alloc); !local {
				ok = false
			}
		case *ssa.MapUpdate, *ssa.Send, *ssa.Select, *ssa.Go, *ssa.Defer:
			ok = false
		case *ssa.UnOp:
			if x.Op == token.ARROW {
				ok = false
			}
		case *ssa.Call:
			if builtinCall(x, "len") != nil || builtinCall(x, "cap") != nil {
				return
			}
			cal := ir.StaticCallee(x)
			if cal == nil || x.Call.IsInvoke() {
				ok = false
				return
			}
			if cal == r.lenM || (cal != fn && r.tmReadOnly(cal, depth+1)) {
				return
			}
			ok = false
		}
	})
	return ok
}

type tmCmpPred func(cm ir.Cmp, isBase func(ssa.Value) bool) bool

// tmFactsImply reports whether one of the facts fs establishes a comparison satisfying pred about the future isBase
// accepts: the fact is such a comparison; or it fixes a flag that was computed under one on every way it can have that
// value (tmFlagImplies); or it is the outcome of a call of a read-only function of the package and the comparison is
// established - about the future the call was given - at every exit of the callee that can produce this outcome.
func (r *timerRoles) tmFactsImply(fs []ir.Fact, isBase func(ssa.Value) bool, pred tmCmpPred, depth int) bool {
	p := func(cm ir.Cmp) bool { return pred(cm, isBase) }
	for _, f := range fs {
		if cm, ok := f.Cmp(); ok && p(cm) {
			return true
		}
	}
	if depth >= 3 {
		return false
	}
	for _, f := range fs {
		ff := f.StripNot()
		if phi, ok := ff.Cond.(*ssa.Phi); ok && tmFlagImplies(phi, ff.True, p, 0, map[*ssa.Phi]bool{}) {
			return true
		}
		if r.tmOutcomeImplies(f, isBase, pred, depth) {
			return true
		}
	}
	return false
}

// tmOutcomeImplies: fact f says that a boolean result of a static call of a read-only function of the package has a
// certain value, and at every exit point of the callee that can return this value a comparison satisfying pred is
// established about the callee's parameter that stands for the caller's future (isBase of the argument). The facts of an
// exit point are its guard facts and, when the returned value is not a constant, that this value is the outcome.
func (r *timerRoles) tmOutcomeImplies(f ir.Fact, isBase func(ssa.Value) bool, pred tmCmpPred, depth int) bool {
	o, ok := yhOutcomeOf(f)
	if !ok || o.IsErr {
		return false
	}
	cal := ir.StaticCallee(o.Call)
	args := o.Call.Call.Args
	if cal == nil || len(args) != len(cal.Params) || !r.tmReadOnly(cal, 0) {
		return false
	}
	calleeBase := func(v ssa.Value) bool {
		prm, isPrm := ir.Resolve(v).(*ssa.Parameter)
		if !isPrm {
			return false
		}
		for i, q := range cal.Params {
			if q == prm {
				return isBase(args[i])
			}
		}
		return false
	}
	exits := yhConsistentExits(o)
	if len(exits) == 0 {
		return false
	}
	loopFree := tmLoopFree(cal)
	for _, ep := range exits {
		fs := yhExitFacts(ep)
		if res := ep.Result(o.Index); res != nil {
			if _, isC := tmBoolConst(ir.Resolve(res)); !isC {
				fs = append(fs, ir.Fact{Cond: res, True: o.Truth})
			}
		}
		if r.tmFactsImply(fs, calleeBase, pred, depth+1) {
			continue
		}
		// an exit behind a merge (`if a || b { return false }`): the comparison is established on every way into it
		if !loopFree || !r.tmEveryWayImplies(ep.Block, calleeBase, pred, depth+1, map[*ssa.BasicBlock]bool{}) {
			return false
		}
	}
	return true
}

// tmLoopFree: no block of fn is reached again from itself (no back edge).
func tmLoopFree(fn *ssa.Function) bool {
	for _, b := range fn.Blocks {
		for _, p := range b.Preds {
			if b.Dominates(p) {
				return false
			}
		}
	}
	return true
}

// tmEveryWayImplies: in a loop-free function, a comparison satisfying pred is established on every way to block b: it
// follows from the guard facts of b, or b has predecessors and for each of them it follows from the fact of the edge
// that leaves it towards b or, again, holds on every way to that predecessor. (Loop-free: every value is computed at
// most once per activation, so a fact established on the way to a block still holds in it.)
func (r *timerRoles) tmEveryWayImplies(b *ssa.BasicBlock, isBase func(ssa.Value) bool, pred tmCmpPred, depth int, memo map[*ssa.BasicBlock]bool) bool {
	if res, done := memo[b]; done {
		return res
	}
	memo[b] = false
	res := r.tmFactsImply(xcFacts(b), isBase, pred, depth)
	if !res && len(b.Preds) > 0 {
		res = true
		for _, p := range b.Preds {
			if ef := ir.EdgeFact(p, b); ef != nil && r.tmFactsImply([]ir.Fact{*ef}, isBase, pred, depth) {
				continue
			}
			if !r.tmEveryWayImplies(p, isBase, pred, depth, memo) {
				res = false
				break
			}
		}
	}
	memo[b] = res
	return res
}

// tmQueuedThroughOutcome (R2): block b is guarded by the outcome of a read-only predicate of the package under which the
// index of future base is known to be that of a queued future.
func (r *timerRoles) tmQueuedThroughOutcome(b *ssa.BasicBlock, base ssa.Value) bool {
	isBase := func(v ssa.Value) bool { return same(v, base) }
	for _, f := range xcFacts(b) {
		if r.tmOutcomeImplies(f, isBase, r.tmQueuedCmp, 0) {
			return true
		}
	}
	return false
}

// tmCancelledFuture returns the test "v is the future fn cancels": a parameter (or the receiver) of fn of the future
// type; when fn has none (the future arrives as an interface value), any value of the future type.
func (r *timerRoles) tmCancelledFuture(fn *ssa.Function) func(ssa.Value) bool {
	isFuture := func(v ssa.Value) bool {
		if v == nil {
			return false
		}
		_, isPtr := v.Type().Underlying().(*types.Pointer)
		return isPtr && namedOf(v.Type()) == r.futureT
	}
	var prms []*ssa.Parameter
	for _, p := range fn.Params {
		if isFuture(p) {
			prms = append(prms, p)
		}
	}
	if len(prms) == 0 {
		return isFuture
	}
	return func(v ssa.Value) bool {
		p, ok := ir.Resolve(v).(*ssa.Parameter)
		if !ok {
			return false
		}
		for _, q := range prms {
			if q == p {
				return true
			}
		}
		return false
	}
}

// tmNotQueuedEdge (R12): taking the edge from -> to of the cancel routine fn tells that the future it cancels is not in
// the heap - by one of the comparisons of tmNotQueuedCmp, known directly, through a flag, or through the outcome of a
// read-only predicate.
func (r *timerRoles) tmNotQueuedEdge(fn *ssa.Function, from, to *ssa.BasicBlock) bool {
	ef := ir.EdgeFact(from, to)
	if ef == nil {
		return false
	}
	return r.tmFactsImply([]ir.Fact{*ef}, r.tmCancelledFuture(fn), r.tmNotQueuedCmp, 0)
}
