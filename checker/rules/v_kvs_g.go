package rules

import (
	"go/token"
	"go/types"
	"regexp"
	"strings"

	"golang.org/x/tools/go/ssa"

	"verif/checker/ir"
	"verif/checker/report"
)

// Rules of the kvs backends added after seeded round g (C02-g2, C06-g2, C06-g1).

// runKeepingG runs a rule set in a scratch context and takes over the obligations whose construct keep() accepts
// (one rule function deciding several clauses, of which another property needs only some).
func (c *Ctx) runKeepingG(rule string, run func(sub *Ctx), keep func(construct string) bool) {
	sub := &Ctx{P: c.P, R: report.NewResult(c.R.Property, c.R.Config), keyNames: c.keyNames}
	run(sub)
	ordinal := regexp.MustCompile(`#[0-9]+$`)
	for _, o := range sub.R.Obligations {
		parts := strings.SplitN(o.Key, "|", 3)
		if len(parts) != 3 {
			c.R.Errorf("%s: obligation key %q not understood", rule, o.Key)
			continue
		}
		construct := ordinal.ReplaceAllString(parts[2], "")
		if keep(construct) {
			c.R.Add(o.Rule, parts[1], construct, o.Pos, o.Status, o.Detail)
		}
	}
	c.R.Errors = append(c.R.Errors, sub.R.Errors...)
	c.R.Functions = append(c.R.Functions, sub.R.Functions...)
}

// ---------------------------------------------------------------------------
// a lost transaction is told apart from a removed key (C06.R13 / C03.R20; the second clause of C02.R4)

// redisLostTxReread: a WATCH/EXEC transaction is also lost when the watched key was removed - deleted, or EXPIRED - between
// the transaction's read and its EXEC. The CAS takes effect at EXEC, i.e. after the expiration: an expired record is a
// deleted one, and a CAS on a deleted key answers ErrNotExist, not ErrConflict ("another version is stored" about a
// record that does not exist). So on the TxFailedErr edge the key is read again and the error of that read reaches the
// result. This is the clause redisLoserOutcome decides second; the first ("TxFailedErr is reported as ErrConflict") is
// C02's alone.
func (c *Ctx) redisLostTxReread(r *redisRoles, rule string) {
	c.runKeepingG(rule, func(sub *Ctx) { sub.redisLoserOutcome(r, rule) },
		func(construct string) bool { return strings.HasPrefix(construct, "lost transaction:") })
	if c.R.Count(rule) < 1 {
		c.R.Errorf("%s: the lost-transaction clause produced no obligation (floor 1)", rule)
	}
}

// ---------------------------------------------------------------------------
// command census of the redis backend (C02.R15)

// redisMutationsG are the go-redis commands that write, re-time or remove a key; redisRemovalsG those that remove.
var redisMutationsG = []string{"Set", "SetNX", "SetEX", "SetXX", "SetArgs", "SetRange", "MSet", "MSetNX", "GetSet", "GetDel", "GetEx",
	"Append", "Incr", "IncrBy", "IncrByFloat", "Decr", "DecrBy", "Del", "Unlink", "Expire", "ExpireAt", "PExpire", "PExpireAt",
	"Persist", "Rename", "RenameNX", "Copy", "Move", "Restore", "RestoreReplace", "FlushDB", "FlushAll", "FlushDBAsync", "FlushAllAsync"}
var redisRemovalsG = []string{"Del", "Unlink", "GetDel", "FlushDB", "FlushAll", "FlushDBAsync", "FlushAllAsync"}

// redisRawG send a command the census cannot classify.
var redisRawG = []string{"Do", "Eval", "EvalSha", "Process"}

func redisCmdAmongG(in ssa.Instruction, names []string) (*ssa.Call, string) {
	for _, n := range names {
		if call := redisCmd(in, n); call != nil {
			// a command of the client / transaction / pipeline, not an accessor of a command's result
			recv := ir.Recv(call)
			if recv != nil {
				if nt := namedOf(recv.Type()); nt != nil && strings.HasSuffix(nt.Obj().Name(), "Cmd") {
					continue
				}
			}
			return call, n
		}
	}
	return nil, ""
}

// redisCommandCensus: every kvs.Storage operation of the redis backend is ONE atomic step at the server - one command,
// or one WATCH/MULTI/EXEC transaction (C02.R3). A read operation (Get, GetMany, ListKeys, WaitForVersionChange) that also
// issues a command which writes or removes a key is two steps: what it removes by key is whatever is stored THEN, also
// a record a concurrent Put/Create/CasByVersion has written (successfully, with a version handed out) between the
// read and the removal - a write lost without any Delete in the history, which no sequential order explains. Clauses:
//
//	(a) no function a read operation can reach (its literals, the functions of the backend it calls, other operations it
//	    is built on) issues a command of the mutation list; a raw command (Do / Eval / Process) there is not established;
//	(b) a command that removes a key (DEL, UNLINK, GETDEL, FLUSH*) is issued by Delete only - in Delete or in a private
//	    helper all call sites of which lie in Delete - unless it is queued on a MULTI/EXEC pipeline (atomic with the
//	    transaction that queues it).
func (c *Ctx) redisCommandCensus(r *redisRoles, rule string) {
	inPkg := map[*ssa.Function]bool{}
	for _, f := range r.all {
		inPkg[f] = true
	}
	reach := func(from *ssa.Function) []*ssa.Function {
		seen := map[*ssa.Function]bool{}
		var order []*ssa.Function
		var walk func(f *ssa.Function, d int)
		walk = func(f *ssa.Function, d int) {
			if f == nil || seen[f] || d > 5 || len(f.Blocks) == 0 || !inPkg[f] {
				return
			}
			seen[f] = true
			order = append(order, f)
			for _, a := range f.AnonFuncs {
				walk(a, d+1)
			}
			ir.Instrs(f, func(in ssa.Instruction) {
				if ci, ok := in.(ssa.CallInstruction); ok {
					walk(ir.StaticCallee(ci), d+1)
				}
			})
		}
		walk(from, 0)
		return order
	}
	for _, name := range []string{"Get", "GetMany", "ListKeys", "WaitForVersionChange"} {
		fn := r.storage[name]
		const construct = "a read operation issues no redis command that writes or removes a key"
		var bad, raw ssa.Instruction
		what := ""
		for _, f := range reach(fn) {
			ir.Instrs(f, func(in ssa.Instruction) {
				if call, n := redisCmdAmongG(in, redisMutationsG); call != nil && bad == nil {
					bad, what = in, n+" in "+ir.FnName(f)
				}
				if call, n := redisCmdAmongG(in, redisRawG); call != nil && raw == nil {
					raw, what = in, n+" in "+ir.FnName(f)
				}
			})
		}
		switch {
		case bad != nil:
			c.Decide(rule, fn, construct, bad, false, name+" issues "+what+": the read and this command are two steps at the server - what the command writes over or removes is whatever is stored under the key then, also the record a concurrent Put/Create/CasByVersion completed in between (a successful write lost without a Delete in the history: no sequential order of the operations explains the following reads)")
		case raw != nil:
			c.Undecided(rule, fn, construct, raw, name+" sends a raw command ("+what+"): whether it writes is not decided")
		default:
			c.Decide(rule, fn, construct, nil, true, "")
		}
	}
	// (b) who may remove
	del := r.storage["Delete"]
	var onlyFromDelete func(f *ssa.Function, d int) bool
	onlyFromDelete = func(f *ssa.Function, d int) bool {
		root := rootFnV(f)
		if root == del {
			return true
		}
		if d > 2 || root.Object() == nil || root.Object().Exported() {
			return false
		}
		for _, m := range r.storage {
			if m == root {
				return false
			}
		}
		sites := 0
		ok := true
		for _, caller := range r.all {
			ir.Instrs(caller, func(in ssa.Instruction) {
				if ci, isCI := in.(ssa.CallInstruction); isCI && ir.StaticCallee(ci) == root {
					sites++
					if !onlyFromDelete(caller, d+1) {
						ok = false
					}
					return
				}
				for _, op := range in.Operands(nil) {
					if op != nil && *op == ssa.Value(root) {
						ok = false // used as a value: its callers are not known
					}
				}
			})
		}
		return ok && sites > 0
	}
	n := 0
	for _, f := range r.all {
		f := f
		ir.Instrs(f, func(in ssa.Instruction) {
			call, cmd := redisCmdAmongG(in, redisRemovalsG)
			if call == nil {
				return
			}
			n++
			queued := false
			if recv := ir.Recv(call); recv != nil {
				if nt := namedOf(recv.Type()); nt != nil && (nt.Obj().Name() == "Pipeliner" || nt.Obj().Name() == "Pipeline") {
					queued = true
				}
			}
			c.Decide(rule, f, cmd+" is issued by Delete only", in, queued || onlyFromDelete(f, 0) || c.redisAtomicRemovalU(r, call),
				"a command that removes a key is issued outside Delete (and outside a MULTI/EXEC pipeline): it removes by key whatever is stored when it arrives - a record another writer has just stored successfully disappears without a Delete in the history; an operation that is to drop a record it has examined must do both in one atomic step")
		})
	}
	if n < 1 {
		c.R.Errorf("%s found no key-removing command in the redis backend (floor 1: Delete's DEL)", rule)
	}
}

// ---------------------------------------------------------------------------
// the expiration is compared as a time, or as an integer that cannot wrap (C06.R11 / C03.R14)

// expiryIntegerNoWrap: a record's ExpiresAt is a time.Time and the backends support expirations in the far future (the
// usual "never" sentinels: year 9999, time.Unix(1<<40, 0); see the saturation guards of the TTL mapping and of the waiter's
// timer). time.Time compares such moments correctly (Before / After / Compare / Equal / Sub with its saturation); so does
// Time.Unix() (seconds fit int64 for every representable time). Time.UnixNano() is defined for the years 1678..2262 only,
// UnixMicro() and UnixMilli() wrap further out: for 9999-12-31 UnixNano() is NEGATIVE, "deadline < now" holds at once and
// the record is dropped by the first operation that touches it - an expiration in the future treated as past.
// Clause: in the kvs packages no UnixNano / UnixMicro / UnixMilli is taken from a record's expiration (the ExpiresAt
// field of a kvs.Record, read directly, through a local copy, through UTC/Local/In/Round/Truncate/Add, or handed to a
// private helper as *time.Time / time.Time at every call site) when the integer is compared, used in arithmetic, stored or
// handed on. A conversion that sits behind a test on the same moment (a range guard) is not evaluated: not established.
// An integer that is only formatted (handed to an interface{} parameter) is not an obligation.
func (c *Ctx) expiryIntegerNoWrap(rule string) {
	_, _, _, recExpires, _ := resolveRecordRoles(c)
	var fns []*ssa.Function
	for _, rel := range []string{"kvs", "kvs/inmem", "kvs/redis"} {
		if c.P.HasPkg(rel) {
			fns = append(fns, c.P.FuncsOf(rel)...)
		}
	}
	isTimePtr := func(t types.Type) bool {
		_, isPtr := t.Underlying().(*types.Pointer)
		return isPtr && ir.IsNamed(t, "time", "Time")
	}
	sitesOf := func(fn *ssa.Function) []*ssa.Call {
		var res []*ssa.Call
		for _, caller := range fns {
			res = append(res, callsTo(caller, fn)...)
		}
		return res
	}
	var expiryPtr, expiryTime func(v ssa.Value, d int) bool
	expiryPtr = func(v ssa.Value, d int) bool {
		if v == nil || d > 4 {
			return false
		}
		if ir.LoadedField(v) == recExpires || ir.FieldOf(ir.Resolve(v)) == recExpires {
			return true
		}
		if p, ok := ir.Resolve(v).(*ssa.Parameter); ok && isTimePtr(p.Type()) && p.Parent().Parent() == nil {
			idx := paramIndex(p.Parent(), p)
			sites := sitesOf(p.Parent())
			if idx < 0 || len(sites) == 0 {
				return false
			}
			for _, s := range sites {
				if idx >= len(s.Call.Args) || !expiryPtr(s.Call.Args[idx], d+1) {
					return false
				}
			}
			return true
		}
		return false
	}
	expiryTime = func(v ssa.Value, d int) bool {
		if v == nil || d > 4 {
			return false
		}
		switch x := ir.Resolve(v).(type) {
		case *ssa.UnOp:
			return x.Op == token.MUL && expiryPtr(x.X, d)
		case *ssa.Call:
			switch ir.CalleeFullName(x) {
			case "(time.Time).UTC", "(time.Time).Local", "(time.Time).In", "(time.Time).Round", "(time.Time).Truncate", "(time.Time).Add", "(time.Time).AddDate":
				return len(x.Call.Args) > 0 && expiryTime(x.Call.Args[0], d+1)
			}
		case *ssa.Parameter:
			if ir.IsNamed(x.Type(), "time", "Time") && !isTimePtr(x.Type()) && x.Parent().Parent() == nil {
				idx := paramIndex(x.Parent(), x)
				sites := sitesOf(x.Parent())
				if idx < 0 || len(sites) == 0 {
					return false
				}
				for _, s := range sites {
					if idx >= len(s.Call.Args) || !expiryTime(s.Call.Args[idx], d+1) {
						return false
					}
				}
				return true
			}
		}
		return false
	}
	// decides: the integer takes part in a comparison or arithmetic, is stored, returned or handed to a function of the
	// repository (anything but being formatted)
	decides := func(call *ssa.Call) bool {
		seen := map[ssa.Value]bool{}
		var follow func(v ssa.Value, d int) bool
		follow = func(v ssa.Value, d int) bool {
			if v == nil || seen[v] || d > 8 || v.Referrers() == nil {
				return false
			}
			seen[v] = true
			for _, ref := range *v.Referrers() {
				switch x := ref.(type) {
				case *ssa.DebugRef, *ssa.MakeInterface:
				case *ssa.BinOp:
					return true
				case *ssa.Convert:
					if follow(x, d+1) {
						return true
					}
				case *ssa.ChangeType:
					if follow(x, d+1) {
						return true
					}
				case *ssa.Phi:
					if follow(x, d+1) {
						return true
					}
				case *ssa.Store:
					if x.Val != v {
						continue
					}
					al, isAl := x.Addr.(*ssa.Alloc)
					if !isAl {
						return true // kept in a field / element
					}
					if al.Referrers() != nil {
						for _, r2 := range *al.Referrers() {
							if ld, isLd := r2.(*ssa.UnOp); isLd && ld.Op == token.MUL && follow(ld, d+1) {
								return true
							}
							if _, isMC := r2.(*ssa.MakeClosure); isMC {
								return true
							}
						}
					}
				case *ssa.Return, *ssa.MapUpdate, *ssa.Send:
					return true
				case ssa.CallInstruction:
					if cal := ir.StaticCallee(x); cal != nil && cal.Pkg != nil && strings.HasPrefix(cal.Pkg.Pkg.Path(), ir.Module) {
						return true
					}
				default:
					return true
				}
			}
			return false
		}
		return follow(call, 0)
	}
	n := 0
	for _, fn := range fns {
		fn := fn
		ir.Instrs(fn, func(in ssa.Instruction) {
			call, ok := in.(*ssa.Call)
			if !ok || len(call.Call.Args) == 0 {
				return
			}
			conv := ""
			switch ir.CalleeFullName(call) {
			case "(time.Time).UnixNano":
				conv = "UnixNano"
			case "(time.Time).UnixMicro":
				conv = "UnixMicro"
			case "(time.Time).UnixMilli":
				conv = "UnixMilli"
			default:
				return
			}
			if !expiryTime(call.Call.Args[0], 0) || !decides(call) {
				return
			}
			n++
			construct := "a record's expiration is not turned into an integer that can wrap (" + conv + ")"
			guarded := ir.HasFact(call.Block(), func(f ir.Fact) bool {
				g, isCall := f.StripNot().Cond.(*ssa.Call)
				if !isCall {
					return false
				}
				switch ir.CalleeFullName(g) {
				case "(time.Time).Before", "(time.Time).After", "(time.Time).Compare":
					for _, a := range g.Call.Args {
						if expiryTime(a, 0) {
							return true
						}
					}
				}
				return false
			})
			if guarded {
				c.Undecided(rule, fn, construct, in, "the conversion sits behind a test of the same moment (a range guard?): whether the guard keeps the moment inside the range of "+conv+"() is not evaluated")
				return
			}
			c.Decide(rule, fn, construct, in, false, "the expiration of a record is converted with Time."+conv+"() and the integer is compared / kept: the result is undefined outside the range of the conversion (UnixNano: years 1678..2262) - an expiration in the far future (year 9999, the usual 'never') becomes a negative number, 'deadline < now' holds at once and the record is dropped by the first operation that touches it although its expiration lies in the future; compare time.Time values (Before/After/Compare) or Time.Unix() seconds")
		})
	}
	if n == 0 {
		pos := token.NoPos
		if rec := c.P.LookupType("kvs", "Record"); rec != nil {
			pos = rec.Obj().Pos()
		}
		c.DecideAt(rule, "kvs", "no record expiration is turned into an integer that can wrap (UnixNano / UnixMicro / UnixMilli)", pos, true, "")
	}
}
