package rules

import (
	"go/token"
	"go/types"

	"golang.org/x/tools/go/ssa"

	"verif/checker/ir"
)

// Rule of the in-memory kvs backend added after seeded round h (C07-h2).

// inmemOneKeySpelling (C07.W13): writers wake the waiters registered under the key they write. When the backend
// canonicalises keys - some function of the package applies a key mapping (a function string -> string of the package
// whose result is used to index the record table; resolved by that use, not by its name) - the record table lives in
// the space of MAPPED keys, and so must the waiter table: every index of the waiter table (lookup of the entry,
// registration, removal) and every key handed to the notify routine is a mapped key. A waiter registered under the
// caller's raw spelling ("/a") is never found by a writer that notifies the canonical one ("a"): a lost wake-up for
// every key whose spelling the mapping changes.
//
// "Mapped" is provenance, decided per use: the value is the result of a mapping function; or read from a field of a
// local record whose field was last assigned a mapped value (the assignment dominates the read, no other write to the
// field or the record in between); or a key produced by ranging over the record table (keys stored there are mapped);
// or a parameter of a private helper to which every call site passes a mapped value. Without any mapping function in
// the package there is one spelling and nothing to compare (one discharged census obligation).
func (c *Ctx) inmemOneKeySpelling(r *inmemRoles, rule string) {
	isStr := func(t types.Type) bool {
		b, ok := t.Underlying().(*types.Basic)
		return ok && b.Kind() == types.String
	}
	candidate := func(fn *ssa.Function) bool {
		if fn == nil || fn.Parent() != nil || len(fn.Blocks) == 0 || fn.Signature.Recv() != nil {
			return false
		}
		ps, rs := fn.Signature.Params(), fn.Signature.Results()
		if ps.Len() != 1 || rs.Len() != 1 || !isStr(ps.At(0).Type()) || !isStr(rs.At(0).Type()) {
			return false
		}
		for _, f := range r.all {
			if f == fn {
				return true
			}
		}
		return false
	}
	mappers := map[*ssa.Function]bool{}
	var mapped func(v ssa.Value, d int) bool
	// storedMapped: the load ld of address addr (a local cell, or a field of one) reads what a dominating store of a
	// mapped value put there, with no other store to that place (or to the whole cell) in between
	storedMapped := func(ld *ssa.UnOp, cell *ssa.Alloc, field *types.Var, d int) bool {
		fn := ld.Parent()
		var good, others []ssa.Instruction
		unknown := false
		ir.Instrs(fn, func(in ssa.Instruction) {
			switch x := in.(type) {
			case *ssa.Store:
				switch a := x.Addr.(type) {
				case *ssa.Alloc:
					if a != cell {
						return
					}
					if field == nil && mapped(x.Val, d+1) {
						good = append(good, in)
					} else {
						others = append(others, in)
					}
				case *ssa.FieldAddr:
					if a.X != ssa.Value(cell) || field == nil || ir.FieldOf(a) != field {
						return
					}
					if mapped(x.Val, d+1) {
						good = append(good, in)
					} else {
						others = append(others, in)
					}
				}
			case *ssa.MakeClosure:
				for _, b := range x.Bindings {
					if b == ssa.Value(cell) {
						unknown = true
					}
				}
			}
		})
		if unknown {
			return false
		}
		for _, g := range good {
			if !ir.Dominates(g, ld) {
				continue
			}
			clean := true
			for _, o := range append(append([]ssa.Instruction{}, others...), good...) {
				if o == g {
					continue
				}
				w1, _ := (ir.Query{Fn: fn, From: g, Block: func(x ssa.Instruction) bool { return x == ssa.Instruction(ld) }, Target: func(x ssa.Instruction) bool { return x == o }}).Find()
				w2, _ := (ir.Query{Fn: fn, From: o, Block: func(x ssa.Instruction) bool { return x == g }, Target: func(x ssa.Instruction) bool { return x == ssa.Instruction(ld) }}).Find()
				if w1 != nil && w2 != nil {
					// another mapped store in between is as good
					isGood := false
					for _, g2 := range good {
						if g2 == o {
							isGood = true
						}
					}
					if !isGood {
						clean = false
					}
				}
			}
			if clean {
				return true
			}
		}
		return false
	}
	mapped = func(v ssa.Value, d int) bool {
		if v == nil || d > 5 {
			return false
		}
		switch x := v.(type) {
		case *ssa.Call:
			return mappers[ir.StaticCallee(x)]
		case *ssa.Phi:
			for _, e := range x.Edges {
				if e != v && !mapped(e, d+1) {
					return false
				}
			}
			return len(x.Edges) > 0
		case *ssa.Extract:
			if nx, ok := x.Tuple.(*ssa.Next); ok && x.Index == 1 {
				if rg, isRg := nx.Iter.(*ssa.Range); isRg && r.isRecsVal(rg.X) {
					return true // a key stored in the record table
				}
			}
			return false
		case *ssa.Parameter:
			fn := x.Parent()
			idx := paramIndex(fn, x)
			sites, ok := r.staticSites(fn)
			if idx < 0 || !ok {
				return false
			}
			for _, s := range sites {
				if idx >= len(s.Call.Args) || !mapped(s.Call.Args[idx], d+1) {
					return false
				}
			}
			return true
		case *ssa.UnOp:
			if x.Op != token.MUL {
				return false
			}
			switch a := x.X.(type) {
			case *ssa.Alloc:
				return storedMapped(x, a, nil, d)
			case *ssa.FieldAddr:
				if cell, ok := a.X.(*ssa.Alloc); ok {
					return storedMapped(x, cell, ir.FieldOf(a), d)
				}
			}
		}
		return false
	}
	// the mapping functions: resolved by use - their result indexes the record table. Found with every candidate assumed
	// to be one, then kept only when some record-table index really is its result.
	var cands []*ssa.Function
	for _, f := range r.all {
		if candidate(f) {
			cands = append(cands, f)
		}
	}
	recsIndex := func(in ssa.Instruction) ssa.Value {
		if lk := r.recsLookup(in); lk != nil {
			return lk.Index
		}
		if mu := r.recsUpdate(in); mu != nil {
			return mu.Key
		}
		if cc := r.recsDelete(in); cc != nil {
			return cc.Args[1]
		}
		return nil
	}
	final := map[*ssa.Function]bool{}
	for _, k := range cands {
		mappers = map[*ssa.Function]bool{k: true}
		for _, fn := range r.svcFns {
			ir.Instrs(fn, func(in ssa.Instruction) {
				if idx := recsIndex(in); idx != nil && mapped(idx, 0) {
					final[k] = true
				}
			})
		}
	}
	mappers = final
	if len(mappers) == 0 {
		c.DecideAt(rule, "kvs/inmem", "one key spelling: no key mapping is applied before the record table is indexed", r.svc.Obj().Pos(), true, "")
		return
	}
	for k := range mappers {
		c.Role("inmem.keyMapping", relName(k), k.Pos())
	}
	const detail = "the backend canonicalises keys before it indexes the record table, but this key is not a result of that mapping: the waiter table and the record table live in different key spaces - a waiter registered under the caller's spelling of a key is not found by a writer that notifies the canonical spelling (a lost wake-up for every key the mapping changes)"
	n := 0
	for _, fn := range r.svcFns {
		fn := fn
		ir.Instrs(fn, func(in ssa.Instruction) {
			var key ssa.Value
			what := ""
			switch x := in.(type) {
			case *ssa.Lookup:
				if r.isWaitersVal(x.X) {
					key, what = x.Index, "the waiter table is looked up under the mapped key"
				}
			case *ssa.MapUpdate:
				if r.isWaitersVal(x.Map) {
					key, what = x.Key, "the waiter is registered under the mapped key"
				}
			case *ssa.Call:
				if cc := builtinCall(x, "delete"); cc != nil && r.isWaitersVal(cc.Args[0]) {
					key, what = cc.Args[1], "the waiter entry is removed under the mapped key"
				} else if ir.StaticCallee(x) == r.notify && len(x.Call.Args) > r.notifyKey {
					key, what = x.Call.Args[r.notifyKey], "the notify routine is given the mapped key"
				}
			}
			if key == nil {
				return
			}
			n++
			c.Decide(rule, fn, what, in, mapped(key, 0), detail)
		})
	}
	if n == 0 {
		c.R.Errorf("%s found no use of the waiter table (floor 1)", rule)
	}
}
