package rules

import (
	"go/token"
	"go/types"
	"strings"

	"golang.org/x/tools/go/ssa"

	"verif/checker/ir"
)

// ---------------------------------------------------------------------------
// lock rules added after seeded round f
//   role locker.renewal     also when the scheduled function is a function value kept in a field (bound once)
//   C05.L13                 a renewal run gives up without a CAS attempt only when the tenure is over
//   C05.L14                 the version a renewal works with is private to its tenure (not a cell of the Locker object)

// routineOfFuncValueVL: the function of the package that runs when the function value v is called - the method behind a
// method value (`l.renew`: go/ssa's bound-method wrapper), a function literal that talks to the storage itself, the
// package function such a literal forwards to, or a plain function of the package. nil when v is not understood.
func (r *lockRoles) routineOfFuncValueVL(v ssa.Value, pkg *ssa.Package) *ssa.Function {
	switch x := ir.Resolve(v).(type) {
	case *ssa.MakeClosure:
		fn, _ := x.Fn.(*ssa.Function)
		if fn == nil {
			return nil
		}
		if strings.HasPrefix(fn.Synthetic, "bound method wrapper") {
			if obj, ok := fn.Object().(*types.Func); ok && obj != nil && fn.Prog != nil {
				if m := fn.Prog.FuncValue(obj); m != nil {
					if o := m.Origin(); o != nil {
						m = o
					}
					if m.Pkg == pkg && len(m.Blocks) > 0 {
						return m
					}
				}
			}
			return nil
		}
		if fn.Pkg == pkg && len(fn.Blocks) > 0 {
			return renewalOfClosureYA(r, fn)
		}
	case *ssa.Function:
		if x.Pkg == pkg && len(x.Blocks) > 0 {
			return x
		}
	}
	return nil
}

// renewalViaFuncFieldVL resolves the role "renewal routine" when what is handed to timeout.Call is not written at the
// arming site but read from a field (`timeout.Call(l.renewF, d)`, the field assigned once, e.g. in NewLocker): the
// routine is what every store into that field puts there. nil when some arming site or some store is not understood, or
// when they do not agree on one function.
func (r *lockRoles) renewalViaFuncFieldVL() *ssa.Function {
	var res *ssa.Function
	ok, n := true, 0
	consider := func(fn *ssa.Function) {
		if fn == nil || (res != nil && res != fn) {
			ok = false
			return
		}
		res = fn
		n++
	}
	for _, fn := range r.lockerFns {
		fn := fn
		ir.Instrs(fn, func(in ssa.Instruction) {
			tc := timeoutCallZA(in)
			if tc == nil {
				return
			}
			for _, o := range ir.Origins(tc.Call.Args[0]) {
				fld := ir.LoadedField(o)
				if fld == nil {
					if g := r.routineOfFuncValueVL(o, fn.Pkg); g != nil {
						consider(g)
					} else {
						ok = false
					}
					continue
				}
				if _, isSig := fld.Type().Underlying().(*types.Signature); !isSig {
					ok = false
					continue
				}
				stores := 0
				for _, g := range r.all {
					ir.Instrs(g, func(x ssa.Instruction) {
						if _, val, isSt := storeToField(x, fld); isSt {
							stores++
							for _, vo := range ir.Origins(val) {
								consider(r.routineOfFuncValueVL(vo, fn.Pkg))
							}
						}
					})
				}
				if stores == 0 {
					ok = false
				}
			}
		})
	}
	if !ok || n == 0 {
		return nil
	}
	return res
}

// ---------------------------------------------------------------------------
// C05.L14

// lockerCellReadVL: some way of producing v reads a cell of the Locker object - a field of the Locker loaded directly,
// through sync/atomic (atomic.Value.Load, atomic.LoadXxx, the typed atomics), or through a method of the Locker that
// returns such a read. Returns the field.
func (r *lockRoles) lockerCellReadVL(v ssa.Value, depth int, seen map[ssa.Value]bool) *types.Var {
	if v == nil || depth > 3 {
		return nil
	}
	// the address lies inside the Locker object or behind a pointer kept in it: &l.f, &l.f.g, &l.f[i], &l.p.g (p read
	// from the Locker when the code runs); the Locker's own field is returned
	ofLocker := func(addr ssa.Value) *types.Var {
		for i := 0; i < 8 && addr != nil; i++ {
			switch x := addr.(type) {
			case *ssa.FieldAddr:
				if namedOf(x.X.Type()) == r.locker {
					return ir.FieldOf(x)
				}
				addr = x.X
			case *ssa.IndexAddr:
				addr = x.X
			case *ssa.UnOp:
				if x.Op != token.MUL {
					return nil
				}
				addr = x.X
			default:
				return nil
			}
		}
		return nil
	}
	for _, o := range ir.Origins(v) {
		if seen[o] {
			continue
		}
		seen[o] = true
		switch x := o.(type) {
		case *ssa.TypeAssert:
			if f := r.lockerCellReadVL(x.X, depth, seen); f != nil {
				return f
			}
		case *ssa.Extract:
			if f := r.lockerCellReadVL(x.Tuple, depth, seen); f != nil {
				return f
			}
		case *ssa.UnOp:
			if x.Op == token.MUL {
				if f := ofLocker(x.X); f != nil {
					return f
				}
			}
		case *ssa.Field:
			if namedOf(x.X.Type()) == r.locker {
				return ir.FieldOf(x)
			}
		case *ssa.Call:
			if ir.CalleeFullName(x) == "(*sync/atomic.Value).Load" && len(x.Call.Args) == 1 {
				if f := ofLocker(x.Call.Args[0]); f != nil {
					return f
				}
				continue
			}
			if op, addr, _, isAtomic := ir.AtomicCall(x); isAtomic && op == "Load" {
				if f := ofLocker(addr); f != nil {
					return f
				}
				continue
			}
			if cal := calleeYA(x); cal != nil && len(cal.Blocks) > 0 && cal.Pkg == r.renewal.Pkg && cal.Signature.Recv() != nil && namedOf(cal.Signature.Recv().Type()) == r.locker {
				for _, ret := range ir.Returns(cal) {
					for i := range ret.Results {
						if f := r.lockerCellReadVL(ir.ResultValue(ret, i), depth+1, seen); f != nil {
							return f
						}
					}
				}
			}
		}
	}
	return nil
}

// renewalVersionPerTenure is C05.L14. A renewal chain belongs to one tenure: it may compare-and-set only with the
// version its own tenure has written (the Create's, then each successful renewal's). The Locker object outlives the
// tenure - it is locked again after Unlock - and a renewal of the finished tenure can still be in flight then (its timer
// had fired before Unlock cancelled, see L9). A version kept in a cell of the Locker object is therefore shared by the
// chains of all tenures: the late renewal reads the next tenure's version (and renews a record that is not its own), or
// writes its dead version over the live one - the live chain then fails on the version, takes that for the definitive
// loss and stops, and the record lapses under the holder. The version a renewal works with must come with the attempt
// (a parameter / captured variable of the scheduled function, per tenure), never from a field of the Locker.
func (c *Ctx) renewalVersionPerTenure(r *lockRoles, rule string) {
	const construct = "version-private-to-tenure"
	what := func(f *types.Var) string {
		return "the lease renewal takes the record version it compare-and-sets with from the field '" + f.Name() + "' of the Locker object. The Locker outlives a tenure and a renewal of a finished tenure can still be in flight when the same Locker is locked again: the field is shared by the renewal chains of all tenures - the late renewal overwrites the new tenure's version with its dead one (or renews a record that is not its own), the live chain then gets ErrConflict, takes it for the definitive loss and stops; nobody renews and the record expires while the lock is held. The version must travel with the attempt (parameter / captured variable of the scheduled function)"
	}
	n := 0
	for _, fn := range r.renewalReachZA() {
		fn := fn
		ir.Instrs(fn, func(in ssa.Instruction) {
			cas := r.storageCall(in, "CasByVersion")
			if cas == nil {
				return
			}
			n++
			var shared *types.Var
			if cell := recordArgCell(cas.Call.Args[1]); cell != nil {
				for _, st := range fieldStores(cell, r.recVersion) {
					if f := r.lockerCellReadVL(st.Val, 0, map[ssa.Value]bool{}); f != nil {
						shared = f
					}
				}
			}
			if shared != nil {
				c.Decide(rule, r.renewal, construct, in, false, what(shared))
			} else {
				c.Decide(rule, r.renewal, construct, in, true, "")
			}
		})
	}
	if n == 0 {
		c.Decide(rule, r.renewal, construct, nil, true, "") // no CAS at all is L5's finding
	}
	// the version an attempt is armed with, where it is handed over at the arming site (acquisition or re-arming): a
	// scheduled function that reads the Locker's field when it runs gets whatever tenure's version is there by then
	seen := map[*ssa.Function]bool{}
	fns := append([]*ssa.Function{}, r.lockerFns...)
	fns = append(fns, r.renewalReachZA()...)
	for _, fn := range fns {
		if seen[fn] {
			continue
		}
		seen[fn] = true
		fn := fn
		where := fn
		for where.Parent() != nil {
			where = where.Parent()
		}
		ir.Instrs(fn, func(x ssa.Instruction) {
			tc := timeoutCallZA(x)
			if tc == nil {
				return
			}
			var shared *types.Var
			for _, v := range r.armedVersions(tc) {
				if f := r.lockerCellReadVL(v, 0, map[ssa.Value]bool{}); f != nil {
					shared = f
				}
			}
			if shared != nil {
				c.Decide(rule, where, "armed version travels with the attempt", x, false, what(shared))
			} else {
				c.Decide(rule, where, "armed version travels with the attempt", x, true, "")
			}
		})
	}
}

// ---------------------------------------------------------------------------
// C05.L13

// heldFlagTestVL decodes a branch fact as a test of the Locker's held flag (the word Unlock swaps 1 -> 0): over = the
// fact says the flag is not set, i.e. the tenure the renewal belongs to is over; reads = the condition reads the flag at
// all (a test whose meaning is not understood).
func (r *lockRoles) heldFlagTestVL(f ir.Fact) (over, reads bool) {
	isFlagLoad := func(v ssa.Value) bool {
		call, ok := ir.Resolve(v).(*ssa.Call)
		if !ok {
			return false
		}
		op, addr, _, isAtomic := ir.AtomicCall(call)
		if !isAtomic || op != "Load" {
			return false
		}
		_, isFlag := fieldAddrOf(addr, r.heldF)
		return isFlag
	}
	// cmpNotHeld: the comparison, known true, excludes the value 1 (flag set); known: it is a comparison of the flag
	cmpNotHeld := func(cm ir.Cmp) (notHeld, held, known bool) {
		x, y, op := cm.X, cm.Y, cm.Op
		if _, isC := ir.ConstInt(x); isC {
			x, y, op = y, x, ir.SwapOp(op)
		}
		k, isC := ir.ConstInt(y)
		if !isC || !isFlagLoad(x) {
			return false, false, false
		}
		// the flag takes the values 0 and 1
		sat := func(v int64) bool {
			switch op {
			case token.EQL:
				return v == k
			case token.NEQ:
				return v != k
			case token.LSS:
				return v < k
			case token.LEQ:
				return v <= k
			case token.GTR:
				return v > k
			case token.GEQ:
				return v >= k
			}
			return true
		}
		return sat(0) && !sat(1), sat(1) && !sat(0), true
	}
	// the flag kept in an atomic.Bool: the load is the condition itself (true = held)
	isBoolFlagLoad := func(v ssa.Value) bool {
		addr, ok := ir.IsAtomicBoolLoad(ir.Resolve(v))
		if !ok {
			return false
		}
		_, isFlag := fieldAddrOf(addr, r.heldF)
		return isFlag
	}
	if fb := f.StripNot(); isBoolFlagLoad(fb.Cond) {
		return !fb.True, true
	}
	if cm, ok := f.Cmp(); ok {
		if notHeld, _, known := cmpNotHeld(cm); known {
			return notHeld, true
		}
		// a tenure-over word: set by Unlock, reset by every way of starting a tenure (v_lock_g1.go)
		if over, w, _ := r.tenureWordTestVG(cm); w != nil && over {
			return true, true
		}
		// a tenure generation: a word of the Locker (read atomically) differs from the value this attempt was armed with
		// (a parameter or captured variable of the running function) - the Locker has moved on since
		if cm.Op == token.NEQ {
			for _, pair := range [][2]ssa.Value{{cm.X, cm.Y}, {cm.Y, cm.X}} {
				if r.lockerAtomicLoadVL(pair[0]) && attemptInputVL(pair[1]) {
					return true, true
				}
			}
		}
	}
	ff := f.StripNot()
	call, ok := ff.Cond.(*ssa.Call)
	if !ok {
		return false, false
	}
	cal := calleeYA(call)
	if cal == nil || len(cal.Blocks) == 0 || cal.Signature.Recv() == nil || namedOf(cal.Signature.Recv().Type()) != r.locker ||
		cal.Signature.Results().Len() != 1 || !types.Identical(cal.Signature.Results().At(0).Type().Underlying(), types.Typ[types.Bool]) {
		return false, false
	}
	// a predicate of the Locker: every return is one comparison of the flag; the predicate says "held" or "not held"
	saysHeld, saysNotHeld, all := true, true, true
	rets := ir.Returns(cal)
	for _, ret := range rets {
		if isBoolFlagLoad(ir.ResultValue(ret, 0)) {
			saysNotHeld = false // `return l.held.Load()`: the predicate says "held"
			continue
		}
		cm, isCmp := ir.AsCmp(ir.Resolve(ir.ResultValue(ret, 0)))
		if !isCmp {
			all = false
			break
		}
		notHeld, held, known := cmpNotHeld(cm)
		if !known {
			all = false
			break
		}
		saysHeld = saysHeld && held
		saysNotHeld = saysNotHeld && notHeld
	}
	if !all || len(rets) == 0 {
		// it may still read the flag somewhere
		readsFlag := false
		ir.Instrs(cal, func(in ssa.Instruction) {
			if v, isV := in.(ssa.Value); isV && isFlagLoad(v) {
				readsFlag = true
			}
		})
		return false, readsFlag
	}
	switch {
	case saysHeld:
		return !ff.True, true
	case saysNotHeld:
		return ff.True, true
	}
	return false, true
}

// lockerAtomicLoadVL: v is an atomic read of a word of the Locker object other than the held flag.
func (r *lockRoles) lockerAtomicLoadVL(v ssa.Value) bool {
	v = ir.Resolve(v)
	if ta, ok := v.(*ssa.TypeAssert); ok {
		v = ir.Resolve(ta.X)
	}
	call, ok := v.(*ssa.Call)
	if !ok {
		return false
	}
	var addr ssa.Value
	if ir.CalleeFullName(call) == "(*sync/atomic.Value).Load" && len(call.Call.Args) == 1 {
		addr = call.Call.Args[0]
	} else if op, a, _, isAtomic := ir.AtomicCall(call); isAtomic && op == "Load" {
		addr = a
	}
	fa, isFA := addr.(*ssa.FieldAddr)
	return isFA && namedOf(fa.X.Type()) == r.locker && ir.FieldOf(fa) != r.heldF
}

// attemptInputVL: v came with the running attempt - a parameter of the function, or a variable it has captured - and is
// not the Locker itself.
func attemptInputVL(v ssa.Value) bool {
	if u, ok := v.(*ssa.UnOp); ok && u.Op == token.MUL {
		if _, isFV := u.X.(*ssa.FreeVar); isFV {
			return true // read of a captured variable (whatever the enclosing function put there)
		}
	}
	switch x := ir.Resolve(v).(type) {
	case *ssa.Parameter:
		return x.Parent().Signature.Recv() == nil || x != x.Parent().Params[0]
	case *ssa.FreeVar:
		return true
	case *ssa.UnOp:
		if x.Op == token.MUL {
			_, isFV := x.X.(*ssa.FreeVar)
			return isFV
		}
	}
	return false
}

// renewalAttemptsUnlessTenureOver is C05.L13. When the renewal timer fires while the tenure lasts, the run has to try:
// every path through the scheduled function and the renewal routine passes the compare-and-set of the record (after
// which L3/L4 say how the run may end) or arms a later attempt. A run that returns before that - having written nothing
// and armed nothing - ends the chain for good; it is justified only by the tenure being over (the Locker's held flag
// read and found clear, or a generation word of the Locker found different from the one the attempt was armed with).
// It is not justified by the state of the provider: Shutdown() stops new acquisitions (C04.R4/R8)
// but does not release a lock that is held - its holder still runs its critical section and still calls Unlock - so a
// renewal that steps aside "because the provider is shut down" lets the record lapse under the holder, and another
// process acquires. (The exit behind a failed CAS is L4's subject and keeps its own key.)
func (c *Ctx) renewalAttemptsUnlessTenureOver(r *lockRoles, rule string) {
	const construct = "exit-without-cas-attempt"
	attempt := ir.NewEffects(c.P, func(x ssa.Instruction) bool {
		return r.storageCall(x, "CasByVersion") != nil || timeoutCallZA(x) != nil
	})
	what := "the lease renewal can return without having attempted the compare-and-set and without arming a later attempt, on a path that has not found the tenure over (held flag clear): from then on nobody renews the record. A guard on anything else - the provider's shutdown channel, say: Shutdown() does not unlock, the holder is still in its critical section - silently ends the chain and the record expires while the lock is held"
	decide := func(fn, where *ssa.Function, cons string, passes func(ssa.Instruction) bool) {
		unknownTest := false
		q := ir.Query{Fn: fn, Block: passes, Target: ir.IsExit,
			BlockFact: func(f ir.Fact) bool {
				over, _ := r.heldFlagTestVL(f)
				return over
			}}
		w, err := q.Find()
		if err == nil && w != nil {
			// is the only thing between this path and a justification a test of the flag that is not understood?
			q.BlockFact = func(f ir.Fact) bool {
				over, reads := r.heldFlagTestVL(f)
				if reads && !over {
					// the opposite edge of an understood test is a real path; an opaque one is not decided
					if o2, _ := r.heldFlagTestVL(ir.Fact{Cond: f.Cond, True: !f.True}); !o2 {
						unknownTest = true
						return true
					}
				}
				return over
			}
			if w2, err2 := q.Find(); err2 == nil && w2 == nil && unknownTest {
				c.Undecided(rule, where, cons, w.End, "the run can end before the compare-and-set under a test of the held flag whose meaning is not understood")
				return
			}
		}
		switch {
		case err != nil:
			c.Undecided(rule, where, cons, nil, err.Error())
		case w != nil:
			c.Decide(rule, where, cons, w.End, false, what+r.tenureWordDiagnosisVG(fn)+": path "+w.String(c.P))
		default:
			c.Decide(rule, where, cons, nil, true, "")
		}
	}
	decide(r.renewal, r.renewal, construct, attempt.Is)
	// the function handed to timeout.Call, when it is a literal that forwards to the routine: it reaches the routine
	reaches := func(x ssa.Instruction) bool {
		if call, ok := x.(*ssa.Call); ok {
			if cal := calleeYA(call); cal != nil && cal == r.renewal {
				return true
			}
		}
		return attempt.Is(x)
	}
	seen := map[*ssa.Function]bool{r.renewal: true}
	fns := append([]*ssa.Function{}, r.lockerFns...)
	for _, fn := range r.renewalReachZA() {
		fns = append(fns, fn)
	}
	for _, fn := range fns {
		fn := fn
		ir.Instrs(fn, func(in ssa.Instruction) {
			tc := timeoutCallZA(in)
			if tc == nil {
				return
			}
			mc, isMC := ir.Resolve(tc.Call.Args[0]).(*ssa.MakeClosure)
			if !isMC {
				return
			}
			cl, _ := mc.Fn.(*ssa.Function)
			if cl == nil || seen[cl] || len(cl.Blocks) == 0 || strings.HasPrefix(cl.Synthetic, "bound method wrapper") {
				return
			}
			seen[cl] = true
			where := cl
			for where.Parent() != nil {
				where = where.Parent()
			}
			decide(cl, where, "scheduled function reaches the renewal routine", reaches)
		})
	}
}
