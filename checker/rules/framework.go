// Package rules contains the repository-specific rules, one file per property.
package rules

import (
	"fmt"
	"go/token"
	"reflect"
	"sort"

	"golang.org/x/tools/go/ssa"

	"verif/checker/ir"
	"verif/checker/report"
)

// Check is the static check of one property.
type Check struct {
	ID          string
	Title       string
	Pkgs        []string // repository packages (relative import paths) whose bodies the rules read
	Run         func(c *Ctx)
	Explanation string   // what the rules decide (the structural clause)
	NotDecided  string   // what they do not decide
	Trusted     []string // trusted base beyond the common one
	Technique   string
}

var registry = map[string]*Check{}

func register(c *Check) {
	if _, dup := registry[c.ID]; dup {
		panic("duplicate check " + c.ID)
	}
	if len(reentrySources[c.ID]) > 0 {
		c.Explanation += " " + reentryExplanation
		c.Technique += "; must-lockset with helper entry locksets against a may-acquire-first summary (no re-entrant mutex acquisition, also through String/Error methods handed to fmt or a logger)"
	}
	if len(blockingSources[c.ID]) > 0 {
		c.Explanation += " " + blockingExplanation
		c.Technique += "; may-lockset per mutex field with a least fixed point of the locks a function may be entered with (no blocking operation while the mutex may be held)"
	}
	if from := depSources[c.ID]; len(from) > 0 {
		c.Pkgs = withDepsV(c.ID, c.Pkgs)
		c.Explanation += " " + depExplanationV(c.ID)
		c.Technique += depTechniqueV(c.ID)
	}
	registry[c.ID] = c
}

// Get returns the check of a property, or nil.
func Get(id string) *Check { return registry[id] }

// IDs lists the registered property ids in order.
func IDs() []string {
	var res []string
	for k := range registry {
		res = append(res, k)
	}
	sort.Strings(res)
	return res
}

// Ctx is what a rule sees.
type Ctx struct {
	P *ir.Prog
	R *report.Result
	// keyNames: functions whose obligations are keyed by their role instead of their (private) name, so that a
	// listed known finding survives a rename of the function
	keyNames map[*ssa.Function]string
}

// KeyByRole makes the obligations located in fn use role (e.g. "role:redis.keyMapping") in their key.
func (c *Ctx) KeyByRole(fn *ssa.Function, role string) {
	if c.keyNames == nil {
		c.keyNames = map[*ssa.Function]string{}
	}
	c.keyNames[fn] = "role:" + role
}

// fatal aborts the run of the property with a CHECK-ERROR (unresolved role etc.).
type fatal struct{ msg string }

// Fatalf aborts the check with a CHECK-ERROR.
func (c *Ctx) Fatalf(format string, a ...any) {
	panic(fatal{fmt.Sprintf(format, a...)})
}

// RunCheck runs chk on p, converting panics into CHECK-ERRORs.
func RunCheck(chk *Check, p *ir.Prog, cfg string) (res *report.Result) {
	res = report.NewResult(chk.ID, cfg)
	for _, pk := range p.Pkgs {
		res.Packages = append(res.Packages, pk.PkgPath)
	}
	defer func() {
		if r := recover(); r != nil {
			if f, ok := r.(fatal); ok {
				res.Errorf("%s", f.msg)
				return
			}
			res.Errorf("checker panic: %v", r)
			panic(r)
		}
	}()
	ctx := &Ctx{P: p, R: res}
	chk.Run(ctx)
	if from := depSources[chk.ID]; len(from) > 0 {
		ctx.depContracts(chk.ID, from...)
	}
	for _, rel := range reentrySources[chk.ID] {
		ctx.noReentrantLock(chk.ID+".K1", p.FuncsOf(rel))
	}
	for _, rel := range blockingSources[chk.ID] {
		ctx.noBlockingUnderLock(chk.ID+".K2", p.FuncsOf(rel))
	}
	fs := map[string]bool{}
	for _, f := range res.Functions {
		fs[f] = true
	}
	res.Functions = res.Functions[:0]
	for f := range fs {
		res.Functions = append(res.Functions, f)
	}
	sort.Strings(res.Functions)
	return res
}

// Saw records that fn was analysed.
func (c *Ctx) Saw(fns ...*ssa.Function) {
	for _, fn := range fns {
		if fn != nil {
			c.R.Functions = append(c.R.Functions, ir.FnName(fn)+" @ "+c.P.Pos(fn.Pos()))
		}
	}
}

// Decide records an obligation located at instruction at (may be nil: then the function position).
func (c *Ctx) Decide(rule string, fn *ssa.Function, construct string, at ssa.Instruction, ok bool, detail string) {
	st := report.Discharged
	if !ok {
		st = report.Violated
	}
	c.add(rule, fn, construct, at, st, detail)
}

// Undecided records an obligation the rule could not decide (CHECK-ERROR, never a VIOLATION).
func (c *Ctx) Undecided(rule string, fn *ssa.Function, construct string, at ssa.Instruction, detail string) {
	c.add(rule, fn, construct, at, report.Undecided, detail)
}

func (c *Ctx) add(rule string, fn *ssa.Function, construct string, at ssa.Instruction, st report.Status, detail string) {
	pos := "-"
	where := "-"
	if fn != nil {
		where = ir.FnName(fn)
		if k, ok := c.keyNames[fn]; ok {
			where = k
		}
		pos = c.P.Pos(fn.Pos())
		c.Saw(fn)
	}
	if at != nil && !reflect.ValueOf(at).IsNil() {
		pos = c.P.InstrPos(at)
	}
	if st == report.Discharged {
		detail = ""
	}
	c.R.Add(rule, where, construct, pos, st, detail)
}

// DecideAt records an obligation at a source position not tied to an SSA function.
func (c *Ctx) DecideAt(rule, where, construct string, pos token.Pos, ok bool, detail string) {
	st := report.Discharged
	if !ok {
		st = report.Violated
	} else {
		detail = ""
	}
	c.R.Add(rule, where, construct, c.P.Pos(pos), st, detail)
}

// UndecidedAt is DecideAt for the undecided verdict.
func (c *Ctx) UndecidedAt(rule, where, construct string, pos token.Pos, detail string) {
	c.R.Add(rule, where, construct, c.P.Pos(pos), report.Undecided, detail)
}

// NoPath runs a must-pass-through query and records the obligation: discharged when no path exists.
func (c *Ctx) NoPath(rule string, construct string, at ssa.Instruction, q ir.Query, what string) bool {
	w, err := q.Find()
	if err != nil {
		c.Undecided(rule, q.Fn, construct, at, err.Error())
		return false
	}
	if w != nil {
		c.Decide(rule, q.Fn, construct, at, false, what+": path "+w.String(c.P))
		return false
	}
	c.Decide(rule, q.Fn, construct, at, true, "")
	return true
}

// Role records a resolved role in the evidence.
func (c *Ctx) Role(name string, sym string, pos token.Pos) {
	c.R.Role(name, sym+" @ "+c.P.Pos(pos))
}

// RequireFn aborts with a CHECK-ERROR when fn is nil.
func (c *Ctx) RequireFn(fn *ssa.Function, what string) *ssa.Function {
	if fn == nil || len(fn.Blocks) == 0 {
		c.Fatalf("role %q could not be resolved", what)
	}
	c.Saw(fn)
	claimFn(fn)
	return fn
}
