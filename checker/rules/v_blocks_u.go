package rules

// C17.R2 "bit set only when clear", knowledge by arithmetic, second spelling of the guard (round v): the guard is put on
// the RESULT of the bit search instead of on the byte,
//
//	if j := bits.TrailingZeros8(^buf[pos]); j < 8 { buf[pos] |= 1 << j ... }
//
// Why it is sound: j = TrailingZeros(X) with j below the width of X means X != 0 and bit j is the lowest set bit of X.
// X is the complement of the header byte v - at byte width (^v, possibly widened afterwards) or after widening
// (^uintN(v)); in every case the low 8 bits of X are the bits of ^v, so a j known to be below 8 is a position at which
// ^v has a set bit, i.e. v has a clear one. Accepted forms of "j is below 8", as branch facts at the store about the
// very call whose result is the shift count: j < k with k <= 8, j <= k with k <= 7, and - only for TrailingZeros8,
// whose result is 0..8 - j != 8. (A guard that only says "the complement is non-zero" stays unacceptable for the
// complement taken after widening, and nothing is known from a guard on another call or another byte.)

import (
	"go/token"

	"golang.org/x/tools/go/ssa"

	"verif/checker/ir"
)

// vbuResultBelowEight: the comparison c (already oriented: value on the left, constant on the right) says that the
// result of the bit-search call is below 8.
func vbuResultBelowEight(call *ssa.Call, c ir.Cmp) bool {
	if xcStripConv(c.X) != ssa.Value(call) {
		return false
	}
	k, isC := ir.ConstInt(xcStripConv(c.Y))
	if !isC {
		return false
	}
	switch c.Op {
	case token.LSS:
		return k <= 8
	case token.LEQ:
		return k <= 7
	case token.NEQ:
		return k == 8 && ir.CalleeFullName(call) == "math/bits.TrailingZeros8"
	}
	return false
}
