package rules

import (
	"go/constant"
	"go/token"

	"golang.org/x/tools/go/ssa"

	"verif/checker/ir"
)

var kvsPkgs = []string{"kvs", "kvs/inmem", "kvs/redis", "ulidutils", "cast"}

func init() {
	register(&Check{
		ID: "C02", Title: "KV storage: atomic operations, single CAS winner, fresh versions",
		Pkgs:      kvsPkgs,
		Run:       runC02,
		Technique: "static analysis: must-lockset dataflow and critical-section continuity (in-memory), origin/dominance analysis of the version field, who-may-call census of the redis commands, guard dominance, ownership (copy-on-store / copy-on-read) census of the in-memory record table, per-path must-pass-through of the write command on the success exits of the redis write operations (through transaction callbacks, helpers and with-style wrappers) (go/ssa)",
		Explanation: "R1 (in-memory): every access to the record and waiter tables is under the service mutex and every operation is exactly one critical section - it neither re-locks nor calls another locking method (WaitForVersionChange: per iteration, see C07). " +
			"R2: in both backends every record stored/encoded by Create, Put, PutMany and CasByVersion got its Version from ulidutils.NewID() by a store that dominates the write with no other write to the field in between; NewID is the string form of ulid.Make() (process-wide locked monotonic source). " +
			"R3 (redis): Create's only write command is SETNX and it succeeds only on SETNX's ok edge; CasByVersion reads through the Tx and writes in the MULTI/EXEC pipeline of a WATCH on the same key, guarded by version equality. " +
			"R4 (redis): a lost optimistic transaction (redis.TxFailedErr) is reported as ErrConflict. " +
			"R5: version mismatch -> ErrConflict, missing key -> ErrNotExist, present key -> ErrExist on the deciding edges of both backends (loser outcomes). R6: Put returns the record it wrote itself (not one read back). R7: PutMany stores every record of the batch. R4 also: after a lost WATCH/EXEC transaction the key is read again and the error of that read reaches the result (a transaction is also lost when the key was deleted/expired: the answer is then ErrNotExist, not ErrConflict). R8: the in-memory table stores Record.Copy() of what it is given and hands out copies (no caller can write memory the table holds). R8 also: Record.Copy() hands on every field of every record (no path to its return leaves a field of the result unassigned while the receiver's may be set, and what is assigned comes from that field) and shares no memory with its receiver (every slice/pointer/map field of the result is nil or freshly allocated on every path on which the receiver's field is not nil). R10: a record's value and TTL are written by one redis command (no EXPIRE/PEXPIRE/EXPIREAT/PERSIST/SetArgs/GETEX anywhere in the backend: a TTL written by a command of its own - also inside a pipeline - can land on another writer's value). R11: every redis command addresses the mapped key (the rule of C03.R10). R12 (in-memory): every acquisition of the service mutex is released on every path to a return (an Unlock or a deferred Unlock on the path): an operation that returns with the mutex held ends every later operation. R13 (redis): PutMany reports success only after a pass over the whole batch that writes every record - a loop left over its exhaustion edge that writes the element on every round, record by record or into the argument list of the one MSET, which is then sent (a batch command for a prefix of the batch, or a pass that ends early, leaves records with their old value and old version). R14 (redis): Create, Put, CasByVersion (and every private function of the backend that is handed one record and can issue a write command) report success only behind the redis command that writes the record - directly, inside the transaction callback, or in a helper / function literal every success exit of which lies behind it (an exit that reports success without the command leaves the old record under its old version: no order of the operations explains the following reads, and a stale CasByVersion still wins). R15 (redis): command census - no function a read operation (Get, GetMany, ListKeys, WaitForVersionChange) can reach issues a command that writes, re-times or removes a key, and a key-removing command (DEL, UNLINK, GETDEL, FLUSH*) is issued by Delete only, or queued on a MULTI/EXEC pipeline: a read followed by a removal is two steps at the server, the removal deletes by key whatever a concurrent writer has stored in between (a successful write lost without a Delete in the history).",
		NotDecided: "linearizability of concurrent histories; uniqueness of ULIDs and atomicity of SETNX / WATCH-EXEC inside the redis server (trusted).",
		Trusted:    []string{"go-redis: SetNX is atomic, Watch returns redis.TxFailedErr when EXEC aborts", "oklog/ulid: ulid.Make() is safe for concurrent use and monotonic"},
	})
	register(&Check{
		ID: "C03", Title: "KV backends implement one and the same sequential contract",
		Pkgs:      kvsPkgs,
		Run:       runC03,
		Technique: "static analysis: sibling agreement of the two kvs.Storage implementations on the error class returned on each deciding edge, field-coverage agreement of the record codec, constant agreement of the key prefix, command-order rule for batches, forward/backward dataflow of the storage key through the key mapping (injectivity), guard dominance on list lengths, ownership (copy-on-store / copy-on-read) census of the in-memory record table, path queries requiring the expiry decision behind every table lookup and range (in-memory), per-path must-pass-through of the write command on the success exits of the redis write operations, backward slice of the redis TTL to its clock readings with path queries for waits and loops between reading and command, invocation summaries of functions that are handed the issuing literal (go/ssa)",
		Explanation: "R23 (session 4): the in-memory ListKeys reports success only behind a complete walk over the record table (exhaustion edge of the range, or len(table)==0 known): only the compiled glob decides which keys a pattern denotes. " +
			"R1: on the deciding edges both backends return the class the contract names: Create present->ErrExist; Get/Delete/CasByVersion missing->ErrNotExist; CasByVersion stored!=expected->ErrConflict (redis: the nil reply is mapped to ErrNotExist by the error mapping, which every read path goes through). " +
			"R2: ErrExist is returned together with the version of the stored record. " +
			"R3: the record<->proto codec reads and writes every field of kvs.Record. R4: the key prefix added by the mapping has the length its inverse strips; ListKeys maps the pattern and un-maps results. " +
			"R5: one PutMany is written by a single strategy (one MSET, or record by record front to back), never both. " +
			"R6: every SET/SETNX gets the TTL computed from the ExpiresAt of the record being written (what is stored is what was given). " +
			"R7: every stored record gets a fresh version (C02.R2). R8: the in-memory ListKeys compiles the glob without separators (as redis MATCH has none). In R1 every ErrConflict/ErrNotExist return of CasByVersion sits on its deciding edge (no class is returned from anywhere else). " +
			"R9: the redis key mapping is injective - the storage key reaches the redis key only through prefixing (concatenation, Sprintf with a constant %s/%v/%q format); slicing, trimming, folding, cleaning or a merge of alternatives is a lossy step (each is its own obligation). R10: the key/pattern argument of every redis command is the mapped key. " +
			"R11: a command taking a caller-sized list (MGET, MSET) is issued only under a guard that the list is non-empty (the server rejects the empty form, the contract answers an empty batch with an empty result). R12: the in-memory table stores and hands out copies of records (Record.Copy()), so that Get returns what was last WRITTEN, not what the writer or another reader did to its buffer afterwards. Copy() hands on every field of every record (a lifetime dropped for some records keeps them for good in one backend only). R1 also: the in-memory CasByVersion reports ErrConflict only after the expiry decision (an expired record that was not purged yet is a missing key). R3 also: every decode of a stored record starts from an empty message (proto.Unmarshal, or a merging decode into a message that is local to the call and used once: proto3 leaves empty values and absent expiries off the wire). R13 (redis): PutMany reports success only after a pass over the whole batch that writes every record (the rule of C02.R13: Get must return what was last written). R14: arithmetic on a saturating time difference (Time.Sub, time.Until: +-MaxInt64 ns beyond ~292 years) stays inside int64 - every +, -, * on such a value is bounded by the guards that dominate it (interval evaluation); otherwise a far-future expiration wraps to a negative TTL, is clamped to the minimum and the record is gone in redis while the in-memory backend keeps it. " +
			"R15-R17 (in-memory): an expired record is a missing key - the redis server removes it by itself, so every redis operation answers for it as for a key never written, and the in-memory backend returns the same only through its own expiry decisions. R15: every lookup of the record table passes the expiry decision (no expiration / not before now / expired) before it influences a result or a mutation, every range over the table filters the keys it collects through such a decision on every path (no flag or mode switches the filter off), an error-flavoured live-lookup helper reports no error only for a live record (the result-deciding clauses of C06.R1). R16: a record leaves the table only on the expired edge of a decision taken on a lookup under the same lock acquisition, or in Delete when found (C06.R9: anything else drops a live record in one backend only). R17: the decision compares with a reading of the clock taken after the goroutine last waited (C06.R10). " +
			"R18 (redis): Create, Put, CasByVersion (and every private function of the backend that is handed one record and can issue a write command) report success only behind the redis command that writes the record - directly, inside the transaction callback, or in a helper / function literal every success exit of which lies behind it; with R13 this covers every record of PutMany (a shortcut that returns success without the command - for a record that is already expired, an unchanged value - leaves the old record readable under its old version, while the in-memory backend replaces it). R19 (redis): the relative TTL handed to SET/SETNX is computed from a clock reading taken for this issue of the command: no wait and no way round a loop lies between the reading and the command, and a function literal that issues the command with a TTL computed outside it is invoked once and not behind a wait by whoever it is handed to (go-redis Watch/TxPipelined: trusted; a repository function: decided on its body) - a stale TTL keeps the key in redis beyond ExpiresAt, where the in-memory backend already reports it missing. R14 also: no record expiration is turned into an integer that can wrap (Time.UnixNano/UnixMicro/UnixMilli of ExpiresAt, compared or kept): a far-future expiration becomes negative and the record is dropped in one backend only. R20 (redis): a lost WATCH/EXEC transaction is followed by a read of the key whose error reaches the result (the second clause of C02.R4): CasByVersion answers ErrNotExist, not ErrConflict, when the key was removed or expired before EXEC.",
		NotDecided: "equality of results for all operation sequences. Known value-level divergences outside these rules: redis turns an empty value into nil (equal under bytes.Equal); the glob dialects of redis MATCH and gobwas/glob differ beyond * and ? ({a,b}, [!a]).",
	})
	register(&Check{
		ID: "C06", Title: "KV storage: an expired record is indistinguishable from a deleted one",
		Pkgs:      kvsPkgs,
		Run:       runC06,
		Technique: "static analysis: path queries requiring an expiry decision edge between every table lookup and any conclusion drawn from it (sibling contradiction rule), phi/guard analysis of the parked waiter's timer, argument provenance of redis TTLs, backward slice of the redis TTL to its clock readings with path queries for waits and loops between reading and command and invocation summaries (once, not behind a wait) of the functions that are handed the issuing literal (go/ssa)",
		Explanation: "R1 (in-memory): every lookup of the record table is followed, before it can influence a result or a mutation, by the expiry decision (no-expiry / not-before-now / expired edges); the expired edge deletes the record and notifies its waiters; ranges over the table filter through such a lookup. " +
			"R2 (in-memory): the parked WaitForVersionChange has a timer case derived from the record's ExpiresAt on every path where ExpiresAt is non-nil. " +
			"R3 (redis): every SET/SETNX receives expiration(record.ExpiresAt, time.Now()) of the record being written. R4: expiration maps nil to 0 and clamps a non-nil expiry to a positive TTL. R5: the MSET batch only takes records whose ExpiresAt is nil. R7: the in-memory table stores and hands out copies of records, so the stored *time.Time cannot be changed from outside (a live record dropped early / an expired one kept alive). The copy keeps the expiry of every record: no path of Copy() leaves ExpiresAt unassigned while the receiver's is set. R8: value and TTL are written by one command (the rule of C02.R10; SetArgs' ExpireAt has second resolution). R9 (in-memory): a record leaves the table only on the expired edge of the expiry decision (or in Delete, when found), and only after the table was looked up under the same key in the same lock acquisition - a delete separated from its decision drops whatever record is stored now, also one that does not expire. R10 (in-memory): every expiry decision compares with a clock reading taken after the goroutine last parked (no path from a blocking select / receive / Sleep to the decision avoids the clock read; moments handed to helpers are followed to the call sites). R11: arithmetic on a saturating time difference stays inside int64 (the rule of C03.R14: a wrapped TTL / timer duration drops a record whose expiration lies in the far future). R12 (redis): the relative TTL of every SET/SETNX is computed from a clock reading taken for THIS issue of the command - in the issuing function no path from a wait (blocking select, channel operation, Sleep) to the command avoids the reading and no path leads from the command back to itself without it (retry loop); when the TTL or the moment is captured by the function literal that issues the command, the same holds where the literal is handed over and the function it is handed to invokes it once and not behind a wait (go-redis Watch/TxPipelined: trusted; a function of the repository: no path from one invocation of its parameter to another, no wait before one); a TTL handed in through a parameter of a private helper is followed to the call sites. A TTL that is stale by the time waited or spent in failed attempts keeps the key alive that much longer than ExpiresAt. R11 also: no record expiration is turned into an integer that can wrap (Time.UnixNano: defined for 1678..2262 only; UnixMicro/UnixMilli) when the integer is compared, used in arithmetic, stored or handed on - the expiry decision compares time.Time values or Unix() seconds; a year-9999 expiration as UnixNano is negative and the record is dropped at first touch (decided before the in-memory roles are resolved, so that a changed representation of the expiry is named and not only reported as a lost anchor). R13 (redis): on the TxFailedErr edge of CasByVersion the key is read again and the error of that read reaches the result (the second clause of C02.R4): a transaction is also lost when the watched key EXPIRED between the read and EXEC, and a CAS on an expired key answers ErrNotExist like a CAS on a deleted one, not ErrConflict.",
		NotDecided: "that the redis server honours the TTL; clock effects; 'never dropped early' as a timing statement.",
	})
	register(&Check{
		ID: "C07", Title: "KV storage: WaitForVersionChange never misses or invents a change",
		Pkgs:      kvsPkgs,
		Run:       runC07,
		Technique: "static analysis: must-pass-through path queries (notify after every mutation), critical-section continuity between check and registration, must-lockset, guard dominance of every result value (go/ssa)",
		Explanation: "W14 (session 4): context.Canceled / context.DeadlineExceeded are returned by a waiter (or a ctx-taking helper it reaches) only where the context was seen done (select case on ctx.Done(), ctx.Err()!=nil or ==sentinel): a predicted deadline is not a done context. " +
			"W1: after every overwrite or delete of a record every path to the unlock passes the notify routine with the same key (the insert of an absent key is exempt: no waiter can be registered for an absent key). " +
			"W2: the version check and the registration of the waiter are one critical section on data looked up in it. W3: the waiter parks with the mutex released on the channel of its entry. " +
			"W4: a cancelling waiter decrements under the mutex and tears the entry down only as last waiter and only if the entry registered now is still the one it registered on. " +
			"W5: nil is returned only on the version-differs edge, ErrNotExist only on the absent edge, ctx.Err() only in the ctx.Done() case (both backends). W6: the notify routine closes the channel and forgets the entry together. W9: a waiter that goes around its loop registers again only after its previous registration was withdrawn (count decremented under the identity test) or consumed by a notification / removal of the entry. V1: every write stores a freshly generated version in both backends (the rules of C02.R2: a write under the old version is a change no waiter can see). W5 also: the redis waiter decides 'changed' on a record its poll read without error on this very iteration. W10: every acquisition of the service mutex is released on every path to a return - a waiter that gives up (or any operation) and leaves with the mutex held blocks every writer and every other waiter for ever. W11: the waiter decides 'expired' against a clock reading taken after it was woken (the rule of C06.R10: with a moment read before the park the expired record looks alive, the waiter re-registers and spins instead of returning ErrNotExist)." +
			"W12: the in-memory table stores and hands out only Record.Copy(), and Copy() shares nothing with its receiver and hands on every field (a shared expiry or value changes the record without a write: no new version, no notify, the waiter's armed expiry timer is stale). ",
		NotDecided: "promptness bounds; the 2-100 ms polling of the redis backend.",
	})
}

// inmemClassEdges is the in-memory half of C03.R1/R2 (C02.R5).
func (c *Ctx) inmemClassEdges(r *inmemRoles, r1, r2 string) {
	sentinel := r.errSentinel
	c.inmemLiveHelperSound(r, r1)
	var presenceFact func(f ir.Fact, want bool) bool
	presenceFact = func(f ir.Fact, want bool) bool {
		ff := f.StripNot()
		if phi, isPhi := ff.Cond.(*ssa.Phi); isPhi && !want && !ff.True {
			// "ok" of the lookup, cleared on the expired path: false means absent, or expired and dropped
			all := len(phi.Edges) > 0
			for _, e := range phi.Edges {
				if c, isC := e.(*ssa.Const); isC && c.Value != nil && c.Value.Kind() == constant.Bool && !constant.BoolVal(c.Value) {
					continue
				}
				if !presenceFact(ir.Fact{Cond: e, True: false}, false) {
					all = false
				}
			}
			return all
		}
		_, present, ok := r.lookupOutcome(f)
		return ok && present == want
	}
	witness := func(f ir.Fact, want bool, depth int) bool { return r.presenceWitness(f, want, depth, presenceFact) }
	presence := func(e ir.ExitPoint, want bool) bool {
		return e.HasFact(func(f ir.Fact) bool { return witness(f, want, 0) })
	}
	expired := func(e ir.ExitPoint) bool {
		if e.Edge != nil && r.expiryEdge(e.Block, e.Edge) == expiredEdge {
			return true
		}
		for d := e.Block; d != nil; d = d.Idom() {
			if len(d.Preds) == 1 && r.expiryEdge(d.Preds[0], d) == expiredEdge {
				return true
			}
		}
		return false
	}
	versionCmp := func(e ir.ExitPoint, op token.Token) bool {
		return e.HasFact(func(f ir.Fact) bool {
			cm, ok := f.Cmp()
			return ok && cm.Op == op && ir.LoadedField(cm.X) == r.recVersion && ir.LoadedField(cm.Y) == r.recVersion
		})
	}
	check := func(name, class, what string, edge func(e ir.ExitPoint) bool) {
		fn := r.storage[name]
		ok := false
		idx := ir.ErrResultIndex(fn)
		for _, e := range ir.ExitPoints(fn) {
			if sentinel(e.Result(idx)) == class && edge(e) {
				ok = true
			}
		}
		c.Decide(r1, fn, name+": "+what+" -> "+class, nil, ok, "the in-memory "+name+" does not return "+class+" on the edge where "+what)
	}
	absentOrExpired := func(e ir.ExitPoint) bool { return presence(e, false) || expired(e) }
	check("Create", "ErrExist", "the key is present", func(e ir.ExitPoint) bool { return presence(e, true) })
	check("Get", "ErrNotExist", "the key is missing", absentOrExpired)
	check("Delete", "ErrNotExist", "the key is missing", absentOrExpired)
	check("CasByVersion", "ErrNotExist", "the key is missing", absentOrExpired)
	check("CasByVersion", "ErrConflict", "stored version != expected version", func(e ir.ExitPoint) bool { return versionCmp(e, token.NEQ) })
	// a class is returned only on its deciding edge
	{
		fn := r.storage["CasByVersion"]
		for _, e := range ir.ExitPoints(fn) {
			if sentinel(e.Result(1)) == "ErrConflict" {
				ok := versionCmp(e, token.NEQ) && presence(e, true)
				c.Decide(r1, fn, "ErrConflict only for a present record with another version", e.Ret, ok, "CasByVersion reports ErrConflict on a path where no stored record was compared: for a missing key the contract says ErrNotExist")
				// ... and only for a record that is not expired: an expired record that was not purged yet is a missing key
				at := ssa.Instruction(e.Ret)
				if e.Block != e.Ret.Block() && len(e.Block.Instrs) > 0 {
					at = e.Block.Instrs[len(e.Block.Instrs)-1]
				}
				live := true
				ir.Instrs(fn, func(in ssa.Instruction) {
					lk := r.recsLookup(in)
					if lk == nil {
						return
					}
					// per path (a flag cleared on the expired branch and tested afterwards decides infeasible ways)
					w, err := (ir.PathQuery{Fn: fn, From: in,
						StopEdge: func(from, to *ssa.BasicBlock) bool {
							k := r.expiryEdge(from, to)
							return k == freshEdge || k == noExpiryEdge
						},
						Target: func(x ssa.Instruction, _ *ir.Valuation) bool { return x == at }}).Find()
					if err != nil || w != nil {
						live = false
					}
				})
				c.Decide(r1, fn, "ErrConflict only after the expiry decision", e.Ret, live, "CasByVersion compares versions (and reports ErrConflict) before it has decided whether the stored record is expired: for an expired record that is still in the table the answer must be ErrNotExist - the redis backend and the contract do not know such a record")
			}
		}
	}
	// no success on those edges: a CAS success exit is dominated by version equality
	{
		fn := r.storage["CasByVersion"]
		for _, e := range ir.ExitPoints(fn) {
			if ir.ClassifyErr(e.Result(1), e.Block) != ir.ErrNil {
				continue
			}
			ok := versionCmp(e, token.EQL) && presence(e, true)
			c.Decide(r1, fn, "CasByVersion succeeds only on equal versions of a present key", e.Ret, ok, "CasByVersion can succeed without the stored version having been compared equal")
		}
		fnC := r.storage["Create"]
		for _, e := range ir.ExitPoints(fnC) {
			if ir.ClassifyErr(e.Result(1), e.Block) != ir.ErrNil {
				continue
			}
			c.Decide(r1, fnC, "Create succeeds only for an absent key", e.Ret, presence(e, false), "Create can succeed although the key was not seen to be absent")
		}
	}
	if r2 != "" {
		fn := r.storage["Create"]
		for _, e := range ir.ExitPoints(fn) {
			ret := e.Ret
			if sentinel(e.Result(1)) != "ErrExist" {
				continue
			}
			v := ir.Resolve(e.Result(0))
			okV := false
			if ir.LoadedField(v) == r.recVersion {
				origins := pairFieldOrigins(v)
				// the record reached through a pointer that is nil or the address of a local copy of the looked-up record
				if u, isU := v.(*ssa.UnOp); isU {
					if fa, isFA := u.X.(*ssa.FieldAddr); isFA {
						if phi, isPhi := fa.X.(*ssa.Phi); isPhi {
							for _, pe := range phi.Edges {
								if al, isAl := pe.(*ssa.Alloc); isAl {
									for _, st := range ir.StoresTo(al) {
										origins = append(origins, ir.Origins(st.Val)...)
									}
								}
							}
						}
					}
				}
				for _, o := range origins {
					if ex, isEx := o.(*ssa.Extract); isEx && ex.Index == 0 {
						switch t := ex.Tuple.(type) {
						case *ssa.Lookup:
							okV = r.isRecsVal(t.X)
						case *ssa.Call:
							okV = r.liveHelpers[ir.StaticCallee(t)]
						}
					}
				}
			}
			c.Decide(r2, fn, "ErrExist carries the stored version", ret, okV, "the in-memory Create returns ErrExist without the version of the existing record")
		}
	}
}

func runC02(c *Ctx) {
	im := resolveInmemRoles(c)
	rd := resolveRedisRoles(c)
	c.inmemCriticalSections(im, "C02.R1")
	c.inmemFreshVersions(im, "C02.R2")
	c.redisFreshVersions(rd, "C02.R2")
	c.idGenerator("C02.R2")
	c.R.Floor("C02.R2", 9)
	c.redisAtomicPrimitives(rd, "C02.R3")
	c.R.Floor("C02.R3", 5)
	c.redisLoserOutcome(rd, "C02.R4")
	c.inmemNoSharing(im, "C02.R8")
	// R6: Put returns the record it wrote
	c.putReturnsOwnRecord("C02.R6", rd.storage["Put"], rd.encode, func(in ssa.Instruction) ssa.Value {
		if call, ok := in.(*ssa.Call); ok && ir.StaticCallee(call) == rd.encode {
			return call.Call.Args[0]
		}
		return nil
	})
	c.putReturnsOwnRecord("C02.R6", im.storage["Put"], nil, func(in ssa.Instruction) ssa.Value {
		if mu := im.recsUpdate(in); mu != nil {
			v := mu.Value
			if call, ok := v.(*ssa.Call); ok {
				if recv := copyReceiver(call); recv != nil {
					v = recv // the table keeps a copy of the local record
				}
			}
			if u, ok := v.(*ssa.UnOp); ok {
				return ownerOfStoredCopyV(u.X, im.recVersion) // the cell itself, or the record it is the prepared copy of
			}
		}
		return nil
	})
	c.everyBatchRecordWritten(im, "C02.R7")
	c.redisNoSeparateTTL(rd, "C02.R10")
	c.redisKeysMapped(rd, "C02.R11")
	c.inmemExitsUnlocked(im, "C02.R12")
	c.redisBatchComplete(rd, "C02.R13")
	c.redisSuccessWritten(rd, "C02.R14")
	c.redisCommandCensus(rd, "C02.R15")
	c.inmemSuccessStored(im, "C02.R16")
	c.redisLostTxIdentity(rd, "C02.R17")
	c.redisCasIssuedOnce(rd, "C02.R18")
	c.inmemClassEdges(im, "C02.R5", "")
	c.redisClassEdges(rd, "C02.R5", "C02.R5")
	c.R.Floor("C02.R5", 10)
}

func runC03(c *Ctx) {
	c.expiryIntegerNoWrap("C03.R14") // before the roles: it names a change of the expiry representation the role resolution gives up on
	im := resolveInmemRoles(c)
	rd := resolveRedisRoles(c)
	c.inmemClassEdges(im, "C03.R1", "C03.R2")
	c.redisClassEdges(rd, "C03.R1", "C03.R2")
	c.R.Floor("C03.R1", 12)
	c.R.Floor("C03.R2", 2)
	c.redisCodec(rd, "C03.R3", "C03.R4")
	c.R.Floor("C03.R3", 9)
	c.redisOneStrategy(rd, "C03.R5")
	c.inmemGlobPlain(im, "C03.R8")
	c.redisTTL(rd, "C03.R6", "", "")
	c.inmemFreshVersions(im, "C03.R7")
	c.redisFreshVersions(rd, "C03.R7")
	c.R.Floor("C03.R7", 8)
	c.inmemNoSharing(im, "C03.R12")
	c.redisKeyInjective(rd, "C03.R9")
	c.redisKeysMapped(rd, "C03.R10")
	c.R.Floor("C03.R10", 7)
	c.redisNonEmptyBatches(rd, "C03.R11")
	c.R.Floor("C03.R11", 2)
	c.redisBatchComplete(rd, "C03.R13")
	c.durationArithmeticBounded("C03.R14", "redis TTL mapping", rd.expiration, rd.all)
	c.durationArithmeticBounded("C03.R14", "in-memory expiry timer", im.storage["WaitForVersionChange"], im.all)
	c.inmemExpiredIsAbsent(im, "C03.R15", "C03.R16", "C03.R17")
	c.redisSuccessWritten(rd, "C03.R18")
	c.redisTTLFresh(rd, "C03.R19")
	c.redisLostTxReread(rd, "C03.R20")
	c.inmemSuccessStored(im, "C03.R21")
	c.redisGetManySlots(rd, "C03.R22")
	c.inmemListWalksTable(im, "C03.R23")
}

func runC06(c *Ctx) {
	c.expiryIntegerNoWrap("C06.R11") // before the roles: it names a change of the expiry representation the role resolution gives up on
	im := resolveInmemRoles(c)
	rd := resolveRedisRoles(c)
	c.inmemCriticalSections(im, "C06.R6")
	c.inmemExpiry(im, "C06.R1")
	c.inmemBoundedPark(im, "C06.R2")
	c.redisTTL(rd, "C06.R3", "C06.R4", "C06.R5")
	c.inmemNoSharing(im, "C06.R7")
	c.redisNoSeparateTTL(rd, "C06.R8")
	c.inmemDeleteExamined(im, "C06.R9")
	c.inmemFreshClock(im, "C06.R10", nil)
	c.durationArithmeticBounded("C06.R11", "redis TTL mapping", rd.expiration, rd.all)
	c.durationArithmeticBounded("C06.R11", "in-memory expiry timer", im.storage["WaitForVersionChange"], im.all)
	c.redisTTLFresh(rd, "C06.R12")
	c.redisLostTxReread(rd, "C06.R13")
	c.redisSuccessWritten(rd, "C06.R14") // an expired record written over a live one must replace it (the rule of C03.R18)
}

func runC07(c *Ctx) {
	im := resolveInmemRoles(c)
	rd := resolveRedisRoles(c)
	c.inmemNotifyAfterMutate(im, "C07.W1")
	c.inmemWaitRules(im, "C07.W2", "C07.W3", "C07.W4", "C07.W5", "C07.W6")
	c.redisWaitResults(rd, "C07.W5")
	c.inmemBoundedPark(im, "C07.W7")
	c.redisPollBounded(rd, "C07.W8")
	c.inmemRegistrationBalance(im, "C07.W9")
	c.inmemExitsUnlocked(im, "C07.W10")
	c.inmemFreshClock(im, "C07.W11", im.storage["WaitForVersionChange"])
	// the stored record is the table's own: a value or a lifetime the writer can still reach changes the record without a
	// write, i.e. without a notify - the waiter's armed expiry timer and "the record it checked" are then stale
	c.inmemNoSharing(im, "C07.W12")
	c.inmemOneKeySpelling(im, "C07.W13")
	c.waitCtxSentinelOnlyWhenDone("C07.W14", im.all, im.storage["WaitForVersionChange"])
	c.waitCtxSentinelOnlyWhenDone("C07.W14", rd.all, rd.storage["WaitForVersionChange"])
	// a change the waiter is to notice is a change of the version: every write stores a fresh one
	c.inmemFreshVersions(im, "C07.V1")
	c.redisFreshVersions(rd, "C07.V1")
	c.R.Floor("C07.W2", 3)
	c.R.Floor("C07.W3", 2)
	c.R.Floor("C07.W4", 5)
	c.R.Floor("C07.W5", 6)
}
