package rules

// C17.R2 "bit set only when clear": knowledge by arithmetic.
//
// vbLowestZeroKnown accepts a store  hdr[i] = v | 1<<j  where the bit index is chosen as
//
//	j = bits.TrailingZeros{,8,16,32,64}(^v)      (the argument possibly widened: uint(^v))
//	j = bits.TrailingZeros{,16,32,64}(^uintN(v)) (complemented after widening)
//
// with v the header byte loaded from the very element the store writes, and v known not to be all ones where the store
// happens. Why this is "bit j of v is clear": ^v has a set bit exactly where v has a clear one; for v != 0xFF, ^v (as a
// byte) is non-zero and TrailingZeros returns the position of its lowest set bit, a position below 8 at which v is
// clear. When the complement is taken after widening, the bits above 7 of ^uintN(v) are all set, so for v != 0xFF the
// lowest set bit is still the lowest clear bit of v (and for v == 0xFF it would be 8 - which is why the guard must be
// on v, "the complement is non-zero" proves nothing there). Accepted spellings of the guard, as branch facts at the
// store (through flags, like the other R2 facts): v != 0xFF, v < 0xFF, 0xFF != v, 0xFF > v, and - for the complement
// taken at byte width only - ^v != 0, ^v > 0.
//
// Nothing else is accepted: TrailingZeros of v itself, of another byte, of the complement of a value that is not the
// element being written, a stored value that is not that very byte with the bit or-ed in, or a store to the header
// between the load of v and this store leave the obligation to the explicit test (and, without one, violated).

import (
	"go/token"
	"go/types"

	"golang.org/x/tools/go/ssa"

	"verif/checker/ir"
)

func vbLowestZeroKnown(st *ssa.Store, isHdrSlice func(ssa.Value) bool) bool {
	dst, ok := st.Addr.(*ssa.IndexAddr)
	if !ok || !isHdrSlice(dst.X) {
		return false
	}
	or, ok := ir.Resolve(st.Val).(*ssa.BinOp)
	if !ok || or.Op != token.OR {
		return false
	}
	// the header byte read from the element the store writes
	sameElem := func(v ssa.Value) *ssa.UnOp {
		ld, isLd := ir.Resolve(v).(*ssa.UnOp)
		if !isLd || ld.Op != token.MUL {
			return nil
		}
		ia, isIA := ld.X.(*ssa.IndexAddr)
		if !isIA || !isHdrSlice(ia.X) || ir.Resolve(ia.X) != ir.Resolve(dst.X) || ir.Resolve(ia.Index) != ir.Resolve(dst.Index) {
			return nil
		}
		if b, isB := ld.Type().Underlying().(*types.Basic); !isB || b.Kind() != types.Uint8 {
			return nil
		}
		return ld
	}
	for _, pair := range [][2]ssa.Value{{or.X, or.Y}, {or.Y, or.X}} {
		base, mask := pair[0], pair[1]
		shl, isShl := xcStripConv(mask).(*ssa.BinOp)
		if !isShl || shl.Op != token.SHL {
			continue
		}
		if k, isC := ir.ConstInt(xcStripConv(shl.X)); !isC || k != 1 {
			continue
		}
		call, isCall := xcStripConv(shl.Y).(*ssa.Call)
		if !isCall || len(call.Call.Args) != 1 {
			continue
		}
		switch ir.CalleeFullName(call) {
		case "math/bits.TrailingZeros8", "math/bits.TrailingZeros16", "math/bits.TrailingZeros32", "math/bits.TrailingZeros64", "math/bits.TrailingZeros":
		default:
			continue
		}
		compl, isU := xcStripConv(call.Call.Args[0]).(*ssa.UnOp)
		if !isU || compl.Op != token.XOR {
			continue
		}
		// complement at byte width (^v) or after widening (^uint(v)); a narrowing in between is not understood
		widened := false
		cx := ir.Resolve(compl.X)
		if cv, isConv := cx.(*ssa.Convert); isConv {
			b, isB := cv.Type().Underlying().(*types.Basic)
			if !isB || b.Info()&types.IsUnsigned == 0 {
				continue
			}
			widened = true
			cx = xcStripConv(cv)
		}
		v := sameElem(cx)
		if v == nil {
			continue
		}
		// what is stored is that very byte with the bit or-ed in
		if bl := sameElem(base); bl == nil || (bl != v && !vbNoHeaderStoreBetween(bl, st, isHdrSlice)) {
			continue
		}
		if !vbNoHeaderStoreBetween(v, st, isHdrSlice) {
			continue
		}
		known := xcHasFactCmp(st.Block(), func(cm ir.Cmp) bool {
			for _, c := range []ir.Cmp{cm, {X: cm.Y, Y: cm.X, Op: ir.SwapOp(cm.Op)}} {
				// the guard on the result of the search: j < 8 (v_blocks_u.go)
				if vbuResultBelowEight(call, c) {
					return true
				}
				k, isC := ir.ConstInt(xcStripConv(c.Y))
				if !isC {
					continue
				}
				x := xcStripConv(c.X)
				if x == ssa.Value(v) && k == 0xFF && (c.Op == token.NEQ || c.Op == token.LSS) {
					return true
				}
				// the complement at byte width, this one or one computed again from the same byte
				if xc, isCompl := x.(*ssa.UnOp); !widened && isCompl && xc.Op == token.XOR && k == 0 && (c.Op == token.NEQ || c.Op == token.GTR) {
					if xc == compl || ir.Resolve(xc.X) == ssa.Value(v) {
						return true
					}
				}
			}
			return false
		})
		if known {
			return true
		}
	}
	return false
}

// vbNoHeaderStoreBetween: no path from the load ld to the store st passes another store to an element of a header
// slice (the byte read is still what the header holds when st writes it; both sit under the allocator lock by R3).
func vbNoHeaderStoreBetween(ld *ssa.UnOp, st *ssa.Store, isHdrSlice func(ssa.Value) bool) bool {
	if ld.Parent() != st.Parent() || !ir.Dominates(ld, st) {
		return false
	}
	w, err := (ir.Query{Fn: st.Parent(), From: ld,
		Block: func(x ssa.Instruction) bool { return x == ssa.Instruction(st) },
		Target: func(x ssa.Instruction) bool {
			o, ok := x.(*ssa.Store)
			if !ok || o == st {
				return false
			}
			ia, isIA := o.Addr.(*ssa.IndexAddr)
			return isIA && isHdrSlice(ia.X)
		}}).Find()
	return err == nil && w == nil
}
