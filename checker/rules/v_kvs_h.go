package rules

import (
	"go/token"
	"go/types"

	"golang.org/x/tools/go/ssa"

	"verif/checker/ir"
)

// Rules of the kvs backends added after seeded round h (C03-h2; C06-h2 and C01-h1 are existing rules run under the
// id of the property they also protect, see runC06 / runC01).

// inmemSuccessStored: every exit of the in-memory Create, Put and CasByVersion that can report success lies behind a
// store into the record table - directly, or in a private helper of the backend that stores on every path to its exits.
// "Stored record has a fresh version" (C02.R2) is asked per STORE SITE: an exit that reports success with no store at
// all ("the write would not change anything") has no site to ask it at and slipped through. Such an exit hands out a
// success - and for CasByVersion the stored record under its OLD version - although the contract says every successful
// write stores what was given under a NEW version: the holder of the old version cannot detect the write, a second CAS
// with the old version still wins, waiters are not woken, and the redis backend (which always SETs) answers differently.
// An exit counts as possibly successful unless its error is provably non-nil there (branch facts, per-path valuation).
// PutMany is covered per record by C02.R7.
func (c *Ctx) inmemSuccessStored(r *inmemRoles, rule string) {
	eff := ir.NewEffects(c.P, func(in ssa.Instruction) bool { return r.recsUpdate(in) != nil })
	for _, name := range []string{"Create", "Put", "CasByVersion"} {
		fn := r.storage[name]
		idx := ir.ErrResultIndex(fn)
		isStore := func(x ssa.Instruction) bool {
			if r.recsUpdate(x) != nil {
				return true
			}
			if call, ok := x.(*ssa.Call); ok {
				if cal := ir.StaticCallee(call); cal != nil && r.isPrivateHelper(cal) && samePkgV(cal, fn) {
					return eff.Is(x)
				}
			}
			return false
		}
		w, err := (ir.PathQuery{Fn: fn, Stop: isStore,
			Target: func(x ssa.Instruction, val *ir.Valuation) bool {
				ret, isRet := x.(*ssa.Return)
				if !isRet || x.Block() == fn.Recover {
					return false
				}
				if idx >= 0 {
					for _, v := range []ssa.Value{ir.ResultValue(ret, idx), ret.Results[idx]} {
						if v == nil {
							continue
						}
						if ir.ClassifyErr(v, ret.Block()) == ir.ErrNonNil || knownNonNilErr(v) {
							return false
						}
						if isNil, known := val.KnownIsNil(v); known && !isNil {
							return false
						}
						if sel := val.Selected(v); sel != v && (ir.ClassifyErr(sel, ret.Block()) == ir.ErrNonNil || knownNonNilErr(sel)) {
							return false
						}
						// ctx.Err() behind a ctx.Err() the path has seen non-nil
						if call, ok := ir.Resolve(val.Selected(v)).(*ssa.Call); ok && ir.CalleeFullName(call) == "(context.Context).Err" {
							seen := false
							ir.Instrs(fn, func(y ssa.Instruction) {
								c2, isCall := y.(*ssa.Call)
								if !isCall || c2 == call || ir.CalleeFullName(c2) != "(context.Context).Err" || !same(c2.Call.Value, call.Call.Value) {
									return
								}
								if isNil, known := val.KnownIsNil(c2); known && !isNil {
									seen = true
								}
							})
							if seen {
								return false
							}
						}
					}
				}
				return constComparisonsHoldYB(fn, val) && !nonNilDecidedNilH(fn, val)
			}}).Find()
		const construct = "success is reported only behind a store into the record table"
		switch {
		case err != nil:
			c.Undecided(rule, fn, construct, nil, err.Error())
		case w != nil:
			c.Decide(rule, fn, construct, w.End, false, "the in-memory "+name+" can report success on a path on which nothing is stored (a write elided because it 'changes nothing', a shortcut): the contract says a successful write stores the record under a NEW version - the old version stays valid (a second CasByVersion with it wins, its holder cannot detect the write), no waiter is woken, and the redis backend, which always writes, answers the following operations differently: path "+w.String(c.P))
		default:
			c.Decide(rule, fn, construct, nil, true, "")
		}
	}
}

// redisLostTxIdentity (C02.R17): CasByVersion recognises a lost WATCH/EXEC transaction by the error value
// redis.TxFailedErr. When that test is an identity comparison (==, !=, switch) and not errors.Is, the value it looks at
// must BE the driver's value: every exit of the transaction callback whose error is computed from the result of the
// MULTI/EXEC block (TxPipelined / Exec) returns that result itself, not the result of a call it was handed to (an
// annotation with %w keeps the class for errors.Is but not for ==). Otherwise the loser of a race is answered with the
// driver's wrapped "transaction failed" instead of ErrConflict / ErrNotExist - the documented outcome of a loser.
func (c *Ctx) redisLostTxIdentity(r *redisRoles, rule string) {
	fn := r.storage["CasByVersion"]
	const construct = "the lost-transaction error reaches its identity test as the driver returned it"
	isTxFailed := func(v ssa.Value) bool {
		cv := ir.ConstVal(ir.Resolve(v))
		return cv != nil && cv.ExactString() == `"redis: transaction failed"`
	}
	identity := false
	var watch *ssa.Call
	ir.Instrs(fn, func(in ssa.Instruction) {
		if bo, ok := in.(*ssa.BinOp); ok && (isTxFailed(bo.X) || isTxFailed(bo.Y)) {
			identity = true
		}
		if w := redisCmd(in, "Watch"); w != nil {
			watch = w
		}
	})
	if !identity || watch == nil {
		c.Decide(rule, fn, construct, nil, true, "") // the class is tested with errors.Is (or not by value at all): C02.R4 decides the rest
		return
	}
	var cb *ssa.Function
	for _, a := range watch.Call.Args {
		if f := funcValueV(a); f != nil {
			cb = f
		}
	}
	if cb == nil || len(cb.Blocks) == 0 {
		c.Undecided(rule, fn, construct, watch, "the transaction callback is not a function literal")
		return
	}
	isExecErr := func(v ssa.Value) bool {
		ex, ok := ir.Resolve(v).(*ssa.Extract)
		if !ok {
			return false
		}
		call, ok := ex.Tuple.(*ssa.Call)
		return ok && (redisCmd(call, "TxPipelined") != nil || redisCmd(call, "Exec") != nil || redisCmd(call, "Pipelined") != nil)
	}
	var wraps func(v ssa.Value, d int) bool
	wraps = func(v ssa.Value, d int) bool {
		if v == nil || d > 4 {
			return false
		}
		switch x := ir.Resolve(v).(type) {
		case *ssa.Call:
			args := append([]ssa.Value{}, x.Call.Args...)
			if len(args) > 0 {
				args = append(args, variadicArgs(args[len(args)-1])...)
			}
			for _, a := range args {
				if isExecErr(a) || wraps(a, d+1) {
					return true
				}
			}
		case *ssa.Phi:
			for _, e := range x.Edges {
				if wraps(e, d+1) {
					return true
				}
			}
		}
		return false
	}
	idx := ir.ErrResultIndex(cb)
	var bad ssa.Instruction
	for _, e := range ir.ExitPoints(cb) {
		if rv := e.Result(idx); rv != nil && !isExecErr(rv) && wraps(rv, 0) {
			bad = e.Ret
		}
	}
	c.Decide(rule, fn, construct, bad, bad == nil, "the transaction callback hands the error of the MULTI/EXEC block to another function (an annotating wrapper) and returns that function's result, while CasByVersion compares the error of Watch with redis.TxFailedErr by identity: a lost transaction is no longer recognised - the loser of a CAS race receives the wrapped driver error instead of ErrConflict (or ErrNotExist when the key is gone); compare with errors.Is, or return the driver's error unwrapped from the callback")
}

// redisGetManySlots (C03.R22): GetMany answers position by position - the record put into result slot i is the record
// read for keys[i] and carries that key. Structurally: for every *Record stored into an element of the result slice,
// the index of the slot and the index of the keys element its Key field is assigned from are the same expression (the
// same SSA value, or the same sum of the same operands: off+idx in a batched read). A slot filled at off+idx with the
// key of keys[idx] returns, from the second batch on, records under the keys of the first batch.
func (c *Ctx) redisGetManySlots(r *redisRoles, rule string) {
	fn := r.storage["GetMany"]
	var keys *ssa.Parameter
	for _, p := range fn.Params {
		if s, ok := p.Type().Underlying().(*types.Slice); ok {
			if b, isB := s.Elem().Underlying().(*types.Basic); isB && b.Kind() == types.String {
				keys = p
			}
		}
	}
	if keys == nil {
		c.Fatalf("GetMany: no keys parameter")
	}
	var sameIdx func(a, b ssa.Value, d int) bool
	sameIdx = func(a, b ssa.Value, d int) bool {
		if a == b || same(a, b) {
			return true
		}
		if ka, ok := ir.ConstInt(a); ok {
			kb, ok2 := ir.ConstInt(b)
			return ok2 && ka == kb
		}
		x, ok1 := a.(*ssa.BinOp)
		y, ok2 := b.(*ssa.BinOp)
		if !ok1 || !ok2 || x.Op != y.Op || d > 3 {
			return false
		}
		if sameIdx(x.X, y.X, d+1) && sameIdx(x.Y, y.Y, d+1) {
			return true
		}
		return x.Op == token.ADD && sameIdx(x.X, y.Y, d+1) && sameIdx(x.Y, y.X, d+1)
	}
	n := 0
	for _, f := range withClosures(fn) {
		f := f
		ir.Instrs(f, func(in ssa.Instruction) {
			st, ok := in.(*ssa.Store)
			if !ok {
				return
			}
			slot, ok := st.Addr.(*ssa.IndexAddr)
			if !ok {
				return
			}
			pt, ok := st.Val.Type().Underlying().(*types.Pointer)
			if !ok || namedOf(pt.Elem()) != r.recordT {
				return
			}
			cell, ok := st.Val.(*ssa.Alloc)
			if !ok || cell.Referrers() == nil {
				return
			}
			// the keys element the record's Key is assigned from
			var keyIdx []ssa.Value
			unknown := false
			for _, ref := range *cell.Referrers() {
				fa, isFA := ref.(*ssa.FieldAddr)
				if !isFA || ir.FieldOf(fa) != r.recKey || fa.Referrers() == nil {
					continue
				}
				for _, r2 := range *fa.Referrers() {
					ks, isSt := r2.(*ssa.Store)
					if !isSt || ks.Addr != ssa.Value(fa) {
						continue
					}
					ld, isLd := ir.Resolve(ks.Val).(*ssa.UnOp)
					if !isLd || ld.Op != token.MUL {
						unknown = true
						continue
					}
					ia, isIA := ld.X.(*ssa.IndexAddr)
					if !isIA || !same(ia.X, keys) {
						unknown = true
						continue
					}
					keyIdx = append(keyIdx, ia.Index)
				}
			}
			if len(keyIdx) == 0 && !unknown {
				return // the key is not assigned here (kept from the stored record): nothing to compare
			}
			n++
			const construct = "the record in result slot i carries keys[i]"
			if unknown {
				c.Undecided(rule, f, construct, in, "the Key of the record handed out is not assigned from an element of the keys parameter: the position it belongs to is not decided")
				return
			}
			ok2 := true
			for _, k := range keyIdx {
				if !sameIdx(slot.Index, k, 0) {
					ok2 = false
				}
			}
			c.Decide(rule, f, construct, in, ok2, "the record is placed at one position of the result and carries the key of another position of keys (slot index and key index are different expressions, e.g. off+idx and idx in a batched read): from the second batch on GetMany returns records under the wrong keys, the in-memory backend and the contract pair them position by position")
		})
	}
	if n < 1 {
		// the keys are assigned elsewhere (a helper builds the result): nothing to compare here, and nothing is claimed
		c.Decide(rule, fn, "the record in result slot i carries keys[i]", nil, true, "")
	}
}

// redisCasIssuedOnce (C02.R18): the optimistic transaction of CasByVersion (WATCH ... MULTI/EXEC) is issued at most once
// per call: no path leads from a Watch call back to a Watch call. The outcome of a transaction whose reply was lost
// (connection error after EXEC was sent) is not known - it may have been applied. A second attempt then reads the record
// the first attempt wrote, finds "another version" and answers ErrConflict for a CAS that succeeded: the caller is told
// it lost, the record carries a version nobody holds, and no sequential order of the operations explains both. (Create's
// loop re-issues SETNX, which is idempotent for the caller's purpose; a CAS is not.)
func (c *Ctx) redisCasIssuedOnce(r *redisRoles, rule string) {
	n := 0
	for _, f := range withClosures(r.storage["CasByVersion"]) {
		f := f
		isWatch := func(x ssa.Instruction) bool { return redisCmd(x, "Watch") != nil }
		ir.Instrs(f, func(in ssa.Instruction) {
			if !isWatch(in) {
				return
			}
			n++
			w, err := (ir.Query{Fn: f, From: in, Target: isWatch}).Find()
			switch {
			case err != nil:
				c.Undecided(rule, f, "the WATCH transaction is issued once per call", in, err.Error())
			default:
				c.Decide(rule, f, "the WATCH transaction is issued once per call", in, w == nil, "CasByVersion can run its WATCH/MULTI/EXEC transaction again in the same call (a retry loop): when the reply of an EXEC that was applied is lost, the next attempt meets the version the first one wrote and reports ErrConflict for a CAS that took effect - a winner is told it lost, and the stored version is held by nobody")
			}
		})
	}
	if n < 1 {
		c.R.Errorf("%s found no Watch in the redis CasByVersion (floor 1)", rule)
	}
}

// nonNilDecidedNilH: the path is infeasible - it has decided "x == nil" for an error x that, on this very path (phi
// operands resolved by the path), is a package-level error sentinel or a freshly built error (results kept in an `err`
// variable assigned in the branches and tested once behind them: single-exit style).
func nonNilDecidedNilH(fn *ssa.Function, val *ir.Valuation) bool {
	bad := false
	ir.Instrs(fn, func(in ssa.Instruction) {
		bo, ok := in.(*ssa.BinOp)
		if !ok || bad || (bo.Op != token.EQL && bo.Op != token.NEQ) {
			return
		}
		x, y := bo.X, bo.Y
		if ir.IsNilConst(x) {
			x, y = y, x
		}
		if !ir.IsNilConst(y) || !ir.IsErrorType(x.Type()) {
			return
		}
		truth, known := val.Known(bo)
		if !known {
			return
		}
		isNil := truth == (bo.Op == token.EQL)
		if !isNil {
			return
		}
		sel := val.Selected(x)
		if globalOf(sel) != nil || knownNonNilErr(sel) {
			bad = true
		}
	})
	return bad
}
