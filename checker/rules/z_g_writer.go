package rules

import (
	"go/types"

	"golang.org/x/tools/go/ssa"

	"verif/checker/ir"
)

// ---------------------------------------------------------------------------
// C15.S10 - a failed emission is a failed write
//
// The stream writer emits an item by one or more emissions: a Write on the destination io.Writer, or a call of another
// function of the codec package that (transitively) does one and reports an error. The destination may fail or accept
// fewer bytes at ANY emission; the item is then not in the stream. A method that returns a nil error although one of
// the emissions it executed reported a non-nil one tells its caller that size-predicted bytes were written when they
// were not (the stream no longer decodes to the item sequence). So, for every emission E with error result e, on every
// path from E to a return of the function: e is known to be nil on that path, or the returned error is e itself on
// that path (phi operands and result variables resolved by the path), or the returned error is known to be non-nil (a
// fresh/wrapping error, a sentinel). Decided per path (ir.PathQuery): a test of e in a nested block, a single-exit
// style with an err variable, and early returns are all the same to it. An emission whose error result is not even
// read is violated outright.

// destWriteB: call is an invocation of Write([]byte) (int, error) on an interface value (the io.Writer role).
func destWriteB(call *ssa.Call) bool {
	if !call.Call.IsInvoke() || call.Call.Method.Name() != "Write" {
		return false
	}
	sig, ok := call.Call.Method.Type().(*types.Signature)
	if !ok || sig.Params().Len() != 1 || sig.Results().Len() != 2 {
		return false
	}
	return isByteSeqB(sig.Params().At(0).Type()) && ir.IsErrorType(sig.Results().At(1).Type())
}

// emittersB: the functions of the codec package that report an error and (transitively) write to a destination.
func emittersB(fns []*ssa.Function) map[*ssa.Function]bool {
	em := map[*ssa.Function]bool{}
	for changed := true; changed; {
		changed = false
		for _, fn := range fns {
			if em[fn] || ir.ErrResultIndex(fn) < 0 {
				continue
			}
			ir.Instrs(fn, func(in ssa.Instruction) {
				call, ok := in.(*ssa.Call)
				if !ok || em[fn] {
					return
				}
				if destWriteB(call) {
					em[fn], changed = true, true
				} else if cal := ir.StaticCallee(call); cal != nil && em[cal] {
					em[fn], changed = true, true
				}
			})
		}
	}
	return em
}

// emissionErrB returns the error result of emission call (nil when the code never reads it).
func emissionErrB(call *ssa.Call, em map[*ssa.Function]bool) (e ssa.Value, isEmission bool) {
	var res *types.Tuple
	switch {
	case destWriteB(call):
		res = call.Call.Method.Type().(*types.Signature).Results()
	default:
		cal := ir.StaticCallee(call)
		if cal == nil || !em[cal] {
			return nil, false
		}
		res = cal.Signature.Results()
	}
	idx := -1
	for i := res.Len() - 1; i >= 0; i-- {
		if ir.IsErrorType(res.At(i).Type()) {
			idx = i
			break
		}
	}
	if idx < 0 {
		return nil, false
	}
	if res.Len() == 1 {
		if call.Referrers() == nil || len(*call.Referrers()) == 0 {
			return nil, true
		}
		return call, true
	}
	if call.Referrers() != nil {
		for _, r := range *call.Referrers() {
			if ex, ok := r.(*ssa.Extract); ok && ex.Index == idx && ex.Referrers() != nil && len(*ex.Referrers()) > 0 {
				return ex, true
			}
		}
	}
	return nil, true
}

// writerErrorsReported is C15.S10.
func (c *Ctx) writerErrorsReported() {
	fns := c.P.FuncsOf("xbinary")
	em := emittersB(fns)
	for _, fn := range fns {
		fn := fn
		errIdx := ir.ErrResultIndex(fn)
		ir.Instrs(fn, func(in ssa.Instruction) {
			call, ok := in.(*ssa.Call)
			if !ok {
				return
			}
			e, isEm := emissionErrB(call, em)
			if !isEm {
				return
			}
			const construct = "a failed emission is reported: its error reaches the result"
			if e == nil {
				c.Decide("C15.S10", fn, construct, call, false,
					"the error result of this write to the stream is never read: when the destination fails or accepts fewer bytes, "+fn.Name()+" still reports success and the stream does not hold the item")
				return
			}
			q := ir.PathQuery{Fn: fn, From: call, FromFacts: true,
				Target: func(at ssa.Instruction, val *ir.Valuation) bool {
					ret, isRet := at.(*ssa.Return)
					if !isRet {
						return false
					}
					if isNil, known := val.KnownIsNil(e); known && isNil {
						return false // the emission succeeded on this path
					}
					if errIdx < 0 || errIdx >= len(ret.Results) {
						return true // nowhere to report it
					}
					r := ret.Results[errIdx]
					if val.SameOnPath(r, e) {
						return false
					}
					if isNil, known := val.KnownIsNil(r); known && !isNil {
						return false
					}
					if errKnownNonNilB(val.Selected(r)) {
						return false
					}
					return true
				}}
			w, err := q.Find()
			switch {
			case err != nil:
				c.Undecided("C15.S10", fn, construct, call, err.Error())
			case w != nil:
				c.Decide("C15.S10", fn, construct, call, false,
					"there is a path from this write to the stream to a return on which its error is not known to be nil and the returned error is neither that error nor known to be non-nil ("+w.String(c.P)+
						"): a failed or short write of this part is reported as success, so the bytes in the stream are not the predicted size and do not decode to the item")
			default:
				c.Decide("C15.S10", fn, construct, call, true, "")
			}
		})
	}
	c.R.Floor("C15.S10", 6)
}

// ---------------------------------------------------------------------------
// C15.S11 - a scratch buffer is not touched after it was released
//
// The writer emits the bytes the encoder put into a scratch region. Whatever the origin of that region (a field of the
// writer, a pooled array), the bytes must stay the encoder's until the destination's Write has returned. Handing the
// region to shared storage - (*sync.Pool).Put, a channel send (a hand-written free list), directly or through a private
// function that does so with its parameter - ends the ownership: any other writer (another goroutine, or the destination
// itself when it frames what it gets with a writer of its own) may take and overwrite it. So: from a release of a region
// there is no path, within the function, to an instruction that still uses the region or an alias of it (a window, the
// pointer, an element address) - other than through the instruction that obtains a region anew (the Get of the next
// loop round). `defer pool.Put(x)` releases at the return and is no release at the point of the defer statement.

// aliasStepB: in only derives another name of the same memory from its operand (no access).
func aliasStepB(in ssa.Instruction) bool {
	switch x := in.(type) {
	case *ssa.Slice, *ssa.IndexAddr, *ssa.FieldAddr, *ssa.ChangeType, *ssa.MakeInterface, *ssa.Phi, *ssa.SliceToArrayPointer, *ssa.ChangeInterface, *ssa.DebugRef:
		return true
	case *ssa.TypeAssert:
		return true
	case *ssa.Extract:
		_, ok := x.Tuple.(*ssa.TypeAssert)
		return ok
	case *ssa.Convert:
		_, ok := x.Type().Underlying().(*types.Pointer)
		return ok
	}
	return false
}

// regionRootsB follows v back to the values it is a name of: the parameter, the call (pool Get, constructor) or the
// allocation the memory came from.
func regionRootsB(v ssa.Value, seen map[ssa.Value]bool, out *[]ssa.Value) {
	v = ir.Resolve(v)
	if v == nil || seen[v] {
		return
	}
	seen[v] = true
	switch x := v.(type) {
	case *ssa.Slice:
		regionRootsB(x.X, seen, out)
	case *ssa.IndexAddr:
		regionRootsB(x.X, seen, out)
	case *ssa.ChangeType:
		regionRootsB(x.X, seen, out)
	case *ssa.ChangeInterface:
		regionRootsB(x.X, seen, out)
	case *ssa.MakeInterface:
		regionRootsB(x.X, seen, out)
	case *ssa.SliceToArrayPointer:
		regionRootsB(x.X, seen, out)
	case *ssa.TypeAssert:
		regionRootsB(x.X, seen, out)
	case *ssa.Extract:
		if ta, ok := x.Tuple.(*ssa.TypeAssert); ok {
			regionRootsB(ta.X, seen, out)
			return
		}
		*out = append(*out, v)
	case *ssa.Convert:
		if _, ok := x.Type().Underlying().(*types.Pointer); ok {
			regionRootsB(x.X, seen, out)
			return
		}
		*out = append(*out, v)
	case *ssa.Phi:
		for _, e := range x.Edges {
			regionRootsB(e, seen, out)
		}
	case *ssa.Const:
	default:
		*out = append(*out, v)
	}
}

// holdsMemoryB: a value of this type can name shared memory (pointer, slice, interface, map, channel).
func holdsMemoryB(t types.Type) bool {
	switch t.Underlying().(type) {
	case *types.Pointer, *types.Slice, *types.Interface, *types.Map, *types.Chan:
		return true
	}
	return false
}

// releasedParamsB: the parameters of fn that fn (or a private function it hands them to) releases to shared storage -
// at some point of its body or, by a deferred release, when it returns: for the caller both are over once the call is.
func releasedParamsB(fn *ssa.Function, memo map[*ssa.Function]map[int]bool, depth int) map[int]bool {
	if m, ok := memo[fn]; ok {
		return m
	}
	res := map[int]bool{}
	memo[fn] = res
	if depth > 2 || len(fn.Blocks) == 0 {
		return res
	}
	ir.Instrs(fn, func(in ssa.Instruction) {
		for _, v := range releasedAtB(in, memo, depth, true) {
			var roots []ssa.Value
			regionRootsB(v, map[ssa.Value]bool{}, &roots)
			for _, r := range roots {
				for i, p := range fn.Params {
					if ssa.Value(p) == r {
						res[i] = true
					}
				}
			}
		}
	})
	return res
}

// releasedAtB: the values instruction in hands over to shared storage. deferred: a `defer` of a release counts as well
// (for the summary of a callee); at the point of the defer statement itself nothing is released yet.
func releasedAtB(in ssa.Instruction, memo map[*ssa.Function]map[int]bool, depth int, deferred bool) []ssa.Value {
	switch x := in.(type) {
	case *ssa.Send:
		if holdsMemoryB(x.X.Type()) {
			return []ssa.Value{x.X}
		}
	case *ssa.Select:
		var res []ssa.Value
		for _, st := range x.States {
			if st.Dir == types.SendOnly && st.Send != nil && holdsMemoryB(st.Send.Type()) {
				res = append(res, st.Send)
			}
		}
		return res
	case ssa.CallInstruction:
		if _, isGo := in.(*ssa.Go); isGo {
			return nil
		}
		if _, isDefer := in.(*ssa.Defer); isDefer && !deferred {
			return nil
		}
		if ir.CalleeFullName(x) == "(*sync.Pool).Put" {
			if a := ir.MethodArgs(x); len(a) == 1 {
				return []ssa.Value{a[0]}
			}
			return nil
		}
		cal := ir.StaticCallee(x)
		if cal == nil || len(cal.Blocks) == 0 || cal.Pkg == nil || in.Parent() == nil || cal.Pkg != rootFnB(in.Parent()).Pkg {
			return nil
		}
		var res []ssa.Value
		for i := range releasedParamsB(cal, memo, depth+1) {
			if i < len(x.Common().Args) {
				res = append(res, x.Common().Args[i])
			}
		}
		return res
	}
	return nil
}

func rootFnB(f *ssa.Function) *ssa.Function {
	for f.Parent() != nil {
		f = f.Parent()
	}
	return f
}

// scratchNotTouchedAfterRelease is C15.S11.
func (c *Ctx) scratchNotTouchedAfterRelease() {
	memo := map[*ssa.Function]map[int]bool{}
	n := 0
	const construct = "a released scratch region is not touched again"
	for _, fn := range c.P.FuncsOf("xbinary") {
		fn := fn
		ir.Instrs(fn, func(in ssa.Instruction) {
			rel := releasedAtB(in, memo, 0, false)
			if len(rel) == 0 {
				return
			}
			var roots []ssa.Value
			for _, v := range rel {
				regionRootsB(v, map[ssa.Value]bool{}, &roots)
			}
			if len(roots) == 0 {
				return
			}
			n++
			// every name of the released memory
			names := map[ssa.Value]bool{}
			var grow func(v ssa.Value)
			grow = func(v ssa.Value) {
				if names[v] {
					return
				}
				names[v] = true
				if v.Referrers() == nil {
					return
				}
				for _, r := range *v.Referrers() {
					if rv, isV := r.(ssa.Value); isV && aliasStepB(r) {
						grow(rv)
					}
				}
			}
			rootDef := map[ssa.Instruction]bool{}
			for _, r := range roots {
				grow(r)
				if ri, isIn := r.(ssa.Instruction); isIn {
					rootDef[ri] = true
				}
			}
			uses := func(at ssa.Instruction) bool {
				if at == in || aliasStepB(at) {
					return false
				}
				for _, op := range at.Operands(nil) {
					if op != nil && *op != nil && names[*op] {
						return true
					}
				}
				return false
			}
			q := ir.Query{Fn: fn, From: in,
				Target: uses,
				Block:  func(at ssa.Instruction) bool { return rootDef[at] }}
			c.NoPath("C15.S11", construct, in, q,
				"the region is handed to shared storage here (a pool / free list) and used afterwards: between the release and the end of that use any other writer - another goroutine, or the destination itself when it frames its input with a writer of its own - can take the same memory and overwrite it, so the bytes that reach the stream are not the encoder's")
		})
	}
	if n == 0 {
		ow := c.P.LookupType("xbinary", "ObjectsWriter")
		var at *ssa.Function
		if ow != nil {
			at = c.P.MethodOf(ow, "WriteUint")
		}
		c.Decide("C15.S11", at, construct, nil, true, "")
	}
}
