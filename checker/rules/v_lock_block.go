package rules

// No blocking operation while the mechanism's mutex may be held (rule K2; the LOCK family of DESIGN.md section 3, decided
// for every function of the package instead of the worker's select only - C13.R6 - and hooked in generically like K1).
//
// A sync.Mutex critical section that waits for something - a channel receive or send without a default, a blocking
// select, time.Sleep, WaitGroup.Wait, Cond.Wait on another locker - keeps the mutex for as long as the wait lasts. In the
// timer package everything needs that mutex: Call and Cancel of every caller, the worker that dispatches, and the
// callbacks the worker runs (the lease renewal of the distributed lock re-arms itself with Call). A routine that waits
// under the mutex for an event which only one of those parties can produce (the end of a running callback, a worker
// taking a token) therefore never sees it: the producer is queued behind the very mutex the waiter holds. For the lock
// this is Unlock -> Future.Cancel never returning: the record is not deleted, the local token is not put back, nobody
// waiting is handed the lock (C04), and no renewal of any Locker of the process is armed or started any more (C05, C13).
// Nothing that is waited for under the mutex can be shown statically to come from a party that does not need the mutex,
// so the clause is: no blocking operation at a point where the mutex MAY be held.
//
// "May be held" is decided per mutex field (type-level identity, as K1): some Lock of the mutex in the function reaches
// the point on a path (branch conditions kept consistent) that passes no Unlock of it - a deferred Unlock releases at the
// exit, not where it is written - or the function may be entered with the mutex held (a least fixed point over the
// package: plain static calls, calls of a function literal where it is written, literals handed to a function of the
// package that calls its parameter) and the entry reaches the point without an Unlock. Goroutine bodies and escaping
// literals are entered with nothing held.

import (
	"go/token"
	"go/types"
	"sort"

	"golang.org/x/tools/go/ssa"

	"verif/checker/ir"
)

// blockingSources: per property, the packages whose mutex discipline is held to K2.
var blockingSources = map[string][]string{
	"C04": {"timeout"}, "C05": {"timeout"}, "C13": {"timeout"},
}

const blockingExplanation = "K2: no blocking operation while the timer's mutex may be held (in any function of the package: a channel receive or send outside a select with default, a blocking select, time.Sleep, WaitGroup.Wait, Cond.Wait on another locker; 'may be held' = reached from a Lock of the mutex, or from the entry of a function that may be called with it held, on a path without Unlock): Call, Cancel, the worker and the callbacks it runs all need that mutex, so a routine that waits under it for one of them (Cancel waiting for a running callback that re-arms itself with Call - the lease renewal does) never returns; Unlock of the distributed lock calls Cancel and would neither delete the record nor hand the lock on, and no timer of the process fires any more."

type blockSiteVB struct {
	in   ssa.Instruction
	kind string
}

// blockingKindVB classifies in as an operation that makes the goroutine wait ("" = it does not): a receive or send
// outside a select, a select without default, time.Sleep, WaitGroup.Wait, Cond.Wait.
func blockingKindVB(in ssa.Instruction) string {
	switch x := in.(type) {
	case *ssa.Select:
		if x.Blocking {
			return "blocking select"
		}
	case *ssa.UnOp:
		if x.Op == token.ARROW {
			return "channel receive"
		}
	case *ssa.Send:
		return "channel send"
	case *ssa.Call:
		switch ir.CalleeFullName(x) {
		case "time.Sleep":
			return "time.Sleep"
		case "(*sync.WaitGroup).Wait":
			return "WaitGroup.Wait"
		case "(*sync.Cond).Wait":
			return "Cond.Wait"
		}
	}
	return ""
}

// condLockersVB: the mutex fields the package's condition variables are built on (sync.NewCond(&x.mu)), and whether some
// condition variable is built on something that is not recognised as a mutex field.
func condLockersVB(fns []*ssa.Function) (on lockSets, other bool) {
	on = lockSets{}
	for _, f := range fns {
		ir.Instrs(f, func(in ssa.Instruction) {
			call, ok := in.(*ssa.Call)
			if !ok || ir.CalleeFullName(call) != "sync.NewCond" || len(call.Call.Args) != 1 {
				return
			}
			if fld := ir.FieldOf(ir.Resolve(call.Call.Args[0])); fld != nil {
				on[fld] = true
			} else {
				other = true
			}
		})
	}
	return on, other
}

// noBlockingUnderLock is rule K2 over the functions fns (one package's worth).
func (c *Ctx) noBlockingUnderLock(rule string, fns []*ssa.Function) {
	inSet := map[*ssa.Function]bool{}
	for _, f := range fns {
		inSet[f] = true
	}
	universe := lockSets{}
	for _, f := range fns {
		ir.Instrs(f, func(in ssa.Instruction) {
			if _, isDefer := in.(*ssa.Defer); isDefer {
				return
			}
			if l, acq, _ := lockFieldOp(in); l != nil && acq {
				universe[l] = true
			}
		})
	}
	if len(universe) == 0 {
		c.Fatalf("%s: no mutex acquisition found in the analysed functions", rule)
	}
	var locks []*types.Var
	for l := range universe {
		locks = append(locks, l)
	}
	sort.Slice(locks, func(i, j int) bool { return locks[i].Pos() < locks[j].Pos() })

	releases := func(l *types.Var) func(ssa.Instruction) bool {
		return func(in ssa.Instruction) bool {
			switch in.(type) {
			case *ssa.Defer, *ssa.Go:
				return false // runs at the exit / in another goroutine
			}
			fl, _, rel := lockFieldOp(in)
			return rel && fl == l
		}
	}
	// ownHeld: some Lock(l) of f reaches `at` without an Unlock(l); fromEntry: the entry of f does
	type key struct {
		at ssa.Instruction
		l  *types.Var
	}
	ownCache, entryCache := map[key]bool{}, map[key]bool{}
	undecided := map[key]bool{}
	ownHeld := func(f *ssa.Function, at ssa.Instruction, l *types.Var) bool {
		k := key{at, l}
		if v, ok := ownCache[k]; ok {
			return v
		}
		res := false
		ir.Instrs(f, func(a ssa.Instruction) {
			if res {
				return
			}
			switch a.(type) {
			case *ssa.Defer, *ssa.Go:
				return
			}
			if fl, acq, _ := lockFieldOp(a); !acq || fl != l {
				return
			}
			w, err := ir.Query{Fn: f, From: a, Block: releases(l), Target: func(x ssa.Instruction) bool { return x == at }}.Find()
			if err != nil {
				undecided[k] = true
			}
			if w != nil || err != nil {
				res = true
			}
		})
		ownCache[k] = res
		return res
	}
	fromEntry := func(f *ssa.Function, at ssa.Instruction, l *types.Var) bool {
		k := key{at, l}
		if v, ok := entryCache[k]; ok {
			return v
		}
		w, err := ir.Query{Fn: f, Block: releases(l), Target: func(x ssa.Instruction) bool { return x == at }}.Find()
		if err != nil {
			undecided[k] = true
		}
		entryCache[k] = w != nil || err != nil
		return entryCache[k]
	}

	// --- who is entered with what: call edges that run in the caller's activation
	type edge struct {
		caller *ssa.Function
		at     ssa.Instruction
		callee *ssa.Function
	}
	var edges []edge
	fnOf := func(v ssa.Value) *ssa.Function {
		switch x := ir.Resolve(v).(type) {
		case *ssa.MakeClosure:
			g, _ := x.Fn.(*ssa.Function)
			return g
		case *ssa.Function:
			return x
		}
		return nil
	}
	norm := func(g *ssa.Function) *ssa.Function {
		if g == nil {
			return nil
		}
		if o := g.Origin(); o != nil {
			g = o
		}
		if !inSet[g] {
			return nil
		}
		return g
	}
	// paramCalls[g][k]: the plain calls in g of its k-th parameter (a function handed in and run by g itself)
	paramCalls := map[*ssa.Function]map[int][]ssa.Instruction{}
	for _, g := range fns {
		for k, p := range g.Params {
			if _, isSig := p.Type().Underlying().(*types.Signature); !isSig {
				continue
			}
			ir.Instrs(g, func(in ssa.Instruction) {
				if call, ok := in.(*ssa.Call); ok && !call.Call.IsInvoke() && ir.Resolve(call.Call.Value) == ssa.Value(p) {
					if paramCalls[g] == nil {
						paramCalls[g] = map[int][]ssa.Instruction{}
					}
					paramCalls[g][k] = append(paramCalls[g][k], in)
				}
			})
		}
	}
	for _, f := range fns {
		f := f
		ir.Instrs(f, func(in ssa.Instruction) {
			call, ok := in.(*ssa.Call)
			if !ok || call.Call.IsInvoke() {
				return
			}
			cal := norm(calleeYA(call))
			if cal == nil {
				cal = norm(fnOf(call.Call.Value)) // a literal called where it is written down, or through a local
			}
			if cal == nil {
				return
			}
			edges = append(edges, edge{f, in, cal})
			// literals (or functions) handed to a function of the package that calls its parameter
			for k, a := range call.Call.Args {
				if g := norm(fnOf(a)); g != nil && k < len(cal.Params) {
					for _, pc := range paramCalls[cal][k] {
						edges = append(edges, edge{cal, pc, g})
					}
				}
			}
		})
	}
	entry := map[*ssa.Function]lockSets{}
	for _, f := range fns {
		entry[f] = lockSets{}
	}
	mayHeld := func(f *ssa.Function, at ssa.Instruction, l *types.Var) bool {
		return ownHeld(f, at, l) || (entry[f][l] && fromEntry(f, at, l))
	}
	for changed, iter := true, 0; changed && iter < 64; iter++ {
		changed = false
		for _, e := range edges {
			for _, l := range locks {
				if !entry[e.callee][l] && mayHeld(e.caller, e.at, l) {
					entry[e.callee][l] = true
					changed = true
				}
			}
		}
	}

	// --- the rule: one obligation per blocking operation of the package
	condOn, condOther := condLockersVB(fns)
	n := 0
	for _, f := range fns {
		f := f
		ir.Instrs(f, func(in ssa.Instruction) {
			kind := blockingKindVB(in)
			if kind == "" {
				return
			}
			n++
			var held []string
			undec := false
			for _, l := range locks {
				if kind == "Cond.Wait" && condOn[l] && !condOther && len(condOn) == 1 {
					continue // waits on a condition variable built on this very mutex: Wait releases it
				}
				if mayHeld(f, in, l) {
					held = append(held, l.Name())
					undec = undec || undecided[key{in, l}]
				}
			}
			construct := kind + " runs with the mutex released"
			what := "a " + kind + " is reached while the mutex"
			if len(held) > 0 {
				what += " " + held[0]
			}
			what += " may be held (locked on a path to this point, by this function or by a caller, and not unlocked): everybody else who needs the mutex - Call, Cancel, the dispatching worker, a callback that re-arms or cancels a timer - is blocked for as long as the wait lasts, and when the event waited for can only come from one of them (the end of a running callback, a worker taking a token) it never comes: Cancel / Call never return, no timer fires any more"
			switch {
			case undec:
				c.Undecided(rule, f, construct, in, "the lock state on the paths to this point could not be decided within the bound")
			default:
				c.Decide(rule, f, construct, in, len(held) == 0, what)
			}
		})
	}
	if n == 0 {
		// a package without a single blocking operation satisfies the clause
		c.DecideAt(rule, "-", "the package has no blocking operation", token.NoPos, true, "")
	}
}
