package rules

import (
	"go/token"
	"go/types"
	"strings"

	"golang.org/x/tools/go/ssa"

	"verif/checker/ir"
)

// ===========================================================================
// C20.R15: on the ZipFolder path no decision rests on a lossy image of the entry name
//
// What it decides. Scope: ZipFolder and everything of the package it reaches (closures, repository functions called
// statically, the functions those call). In each of them the values that carry "the name of the file being archived"
// are found by what they feed: the name argument of (*zip.Writer).Create / CreateHeader, the arguments handed to
// repository functions at parameters that feed one (fixed point), everything those arguments are built from (the walked
// path, the relative path) and everything built from that in turn. A LOSSY image of such a value - the result of one of
// the operations R3 rejects for the entry name itself (case folding, cut-set trims, Replace, Base ...; directly, or as the
// result of a repository function that returns such an image of its parameter), or strings.EqualFold on it - must not
// reach a branch condition of these functions (through string operations, map lookups keyed by it, comparisons,
// predicates handed it), nor the name argument of the archive write when it comes out of a repository function (R3
// sees the operations spelled out in place). Separator normalisation and cleaning (ToSlash, Clean, Join, Rel) are not
// lossy in this sense: the extraction undoes them with filepath.Join.
//
// Why it is necessary. "For any directory tree ... reproduces every regular file - relative path": the quantifier
// ranges over trees with names that differ in case, dots and spaces. A branch in the archive-writing code decides
// whether the file at hand is written, refused or makes the walk fail; if it is taken on an image under which two
// different relative paths coincide (Readme.txt / readme.txt), one of the two files is treated as the other - refused as
// a duplicate, skipped, or the whole archive is given up - although the tree is one the property promises to reproduce.
//
// Over-approximations: the branch is not shown to govern the write (any branch of a function on the ZipFolder path
// counts); a lossy image used for a decision that is right for every tree (none is known) would be flagged.
func (c *Ctx) zipLossyDecisions(fns []*ssa.Function, env *r1Env, lossy map[string]bool, rule string) {
	root := c.P.Func("files", "ZipFolder")
	if root == nil || len(root.Blocks) == 0 {
		return // R5/R6 floors report a missing ZipFolder
	}
	g := &zipLossy{c: c, env: env, lossy: lossy, reach: map[*ssa.Function]bool{}, nameParams: map[*ssa.Function]map[int]bool{},
		lossyRet: map[*ssa.Function]map[int]bool{}}
	// reached: called statically, made a closure of, or taken as a value (a method value handed to filepath.Walk is a
	// closure over a synthetic wrapper, which is looked through)
	var visit func(fn *ssa.Function, d int)
	visit = func(fn *ssa.Function, d int) {
		if fn == nil || g.reach[fn] || d > 8 || len(fn.Blocks) == 0 {
			return
		}
		if !env.inPkg[fn] {
			if fn.Synthetic == "" {
				return
			}
		} else {
			g.order = append(g.order, fn)
		}
		g.reach[fn] = true
		ir.Instrs(fn, func(in ssa.Instruction) {
			if call, ok := in.(ssa.CallInstruction); ok {
				visit(ir.StaticCallee(call), d+1)
			}
			for _, op := range in.Operands(nil) {
				if op == nil || *op == nil {
					continue
				}
				switch x := (*op).(type) {
				case *ssa.Function:
					visit(x, d+1)
				case *ssa.MakeClosure:
					if f, ok := x.Fn.(*ssa.Function); ok {
						visit(f, d+1)
					}
				}
			}
		})
		for _, an := range fn.AnonFuncs {
			visit(an, d+1)
		}
	}
	visit(root, 0)
	// parameters that feed the name of an archive entry, and repository functions that return a lossy image of a parameter
	for changed := true; changed; {
		changed = false
		for _, fn := range g.order {
			slice := g.backSlice(fn, g.nameArgs(fn))
			for i, p := range fn.Params {
				if slice[p] && isStringType(p.Type()) && !g.nameParams[fn][i] {
					if g.nameParams[fn] == nil {
						g.nameParams[fn] = map[int]bool{}
					}
					g.nameParams[fn][i] = true
					changed = true
				}
			}
		}
	}
	for changed := true; changed; {
		changed = false
		for _, fn := range fns {
			if len(fn.Blocks) == 0 {
				continue
			}
			for i, p := range fn.Params {
				if !isStringType(p.Type()) || g.lossyRet[fn][i] {
					continue
				}
				names := env.derives(fn, map[ssa.Value]bool{p: true})
				lv, _ := g.lossyValues(fn, names)
				hit := false
				for _, ret := range ir.Returns(fn) {
					for _, r := range ret.Results {
						if lv[r] && isStringType(r.Type()) {
							hit = true
						}
					}
				}
				if hit {
					if g.lossyRet[fn] == nil {
						g.lossyRet[fn] = map[int]bool{}
					}
					g.lossyRet[fn][i] = true
					changed = true
				}
			}
		}
	}
	n := 0
	for _, fn := range g.order {
		args := g.nameArgs(fn)
		if len(args) == 0 {
			continue
		}
		n++
		c.Saw(fn)
		roots := g.backSlice(fn, args)
		names := env.derives(fn, roots)
		lv, why := g.lossyValues(fn, names)
		infl := g.influence(fn, lv)
		construct := "no decision on the way to the archive write rests on a lossy image of the entry name"
		var at ssa.Instruction
		detail := ""
		ir.Instrs(fn, func(in ssa.Instruction) {
			if at != nil {
				return
			}
			switch x := in.(type) {
			case *ssa.If:
				if infl[x.Cond] {
					at = in
					detail = "a branch of the archive-writing code is decided on a value obtained from the name of the file at hand through " + g.origin(infl, why, x.Cond) +
						", under which different relative paths coincide (Readme.txt / readme.txt): one of two files of the tree is treated as the other - refused as a duplicate, left out, or the archive is given up - and the round trip does not reproduce the tree"
				}
			case *ssa.Call:
				if isArchiveCreate(x) {
					if a := ir.MethodArgs(x); len(a) > 0 && lv[a[0]] && g.viaHelper(lv, why, a[0]) {
						at = in
						detail = "the name of the archive entry is a lossy image of the relative path (" + g.origin(lv, why, a[0]) + "): different files get the same entry name"
					}
				}
			}
		})
		c.Decide(rule, fn, construct, at, at == nil, detail)
	}
	if n == 0 {
		c.R.Errorf("%s: no function reached from ZipFolder feeds the name of an archive entry: the rule would pass vacuously", rule)
	}
}

type zipLossy struct {
	c          *Ctx
	env        *r1Env
	lossy      map[string]bool
	reach      map[*ssa.Function]bool
	order      []*ssa.Function
	nameParams map[*ssa.Function]map[int]bool // parameters that feed the name of an archive entry
	lossyRet   map[*ssa.Function]map[int]bool // parameters a lossy image of which is returned
}

// nameArgs: the values of fn that are handed on as the name of an archive entry.
func (g *zipLossy) nameArgs(fn *ssa.Function) map[ssa.Value]bool {
	res := map[ssa.Value]bool{}
	for _, call := range ir.Calls(fn) {
		if isArchiveCreate(call) {
			if a := ir.MethodArgs(call); len(a) > 0 {
				if isStringType(a[0].Type()) {
					res[a[0]] = true
				}
			}
			continue
		}
		if cal := ir.StaticCallee(call); cal != nil && g.reach[cal] {
			args := call.Common().Args
			for i := range g.nameParams[cal] {
				if i < len(args) {
					res[args[i]] = true
				}
			}
		}
	}
	return res
}

// backSlice: the string values the given values are built from (operands of concatenations, string-typed arguments of
// calls, phi operands, what locals hold), the given values included.
func (g *zipLossy) backSlice(fn *ssa.Function, from map[ssa.Value]bool) map[ssa.Value]bool {
	res := map[ssa.Value]bool{}
	var rec func(v ssa.Value, d int)
	rec = func(v ssa.Value, d int) {
		if v == nil || res[v] || d > 16 {
			return
		}
		if _, isConst := v.(*ssa.Const); isConst {
			return
		}
		res[v] = true
		switch x := v.(type) {
		case *ssa.Phi:
			for _, e := range x.Edges {
				rec(e, d+1)
			}
		case *ssa.BinOp:
			if x.Op == token.ADD {
				rec(x.X, d+1)
				rec(x.Y, d+1)
			}
		case *ssa.Slice:
			rec(x.X, d+1)
		case *ssa.Extract:
			rec(x.Tuple, d+1)
		case *ssa.ChangeType:
			rec(x.X, d+1)
		case *ssa.Convert:
			if isStringType(x.X.Type()) {
				rec(x.X, d+1)
			}
		case *ssa.UnOp:
			if x.Op == token.MUL {
				switch a := x.X.(type) {
				case *ssa.Alloc:
					for _, st := range ir.StoresTo(a) {
						rec(st.Val, d+1)
					}
				case *ssa.FreeVar:
					// a captured variable: what the enclosing function stores there is its business; the variable
					// itself is a root here
				}
			}
		case *ssa.Call:
			for _, a := range x.Call.Args {
				if isStringType(a.Type()) {
					rec(a, d+1)
				}
				if sl, isSl := a.(*ssa.Slice); isSl {
					for _, e := range variadicArgs(sl) {
						if isStringType(e.Type()) {
							rec(e, d+1)
						}
					}
				}
			}
		}
	}
	for v := range from {
		rec(v, 0)
	}
	return res
}

// lossyValues: the values of fn that are (built from) a lossy image of a value in names; why maps the first images to
// a description of the operation.
func (g *zipLossy) lossyValues(fn *ssa.Function, names map[ssa.Value]bool) (map[ssa.Value]bool, map[ssa.Value]string) {
	seeds := map[ssa.Value]bool{}
	why := map[ssa.Value]string{}
	for _, call := range ir.Calls(fn) {
		cc, ok := call.(*ssa.Call)
		if !ok {
			continue
		}
		name := ir.CalleeFullName(cc)
		if g.lossy[name] || name == "strings.EqualFold" {
			for _, a := range cc.Call.Args {
				if names[a] {
					seeds[cc] = true
					why[cc] = name
				}
			}
			continue
		}
		if cal := ir.StaticCallee(cc); cal != nil && cal != fn && len(g.lossyRet[cal]) > 0 {
			for i := range g.lossyRet[cal] {
				if i < len(cc.Call.Args) && names[cc.Call.Args[i]] {
					seeds[cc] = true
					why[cc] = "the repository function " + ir.FnName(cal) + ", which returns a lossy image of its argument"
				}
			}
		}
	}
	if len(seeds) == 0 {
		return seeds, why
	}
	return g.env.derives(fn, seeds), why
}

// viaHelper: v is lossy through the result of a repository function (not through an operation spelled out in fn).
func (g *zipLossy) viaHelper(lv map[ssa.Value]bool, why map[ssa.Value]string, v ssa.Value) bool {
	return strings.HasPrefix(g.origin(lv, why, v), "the repository function")
}

// origin names the lossy operation v goes back to.
func (g *zipLossy) origin(in map[ssa.Value]bool, why map[ssa.Value]string, v ssa.Value) string {
	seen := map[ssa.Value]bool{}
	res := ""
	var rec func(v ssa.Value, d int)
	rec = func(v ssa.Value, d int) {
		if v == nil || seen[v] || d > 24 || res != "" {
			return
		}
		seen[v] = true
		if w, ok := why[v]; ok {
			res = w
			return
		}
		if u, ok := v.(*ssa.UnOp); ok && u.Op == token.MUL {
			if a, isAlloc := u.X.(*ssa.Alloc); isAlloc {
				for _, st := range ir.StoresTo(a) {
					rec(st.Val, d+1)
				}
			}
		}
		if inst, ok := v.(ssa.Instruction); ok {
			for _, op := range inst.Operands(nil) {
				if op != nil && *op != nil {
					rec(*op, d+1)
				}
			}
		}
	}
	rec(v, 0)
	if res == "" {
		res = "a lossy operation"
	}
	return res
}

// influence: the values of fn a lossy image decides - the image itself and what is built from it, the result of a map
// lookup keyed by it, comparisons with it, negations, and the bool or string results of calls that are handed it
// (predicates, the caller's filter); error values and formatted messages are not followed.
func (g *zipLossy) influence(fn *ssa.Function, lv map[ssa.Value]bool) map[ssa.Value]bool {
	infl := map[ssa.Value]bool{}
	for v := range lv {
		infl[v] = true
	}
	if len(infl) == 0 {
		return infl
	}
	boolOrString := func(t types.Type) bool {
		if tp, ok := t.(*types.Tuple); ok {
			for i := 0; i < tp.Len(); i++ {
				if isBoolType(tp.At(i).Type()) || isStringType(tp.At(i).Type()) {
					return true
				}
			}
			return false
		}
		return isBoolType(t) || isStringType(t)
	}
	for changed := true; changed; {
		changed = false
		mark := func(v ssa.Value) {
			if !infl[v] {
				infl[v] = true
				changed = true
			}
		}
		ir.Instrs(fn, func(in ssa.Instruction) {
			switch x := in.(type) {
			case *ssa.Phi:
				for _, e := range x.Edges {
					if infl[e] {
						mark(x)
					}
				}
			case *ssa.Lookup:
				if infl[x.Index] {
					mark(x)
				}
			case *ssa.Extract:
				if infl[x.Tuple] && (isBoolType(x.Type()) || isStringType(x.Type())) {
					mark(x)
				}
			case *ssa.BinOp:
				if infl[x.X] || infl[x.Y] {
					mark(x)
				}
			case *ssa.UnOp:
				switch x.Op {
				case token.NOT:
					if infl[x.X] {
						mark(x)
					}
				case token.MUL:
					if a, ok := x.X.(*ssa.Alloc); ok && infl[a] {
						mark(x)
					}
				}
			case *ssa.Store:
				if a, ok := x.Addr.(*ssa.Alloc); ok && infl[x.Val] {
					mark(a)
				}
			case *ssa.ChangeType:
				if infl[x.X] {
					mark(x)
				}
			case *ssa.Call:
				if !boolOrString(x.Type()) {
					return
				}
				if obj := ir.CalleeObj(x); obj != nil && obj.Pkg() != nil {
					switch obj.Pkg().Path() {
					case "fmt", "errors", "log":
						return
					}
				}
				for _, a := range x.Call.Args {
					if infl[a] {
						mark(x)
					}
				}
			}
		})
	}
	return infl
}
