package rules

// Block allocator rule of round h (C17.R17): the allocator writes block DATA only for the block the operation is about.
//
// The bytes of an allocated block belong to whoever holds its index ("the byte ranges of distinct blocks overlap neither
// each other nor the bookkeeping area"; the content of user blocks is what callers observe). FreeBlock and ArrangeBlock
// may touch the data of a block (wipe it on release, clear it before handing it out) - but only of their own block:
// the one whose index is FreeBlock's parameter, or the index ArrangeBlock returns. A data slice fetched through Block()
// with any other index expression - a variable that was re-used for something else, an index computed from header
// coordinates - lands in a block that may be allocated to somebody else, and the allocator overwrites his bytes while
// bitmap, counter and returned indices all stay right.
//
// Decided in the functions that carry out FreeBlock / ArrangeBlock for every call of Block() whose slice is written
// (element store, copy destination, clear) or leaves the function (handed to a call, returned): the index argument
// must be the operation's own index - FreeBlock's index parameter as it came in (the SSA parameter, not a later
// assignment to the variable), the expression ArrangeBlock returns as the index, or a parameter of a helper that
// receives such a value at every call. On a tree where these functions never fetch block data the obligation is a
// discharged census.

import (
	"go/types"

	"golang.org/x/tools/go/ssa"

	"verif/checker/ir"
)

func (c *Ctx) vbhOwnBlockData(rule string, blocks *types.Named, blockFn, arrange, free *ssa.Function, arrangeGroup, freeGroup []*ssa.Function) {
	const construct = "block data written only for the operation's own index"
	var fns []*ssa.Function
	for _, fn := range append(append([]*ssa.Function{}, arrangeGroup...), freeGroup...) {
		if !xcInGroup(fns, fn) && fn != blockFn {
			fns = append(fns, fn)
		}
	}
	// own indices: FreeBlock's int parameter(s) and the expressions that compose the index ArrangeBlock returns
	own := map[ssa.Value]bool{}
	for _, p := range free.Params {
		if p != free.Params[0] && types.Identical(p.Type(), types.Typ[types.Int]) {
			own[p] = true
		}
	}
	for _, r := range vbResultRoots(arrange, 0, 0, map[*ssa.Function]bool{}) {
		if _, isC := r.(*ssa.Const); !isC {
			own[xcStripConv(r)] = true
		}
	}
	// verdict on an index expression: 1 own, 0 not, 2 mixed/unknown; a parameter of a helper is handed back to the caller
	var classify func(fn *ssa.Function, v ssa.Value, depth int) (int, string)
	classify = func(fn *ssa.Function, v ssa.Value, depth int) (int, string) {
		r := xcStripConv(v)
		if own[r] {
			return 1, ""
		}
		if p, isParam := r.(*ssa.Parameter); isParam && p.Parent() != free && depth < 3 {
			// every place that runs this helper hands it an own index
			pi := -1
			for i, q := range p.Parent().Params {
				if q == p {
					pi = i
				}
			}
			found := false
			for _, g := range fns {
				for _, call := range callsTo(g, p.Parent()) {
					if pi < 0 || pi >= len(call.Call.Args) {
						continue
					}
					found = true
					if k, why := classify(g, call.Call.Args[pi], depth+1); k != 1 {
						return k, "through the call at " + c.P.InstrPos(call) + " " + why
					}
				}
			}
			if found {
				return 1, ""
			}
			return 2, "no call of " + ir.FnName(p.Parent()) + " was found in the functions that carry out the operation"
		}
		// a variable kept in a cell (captured, address taken): all of its values count
		all, some := true, false
		for _, o := range ir.Origins(v) {
			if own[xcStripConv(o)] {
				some = true
			} else {
				all = false
			}
		}
		switch {
		case all && some:
			return 1, ""
		case some:
			return 2, "the index variable holds the operation's own index on some paths and another value on others"
		}
		return 0, ""
	}
	n := 0
	for _, fn := range fns {
		fn := fn
		for _, call := range callsTo(fn, blockFn) {
			if len(call.Call.Args) < 2 || !vbhSliceUsed(call) {
				continue
			}
			n++
			k, why := classify(fn, call.Call.Args[1], 0)
			switch k {
			case 1:
				c.Decide(rule, fn, construct, call, true, "")
			case 2:
				c.Undecided(rule, fn, construct, call, "the data of a block is fetched for writing with an index the rule cannot tie to the operation's own index: "+why)
			default:
				c.Decide(rule, fn, construct, call, false, "the allocator fetches the data of a block through Block() and writes it (or hands it on), but the index is not the operation's own - not FreeBlock's index parameter as it came in (the variable may have been re-used: FreeBlock assigns the header byte position to it for the free hint) and not the index ArrangeBlock returns "+why+": the bytes of a different block, which may be allocated to somebody else, are overwritten while bitmap, counter and indices stay right - the byte ranges operations on distinct blocks touch are no longer disjoint")
			}
		}
	}
	if n == 0 {
		c.DecideAt(rule, blocks.Obj().Name(), "allocate/free write no block data", blocks.Obj().Pos(), true, "")
	}
}

// vbhSliceUsed: the slice result of the Block() call is written (element store, copy destination, clear) or leaves the
// function (argument of another call, returned, stored somewhere).
func vbhSliceUsed(call *ssa.Call) bool {
	if call.Referrers() == nil {
		return false
	}
	for _, r := range *call.Referrers() {
		ex, ok := r.(*ssa.Extract)
		if !ok || ex.Index != 0 || ex.Referrers() == nil {
			continue
		}
		var used func(v ssa.Value, d int) bool
		used = func(v ssa.Value, d int) bool {
			if d > 4 || v.Referrers() == nil {
				return false
			}
			for _, u := range *v.Referrers() {
				switch x := u.(type) {
				case *ssa.IndexAddr:
					if x.Referrers() != nil {
						for _, w := range *x.Referrers() {
							if st, isSt := w.(*ssa.Store); isSt && st.Addr == ssa.Value(x) {
								return true
							}
						}
					}
				case *ssa.Slice:
					if used(x, d+1) {
						return true
					}
				case *ssa.Phi:
					if used(x, d+1) {
						return true
					}
				case *ssa.Store:
					if x.Val == v {
						return true
					}
				case *ssa.Return:
					return true
				case ssa.CallInstruction:
					cc := x.Common()
					if b, isB := cc.Value.(*ssa.Builtin); isB {
						switch b.Name() {
						case "len", "cap":
							continue
						case "copy":
							if len(cc.Args) > 0 && cc.Args[0] == v {
								return true
							}
							continue
						}
					}
					return true
				}
			}
			return false
		}
		if used(ex, 0) {
			return true
		}
	}
	return false
}
