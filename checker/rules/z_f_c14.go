package rules

import (
	"go/token"
	"go/types"
	"reflect"

	"golang.org/x/tools/go/ssa"

	"verif/checker/ir"
)

// C14.R9 - one state of the indices per access.
//
// A position in the backing array (the bound of a segment buf[lo:hi], the index of an element access) is often chosen
// among alternatives by a test on the indices: "up to the write index if it lies ahead of the read index, else up to the
// end of the array", "read index + n, but not behind the end of the array", "fold by len(buf) when read index + i
// reaches it". Such a test is a statement about the value the index had when it was read. The rule: at every access
// whose position reads an index field by value AND depends on a test that reads the same index field, both reads see the
// same value of the field - no write to that field (direct, in a callee, through a function value) lies between the
// read the test was made on and the access unless it lies between the by-value read and the access as well. Otherwise
// the access combines the current index with a decision about an index that has moved on: after the read index wrapped
// to 0, "the write index is not ahead, so the data runs to the end of the array" is still applied and the segment runs
// over the write index.
//
// What is followed, and what is not:
//   - positions: loads of the index fields, len(buf), sums/differences of a position and a count, phis of positions
//     (with the branch facts that select each alternative). Counts (Len(), len(x), copy(), a difference of two
//     positions) are not followed: a count that was planned from an earlier state ("first := min(total, len(buf)-r)")
//     stays valid when the index moves;
//   - loop-carried variables (a phi at the head of a loop that is fed over a back edge: a local cursor, a remaining count, a flag that is kept up to
//     date) are not followed: the loop maintains them;
//   - a test reads an index where its operands load the field (through arithmetic, not through phis) or call a function
//     of the package that loads it (Len(), a classifying helper): the call counts as the read, at the place of the call.

// c14read: the value of index field f is read by instruction at (a load, or a call of a function that loads it).
type c14read struct {
	at ssa.Instruction
	f  *types.Var
}

func (k *c14) idxFieldOf(v ssa.Value) *types.Var {
	if _, ok := loadOfField(v, k.rIdx); ok {
		return k.rIdx
	}
	if _, ok := loadOfField(v, k.wIdx); ok {
		return k.wIdx
	}
	return nil
}

func c14strip(v ssa.Value) ssa.Value {
	for i := 0; i < 8; i++ {
		v = ir.Resolve(v)
		cv, ok := v.(*ssa.Convert)
		if !ok {
			return v
		}
		v = cv.X
	}
	return v
}

// idxLike: v contains the value of an index field at position level (index, index + count, a phi of such).
func (k *c14) idxLike(v ssa.Value, seen map[ssa.Value]bool) bool {
	v = c14strip(v)
	if v == nil || seen[v] {
		return false
	}
	seen[v] = true
	if k.idxFieldOf(v) != nil {
		return true
	}
	switch x := v.(type) {
	case *ssa.Call:
		if g := k.posCallee(x); g != nil {
			for _, ep := range ir.ExitPoints(g) {
				if k.idxLike(ep.Result(0), seen) {
					return true
				}
			}
		}
	case *ssa.Phi:
		for _, e := range x.Edges {
			if k.idxLike(e, seen) {
				return true
			}
		}
	case *ssa.BinOp:
		switch x.Op {
		case token.ADD:
			return k.idxLike(x.X, seen) || k.idxLike(x.Y, seen)
		case token.SUB:
			return k.idxLike(x.X, seen) && !k.idxLike(x.Y, map[ssa.Value]bool{})
		}
	}
	return false
}

// posLike: v denotes a position in the backing array: an index, len(buf) (the end), a position plus/minus a count, a phi
// with such an alternative. The difference of two positions that both contain an index is a count.
func (k *c14) posLike(v ssa.Value, seen map[ssa.Value]bool) bool {
	v = c14strip(v)
	if v == nil || seen[v] {
		return false
	}
	seen[v] = true
	if k.idxFieldOf(v) != nil || k.isLenBuf(v) {
		return true
	}
	switch x := v.(type) {
	case *ssa.Call:
		return k.posCall(x, seen)
	case *ssa.Phi:
		for _, e := range x.Edges {
			if k.posLike(e, seen) {
				return true
			}
		}
	case *ssa.BinOp:
		switch x.Op {
		case token.ADD:
			return k.posLike(x.X, seen) || k.posLike(x.Y, seen)
		case token.SUB:
			return k.posLike(x.X, seen) && !k.idxLike(x.Y, map[ssa.Value]bool{})
		}
	}
	return false
}

// posCallee: the call is a static call of a function of the package (not Len/Cap, which are counts) with one int result.
func (k *c14) posCallee(x *ssa.Call) *ssa.Function {
	g := ir.StaticCallee(x)
	if g == nil || !k.inPkg(g) || g == k.lenFn || g == k.capFn {
		return nil
	}
	res := g.Signature.Results()
	if res.Len() != 1 || !types.Identical(res.At(0).Type(), types.Typ[types.Int]) {
		return nil
	}
	return g
}

// posCall: the call delivers a position: a helper of the package one of whose exits returns a position made of the
// indices (the end of the readable segment, the slot of the i-th element).
func (k *c14) posCall(x *ssa.Call, seen map[ssa.Value]bool) bool {
	g := k.posCallee(x)
	if g == nil {
		return false
	}
	for _, ep := range ir.ExitPoints(g) {
		if r := ep.Result(0); r != nil && k.idxLike(r, seen) {
			return true
		}
	}
	return false
}

// fieldsRead: the index fields the function (or what it calls) loads.
func (k *c14) fieldsRead(g *ssa.Function) []*types.Var {
	var res []*types.Var
	for _, f := range []*types.Var{k.rIdx, k.wIdx} {
		f := f
		if ir.MayReach(g, func(in ssa.Instruction) bool {
			switch u := in.(type) {
			case *ssa.UnOp:
				if u.Op == token.MUL {
					_, isF := fieldAddrOf(u.X, f)
					return isF
				}
			case *ssa.Field:
				return ir.FieldOf(u) == f
			}
			return false
		}, 4) {
			res = append(res, f)
		}
	}
	return res
}

// c14cyclic: the phi is a loop-carried variable: it sits at the head of a loop and an alternative other than the phi
// itself comes in over a back edge (from a block the head dominates). A phi whose back edges all carry the phi itself is
// a variable set in front of the loop and never changed inside it.
func c14cyclic(p *ssa.Phi) bool {
	b := p.Block()
	for i, pred := range b.Preds {
		if b.Dominates(pred) && i < len(p.Edges) && c14strip(p.Edges[i]) != ssa.Value(p) {
			return true
		}
	}
	return false
}

// c14cone collects, for one access, the reads of the index fields its position is made of (data) and the reads the
// tests that select among its alternatives were made on (tests).
type c14cone struct {
	k     *c14
	data  []c14read
	tests []c14read
	seen  map[ssa.Value]bool
}

func (c *c14cone) add(l *[]c14read, r c14read) {
	for _, x := range *l {
		if x.at == r.at && x.f == r.f {
			return
		}
	}
	*l = append(*l, r)
}

// selecting: the branch facts under which the phi takes its i-th alternative, without those that hold at the phi anyway.
func c14selecting(p *ssa.Phi, i int) []ir.Fact {
	common := ir.Facts(p.Block())
	var res []ir.Fact
	for _, f := range c14edgeFacts(p, i) {
		f = f.StripNot()
		dup := false
		for _, g := range common {
			g = g.StripNot()
			if g.Cond == f.Cond && g.True == f.True {
				dup = true
				break
			}
		}
		if !dup {
			res = append(res, f)
		}
	}
	return res
}

// position follows v as a position (see the comment at the top of the file).
func (c *c14cone) position(v ssa.Value, depth int) {
	k := c.k
	v = c14strip(v)
	if v == nil || c.seen[v] || depth > 8 {
		return
	}
	c.seen[v] = true
	if f := k.idxFieldOf(v); f != nil {
		if in, ok := v.(ssa.Instruction); ok {
			c.add(&c.data, c14read{in, f})
		}
		return
	}
	switch x := v.(type) {
	case *ssa.Call:
		// a helper that delivers a position: it reads the indices and makes its tests where it is called
		if k.posCall(x, map[ssa.Value]bool{}) {
			for _, f := range k.fieldsRead(k.posCallee(x)) {
				c.add(&c.data, c14read{x, f})
				c.add(&c.tests, c14read{x, f})
			}
		}
	case *ssa.Phi:
		if c14cyclic(x) {
			return
		}
		for i, e := range x.Edges {
			if c14strip(e) == v {
				continue // the value the variable had when the loop was entered
			}
			for _, f := range c14selecting(x, i) {
				c.test(f.Cond, 0)
			}
			if k.posLike(e, map[ssa.Value]bool{}) {
				c.position(e, depth+1)
			}
		}
	case *ssa.BinOp:
		switch x.Op {
		case token.ADD:
			for _, o := range []ssa.Value{x.X, x.Y} {
				if k.posLike(o, map[ssa.Value]bool{}) {
					c.position(o, depth+1)
				}
			}
		case token.SUB:
			if k.idxLike(x.Y, map[ssa.Value]bool{}) {
				return // a difference of positions: a count
			}
			c.position(x.X, depth+1)
			if k.posLike(x.Y, map[ssa.Value]bool{}) {
				c.position(x.Y, depth+1) // the fold offset phi(0, len(buf))
			}
		}
	}
}

// test records the reads of the index fields made by the operands of a branch condition.
func (c *c14cone) test(v ssa.Value, depth int) {
	k := c.k
	v = c14strip(v)
	if v == nil || depth > 6 {
		return
	}
	if f := k.idxFieldOf(v); f != nil {
		if in, ok := v.(ssa.Instruction); ok {
			c.add(&c.tests, c14read{in, f})
		}
		return
	}
	switch x := v.(type) {
	case *ssa.BinOp:
		c.test(x.X, depth+1)
		c.test(x.Y, depth+1)
	case *ssa.UnOp:
		if x.Op != token.MUL {
			c.test(x.X, depth+1)
		}
	case *ssa.Call:
		g := ir.StaticCallee(x)
		if g == nil || !k.inPkg(g) {
			return
		}
		for _, f := range k.fieldsRead(g) {
			c.add(&c.tests, c14read{x, f})
		}
	}
}

// staleAt: the field may have been written after the read rd and before the access use, without rd having been made
// again: the value rd delivered is not the value the field has at use. The second result is false when a path query hit
// its bound.
func (k *c14) staleAt(rd c14read, use ssa.Instruction) (stale, decided bool) {
	fn := use.Parent()
	if fn == nil || rd.at.Parent() != fn {
		return true, true
	}
	var ws []ssa.Instruction
	ir.Instrs(fn, func(in ssa.Instruction) {
		if in != rd.at && k.writesField(in, rd.f) {
			ws = append(ws, in)
		}
	})
	decided = true
	for _, s := range ws {
		s := s
		w1, e1 := (ir.Query{Fn: fn, From: rd.at, Target: func(i ssa.Instruction) bool { return i == s }}).Find()
		if e1 != nil {
			decided = false
			continue
		}
		if w1 == nil {
			continue
		}
		w2, e2 := (ir.Query{Fn: fn, From: s, Target: func(i ssa.Instruction) bool { return i == use }, Block: func(i ssa.Instruction) bool { return i == rd.at }}).Find()
		if e2 != nil {
			decided = false
			continue
		}
		if w2 != nil {
			return true, true
		}
	}
	return false, decided
}

// oneState is C14.R9.
func (k *c14) oneState(scope []*ssa.Function, anchor *ssa.Function) {
	c := k.Ctx
	const rule = "C14.R9"
	const what = "position and the tests that select it read one state of the indices"
	n := 0
	for _, fn := range scope {
		fn := fn
		ir.Instrs(fn, func(in ssa.Instruction) {
			var ops []ssa.Value
			switch x := in.(type) {
			case *ssa.Slice:
				if !k.bufDerivedOrNil(x.X) {
					return
				}
				ops = []ssa.Value{x.Low, x.High, x.Max}
			case *ssa.IndexAddr:
				if !k.bufDerivedOrNil(x.X) {
					return
				}
				ops = []ssa.Value{x.Index}
			default:
				return
			}
			cone := &c14cone{k: k, seen: map[ssa.Value]bool{}}
			for _, o := range ops {
				if o != nil && !reflect.ValueOf(o).IsNil() {
					cone.position(o, 0)
				}
			}
			if len(cone.tests) == 0 || len(cone.data) == 0 {
				return
			}
			applies, ok, undecided := false, true, false
			detail := ""
			for _, f := range []*types.Var{k.rIdx, k.wIdx} {
				var ds, ts []c14read
				for _, r := range cone.data {
					if r.f == f {
						ds = append(ds, r)
					}
				}
				for _, r := range cone.tests {
					if r.f == f {
						ts = append(ts, r)
					}
				}
				if len(ds) == 0 || len(ts) == 0 {
					continue
				}
				applies = true
				for _, t := range ts {
					tStale, dec := k.staleAt(t, in)
					if !dec {
						undecided = true
					}
					for _, d := range ds {
						dStale, dec2 := k.staleAt(d, in)
						if !dec2 {
							undecided = true
						}
						bad := tStale != dStale
						if !bad && tStale {
							// both older than the access: then they must be reads of one and the same state
							if a, isA := t.at.(*ssa.UnOp); isA {
								if b, isB := d.at.(*ssa.UnOp); isB && a != b && k.storeBetween(a, b, f) {
									bad = true
								}
							}
						}
						if bad && ok {
							ok = false
							role := "the test at " + c.P.InstrPos(t.at) + " was made on a value of the index '" + f.Name() + "' that may have been overwritten since, while the position itself uses the value read at " + c.P.InstrPos(d.at)
							if dStale && !tStale {
								role = "the position uses a value of the index '" + f.Name() + "' read at " + c.P.InstrPos(d.at) + " that may have been overwritten since, while the test at " + c.P.InstrPos(t.at) + " was made on the current one"
							}
							detail = "this access into the backing array combines two states of the index: " + role + ". The choice the test made (which end the segment has, whether the position folds) holds for the index it was made on only: after the index moved (wrapped to 0) the segment runs over the other index - elements that were never written are delivered and released, Len() is wrong afterwards"
						}
					}
				}
			}
			if !applies {
				return
			}
			n++
			if ok && undecided {
				c.Undecided(rule, fn, what, in, "a path query exceeded its bound")
				return
			}
			c.Decide(rule, fn, what, in, ok, detail)
		})
	}
	if n == 0 {
		c.Decide(rule, anchor, what, nil, true, "")
	}
}
