package rules

// C14.R11 - the consuming methods report a count that is not negative.
//
// "ReadN and Skip move min(requested, Len) elements (0 for non-positive requests)": the int a consuming method returns
// is the number of elements it moved. A Skip that computes its result up front from the clamped request
// (`if n > Len() { n = Len() }; res := n`) returns the request itself when it is negative - it moves nothing and reports
// -1. (Before R6 accepted a clamp made in front of the loop, that shape was only reported by accident, as an unclamped
// count; the defect is the sign of the result, and this rule names it.)
//
// Clause, for every exported method of the ring with an int result that advances the read index (directly or through
// private helpers): at every exit the result is proved >= 0 with the symbolic linear bounds, under every choice of phi
// edges and helper exits and with the branch facts of the exit. A result that is a loop variable (res = phi(0, res+cnt))
// is proved by induction: the operands entering the loop are >= 0, and every operand arriving over a back edge is >= 0
// under the hypothesis that the variable is.
//
// A result that is not proved >= 0 is reported only when the value the proof fails on contains an int parameter (the
// caller's request) with a positive sign - the request itself can come out; a proof that fails for another reason
// (arithmetic the engine does not follow) gives no verdict. The count a private helper reports is decided at the
// helper's own returns.

import (
	"go/types"

	"golang.org/x/tools/go/ssa"

	"verif/checker/ir"
)

// nonNegAtV: 1 proved >= 0; -1 not proved and the value the proof fails on contains a caller's count (an int parameter)
// with a positive sign and nothing that bounds it from below: the request itself can come out; 0 not proved for another
// reason (something the engine does not follow): no verdict.
func (k *c14) nonNegAtV(fn *ssa.Function, blk *ssa.BasicBlock, v ssa.Value, hyp []c14lform, depth int) int {
	v = ir.Resolve(v)
	if v == nil || depth > 3 {
		return 0
	}
	if c, ok := ir.ConstInt(v); ok {
		if c >= 0 {
			return 1
		}
		return 0
	}
	worst := func(a, b int) int {
		if a == -1 || b == -1 {
			return -1
		}
		if a == 0 || b == 0 {
			return 0
		}
		return 1
	}
	if p, isPhi := v.(*ssa.Phi); isPhi && isLoopHeaderB(p.Block()) {
		h := p.Block()
		me := c14atom("v:" + p.Name())
		res := 1
		for i, pred := range h.Preds {
			if !h.Dominates(pred) {
				res = worst(res, k.nonNegAtV(fn, pred, p.Edges[i], hyp, depth+1))
				continue
			}
			// induction step: with p >= 0, what flows back is >= 0
			res = worst(res, k.proveNonNegV(fn, pred, p.Edges[i], append(append([]c14lform{}, hyp...), me)))
		}
		return res
	}
	if call, isCall := v.(*ssa.Call); isCall {
		// the count a private helper reports: every return of the helper
		if g := ir.StaticCallee(call); g != nil && k.inPkg(g) && g != k.lenFn && g != k.capFn && g != fn && g.Parent() == nil &&
			(g.Object() == nil || !g.Object().Exported()) && g.Signature.Results().Len() == 1 && !call.Call.IsInvoke() {
			res := 1
			rets := ir.Returns(g)
			if len(rets) == 0 {
				return 0
			}
			for _, ret := range rets {
				res = worst(res, k.nonNegAtV(g, ret.Block(), ir.ResultValue(ret, 0), nil, depth+1))
			}
			return res
		}
	}
	return k.proveNonNegV(fn, blk, v, hyp)
}

func (k *c14) proveNonNegV(fn *ssa.Function, blk *ssa.BasicBlock, v ssa.Value, hyp []c14lform) int {
	base := k.guardFacts(blk)
	request := false
	finished := false
	ok := k.forAllChoices(fn, func(e *c14env, efs []ir.Fact) bool {
		f := e.lin(v)
		if len(e.need) > 0 {
			return false
		}
		e.c14shared.frozen = true
		facts := append(e.factForms(append(append([]ir.Fact{}, base...), k.expandFacts(efs, 0)...)), e.extra...)
		facts = append(facts, hyp...)
		finished = true
		if e.geq0(f, facts, 0) {
			return true
		}
		for _, prm := range fn.Params {
			if types.Identical(prm.Type(), types.Typ[types.Int]) && f.t["v:"+prm.Name()] > 0 {
				request = true
			}
		}
		return false
	})
	switch {
	case ok:
		return 1
	case finished && request:
		return -1
	}
	return 0
}

func (k *c14) countsAreNonNegative(methods []*ssa.Function) {
	c := k.Ctx
	n := 0
	for _, m := range methods {
		if len(m.Blocks) == 0 || m.Object() == nil || !m.Object().Exported() {
			continue
		}
		rs := m.Signature.Results()
		if rs.Len() != 1 || !types.Identical(rs.At(0).Type(), types.Typ[types.Int]) {
			continue
		}
		advances := false
		for _, g := range k.closure(m) {
			ir.Instrs(g, func(in ssa.Instruction) {
				if _, ok := k.idxStore(in, k.rIdx); ok {
					advances = true
				}
			})
		}
		if !advances {
			continue
		}
		for _, ret := range ir.Returns(m) {
			// (the return statement itself, not its alternatives: the facts that make the result non-negative may lie
			// between the merge of the alternatives and the return)
			verdict := k.nonNegAtV(m, ret.Block(), ir.ResultValue(ret, 0), nil, 0)
			if verdict == 0 {
				continue // not proved, but not because the request comes out: no verdict
			}
			n++
			c.Decide("C14.R11", m, "the reported count is not negative", ret, verdict == 1,
				m.Name()+" can return a negative number of moved elements: the result is not shown to be >= 0 at this exit (a request that is clamped from above only and returned as the result stays negative when the caller passes a negative count, although nothing is moved - the property asks for 0)")
		}
	}
	_ = n // (no floor: decided where the engine follows the result; on the unchanged tree for ReadN and Skip)
}
