package rules

import (
	"fmt"
	"go/types"

	"golang.org/x/tools/go/ssa"

	"verif/checker/ir"
)

// ---------------------------------------------------------------------------
// C20.R5 over a table of predicates
//
// The selection of the walk callback may be written as data: a fixed slice of predicates (functions / closures of the
// enclosing function) that a loop calls one after the other on the walked path, leaving on the first one that says
// "skip". Behind the exhausted loop EVERY element has been called on the walked path and has returned the same
// result (ir.RangeAllCalls: shape of the loop; ir.FuncTable: the slice is a literal that is assigned once before any
// reader exists and is never written). Each element is then treated exactly as a selection predicate of the
// repository is treated when its result is known on a path (summary): its own paths are enumerated, and the element
// counts for what every one of its paths returning that result has decided. The selection inputs of an element are
// what the inputs of the callback are - variables of the enclosing function that it captures and only reads
// (func(string) bool / bool / the directory string) - so nothing is presumed about an element: a table without an
// element that decides the filter (or the flag) leaves that input undecided, as a missing `if` would.

type selTable struct {
	call  *ssa.Call    // the call of the element
	loop  *ir.RangeAll // the loop that calls every element and goes round on one outcome only (nil: no such loop)
	elems []*selRoles  // the elements that are handed the walked path and have selection inputs
}

// tablesOf finds the tables r.fn evaluates (once): calls of an element of a fixed table of functions. The selection
// inputs its elements read count as inputs of r.fn whatever the loop looks like (so a loop that does not establish
// anything yields a violation, not silence); only a loop of the RangeAll shape lets the table decide anything.
func (z *zipSel) tablesOf(r *selRoles) []*selTable {
	if r.tablesDone {
		return r.tables
	}
	r.tablesDone = true
	loops := ir.RangeAllCalls(r.fn)
	ir.Instrs(r.fn, func(in ssa.Instruction) {
		call, ok := in.(*ssa.Call)
		if !ok || call.Call.IsInvoke() {
			return
		}
		slice := ir.ElementOfSlice(call.Call.Value)
		if slice == nil {
			return
		}
		elems := ir.FuncTable(slice)
		if elems == nil {
			return
		}
		tb := &selTable{call: call}
		for i := range loops {
			if loops[i].Call == call && loops[i].Slice == slice {
				tb.loop = &loops[i]
			}
		}
		for i, e := range elems {
			if er := z.elemRoles(r, call, e, i); er != nil {
				tb.elems = append(tb.elems, er)
			}
		}
		if len(tb.elems) > 0 {
			r.tables = append(r.tables, tb)
		}
	})
	return r.tables
}

// elemRoles: the roles inside one element of a table, called by `call` (a dynamic call in r.fn whose operands are the
// same for every element). The walked path is the string parameter that is handed a value depending on the walked
// path of the caller; the selection inputs are the captured variables of the element (as for the walk callback
// itself) and the parameters that are handed a selection input of the caller.
func (z *zipSel) elemRoles(r *selRoles, call *ssa.Call, elem ssa.Value, idx int) *selRoles {
	h := z.elemRolesAny(r, call, elem, idx)
	if h == nil || (len(h.filters) == 0 && len(h.flags) == 0) {
		return nil
	}
	return h
}

// elemRolesAny is elemRoles without the demand that the element reads a selection input (R10 asks every element of a
// table why it says "skip", also the one that looks at the kind of the file only).
func (z *zipSel) elemRolesAny(r *selRoles, call *ssa.Call, elem ssa.Value, idx int) *selRoles {
	var cal *ssa.Function
	switch e := elem.(type) {
	case *ssa.Function:
		cal = e
	case *ssa.MakeClosure:
		cal, _ = e.Fn.(*ssa.Function)
	}
	if cal == nil || len(cal.Blocks) == 0 || cal == r.fn || cal.Signature.Recv() != nil {
		return nil
	}
	args := call.Call.Args
	if len(args) != len(cal.Params) {
		return nil
	}
	if rs := cal.Signature.Results(); rs.Len() != 1 || !isBoolType(rs.At(0).Type()) {
		return nil
	}
	h := &selRoles{fn: cal, paths: map[ssa.Value]bool{}}
	key := fmt.Sprintf("%s[table of %s](", ir.FnName(cal), ir.FnName(r.fn))
	for i, p := range cal.Params {
		a := args[i]
		tag := "-"
		switch {
		case isStringType(p.Type()) && z.onPath(r, a):
			h.paths[p] = true
			tag = "path"
		case isStringType(p.Type()):
			h.dirs = append(h.dirs, &selInput{param: p, typ: p.Type(), reads: map[ssa.Value]bool{p: true}})
			tag = "dir"
		case isFilterType(p.Type()):
			for _, f := range r.filters {
				if f.isRead(a) {
					h.filters = append(h.filters, &selInput{param: p, typ: p.Type(), reads: map[ssa.Value]bool{p: true}})
					tag = "filter"
				}
			}
		case isBoolType(p.Type()):
			for _, f := range r.flags {
				if f.isRead(a) {
					h.flags = append(h.flags, &selInput{param: p, typ: p.Type(), reads: map[ssa.Value]bool{p: true}})
					tag = "flag"
				}
			}
		}
		key += tag + ","
	}
	if len(h.paths) == 0 {
		return nil
	}
	for _, fv := range cal.FreeVars {
		if pt, ok := fv.Type().Underlying().(*types.Pointer); ok {
			classify(h, &selInput{fv: fv, typ: pt.Elem()})
		}
	}
	h.key = key + ")"
	return h
}

// tableHasInputs: r.fn evaluates a table with an element that reads a selection input.
func (z *zipSel) tableHasInputs(r *selRoles) bool {
	return len(z.tablesOf(r)) > 0
}

// hasKind: the function has a selection input of this kind, of its own or in a table it evaluates.
func (z *zipSel) hasKind(r *selRoles, kind int) bool {
	if (kind == selFilter && len(r.filters) > 0) || (kind == selFlag && len(r.flags) > 0) {
		return true
	}
	for _, tb := range z.tablesOf(r) {
		for _, e := range tb.elems {
			if (kind == selFilter && len(e.filters) > 0) || (kind == selFlag && len(e.flags) > 0) {
				return true
			}
		}
	}
	return false
}

func inputsOfKind(r *selRoles, kind int) []*selInput {
	if kind == selFilter {
		return r.filters
	}
	return r.flags
}

// inputIdentity: what an input is a view of - the captured variable's cell in the enclosing function for a captured
// variable, the input itself otherwise.
func inputIdentity(in *selInput) interface{} {
	if in.fv != nil {
		if b := ir.BindingOf(in.fv); b != nil {
			return b
		}
		return in.fv
	}
	if in.field != nil {
		return in.field
	}
	return in.param
}

// tablesDecide: `at` lies behind the exhausted loop of a table (its block is dominated by the loop's done block, which
// is entered from the exhausted header only), and for EVERY selection input of this kind that some element of the
// table reads there is an element reading it all of whose paths returning the loop's outcome have decided the kind.
func (z *zipSel) tablesDecide(r *selRoles, kind int, depth int, at ssa.Instruction) bool {
	if at == nil || at.Block() == nil {
		return false
	}
	for _, tb := range z.tablesOf(r) {
		if tb.loop == nil || at.Parent() != r.fn || !tb.loop.Done.Dominates(at.Block()) {
			continue
		}
		need := map[interface{}]bool{} // identity -> decided by some element
		var order []interface{}
		for _, e := range tb.elems {
			ins := inputsOfKind(e, kind)
			if len(ins) == 0 {
				continue
			}
			ok := z.summary(e, tb.loop.Outcome, kind, depth+1)
			for _, in := range ins {
				id := inputIdentity(in)
				if _, has := need[id]; !has {
					need[id] = false
					order = append(order, id)
				}
				if ok {
					need[id] = true
				}
			}
		}
		if len(order) == 0 {
			continue
		}
		all := true
		for _, id := range order {
			if !need[id] {
				all = false
			}
		}
		if all {
			return true
		}
	}
	return false
}

// ---------------------------------------------------------------------------
// C20.R1 through a checked constructor
//
// The containment test may live inside the function that builds the path: a repository function with the results
// (string, bool) or (string, error) that hands out a path built from its parameters only together with "true" / a nil
// error when the test succeeded on it. Nothing is presumed about such a function. Its own paths are enumerated with the
// question R1 asks at a sink: on every path to a return whose second result is not known to be false / non-nil, the
// returned string is a constant or is covered (identity / Dir / Clean) by a containment test known to have succeeded on
// that path - a predicate call, the in-place filepath.Rel form, or the result of another checked constructor. At the
// call site the first result then counts as tested on exactly those paths that know the second result true / nil. That
// is the same evidence the rule wants when the helper's body is written out at the call site; a function that returns
// the path with true on a path without the test is no checked constructor, and a caller that uses the path without
// having looked at the second result gets nothing from it.

type r1Env struct {
	c             *Ctx
	derives       func(fn *ssa.Function, from map[ssa.Value]bool) map[ssa.Value]bool
	isContainment func(call *ssa.Call) (bool, *ssa.Function)
	predOK        func(f *ssa.Function) (bool, string)
	inPkg         map[*ssa.Function]bool
	sums          map[*ssa.Function]*ctorSum
}

type ctorSum struct {
	ok     bool
	weak   string                      // why not (when the only test inside is an unsound predicate)
	inline map[*ssa.Call]*ssa.Function // in-place filepath.Rel tests the verdict rests on -> function they sit in
}

// ctorCall is a call of a checked constructor (or of a function that looks like one but is not: sum.ok false).
type ctorCall struct {
	call    *ssa.Call
	path    ssa.Value // extract #0
	okRes   ssa.Value // extract #1
	errForm bool      // second result is an error (nil = accepted) rather than a bool (true = accepted)
	sum     *ctorSum
}

func ctorShape(fn *ssa.Function) (errForm, ok bool) {
	rs := fn.Signature.Results()
	if rs.Len() != 2 || !isStringType(rs.At(0).Type()) {
		return false, false
	}
	if isBoolType(rs.At(1).Type()) {
		return false, true
	}
	if types.Identical(rs.At(1).Type(), types.Universe.Lookup("error").Type()) {
		return true, true
	}
	return false, false
}

// accepted: the path knows the second result of the constructor call to say "accepted".
func (cc ctorCall) accepted(val *ir.Valuation) bool {
	if cc.okRes == nil {
		return false
	}
	if cc.errForm {
		isNil, ok := val.KnownIsNil(cc.okRes)
		return ok && isNil
	}
	k, ok := val.Known(cc.okRes)
	return ok && k
}

// ctorCalls lists the calls in fn of repository functions of the constructor shape, with their summaries.
func (e *r1Env) ctorCalls(fn *ssa.Function, depth int) []ctorCall {
	var res []ctorCall
	if depth > 2 {
		return nil
	}
	ir.Instrs(fn, func(in ssa.Instruction) {
		call, ok := in.(*ssa.Call)
		if !ok || call.Referrers() == nil {
			return
		}
		cal := ir.StaticCallee(call)
		if cal == nil || !e.inPkg[cal] || len(cal.Blocks) == 0 || cal == fn {
			return
		}
		errForm, isCtor := ctorShape(cal)
		if !isCtor {
			return
		}
		cc := ctorCall{call: call, errForm: errForm}
		for _, r := range *call.Referrers() {
			if ex, isEx := r.(*ssa.Extract); isEx {
				switch ex.Index {
				case 0:
					if cc.path != nil {
						return
					}
					cc.path = ex
				case 1:
					if cc.okRes != nil {
						return
					}
					cc.okRes = ex
				}
			}
		}
		if cc.path == nil || cc.okRes == nil {
			return
		}
		cc.sum = e.summary(cal, depth+1)
		res = append(res, cc)
	})
	return res
}

// summary decides whether cal is a checked constructor (see above).
func (e *r1Env) summary(cal *ssa.Function, depth int) *ctorSum {
	if s, ok := e.sums[cal]; ok {
		if s == nil {
			return &ctorSum{} // being computed (recursion): not established
		}
		return s
	}
	e.sums[cal] = nil
	sum := &ctorSum{inline: map[*ssa.Call]*ssa.Function{}}
	defer func() { e.sums[cal] = sum }()
	errForm, isCtor := ctorShape(cal)
	if !isCtor || cal.Recover != nil {
		return sum
	}
	from := map[ssa.Value]bool{}
	for _, p := range cal.Params {
		if isStringType(p.Type()) {
			from[p] = true
		}
	}
	if len(from) == 0 {
		return sum
	}
	t := e.derives(cal, from)
	ev := e.c.containmentEvidence(cal, t, e.isContainment)
	ctors := e.ctorCalls(cal, depth)
	nTested := 0
	q := ir.PathQuery{Fn: cal, Target: func(in ssa.Instruction, val *ir.Valuation) bool {
		ret, ok := in.(*ssa.Return)
		if !ok || len(ret.Results) != 2 {
			return false
		}
		if errForm {
			if isNil, known := val.KnownIsNil(ret.Results[1]); known && !isNil {
				return false
			}
		} else if k, known := val.Known(ret.Results[1]); known && !k {
			return false
		}
		r0 := val.Selected(ret.Results[0])
		if _, isConst := ir.Resolve(r0).(*ssa.Const); isConst {
			return false
		}
		if e.guardedOn(cal, t, ev, ctors, val, r0, sum.inline, &sum.weak) {
			nTested++
			return false
		}
		return true
	}}
	w, err := q.Find()
	sum.ok = err == nil && w == nil && nTested > 0
	if !sum.ok {
		sum.inline = map[*ssa.Call]*ssa.Function{}
	}
	return sum
}

// guardedOn: on this path (valuation val, function fn) the value ra - built from tainted values t - is known to have
// passed a containment test: a containment call known true that covers it, an in-place filepath.Rel test that holds on
// it, or it is the accepted result of a checked constructor. `used` collects the in-place tests relied on (for R2),
// `weak` the reason when the only covering test is an unsound predicate.
func (e *r1Env) guardedOn(fn *ssa.Function, t map[ssa.Value]bool, ev contEvidence, ctors []ctorCall, val *ir.Valuation, ra ssa.Value,
	used map[*ssa.Call]*ssa.Function, weak *string) bool {
	for _, gc := range ev.calls {
		if k, ok := val.Known(gc.call); !ok || !k {
			continue
		}
		cov := false
		for _, ga := range gc.call.Call.Args {
			if t[ga] && coversOn(val, ra, ga) {
				cov = true
			}
		}
		if !cov {
			continue
		}
		if gc.pred != nil {
			if ok, detail := e.predOK(gc.pred); !ok {
				*weak = detail
				continue
			}
		}
		return true
	}
	for _, rt := range ev.inline {
		if coversOn(val, ra, rt.target) && rt.holds(val) {
			used[rt.rel] = fn
			return true
		}
	}
	for _, cc := range ctors {
		if !coversOn(val, ra, cc.path) {
			continue
		}
		if !cc.accepted(val) {
			continue
		}
		if !cc.sum.ok {
			if cc.sum.weak != "" {
				*weak = cc.sum.weak
			}
			continue
		}
		for rc, where := range cc.sum.inline {
			used[rc] = where
		}
		return true
	}
	return false
}
