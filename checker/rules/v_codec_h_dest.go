package rules

// C15.S16 - an encoder writes only inside buf[:len(buf)].
//
// "Encoding into a buffer shorter than that size fails with an error": the destination of a Marshal function is the
// window buf[:len(buf)] the caller passed; what lies between len(buf) and cap(buf) belongs to the caller (the next
// record of a page, the rest of a pooled block). Go's append, and the Append* functions of encoding/binary, write into
// the spare capacity of the slice they are given without any error, so an encoder that appends onto a re-slice of its
// destination (`binary.AppendUvarint(buf[:0], v)`) and then checks the result against cap(buf) accepts a short window
// and overwrites what follows it.
//
// Clause, for every exported Marshal function (and the private functions of the package it hands the destination to):
//   - the capacity of the destination (cap of the parameter or of a slice of it) is not used at all: every bound is len;
//   - a slice of the destination is handed to append / an Append* function only where branch facts show that the
//     destination has room for everything that call can add: len(buf) >= start of the slice + its length + the maximal
//     number of bytes appended (2/4/8 for AppendUint16/32/64, 10 for AppendUvarint/AppendVarint, the number of
//     elements for the builtin; unknown otherwise - then it is reported).

import (
	"fmt"
	"strings"

	"golang.org/x/tools/go/ssa"

	"verif/checker/ir"
)

func (c *Ctx) encodersStayInsideLen() {
	n := 0
	seen := map[*ssa.Parameter]bool{}
	var visit func(fn *ssa.Function, buf *ssa.Parameter, depth int)
	visit = func(fn *ssa.Function, buf *ssa.Parameter, depth int) {
		if buf == nil || seen[buf] || depth > 2 {
			return
		}
		seen[buf] = true
		bad, at := "", ssa.Instruction(nil)
		ir.Instrs(fn, func(in ssa.Instruction) {
			call, ok := in.(*ssa.Call)
			if !ok || bad != "" {
				return
			}
			if cc := builtinCall(call, "cap"); cc != nil && same(sliceRoot(cc.Args[0]), buf) {
				bad, at = "the capacity of the destination is used as a bound (cap(buf)): the room an encoder may use ends at len(buf)", in
				return
			}
			// append-like calls
			max := int64(-1)
			var base ssa.Value
			if cc := builtinCall(call, "append"); cc != nil && len(cc.Args) >= 1 {
				base = cc.Args[0]
				if len(cc.Args) == 2 {
					if els := variadicArgs(cc.Args[1]); els != nil {
						max = int64(len(els))
					}
				}
			} else if name := ir.CalleeFullName(call); strings.Contains(name, "encoding/binary") && strings.Contains(name, "Append") && len(call.Call.Args) >= 1 {
				for _, a := range call.Call.Args {
					if isByteSeqB(a.Type()) {
						base = a
						break
					}
				}
				switch {
				case strings.HasSuffix(name, "AppendUint16"):
					max = 2
				case strings.HasSuffix(name, "AppendUint32"):
					max = 4
				case strings.HasSuffix(name, "AppendUint64"):
					max = 8
				case strings.HasSuffix(name, "AppendUvarint"), strings.HasSuffix(name, "AppendVarint"):
					max = 10
				}
			}
			if base == nil || !same(sliceRoot(base), buf) {
				return
			}
			cx := ctxAtB(in.Block())
			_, lo, hi := cx.sliceExtent(base)
			_ = lo
			need := hi.add(linConstB(max), 1)
			if max < 0 || !cx.impliesLE(need, cx.lenOf(buf, 0)) {
				what := "an unknown number of"
				if max >= 0 {
					what = fmt.Sprintf("up to %d", max)
				}
				bad, at = "a slice of the destination is appended to ("+what+" bytes) without a test that len(buf) has room for them: append writes into the spare capacity behind len(buf) and reports nothing", in
			}
		})
		n++
		c.Decide("C15.S16", fn, "the encoder writes only inside buf[:len(buf)]", at, bad == "",
			fn.Name()+": "+bad+" - a window with spare capacity (a record inside a page) shorter than the encoding is accepted and what follows it is overwritten, instead of the error the property asks for")
		for _, call := range ir.Calls(fn) {
			cal := ir.StaticCallee(call)
			if cal == nil || cal.Pkg != fn.Pkg || len(cal.Blocks) == 0 || (cal.Object() != nil && cal.Object().Exported()) {
				continue
			}
			for i, a := range call.Common().Args {
				if i < len(cal.Params) && same(sliceRoot(a), buf) && isByteSeqB(cal.Params[i].Type()) {
					visit(cal, cal.Params[i], depth+1)
				}
			}
		}
	}
	for _, fn := range xbinaryFuncs(c, "Marshal") {
		visit(fn, bufParam(fn, true), 0)
	}
	c.R.Floor("C15.S16", 6)
}
