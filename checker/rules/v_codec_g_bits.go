package rules

// C16.R7, the range of math/bits.Len on a full machine word.
//
// The interval evaluation of R7 keeps intervals in int64. An unsigned 64-bit value about which nothing is known gets
// [0, MaxInt64] - the representation saturates - and bits.Len of that upper end is 63. The value itself can be as large
// as 2^64-1, for which bits.Len answers 64: bits.Len(x) ranges over the 65 values 0..64 (bits.Len32 over 0..32 etc.), so
// a table indexed by it needs width+1 entries. For an unsigned argument whose interval reaches the saturation point the
// upper end of bits.Len is therefore the width of the argument's type (capped by the width of the Len variant), not the
// bit length of the saturated bound.
//
// Over-approximation: an argument that a guard really bounds by exactly MaxInt64 is treated the same way (64 instead
// of 63).

import (
	"go/types"
	"math"

	"golang.org/x/tools/go/ssa"
)

func (c *Ctx) bitsLenUpperV(arg ssa.Value, hi, lenOfHi, width int64) int64 {
	res := minI(lenOfHi, width)
	tb, ok := arg.Type().Underlying().(*types.Basic)
	if !ok || tb.Info()&types.IsUnsigned == 0 {
		return res
	}
	tw := int64(64)
	if len(c.P.Pkgs) > 0 && c.P.Pkgs[0].TypesSizes != nil {
		tw = c.P.Pkgs[0].TypesSizes.Sizeof(arg.Type()) * 8
	}
	if tw == 64 && hi == math.MaxInt64 {
		return minI(width, 64)
	}
	return minI(res, tw)
}
