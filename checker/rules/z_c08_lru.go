package rules

import (
	"go/token"
	"go/types"
	"strings"

	"golang.org/x/tools/go/ssa"

	"verif/checker/ir"
)

// Rules of the LRU cache added after seeded round "e" (C08.R9, C09.R6-R8, C11.R8-R9). All four are about the two
// critical sections of the cache and the in-flight table between them:
//
//   census      (C08.R9, the census clauses of C09.R2): who may write the in-flight table
//   opsAtomic   (C09.R6): an operation other than GetOrCreate touches the recency list in ONE critical section
//   reinsert    (C09.R7 = C11.R8): a value read from the list is put back only in the critical section that read it
//   flightKey   (C09.R8 = C11.R9): the in-flight entry is removed under the very key value it was registered under

// ---------------------------------------------------------------------------
// census of the in-flight table (C09.R2 census clauses, C08.R9)

// isInflightRegZ / isInflightDeregZ: a write of one entry of the in-flight table (field of the cache object).
func (r *lruRoles) isInflightRegZ(x ssa.Instruction) bool {
	mu, ok := x.(*ssa.MapUpdate)
	if !ok {
		return false
	}
	_, isIn := loadOfField(mu.Map, r.inflight)
	return isIn
}

func (r *lruRoles) isInflightDeregZ(x ssa.Instruction) bool {
	cc := builtinCall(x, "delete")
	if cc == nil {
		// clear(m) removes every entry
		cc = builtinCall(x, "clear")
	}
	if cc == nil || len(cc.Args) == 0 {
		return false
	}
	_, isIn := loadOfField(cc.Args[0], r.inflight)
	return isIn
}

// isCacheCtorZ: a function without receiver that hands out a cache object (the constructor by type, not by name).
func (r *lruRoles) isCacheCtorZ(fn *ssa.Function) bool {
	if fn == nil || fn.Signature.Recv() != nil {
		return false
	}
	rs := fn.Signature.Results()
	for i := 0; i < rs.Len(); i++ {
		t := rs.At(i).Type()
		if p, ok := t.Underlying().(*types.Pointer); ok {
			t = p.Elem()
		}
		if namedOf(t) == r.ecache {
			return true
		}
	}
	return false
}

// inflightCensus: the in-flight table is what makes a second misser of a key wait for the first one instead of creating
// the value again ("a miss calls the create function once"); its entries live exactly as long as the creation they
// stand for. So the table as a whole is set only while the object is built (by the constructor, or by a private helper
// that only the constructor runs), and single entries are written only by the code of GetOrCreate. A Clear or Remove
// that resets the table or drops entries throws away the records of creations that are running at that moment (the
// lock is released around the create function): the next misser of such a key starts a second creation, whose value is
// returned but is neither resident nor ever passed to the delete callback.
func (c *Ctx) inflightCensus(r *lruRoles, rule string) {
	goc := r.getOrCreate
	lv := r.locks
	for _, fn := range c.P.FuncsOf("container/lru") {
		fn := fn
		ir.Instrs(fn, func(in ssa.Instruction) {
			if _, _, ok := storeToField(in, r.inflight); ok {
				isCtor := lv.holdsInter(in, func(at ssa.Instruction) bool { return r.isCacheCtorZ(rootFnH(at.Parent())) })
				c.Decide(rule, fn, "in-flight table replaced only by the constructor", in, isCtor, "the in-flight table is replaced while creations may be running: their markers vanish and a second creation of the same key starts")
			}
			if (r.isInflightRegZ(in) || r.isInflightDeregZ(in)) && rootFnH(fn) != goc {
				// a private helper / literal that is only ever run from GetOrCreate is code of GetOrCreate
				onlyGoc := lv.holdsInter(in, func(at ssa.Instruction) bool { return rootFnH(at.Parent()) == goc })
				c.Decide(rule, fn, "in-flight entries written only by GetOrCreate", in, onlyGoc, "an in-flight entry is added or removed outside the creating goroutine's GetOrCreate")
			}
		})
	}
}

// ---------------------------------------------------------------------------
// critical sections as a small automaton (C09.R6)

// The events of one run of an operation, in program order: A = an access to the recency list (a method call on it, a
// step of an iterator over it), B = a boundary of a critical section of the cache mutex (Lock, Unlock, RLock, RUnlock -
// written in place, deferred, or performed inside a private helper). The automaton has four states:
//
//   S0  nothing of the list seen yet      A -> SA    B -> S0
//   SA  list seen, section still open     A -> SA    B -> SAB
//   SAB list seen, then a boundary        A -> V     B -> SAB
//   V   list touched in two critical sections
//
// A function is summarised as a state transformer (start state -> set of possible end states over all paths to a
// normal exit); a call of a package function applies the callee's transformer, so a helper that locks for itself, one
// that expects the lock, and a literal run by a withLock-style wrapper all compose to what their inlined bodies would
// give. It is a may-analysis over all CFG paths (loops to a fixed point); nothing is executed.
const (
	zS0 uint8 = 1 << iota
	zSA
	zSAB
	zV
)

type sectionsZ struct {
	r     *lruRoles
	lv    *lockViewH
	memo  map[*ssa.Function]*[3]uint8
	doing map[*ssa.Function]bool
}

func zAccess(m uint8) uint8 {
	var o uint8
	if m&(zS0|zSA) != 0 {
		o |= zSA
	}
	if m&(zSAB|zV) != 0 {
		o |= zV
	}
	return o
}

func zBoundary(m uint8) uint8 {
	var o uint8
	if m&zS0 != 0 {
		o |= zS0
	}
	if m&(zSA|zSAB) != 0 {
		o |= zSAB
	}
	if m&zV != 0 {
		o |= zV
	}
	return o
}

func zApply(m uint8, t *[3]uint8) uint8 {
	var o uint8
	for i := 0; i < 3; i++ {
		if m&(1<<uint(i)) != 0 {
			o |= t[i]
		}
	}
	if m&zV != 0 {
		o |= zV
	}
	return o
}

// isMutexBoundaryZ: a Lock/Unlock/RLock/RUnlock of the cache mutex (also as the operand of a defer).
func (r *lruRoles) isMutexBoundaryZ(in ssa.Instruction) bool {
	p, acq, rel := ir.LockOp(in)
	if !acq && !rel {
		return false
	}
	return strings.HasSuffix(strings.TrimSuffix(p, ir.ReadLockSuffix), "."+r.mutex.Name())
}

// isListAccessZ: a method call on the recency list, or a step of an iterator opened over it.
func (r *lruRoles) isListAccessZ(in ssa.Instruction) bool {
	if r.anyItemsCall(in) != nil {
		return true
	}
	if call, ok := in.(*ssa.Call); ok && call.Call.IsInvoke() && (call.Call.Method.Name() == "Next" || call.Call.Method.Name() == "HasNext") {
		for _, o := range ir.CopyRoots(call.Call.Value) {
			if oc, ok := o.(*ssa.Call); ok && r.itemsCall(oc, r.mIt) != nil {
				return true
			}
		}
	}
	return false
}

// calleesZ: the package code a call instruction runs: the static callee, the literals a called function value can be,
// and (star = true) the literals handed to a function of another package, which may run them any number of times.
func (s *sectionsZ) calleesZ(ci ssa.CallInstruction) (fns []*ssa.Function, star bool) {
	cc := ci.Common()
	if cc.IsInvoke() {
		return nil, false
	}
	if cal := ir.StaticCallee(ci); cal != nil && s.lv.fns[cal] {
		return []*ssa.Function{cal}, false
	}
	if cc.StaticCallee() == nil {
		return s.lv.literalsOf(cc.Value, 0), false
	}
	for _, a := range cc.Args {
		if mc, isMC := ir.Resolve(a).(*ssa.MakeClosure); isMC {
			if f, isF := mc.Fn.(*ssa.Function); isF && s.lv.fns[f] {
				fns = append(fns, f)
			}
		}
	}
	return fns, len(fns) > 0
}

// step applies the events of one instruction to the state set m. top is the function being summarised.
func (s *sectionsZ) step(in ssa.Instruction, m uint8, deferred bool) uint8 {
	switch in.(type) {
	case *ssa.Go:
		return m // another goroutine: not part of this run
	case *ssa.Defer:
		if !deferred {
			return m // runs at the exit (RunDefers)
		}
	}
	if s.r.isMutexBoundaryZ(in) {
		return zBoundary(m)
	}
	if s.r.isListAccessZ(in) {
		return zAccess(m)
	}
	ci, ok := in.(ssa.CallInstruction)
	if !ok {
		return m
	}
	fns, star := s.calleesZ(ci)
	if len(fns) == 0 {
		return m
	}
	if star {
		for i := 0; i < 8; i++ {
			n := m
			for _, f := range fns {
				n |= zApply(m, s.summary(f))
			}
			if n == m {
				break
			}
			m = n
		}
		return m
	}
	var o uint8
	for _, f := range fns {
		if f == s.r.getOrCreate {
			// an operation of its own with (at least) one critical section that reads the list
			o |= zBoundary(zAccess(zBoundary(m)))
			continue
		}
		o |= zApply(m, s.summary(f))
	}
	return o
}

// run pushes the start set through fn; visit (optional) sees every instruction with the set that holds before it and
// after it.
func (s *sectionsZ) run(fn *ssa.Function, start uint8, visit func(in ssa.Instruction, before, after uint8)) uint8 {
	if len(fn.Blocks) == 0 {
		return start
	}
	var defers []ssa.Instruction
	ir.Instrs(fn, func(in ssa.Instruction) {
		if _, ok := in.(*ssa.Defer); ok {
			defers = append(defers, in)
		}
	})
	inSet := make([]uint8, len(fn.Blocks))
	inSet[0] = start
	var exit uint8
	transfer := func(b *ssa.BasicBlock, m uint8, record bool) uint8 {
		for _, in := range b.Instrs {
			before := m
			switch in.(type) {
			case *ssa.RunDefers:
				for i := len(defers) - 1; i >= 0; i-- {
					m = s.step(defers[i], m, true)
				}
			case *ssa.Return:
				if record {
					exit |= m
				}
			default:
				m = s.step(in, m, false)
			}
			if record && visit != nil {
				visit(in, before, m)
			}
		}
		return m
	}
	work := []*ssa.BasicBlock{fn.Blocks[0]}
	for n := 0; len(work) > 0 && n < 10000; n++ {
		b := work[len(work)-1]
		work = work[:len(work)-1]
		out := transfer(b, inSet[b.Index], false)
		if out == 0 {
			continue
		}
		for _, sc := range b.Succs {
			if inSet[sc.Index]|out != inSet[sc.Index] {
				inSet[sc.Index] |= out
				work = append(work, sc)
			}
		}
	}
	for _, b := range fn.Blocks {
		if inSet[b.Index] != 0 {
			transfer(b, inSet[b.Index], true)
		}
	}
	return exit
}

func (s *sectionsZ) summary(fn *ssa.Function) *[3]uint8 {
	if t, ok := s.memo[fn]; ok {
		return t
	}
	id := &[3]uint8{zS0, zSA, zSAB}
	if s.doing[fn] || len(fn.Blocks) == 0 {
		return id
	}
	s.doing[fn] = true
	t := &[3]uint8{}
	for i := 0; i < 3; i++ {
		t[i] = s.run(fn, 1<<uint(i), nil)
	}
	delete(s.doing, fn)
	s.memo[fn] = t
	return t
}

// lruOpsAtomic (C09.R6): every history must be equivalent to a sequential one, so an operation takes effect at one
// point. GetOrCreate has its two critical sections by design (the create function runs between them, and the in-flight
// protocol of R2/R3 is what makes that pair behave like one step). Every other exported operation of the cache (Remove,
// Clear, whatever is added) reads and changes the recency list inside ONE critical section: once the mutex was given up
// after a list access, the call does not touch the list again - neither directly nor through a helper that locks for
// itself. A Clear that releases the mutex between two removals also removes what other callers insert meanwhile (it
// can report more removals than the capacity, or never end); a Remove that looks up in one section and removes in the
// next acts on an answer that is out of date.
func (c *Ctx) lruOpsAtomic(r *lruRoles, rule string) {
	s := &sectionsZ{r: r, lv: r.locks, memo: map[*ssa.Function]*[3]uint8{}, doing: map[*ssa.Function]bool{}}
	n := 0
	for _, fn := range r.methods {
		if fn == r.getOrCreate || fn.Object() == nil || !fn.Object().Exported() {
			continue
		}
		n++
		var at ssa.Instruction
		end := s.run(fn, zS0, func(in ssa.Instruction, before, after uint8) {
			if _, isRD := in.(*ssa.RunDefers); at == nil && !isRD && before&^zV != 0 && s.step(in, before&^zV, false)&zV != 0 {
				at = in
			}
		})
		// (a violation inside a loop without normal exit is one too: at is set as soon as V is reachable)
		bad := end&zV != 0 || at != nil
		c.Decide(rule, fn, "list accesses of the operation lie in one critical section", at, !bad,
			"the operation touches the recency list again after it gave up the cache mutex (a second critical section, possibly inside a helper that locks for itself): it is not one atomic step - other callers get in between, what they insert is wiped or missed, and the result (number of removed entries, found/not found) matches no sequential history")
	}
	if n == 0 {
		c.Decide(rule, r.getOrCreate, "operations besides GetOrCreate are single critical sections", nil, true, "")
	}
}

// ---------------------------------------------------------------------------
// the re-insert of a looked-up value (C09.R7, C11.R8)

// boundaryBetweenZ: some path from a (nil: the entry of fn) to b passes a boundary of a critical section of the cache
// mutex - a lock operation written in place or a call of package code that performs one.
func (r *lruRoles) boundaryBetweenZ(fn *ssa.Function, a, b ssa.Instruction) bool {
	isB := func(x ssa.Instruction) bool {
		if _, isDefer := x.(*ssa.Defer); isDefer {
			return false
		}
		if r.isMutexBoundaryZ(x) {
			return true
		}
		ci, ok := x.(ssa.CallInstruction)
		if !ok || x == a || x == b {
			return false
		}
		if _, isGo := x.(*ssa.Go); isGo {
			return false
		}
		var subs []*ssa.Function
		if cal := ir.StaticCallee(ci); cal != nil && r.locks.fns[cal] && !ci.Common().IsInvoke() {
			subs = append(subs, cal)
		} else if !ci.Common().IsInvoke() && ci.Common().StaticCallee() == nil {
			subs = r.locks.literalsOf(ci.Common().Value, 0)
		}
		for _, g := range subs {
			rel, acq := r.locks.effects(g, map[*ssa.Function]bool{})
			for _, m := range []map[string]bool{rel, acq} {
				for k := range m {
					if strings.HasSuffix(strings.TrimSuffix(k, ir.ReadLockSuffix), "."+r.mutex.Name()) {
						return true
					}
				}
			}
		}
		return false
	}
	found := false
	ir.Instrs(fn, func(u ssa.Instruction) {
		if found || !isB(u) {
			return
		}
		w1, e1 := (ir.Flow{Fn: fn, From: a, Target: func(x ssa.Instruction) bool { return x == u }, Block: func(x ssa.Instruction) bool { return x == b }}).Find()
		if w1 == nil && e1 == nil {
			return
		}
		w2, e2 := (ir.Flow{Fn: fn, From: u, Target: func(x ssa.Instruction) bool { return x == b }, Block: func(x ssa.Instruction) bool { return a != nil && x == a }}).Find()
		if w2 != nil || e2 != nil {
			found = true
		}
	})
	return found
}

// hasDeferredBoundaryZ: fn releases (or takes) the cache mutex in a deferred call - a value it returns leaves the
// critical section it was read in.
func (r *lruRoles) hasDeferredBoundaryZ(fn *ssa.Function) bool {
	res := false
	ir.Instrs(fn, func(in ssa.Instruction) {
		if _, ok := in.(*ssa.Defer); ok && r.isMutexBoundaryZ(in) {
			res = true
		}
	})
	return res
}

// lookedUpInSectionZ follows the value v, used at instruction at, back to the lookups of the recency list it can stem
// from: through local copies and captured variables, through the parameters of a private helper (to every place the
// helper is called from) and through the results of a private helper. found: some origin is the value result of
// items.Get; cont: for every such origin no boundary of a critical section lies between the lookup and at.
func (r *lruRoles) lookedUpInSectionZ(v ssa.Value, at ssa.Instruction, depth int) (found, cont bool) {
	cont = true
	fn := at.Parent()
	if depth > 3 || fn == nil {
		return false, true
	}
	for _, o := range pairFieldOrigins(v) {
		switch x := o.(type) {
		case *ssa.Extract:
			call, ok := x.Tuple.(*ssa.Call)
			if !ok {
				continue
			}
			if r.itemsCall(call, r.mGet) != nil {
				if x.Index != 0 {
					continue
				}
				found = true
				if call.Parent() != fn {
					// read in one piece of code, re-inserted in another one (a variable shared with a literal). Decided
					// for the lookup in the enclosing function and the re-insert in a literal that function runs: the call
					// of the literal stands for the re-insert. Anything else is two pieces of code whose critical sections
					// this rule cannot relate (the normal form inlines literals).
					one := false
					if sites, ok := r.locks.callersOf(fn); ok && fn.Parent() == call.Parent() {
						one = true
						for _, s := range sites {
							if s.Parent() != call.Parent() || r.boundaryBetweenZ(s.Parent(), call, s) || r.boundaryBetweenZ(fn, nil, at) {
								one = false
							}
						}
					}
					if !one {
						cont = false
					}
					continue
				}
				if r.boundaryBetweenZ(fn, call, at) {
					cont = false
				}
				continue
			}
			// a result of a private helper
			if cal := ir.StaticCallee(call); cal != nil && r.locks.fns[cal] && !call.Call.IsInvoke() && call.Parent() == fn {
				f2, c2 := r.resultLookedUpZ(cal, x.Index, depth)
				if f2 {
					found = true
					if !c2 || r.boundaryBetweenZ(fn, call, at) {
						cont = false
					}
				}
			}
		case *ssa.Call:
			if cal := ir.StaticCallee(x); cal != nil && r.locks.fns[cal] && !x.Call.IsInvoke() && x.Parent() == fn {
				f2, c2 := r.resultLookedUpZ(cal, 0, depth)
				if f2 {
					found = true
					if !c2 || r.boundaryBetweenZ(fn, x, at) {
						cont = false
					}
				}
			}
		case *ssa.Parameter:
			if x.Parent() != fn {
				continue
			}
			idx := -1
			for i, p := range fn.Params {
				if p == x {
					idx = i
				}
			}
			sites, ok := r.locks.callersOf(fn)
			if !ok || idx < 0 || fn.Parent() != nil {
				continue
			}
			for _, s := range sites {
				call, isCall := s.(*ssa.Call)
				if !isCall || ir.StaticCallee(call) != fn || idx >= len(call.Call.Args) {
					continue
				}
				f2, c2 := r.lookedUpInSectionZ(call.Call.Args[idx], call, depth+1)
				if f2 {
					found = true
					if !c2 || r.boundaryBetweenZ(fn, nil, at) {
						cont = false
					}
				}
			}
		}
	}
	return found, cont
}

// resultLookedUpZ: result idx of the private helper h can be a value read from the list by h; cont: on every such
// return the critical section of the lookup is still open when h returns.
func (r *lruRoles) resultLookedUpZ(h *ssa.Function, idx int, depth int) (found, cont bool) {
	cont = true
	for _, ret := range ir.Returns(h) {
		if idx >= len(ret.Results) {
			continue
		}
		f2, c2 := r.lookedUpInSectionZ(ir.ResultValue(ret, idx), ret, depth+1)
		if !f2 && ir.ResultValue(ret, idx) != ret.Results[idx] {
			f2, c2 = r.lookedUpInSectionZ(ret.Results[idx], ret, depth+1)
		}
		if f2 {
			found = true
			if !c2 || r.hasDeferredBoundaryZ(h) {
				cont = false
			}
		}
	}
	return found, cont
}

// lruReinsertInSection (C09.R7, C11.R8): the only values the cache ever inserts are the ones its create function just
// returned (followed by the capacity test, R4) and the ones it has just read from the list (the hit: Remove + Add moves
// the entry to the most-recent end). The second kind is sound only while the entry is known to be in the list: inside
// the critical section of the lookup. If the mutex is released between the lookup and the re-insert - also when the
// lookup ran under a shared lock that is swapped for the exclusive one - the entry can be evicted, removed or cleared
// in the gap: Remove(k) then does nothing and Add(k, v) puts back a value that was already handed to the delete
// callback, with no capacity test behind it. The cache is one over its capacity for good, once per occurrence.
func (c *Ctx) lruReinsertInSection(r *lruRoles, rule string) {
	n := 0
	for _, fn := range c.P.FuncsOf("container/lru") {
		fn := fn
		if len(fn.Blocks) == 0 {
			continue
		}
		ir.Instrs(fn, func(in ssa.Instruction) {
			add := r.itemsCall(in, r.mAdd)
			if add == nil || len(add.Call.Args) < 3 {
				return
			}
			found, cont := r.lookedUpInSectionZ(add.Call.Args[2], add, 0)
			if !found {
				return
			}
			n++
			c.Decide(rule, fn, "looked-up value re-inserted in the critical section of its lookup", add, cont,
				"the value put back into the recency list was read from it in an earlier critical section (the mutex, or the shared lock the lookup ran under, is released in between): an entry that was evicted, removed or cleared in the gap comes back without a capacity test - the cache stays above its capacity, and the value was already passed to the delete callback")
		})
	}
	if n == 0 {
		// no insert of a looked-up value at all (the move to the most-recent end is written differently): nothing to bound
		c.Decide(rule, r.getOrCreate, "no looked-up value is re-inserted outside its critical section", nil, true, "")
	}
}

// ---------------------------------------------------------------------------
// one key for registration and deregistration (C09.R8, C11.R9)

// pureKeyZ resolves a key operand through single-assignment local and captured variables.
func pureKeyZ(v ssa.Value) ssa.Value {
	for i := 0; i < 16; i++ {
		v = ir.Resolve(v)
		u, ok := v.(*ssa.UnOp)
		if !ok || u.Op != token.MUL {
			return v
		}
		var cell ssa.Value
		switch x := u.X.(type) {
		case *ssa.Alloc:
			cell = x
		case *ssa.FreeVar:
			cell = ir.BindingOf(x)
		}
		if cell == nil {
			return v
		}
		sts := ir.StoresTo(cell)
		if len(sts) != 1 {
			return v
		}
		v = sts[0].Val
	}
	return v
}

// keyRootsZ: the values the key operand v (used in fn) can be, in terms of the callers: a parameter of a private helper
// is replaced by the arguments of every call of the helper made on behalf of GetOrCreate.
func (r *lruRoles) keyRootsZ(v ssa.Value, fn *ssa.Function, scope map[*ssa.Function]bool, depth int) []ssa.Value {
	v = pureKeyZ(v)
	p, isP := v.(*ssa.Parameter)
	if !isP || depth > 3 || p.Parent() != fn || fn == r.getOrCreate || fn.Parent() != nil {
		return []ssa.Value{v}
	}
	idx := -1
	for i, q := range fn.Params {
		if q == p {
			idx = i
		}
	}
	sites, ok := r.locks.callersOf(fn)
	if !ok || idx < 0 {
		return []ssa.Value{v}
	}
	var res []ssa.Value
	for _, s := range sites {
		call, isCall := s.(*ssa.Call)
		if !isCall || ir.StaticCallee(call) != fn || idx >= len(call.Call.Args) {
			return []ssa.Value{v}
		}
		if scope != nil && !scope[s.Parent()] {
			continue
		}
		res = append(res, r.keyRootsZ(call.Call.Args[idx], s.Parent(), scope, depth+1)...)
	}
	if len(res) == 0 {
		return []ssa.Value{v}
	}
	return res
}

// lruFlightKey (C09.R8, C11.R9): registration and deregistration of a creation are two halves of one bracket around
// the create function; they address the same entry only if they use the same key VALUE. The inner key is derived from
// the caller's primary key by a user function, and the primary key may be a pointer or hold slices - after the create
// function ran, a second evaluation of the mapping need not give the first result. A deregistration under a re-derived
// key leaves the registered entry (key + closed channel) in the table for ever - one per call, the table grows with
// the history - and later requests of the registered key spin on the closed channel. The clause: the key operand of
// every removal from the in-flight table GetOrCreate performs is the very value (the same evaluation, through local
// copies and through the parameters of private helpers) that the registration stored under.
func (c *Ctx) lruFlightKey(r *lruRoles, rule string) {
	scope := r.gocScope()
	type site struct {
		in  ssa.Instruction
		key ssa.Value
	}
	var regs, deregs []site
	for _, fn := range r.locks.reachable(r.getOrCreate) {
		if !scope[fn] {
			continue
		}
		ir.Instrs(fn, func(in ssa.Instruction) {
			if r.isInflightRegZ(in) {
				regs = append(regs, site{in, in.(*ssa.MapUpdate).Key})
			}
			if cc := builtinCall(in, "delete"); cc != nil && len(cc.Args) == 2 {
				if _, isIn := loadOfField(cc.Args[0], r.inflight); isIn {
					deregs = append(deregs, site{in, cc.Args[1]})
				}
			}
		})
	}
	if len(regs) == 0 || len(deregs) == 0 {
		// the table is handled behind an abstraction of its own (a named table type with methods): the in-flight rules
		// (C09.R2) decide it on the normal form
		c.Decide(rule, r.getOrCreate, "in-flight entry removed under the key it was registered under", nil, true, "")
		return
	}
	regRoots := map[ssa.Value]bool{}
	for _, g := range regs {
		for _, k := range r.keyRootsZ(g.key, g.in.Parent(), scope, 0) {
			regRoots[k] = true
		}
	}
	for _, d := range deregs {
		ok := len(regRoots) == 1
		for _, k := range r.keyRootsZ(d.key, d.in.Parent(), scope, 0) {
			if !regRoots[k] {
				ok = false
			}
		}
		c.Decide(rule, d.in.Parent(), "in-flight entry removed under the key it was registered under", d.in, ok,
			"the creator removes its in-flight entry under a key that is not the value it registered the entry under (the key is derived again, after the create function ran): when the two evaluations differ the registered entry and its closed channel stay in the table for ever - one per call - and later requests of that key spin on the closed channel")
	}
}
