package rules

import (
	"sort"

	"golang.org/x/tools/go/ssa"

	"verif/checker/ir"
)

// ===========================================================================
// C20.R16: the path a file is extracted to is a lossless image of the entry name
//
// What it decides. R3 asks of the archive-WRITING side that the entry name derives from the relative path through
// injective operations only. This is the same clause for the other half of the round trip. In every function that reads
// archive entry names and hands a value derived from them to a call that creates something in the file system (R1's
// sinks: os.Create, OpenFile, MkdirAll, WriteFile ... and repository functions whose parameter reaches one), that
// argument is not (built from) a LOSSY image of the entry name: the result of one of the operations R3 rejects - cut-set
// trims, case folding, Replace / ReplaceAll, strings.Map, Base ... - applied to a name-derived value, directly or inside
// a repository function that returns such an image of its parameter. A name handed on to a repository function whose
// parameter reaches a creating call is followed into that function (depth 2). What the writing side inverts is not
// lossy: FromSlash / ToSlash, Clean, Join, Rel, TrimPrefix of the leading separator.
//
// Why it is necessary. "reproduces every regular file - relative path and content ... names with spaces/dots/unicode":
// ZipFolder stores the relative path verbatim. A character substitution on the way from the entry name to the created
// path maps two different relative paths to one (a\b and a/b on Unix, where the backslash is an ordinary character of
// a file name) and moves a file to a path it did not have; the tree that comes back is not the tree that went in.
//
// Over-approximations: a substitution that is the identity on every name ZipFolder can produce on the platform at hand
// (replacing a character the file system forbids) is flagged; the census is R3's list, not a proof of injectivity.
func (c *Ctx) zipLossyExtraction(fns []*ssa.Function, env *r1Env, lossy map[string]bool, isEntryName func(ssa.Value) bool,
	sinks func(ssa.CallInstruction) []ssa.Value, rule string) {
	g := &zipLossy{c: c, env: env, lossy: lossy, lossyRet: map[*ssa.Function]map[int]bool{}}
	// repository functions that return a lossy image of a string parameter (as in R15)
	for changed := true; changed; {
		changed = false
		for _, fn := range fns {
			if len(fn.Blocks) == 0 {
				continue
			}
			for i, p := range fn.Params {
				if !isStringType(p.Type()) || g.lossyRet[fn][i] {
					continue
				}
				lv, _ := g.lossyValues(fn, env.derives(fn, map[ssa.Value]bool{p: true}))
				hit := false
				for _, ret := range ir.Returns(fn) {
					for _, r := range ret.Results {
						if lv[r] && isStringType(r.Type()) {
							hit = true
						}
					}
				}
				if hit {
					if g.lossyRet[fn] == nil {
						g.lossyRet[fn] = map[int]bool{}
					}
					g.lossyRet[fn][i] = true
					changed = true
				}
			}
		}
	}
	// find: a creating call of fn (or of what it hands the name to) whose argument is a lossy image of a value in src
	var find func(fn *ssa.Function, src map[ssa.Value]bool, depth int) (nSinks int, at ssa.Instruction, why string)
	find = func(fn *ssa.Function, src map[ssa.Value]bool, depth int) (int, ssa.Instruction, string) {
		names := env.derives(fn, src)
		lv, whys := g.lossyValues(fn, names)
		n := 0
		for _, call := range ir.Calls(fn) {
			for _, a := range sinks(call) {
				if !names[a] {
					continue
				}
				n++
				if lv[a] {
					why := g.origin(lv, whys, a)
					if why == "a lossy operation" {
						// the image reached the argument through a variadic argument array: name the (first) operation
						var ops []string
						for _, w := range whys {
							ops = append(ops, w)
						}
						sort.Strings(ops)
						if len(ops) > 0 {
							why = ops[0]
						}
					}
					return n, call, why
				}
				// the name goes on into a repository function: what happens to it there
				cal := ir.StaticCallee(call)
				if cal == nil || !env.inPkg[cal] || len(cal.Blocks) == 0 || depth >= 2 {
					continue
				}
				args := call.Common().Args
				from := map[ssa.Value]bool{}
				for i, x := range args {
					if x == a && i < len(cal.Params) && isStringType(cal.Params[i].Type()) {
						from[cal.Params[i]] = true
					}
				}
				if len(from) == 0 {
					continue
				}
				if _, at2, why2 := find(cal, from, depth+1); at2 != nil {
					return n, call, why2 + " (in " + ir.FnName(cal) + ")"
				}
			}
		}
		return n, nil, ""
	}
	for _, fn := range fns {
		src := map[ssa.Value]bool{}
		ir.Instrs(fn, func(in ssa.Instruction) {
			if v, ok := in.(ssa.Value); ok && isEntryName(v) {
				src[v] = true
			}
		})
		if len(src) == 0 {
			continue
		}
		n, at, why := find(fn, src, 0)
		if n == 0 {
			continue
		}
		c.Decide(rule, fn, "the created path derives from the entry name without loss", at, at == nil,
			"the path handed to the creating call is built from the entry name through "+why+", which maps different names to one (a\\b and a/b) or drops characters: ZipFolder stores the relative path verbatim, so a file of the tree comes back under another path, or two files come back as one")
	}
	c.R.Floor(rule, 1)
}
