package rules

import (
	"go/token"
	"go/types"

	"golang.org/x/tools/go/ssa"

	"verif/checker/ir"
)

func init() {
	register(&Check{
		ID: "C17", Title: "Block allocator: no double allocation, disjoint blocks, recoverable state",
		Pkgs:      []string{"container/bytes", "files"},
		Run:       runC17,
		Technique: "static analysis: sentinel result-use rule, must-pass-through path queries, must-lockset dataflow, atomic-only census and sibling agreement on go/ssa of container/bytes/blocks.go",
		Explanation: "R18 (session 4): no path of ArrangeBlock/FreeBlock leads from an unconditional atomic modification of the free counter (CompareAndSwap excluded) to an exit whose error is provably non-nil: Available() is read without the lock, so reserve-then-undo is observable. " +
			"R1: the sentinel (-1) of the geometry function GetBlocksInSegment is tested at every call site on an edge that dominates every arithmetic use of the result; the rejecting exit returns an error wrapping ErrInvalid - in the constructor, or in a private validation function of the constructor whose error the constructor hands out unchanged on every path on which it is non-nil. " +
			"R2: every success exit of ArrangeBlock passes a store that sets a bit in a slice obtained from the underlying buffer and an atomic decrement of the free counter; every success exit of FreeBlock passes the clearing store, dominated by the 'bit is set' edge (no double free), and the atomic increment. Success exits are exit points (a return of merged results counts per alternative); when the body of the operation runs as a function literal that the method invokes on every path and that reports through the method's captured error variable, the literal's points that leave that variable nil are the success exits. The set store is guarded by the 'bit is clear' edge (directly, through a flag that is only true where the test succeeded, through the ok/error result of a private helper every exit of which that can produce this result is behind the test, or by choosing the bit as TrailingZeros of the non-zero complement of the header byte - non-zero known as such, or because the byte read from the element being written is known not to be 0xFF). The free counter is an int32 word used through sync/atomic functions or a typed atomic.Int32. " +
			"R3: header bytes (slices from bts.Buffer) and the free hint are read/written in the functions that carry out ArrangeBlock/FreeBlock (the method, its function literals, the private helpers it calls) only with the allocator mutex held - held on entry of a helper/literal when every place that runs it holds it (static call on the same receiver, direct call, wrapper that calls its function parameter under the lock); every Lock reaches an Unlock on all paths including error exits. " +
			"R4: every success exit of the constructor passes the routine that recomputes the free counter from the headers (it reads them from the buffer and no loop of the functions that carry it out - the routine, its function literals, its private helpers - is left early except towards a failing exit point); elsewhere the counter is touched only through sync/atomic. " +
			"R5: Block and the header-coordinate helper reject segm>=segments and idx<0 before computing an offset (uses of the segment number are followed through merges of result variables, and into the callers of a function that returns it: there a use must sit behind the ok/error outcome of that call that only its accepting exits produce; methods of value types embedded in the allocator count as its methods). " +
			"R6: in the functions that carry out FreeBlock every store hint=x is dominated by the hint>x edge (a hint that moves up hides free blocks). " +
			"R7: every product that involves both the blocks-per-segment field and the block-size field uses (blocksPerSegment+1): a segment occupies its header block too (sibling agreement on the stride; floor: each of allocate, free, recount computes the stride in the functions that carry it out). R8: every path to a non-sentinel result of the geometry function takes an edge that bounds the block size from above (without it (8*bs+1)*bs overflows int and the wrapped geometry is accepted). R9: the constructor compares a value derived from the storage size with a bound derived from the int32 counter maximum before it hands out an allocator. R10: on the path of files.NewMMFile every (*os.File).Truncate sits behind a test that the file is shorter than the new size (opening never cuts an existing storage). R11: a hint that was stepped through a header block is set back to a header start (a multiple of the stride, or 0) before the next header is fetched or ErrExhausted is returned. " +
			"R12: Block and FreeBlock take a block index apart by quotient and remainder of the blocks-per-segment field - the inverse of the segment*blocksPerSegment + position by which ArrangeBlock composes the index it hands out (sibling agreement); a split or composition by a shift/mask is accepted only when the geometry function admits nothing but powers of two (it does not: multiples of the page size). R13 (contract of the storage the rules above take at their word): the byte slice behind an in-memory Buffer only ever becomes nil, the result of make (a part of it, the own content extended by it) or memory cleared over its whole length before the function returns - never a slice from a pool, a package variable or a previously used buffer. R15: an ErrExhausted exit of ArrangeBlock that is decided on a summary kept in the allocator (a flag, the free counter - a field the allocate/free/recount code writes, read on a branch edge behind which every exit is ErrExhausted; the free hint has R6/R11) is sound only if in the functions that carry out FreeBlock every path from the clear-bit store to an exit passes a store that puts the summary back to not-full (the opposite constant of a flag, the +1 of the counter) or an edge on which the summary itself already says not-full; a reset behind a condition on something else is reported. R16: as soon as a function of the package calls Grow on the allocator's storage (census; none on this tree), that call holds the allocator lock and every header slice the allocate/free code indexes is fetched from the storage with the lock held and without the lock being released between the fetch and the use. R17: where the functions that carry out FreeBlock/ArrangeBlock fetch block data through Block() and write it (element store, copy, clear) or hand it on, the index is the operation's own - FreeBlock's index parameter as it came in (not a later assignment to the variable), the expression ArrangeBlock returns, or a helper parameter that receives one at every call; on this tree they fetch no block data (census).",
		NotDecided: "disjointness of block byte ranges and the index<->offset arithmetic as values; behaviour of the memory mapping; fairness under concurrency.",
	})
}

// openNeverShrinks (C17.R10): opening a memory-mapped file never makes the file shorter. NewMMFile may extend a file
// that is shorter than the region it maps; every Truncate on its path (in the function or in the private functions of
// the package it runs) sits behind a test that the file's size is below the new size. An unconditional Truncate cuts a
// storage that is opened with a smaller region: the headers and data of the later segments are gone, reopening the
// "same bytes" shows their blocks as free.
func (c *Ctx) openNeverShrinks(rule string) {
	open := c.P.Func("files", "NewMMFile")
	if open == nil || len(open.Blocks) == 0 {
		c.Decide(rule, nil, "open never shrinks the file", nil, false, "files.NewMMFile not found")
		return
	}
	c.Saw(open)
	guardAt := func(b *ssa.BasicBlock) bool {
		return hasFactCmp(b, func(cm ir.Cmp) bool {
			isSize := func(v ssa.Value) bool {
				call, ok := ir.Resolve(v).(*ssa.Call)
				return ok && call.Call.IsInvoke() && call.Call.Method.Name() == "Size"
			}
			return (cm.Op == token.LSS && isSize(cm.X)) || (cm.Op == token.GTR && isSize(cm.Y))
		})
	}
	n := 0
	seen := map[*ssa.Function]bool{}
	var visit func(fn *ssa.Function, guarded bool, depth int)
	visit = func(fn *ssa.Function, guarded bool, depth int) {
		if depth > 3 || seen[fn] {
			return
		}
		seen[fn] = true
		ir.Instrs(fn, func(in ssa.Instruction) {
			call, ok := in.(*ssa.Call)
			if !ok {
				return
			}
			if ir.CalleeFullName(call) == "(*os.File).Truncate" {
				n++
				c.Decide(rule, fn, "Truncate on the open path only extends", in, guarded || guardAt(in.Block()),
					"the file is truncated to the size of the mapped region without a test that it is shorter than that: opening an existing storage with a smaller region cuts the file, everything behind the region - the headers and blocks of the later segments - is lost")
				return
			}
			if cal := ir.StaticCallee(call); cal != nil && cal.Pkg == open.Pkg && len(cal.Blocks) > 0 && cal != open {
				visit(cal, guarded || guardAt(in.Block()), depth+1)
			}
		})
	}
	visit(open, false, 0)
	if n == 0 {
		c.Decide(rule, open, "Truncate on the open path only extends", nil, true, "")
	}
}

func runC17(c *Ctx) {
	c.openNeverShrinks("C17.R10")
	blocks := c.P.LookupType("container/bytes", "Blocks")
	if blocks == nil {
		c.Fatalf("role Blocks type not found")
	}
	ctor := c.RequireFn(c.P.Func("container/bytes", "NewBlocks"), "bytes.NewBlocks")
	geom := c.RequireFn(c.P.Func("container/bytes", "GetBlocksInSegment"), "bytes.GetBlocksInSegment")
	arrange := c.RequireFn(c.P.MethodOf(blocks, "ArrangeBlock"), "Blocks.ArrangeBlock")
	free := c.RequireFn(c.P.MethodOf(blocks, "FreeBlock"), "Blocks.FreeBlock")
	blockFn := c.RequireFn(c.P.MethodOf(blocks, "Block"), "Blocks.Block")
	mutex := c.oneField("blocks.mutex", blocks, func(f *types.Var) bool { return ir.IsNamed(f.Type(), "sync", "Mutex") })
	// the free counter: the 32-bit integer word of the allocator, kept as a plain int32 updated through the sync/atomic
	// functions or as a typed atomic.Int32
	avail := c.oneField("blocks.available", blocks, func(f *types.Var) bool {
		return types.Identical(f.Type(), types.Typ[types.Int32]) || xcAtomicIntWidth(f.Type()) == 32
	})
	bufIface := c.P.LookupType("container/bytes", "Buffer")
	bts := c.oneField("blocks.buffer", blocks, func(f *types.Var) bool { return namedOf(f.Type()) == bufIface && bufIface != nil })
	_ = bts
	pkgFns := c.P.FuncsOf("container/bytes")
	// counterStore: the counter is (re)initialised - a plain store to the word or the Store of the typed atomic
	counterStore := func(in ssa.Instruction) bool {
		if _, _, ok := storeToField(in, avail); ok {
			return true
		}
		if op, addr, _, ok := ir.AtomicCall(in); ok && op == "Store" {
			_, isAvail := fieldAddrOf(addr, avail)
			return isAvail
		}
		return false
	}
	// recount routine = the function that initialises the counter (resolved early: it is a role, the normal form keeps it)
	var recount *ssa.Function
	var recountDup []ssa.Instruction
	for _, fn := range pkgFns {
		ir.Instrs(fn, func(in ssa.Instruction) {
			if counterStore(in) {
				if recount != nil && recount != fn {
					recountDup = append(recountDup, in)
				}
				recount = fn
			}
		})
	}
	if recount != nil {
		c.Role("blocks.recount", relName(recount), recount.Pos())
	}
	// the functions that carry out an operation: the API method, its function literals and the private helpers it calls
	roleFns := map[*ssa.Function]bool{ctor: true, geom: true, arrange: true, free: true, blockFn: true}
	if recount != nil {
		roleFns[recount] = true
	}
	arrangeGroup := xcGroup(arrange, roleFns)
	ctorGroup := xcGroup(ctor, roleFns)
	freeGroup := xcGroup(free, roleFns)
	// hint = the int field FreeBlock stores to; segments = int field compared in Block's rejection
	var hint *types.Var
	{
		var cands []*types.Var
		for _, f := range fieldsWhere(blocks, func(f *types.Var) bool { return types.Identical(f.Type(), types.Typ[types.Int]) }) {
			found := false
			for _, fn := range freeGroup {
				ir.Instrs(fn, func(in ssa.Instruction) {
					if _, _, ok := storeToField(in, f); ok {
						found = true
					}
				})
			}
			if found {
				cands = appendUniq(cands, f)
			}
		}
		if len(cands) > 1 {
			// the hint is the one the allocation scan steps through (f = f + 1)
			var stepped []*types.Var
			for _, f := range cands {
				found := false
				for _, fn := range arrangeGroup {
					ir.Instrs(fn, func(in ssa.Instruction) {
						if _, val, ok := storeToField(in, f); ok {
							if bo, isBo := ir.Resolve(val).(*ssa.BinOp); isBo && bo.Op == token.ADD {
								if _, isF := loadOfField(bo.X, f); isF {
									found = true
								}
							}
						}
					})
				}
				if found {
					stepped = append(stepped, f)
				}
			}
			if len(stepped) == 1 {
				cands = stepped
			}
		}
		if len(cands) != 1 {
			c.Fatalf("role blocks.hint: FreeBlock stores to %d int fields, expected 1", len(cands))
		}
		hint = cands[0]
		c.Role("blocks.hint", hint.Name(), hint.Pos())
	}
	// header slices: first results of invokes of Buffer.Buffer
	isHdrSlice := func(v ssa.Value) bool {
		ex, ok := ir.Resolve(v).(*ssa.Extract)
		if !ok || ex.Index != 0 {
			return false
		}
		call, ok := ex.Tuple.(*ssa.Call)
		return ok && call.Call.IsInvoke() && call.Call.Method.Name() == "Buffer" && namedOf(call.Call.Value.Type()) == bufIface
	}
	hdrAccess := func(in ssa.Instruction) (*ssa.IndexAddr, bool) {
		ia, ok := in.(*ssa.IndexAddr)
		if ok && isHdrSlice(ia.X) {
			return ia, true
		}
		return nil, false
	}
	// an atomic add of delta to the counter, in either style (atomic.AddInt32(&x.f, d) / x.f.Add(d))
	atomicAdd := func(in ssa.Instruction, delta int64) bool {
		if _, isCall := in.(*ssa.Call); !isCall {
			return false
		}
		op, addr, args, ok := ir.AtomicCall(in)
		if !ok || op != "Add" || len(args) != 1 {
			return false
		}
		if _, isAvail := fieldAddrOf(addr, avail); !isAvail {
			return false
		}
		k, isC := ir.ConstInt(args[0])
		return isC && k == delta
	}

	// R1 sentinel
	for _, fn := range pkgFns {
		for _, call := range callsTo(fn, geom) {
			// arithmetic uses of the result
			var uses []ssa.Instruction
			var collect func(v ssa.Value, depth int)
			seen := map[ssa.Value]bool{}
			collect = func(v ssa.Value, depth int) {
				if seen[v] || depth > 6 || v.Referrers() == nil {
					return
				}
				seen[v] = true
				for _, r := range *v.Referrers() {
					switch x := r.(type) {
					case *ssa.BinOp:
						switch x.Op {
						case token.ADD, token.SUB, token.MUL, token.QUO, token.REM, token.SHL, token.SHR:
							uses = append(uses, x)
						}
					case *ssa.Convert:
						collect(x, depth+1)
					case *ssa.Phi:
						collect(x, depth+1)
					case *ssa.Store:
						uses = append(uses, x)
					case *ssa.Return:
						// handing the sentinel on to the caller is the caller's obligation
					}
				}
			}
			collect(call, 0)
			tested := func(b *ssa.BasicBlock) bool {
				return hasFactCmp(b, func(cm ir.Cmp) bool {
					if ir.Resolve(cm.X) != ssa.Value(call) {
						return false
					}
					k, isC := ir.ConstInt(cm.Y)
					if !isC {
						return false
					}
					// on this edge the value is known to be a real geometry: >=0, >0, != -1, > -1
					return (cm.Op == token.GEQ && k >= 0) || (cm.Op == token.GTR && k >= -1) || (cm.Op == token.NEQ && k == -1)
				})
			}
			ok := true
			var bad ssa.Instruction
			for _, u := range uses {
				if !tested(u.Block()) {
					ok, bad = false, u
				}
			}
			detail := ""
			if !ok {
				detail = "the result of the geometry function (-1 for an unacceptable block size) is used at " + c.P.InstrPos(bad) + " without being tested: an invalid geometry yields an allocator instead of ErrInvalid"
			}
			c.Decide("C17.R1", fn, "sentinel of GetBlocksInSegment tested before use", call, ok, detail)
			// and the rejecting edge returns an error wrapping ErrInvalid: in the constructor, or in a private function
			// that carries out the construction (a validation phase split off) whose error the constructor hands out as it
			// is. Exit points: a return of a merged error counts per alternative.
			if fn == ctor || xcInGroup(ctorGroup, fn) {
				okErr := false
				eidx := ir.ErrResultIndex(fn)
				for _, ep := range yhExitPoints(fn) {
					if eidx < 0 {
						break
					}
					rejecting := false
					for _, f := range yhExitFacts(ep) {
						cm, isCmp := f.Cmp()
						if !isCmp || ir.Resolve(cm.X) != ssa.Value(call) {
							continue
						}
						k, isC := ir.ConstInt(cm.Y)
						if isC && ((cm.Op == token.LSS && k <= 0) || (cm.Op == token.LEQ && k <= 0) || (cm.Op == token.EQL && k == -1)) {
							rejecting = true
						}
					}
					ev := ep.Result(eidx)
					if ep.Edge == nil && ep.Block == ep.Ret.Block() {
						ev = ir.ResultValue(ep.Ret, eidx)
					}
					if rejecting && wrapsGlobal(ev, "ErrInvalid") {
						okErr = true
					}
				}
				detail := "the constructor does not return an error wrapping ErrInvalid on the sentinel edge"
				if okErr && fn != ctor && !yhErrorHandedOut(fn, ctor, pkgFns, 0) {
					okErr = false
					detail = "the function that rejects the sentinel returns an error wrapping ErrInvalid, but the constructor does not hand that error out on every path on which it is set"
				}
				c.Decide("C17.R1", fn, "invalid geometry -> ErrInvalid", call, okErr, detail)
			}
		}
	}
	c.R.Floor("C17.R1", 2)

	// R2 state is written to the buffer
	isSetBit := func(in ssa.Instruction) bool {
		s, ok := in.(*ssa.Store)
		if !ok {
			return false
		}
		ia, ok := s.Addr.(*ssa.IndexAddr)
		if !ok || !isHdrSlice(ia.X) {
			return false
		}
		bo, ok := ir.Resolve(s.Val).(*ssa.BinOp)
		return ok && bo.Op == token.OR
	}
	isClearBit := func(in ssa.Instruction) bool {
		s, ok := in.(*ssa.Store)
		if !ok {
			return false
		}
		ia, ok := s.Addr.(*ssa.IndexAddr)
		if !ok || !isHdrSlice(ia.X) {
			return false
		}
		bo, ok := ir.Resolve(s.Val).(*ssa.BinOp)
		return ok && (bo.Op == token.AND || bo.Op == token.AND_NOT)
	}
	// "every success exit of the operation passes the effect". The effect is looked for in the functions that carry out the
	// operation. Normally it sits in the API method itself: the query runs there, the success exits being the exit points
	// (a return of a merged result counts per alternative) whose error is nil. When the operation's body was moved into a
	// function literal that the method runs unconditionally (under the lock) and that reports through the method's
	// captured result variable, the query runs in the literal: its success points are the places where it leaves the
	// captured error nil.
	effectBeforeSuccess := func(construct string, api *ssa.Function, group []*ssa.Function, effect func(ssa.Instruction) bool, what string) {
		var holders []*ssa.Function
		for _, fn := range group {
			has := false
			ir.Instrs(fn, func(in ssa.Instruction) {
				if effect(in) {
					has = true
				}
			})
			if has {
				holders = append(holders, fn)
			}
		}
		if len(holders) == 0 || xcInGroup(holders, api) {
			targets := map[ssa.Instruction]bool{}
			for _, pt := range xcExitOutcomes(api) {
				if pt.Class == ir.ErrNil {
					targets[pt.At] = true
				}
			}
			if len(targets) == 0 {
				if len(holders) == 0 {
					c.Decide("C17.R2", api, construct, nil, false, what+": no function that carries out the operation performs it")
					return
				}
				c.Undecided("C17.R2", api, construct, nil, "no exit of the operation is recognised as a success exit (error provably nil)")
				return
			}
			c.NoPath("C17.R2", construct, nil, ir.Query{Fn: api, Block: effect, Target: func(in ssa.Instruction) bool { return targets[in] }}, what)
			return
		}
		if len(holders) != 1 || holders[0].Parent() != api || holders[0].Signature.Results().Len() != 0 {
			c.Undecided("C17.R2", api, construct, nil, "the effect is performed in "+xcFnList(holders)+", not in the operation itself, and the way the outcome is handed back is not one the rule follows")
			return
		}
		w := holders[0]
		// the error the method returns is the captured variable the literal writes, and nobody else writes it
		idx := ir.ErrResultIndex(api)
		var cellAlloc *ssa.Alloc
		linked := idx >= 0
		for _, ret := range ir.Returns(api) {
			if !linked {
				break
			}
			u, isLoad := ret.Results[idx].(*ssa.UnOp)
			if !isLoad || u.Op != token.MUL {
				linked = false
				break
			}
			a, isAlloc := u.X.(*ssa.Alloc)
			if !isAlloc || (cellAlloc != nil && cellAlloc != a) {
				linked = false
				break
			}
			cellAlloc = a
		}
		var cell *ssa.FreeVar
		if linked && cellAlloc != nil {
			for _, fv := range w.FreeVars {
				if ir.BindingOf(fv) == ssa.Value(cellAlloc) {
					cell = fv
				}
			}
			for _, st := range ir.StoresTo(cellAlloc) {
				if st.Parent() == w {
					continue
				}
				// "return idx, err" of named results stores the variable to itself
				if u, isLoad := st.Val.(*ssa.UnOp); isLoad && u.Op == token.MUL && u.X == ssa.Value(cellAlloc) {
					continue
				}
				linked = false
			}
		}
		if !linked || cell == nil {
			c.Undecided("C17.R2", api, construct, nil, "the effect is performed in "+ir.FnName(w)+" and the error the operation returns is not (only) the variable that function reports through")
			return
		}
		// the method runs the literal on every path to an exit
		wit, err := (ir.Query{Fn: api, Block: func(in ssa.Instruction) bool { return xcSurelyInvokes(in, w, nil, 0) }, Target: ir.IsExit}).Find()
		if err != nil || wit != nil {
			c.Undecided("C17.R2", api, construct, nil, "the effect is performed in "+ir.FnName(w)+" which the operation does not run on every path")
			return
		}
		pts, stores := xcStoreOutcomes(w, cell)
		targets := map[ssa.Instruction]bool{}
		for _, pt := range pts {
			if pt.Class != ir.ErrNonNil {
				targets[pt.At] = true
			}
		}
		// leaving without reporting anything leaves the error nil
		wit, err = (ir.Query{Fn: w, Block: func(in ssa.Instruction) bool { return effect(in) || stores[in] }, Target: ir.IsExit}).Find()
		if err != nil {
			c.Undecided("C17.R2", w, construct, nil, err.Error())
			return
		}
		if wit != nil {
			c.Decide("C17.R2", w, construct, nil, false, what+": path "+wit.String(c.P))
			return
		}
		c.NoPath("C17.R2", construct, nil, ir.Query{Fn: w, Block: effect, Target: func(in ssa.Instruction) bool { return targets[in] }}, what)
	}
	effectBeforeSuccess("allocation sets a header bit", arrange, arrangeGroup, isSetBit,
		"ArrangeBlock can succeed without setting a bit in the header: the allocation is not recorded in the buffer (lost on reopen, handed out twice)")
	effectBeforeSuccess("allocation decrements the free counter", arrange, arrangeGroup, func(in ssa.Instruction) bool { return atomicAdd(in, -1) },
		"ArrangeBlock can succeed without decrementing the free counter")
	effectBeforeSuccess("free clears the header bit", free, freeGroup, isClearBit,
		"FreeBlock can succeed without clearing the header bit")
	effectBeforeSuccess("free increments the free counter", free, freeGroup, func(in ssa.Instruction) bool { return atomicAdd(in, 1) },
		"FreeBlock can succeed without incrementing the free counter")
	// the set store is guarded by "bit is clear", the clear store by "bit is set"
	// (a fact known through the outcome of a helper counts: "j, ok := firstFree(b); if ok" - every way the helper returns
	// ok == true is behind the test)
	bitTest := func(b *ssa.BasicBlock, wantSet bool) bool {
		return yhHolds(b, func(cm ir.Cmp) bool {
			bo, ok := ir.Resolve(cm.X).(*ssa.BinOp)
			if !ok || bo.Op != token.AND {
				return false
			}
			k, isC := ir.ConstInt(cm.Y)
			if !isC || k != 0 {
				return false
			}
			if wantSet {
				return cm.Op == token.NEQ || cm.Op == token.GTR
			}
			return cm.Op == token.EQL
		})
	}
	// the other spelling of "the bit is clear": the bit is chosen as the lowest set bit of the complement of the header
	// byte, j = bits.TrailingZeros(^b) under ^b != 0 - bit j of ^b is set, so bit j of b is clear
	lowestZeroChosen := func(st *ssa.Store) bool {
		or, ok := ir.Resolve(st.Val).(*ssa.BinOp)
		if !ok || or.Op != token.OR {
			return false
		}
		for _, m := range []ssa.Value{or.X, or.Y} {
			shl, isShl := xcStripConv(m).(*ssa.BinOp)
			if !isShl || shl.Op != token.SHL {
				continue
			}
			if k, isC := ir.ConstInt(xcStripConv(shl.X)); !isC || k != 1 {
				continue
			}
			call, isCall := xcStripConv(shl.Y).(*ssa.Call)
			if !isCall || len(call.Call.Args) != 1 {
				continue
			}
			switch ir.CalleeFullName(call) {
			case "math/bits.TrailingZeros8", "math/bits.TrailingZeros16", "math/bits.TrailingZeros32", "math/bits.TrailingZeros64", "math/bits.TrailingZeros":
			default:
				continue
			}
			compl, isU := xcStripConv(call.Call.Args[0]).(*ssa.UnOp)
			if !isU || compl.Op != token.XOR {
				continue
			}
			ld, isLd := ir.Resolve(compl.X).(*ssa.UnOp)
			if !isLd || ld.Op != token.MUL {
				continue
			}
			if ia, isIA := ld.X.(*ssa.IndexAddr); !isIA || !isHdrSlice(ia.X) {
				continue
			}
			// the complement is known to be non-zero where the bit is set
			if xcHasFactCmp(st.Block(), func(cm ir.Cmp) bool {
				k, isC := ir.ConstInt(cm.Y)
				return isC && k == 0 && xcStripConv(cm.X) == ssa.Value(compl) && (cm.Op == token.NEQ || cm.Op == token.GTR)
			}) {
				return true
			}
		}
		return false
	}
	for _, fn := range arrangeGroup {
		ir.Instrs(fn, func(in ssa.Instruction) {
			if isSetBit(in) {
				c.Decide("C17.R2", fn, "bit set only when clear", in, bitTest(in.Block(), false) || lowestZeroChosen(in.(*ssa.Store)) || vbLowestZeroKnown(in.(*ssa.Store), isHdrSlice), "a header bit is set without the test that it is clear: an allocated block can be handed out again")
			}
		})
	}
	for _, fn := range freeGroup {
		ir.Instrs(fn, func(in ssa.Instruction) {
			if isClearBit(in) {
				c.Decide("C17.R2", fn, "bit cleared only when set (no double free)", in, bitTest(in.Block(), true), "a header bit is cleared without the test that it is set: a double free inflates the free counter")
			}
		})
	}
	c.R.Floor("C17.R2", 6)

	// R3 lockset: over the functions that carry out the two operations. A helper or function literal that is only ever run
	// with the mutex held (by a static call on the same receiver, by a direct call, or through a wrapper that calls its
	// function parameter under the lock) is analysed with the mutex held on entry.
	{
		mpath := "recv." + mutex.Name()
		locks := newXcLocks(pkgFns, mpath)
		var r3fns []*ssa.Function
		for _, fn := range append(append([]*ssa.Function{}, arrangeGroup...), freeGroup...) {
			if !xcInGroup(r3fns, fn) {
				r3fns = append(r3fns, fn)
			}
		}
		for _, fn := range r3fns {
			fn := fn
			ls := locks.Lockset(fn)
			ir.Instrs(fn, func(in ssa.Instruction) {
				if ia, ok := hdrAccess(in); ok {
					c.Decide("C17.R3", fn, "header byte accessed under the lock", ia, ls.Held(in, mpath), "a header byte is read or written without the allocator lock: concurrent allocations/frees on the same header byte lose updates")
				}
				if fa, ok := in.(*ssa.FieldAddr); ok && ir.FieldOf(fa) == hint {
					c.Decide("C17.R3", fn, "free hint accessed under the lock", fa, ls.Held(in, mpath), "the free hint is accessed without the allocator lock")
				}
				if _, isCall := in.(*ssa.Call); !isCall {
					return
				}
				if p, acq, _ := ir.LockOp(in); acq && p == mpath {
					c.NoPath("C17.R3", "Lock reaches Unlock on all paths", in, ir.Query{Fn: fn, From: in,
						Block: func(x ssa.Instruction) bool {
							p2, _, rel := ir.LockOp(x)
							return rel && p2 == mpath
						}, Target: ir.IsExit}, "an exit is reached with the allocator lock still held")
				}
			})
		}
	}
	c.R.Floor("C17.R3", 10)

	// R4 reopen
	{
		for _, in := range recountDup {
			c.Decide("C17.R4", in.Parent(), "counter stored only by the recount routine", in, false, "the free counter is stored non-atomically in a second place")
		}
		if recount == nil {
			c.Decide("C17.R4", ctor, "constructor recounts the free blocks", nil, false, "no routine recomputes the free counter from the headers")
		} else {
			c.NoPath("C17.R4", "constructor recounts the free blocks", nil, ir.Query{Fn: ctor,
				Block: func(in ssa.Instruction) bool { return isCallTo(in, recount) },
				Target: func(in ssa.Instruction) bool {
					ret, ok := in.(*ssa.Return)
					if !ok {
						return false
					}
					// a return that hands out an allocator
					return !ir.IsNilConst(ir.Resolve(ir.ResultValue(ret, 0)))
				}}, "the constructor can hand out an allocator whose free counter was not rebuilt from the headers")
			// the recount routine reads the headers - in the functions that carry it out: the routine, its function literals
			// and the private helpers it calls (a header iterator, a bit counter)
			recountGroup := xcGroup(recount, roleFns)
			readsHdr := false
			for _, fn := range recountGroup {
				ir.Instrs(fn, func(in ssa.Instruction) {
					if call, ok := in.(*ssa.Call); ok && call.Call.IsInvoke() && call.Call.Method.Name() == "Buffer" {
						readsHdr = true
					}
				})
			}
			c.Decide("C17.R4", recount, "recount reads the headers from the buffer", nil, readsHdr, "the recount routine does not read the headers from the underlying buffer")
			// the recount is an exhaustive scan: the loops of these functions are left only through their own condition (or
			// with an error)
			early, loops := 0, false
			for _, fn := range recountGroup {
				for _, ex := range loopEarlyExits(fn) {
					early++
					c.Decide("C17.R4", fn, "recount scans every header byte (no early loop exit)", ex, false, "the recount leaves a loop over the header bytes/segments early: bytes behind that point are assumed instead of counted, so after a reopen the free counter (and with it ErrExhausted) disagrees with the bitmap")
				}
				loops = loops || hasLoop(fn)
			}
			if early == 0 {
				c.Decide("C17.R4", recount, "recount scans every header byte (no early loop exit)", nil, loops, "the recount routine has no loop over the headers")
			}
			// other accesses are atomic
			for _, fn := range pkgFns {
				if fn == recount {
					continue
				}
				ir.Instrs(fn, func(in ssa.Instruction) {
					fa, ok := in.(*ssa.FieldAddr)
					if !ok || ir.FieldOf(fa) != avail || fa.Referrers() == nil {
						return
					}
					okAtomic := true
					for _, r := range *fa.Referrers() {
						call, isCall := r.(*ssa.Call)
						if !isCall || call.Call.StaticCallee() == nil || call.Call.StaticCallee().Pkg == nil || call.Call.StaticCallee().Pkg.Pkg.Path() != "sync/atomic" {
							okAtomic = false
						}
					}
					c.Decide("C17.R4", fn, "counter touched atomically", fa, okAtomic, "the free counter is accessed without sync/atomic outside the recount routine")
				})
			}
		}
	}
	c.R.Floor("C17.R4", 4)

	var perSeg, blkSize *types.Var
	// blkSize = int field passed as size to Buffer(); perSeg = int field that divides an index parameter
	// (in the methods of the allocator and of the value types that hold part of its state: a geometry struct embedded in it)
	carriers := yhCarriers(blocks)
	for _, fn := range pkgFns {
		if !yhRecvIn(fn, carriers) {
			continue
		}
		ir.Instrs(fn, func(in ssa.Instruction) {
			if call, ok := in.(*ssa.Call); ok && call.Call.IsInvoke() && call.Call.Method.Name() == "Buffer" {
				if f := ir.LoadedField(call.Call.Args[1]); f != nil {
					blkSize = f
				}
			}
			if bo, ok := in.(*ssa.BinOp); ok && bo.Op == token.QUO {
				if _, isParam := ir.Resolve(bo.X).(*ssa.Parameter); isParam {
					if f := ir.LoadedField(bo.Y); f != nil {
						perSeg = f
					}
				}
			}
		})
	}
	if perSeg == nil {
		// no operation divides an index by the field (any more): the field the constructor stores the geometry into
		perSeg = vbPerSegFromCtor(ctorGroup, geom)
	}
	if perSeg == nil || blkSize == nil {
		c.Fatalf("role blocks-per-segment / block-size fields could not be resolved")
	}
	c.Role("blocks.perSegment", perSeg.Name(), perSeg.Pos())
	c.Role("blocks.blockSize", blkSize.Name(), blkSize.Pos())
	// R12-R14 (v_blocks.go)
	c.vbRules(&vbEnv{blocks: blocks, bufIface: bufIface, ctor: ctor, geom: geom, arrange: arrange, free: free, blockFn: blockFn,
		arrangeGroup: arrangeGroup, freeGroup: freeGroup, pkgFns: pkgFns, perSeg: perSeg, isSetBit: isSetBit, isClearBit: isClearBit,
		atomicAdd: atomicAdd, roleFns: roleFns, carriers: carriers, ruleSplit: "C17.R12", ruleFresh: "C17.R13", ruleAck: "C17.R14"})
	// R15, R16 (v_blocks_g.go)
	c.vbgRules(&vbgEnv{blocks: blocks, bufIface: bufIface, arrange: arrange, free: free, recount: recount, arrangeGroup: arrangeGroup,
		freeGroup: freeGroup, ctorGroup: ctorGroup, pkgFns: pkgFns, roleFns: roleFns, mutex: mutex, hint: hint, avail: avail, bts: bts,
		isHdrSlice: isHdrSlice, isClearBit: isClearBit, atomicAdd: atomicAdd})
	// R17 (v_blocks_h.go)
	c.vbhOwnBlockData("C17.R17", blocks, blockFn, arrange, free, arrangeGroup, freeGroup)
	// R18 (x_c17_i.go)
	c.xc17FailedCallKeepsCounter("C17.R18", avail, recount, arrange, free)

	// R5 bounds siblings: every function that derives a segment number from an index parameter rejects idx<0 on the
	// parameter itself (division truncates toward zero: testing the segment number lets -1..-(n-1) through) and
	// segm >= segments, before an offset is computed or a success is returned
	{
		segments := c.fieldComparedInAny(pkgFns, blocks, perSeg)
		for _, fn := range pkgFns {
			if !yhRecvIn(fn, carriers) {
				continue
			}
			var segm *ssa.BinOp
			var idxP *ssa.Parameter
			ir.Instrs(fn, func(in ssa.Instruction) {
				if bo, ok := in.(*ssa.BinOp); ok && bo.Op == token.QUO && ir.LoadedField(bo.Y) == perSeg {
					if p, isParam := ir.Resolve(bo.X).(*ssa.Parameter); isParam {
						segm, idxP = bo, p
					}
				}
			})
			if segm == nil {
				continue
			}
			// the accepting continuation: every use of the segment number in arithmetic (offsets) or in a returned value
			var uses []ssa.Instruction
			ir.Instrs(fn, func(in ssa.Instruction) {
				switch x := in.(type) {
				case *ssa.BinOp:
					// (through a merge as well: the single-exit spelling "res = segm" on the accepting branch, a dummy on the other)
					if (x.Op == token.MUL || x.Op == token.ADD) && (xcMayBe(x.X, segm) || xcMayBe(x.Y, segm)) {
						uses = append(uses, in)
					}
				case *ssa.Return:
					for _, rv := range x.Results {
						if xcMayBe(rv, segm) {
							uses = append(uses, in)
							break
						}
					}
				}
			})
			upperPred := func(cm ir.Cmp) bool {
				if ir.Resolve(cm.X) == ssa.Value(segm) && cm.Op == token.LSS {
					_, isSeg := loadOfField(cm.Y, segments)
					return isSeg
				}
				// segments > segm
				if ir.Resolve(cm.Y) == ssa.Value(segm) && cm.Op == token.GTR {
					_, isSeg := loadOfField(cm.X, segments)
					return isSeg
				}
				return false
			}
			lowerPred := func(cm ir.Cmp) bool {
				if k, isC := ir.ConstInt(cm.Y); isC && ir.Resolve(cm.X) == ssa.Value(idxP) {
					return (cm.Op == token.GEQ && k == 0) || (cm.Op == token.GTR && k == -1)
				}
				// 0 <= idx
				if k, isC := ir.ConstInt(cm.X); isC && ir.Resolve(cm.Y) == ssa.Value(idxP) {
					return (cm.Op == token.LEQ && k == 0) || (cm.Op == token.LSS && k == -1)
				}
				return false
			}
			const r5detail = "a segment number derived from the index is used although idx >= 0 (tested on the index itself) and segm < segments do not both dominate the use: small negative indices map to segment 0 and address the bookkeeping header as if it were a data block"
			for _, u := range uses {
				upper := xcHasFactCmp(u.Block(), upperPred)
				lower := xcHasFactCmp(u.Block(), lowerPred)
				c.Decide("C17.R5", fn, "segment number used only for an index in range", u, upper && lower, r5detail)
			}
			// a function that hands the segment number to its callers (segm, ok := segmentOf(idx)): what the callers do with
			// that result is a use as well - in arithmetic, as an argument, in a returned value - and has to sit behind a
			// fact about the outcome of this very call (ok is true, the error is nil) that only the accepting exits of the
			// function produce, i.e. at every exit that can produce it both tests hold
			for ri := 0; ri < fn.Signature.Results().Len(); ri++ {
				hands := false
				for _, ret := range ir.Returns(fn) {
					if ri < len(ret.Results) && xcMayBe(ir.ResultValue(ret, ri), segm) {
						hands = true
					}
				}
				if !hands {
					continue
				}
				for _, g := range pkgFns {
					for _, call := range callsTo(g, fn) {
						var got ssa.Value
						if fn.Signature.Results().Len() == 1 {
							got = call
						} else if call.Referrers() != nil {
							for _, r := range *call.Referrers() {
								if ex, isEx := r.(*ssa.Extract); isEx && ex.Index == ri {
									got = ex
								}
							}
						}
						if got == nil {
							continue
						}
						ir.Instrs(g, func(in ssa.Instruction) {
							used := false
							switch x := in.(type) {
							case *ssa.BinOp:
								used = (x.Op == token.MUL || x.Op == token.ADD) && (xcMayBe(x.X, got) || xcMayBe(x.Y, got))
							case *ssa.Return:
								for _, rv := range x.Results {
									used = used || xcMayBe(rv, got)
								}
							case ssa.CallInstruction:
								for _, a := range x.Common().Args {
									used = used || xcMayBe(a, got)
								}
							}
							if !used {
								return
							}
							ok := yhHoldsThroughCall(in.Block(), call, upperPred) && yhHoldsThroughCall(in.Block(), call, lowerPred)
							c.Decide("C17.R5", g, "segment number used only for an index in range", in, ok, r5detail)
						})
					}
				}
			}
		}
	}
	c.R.Floor("C17.R5", 2)

	// R6 hint only lowered on free; elsewhere only constant 0
	for _, fn := range pkgFns {
		ir.Instrs(fn, func(in ssa.Instruction) {
			_, val, ok := storeToField(in, hint)
			if !ok {
				return
			}
			switch {
			case xcInGroup(freeGroup, fn):
				okG := xcHasFactCmp(in.Block(), func(cm ir.Cmp) bool {
					_, isHint := loadOfField(cm.X, hint)
					if isHint && ir.Resolve(cm.Y) == ir.Resolve(val) && cm.Op == token.GTR {
						return true
					}
					_, isHintY := loadOfField(cm.Y, hint)
					return isHintY && ir.Resolve(cm.X) == ir.Resolve(val) && cm.Op == token.LSS
				})
				c.Decide("C17.R6", fn, "hint only lowered on free", in, okG, "FreeBlock stores the hint without the test hint > x: the hint can move above a free block, which is then never found (ErrExhausted while blocks are free)")
			case xcInGroup(arrangeGroup, fn):
				// the scan advances the hint over full bytes
				return
			default:
				// a hint computed elsewhere (e.g. on open) is a value statement this rule cannot decide; R7 checks its stride
			}
		})
	}
	c.R.Floor("C17.R6", 1)

	// R11 the scan leaves the hint on a header: the hint is stepped byte by byte through a header block; when the scan of
	// that header ends without a free bit the hint stands one past the header - on the first data block of the segment -
	// and has to be re-aligned to a header start (a multiple of the segment stride) before the allocator looks at the
	// next header or gives up. Otherwise the next call reads user data as a header.
	{
		n := 0
		for _, fn := range pkgFns {
			if !xcInGroup(arrangeGroup, fn) {
				continue
			}
			fn := fn
			isRealign := func(x ssa.Instruction) bool {
				_, val, ok := storeToField(x, hint)
				if !ok {
					return false
				}
				if k, isC := ir.ConstInt(val); isC && k == 0 {
					return true
				}
				// a product, also one that a helper of the package names (segmOffs(n))
				return yhResultIsProduct(val, 0)
			}
			isStep := func(x ssa.Instruction) bool {
				_, val, ok := storeToField(x, hint)
				if !ok {
					return false
				}
				bo, isBo := ir.Resolve(val).(*ssa.BinOp)
				if !isBo || bo.Op != token.ADD {
					return false
				}
				_, isHint := loadOfField(bo.X, hint)
				k, isC := ir.ConstInt(bo.Y)
				return isHint && isC && k == 1
			}
			giveUpOrNext := func(x ssa.Instruction) bool {
				if ret, ok := x.(*ssa.Return); ok {
					idx := ir.ErrResultIndex(fn)
					if idx >= 0 {
						if g := globalOf(ir.ResultValue(ret, idx)); g != nil && g.Name() == "ErrExhausted" {
							return true
						}
					}
					return false
				}
				if call, ok := x.(*ssa.Call); ok && call.Call.IsInvoke() && call.Call.Method.Name() == "Buffer" {
					return true
				}
				return false
			}
			ir.Instrs(fn, func(in ssa.Instruction) {
				if !isStep(in) {
					return
				}
				n++
				c.NoPath("C17.R11", "stepped hint re-aligned to a header before the next header / ErrExhausted", in,
					ir.Query{Fn: fn, From: in, Block: isRealign, Target: giveUpOrNext},
					"after the hint was stepped through a header block it can reach the next header fetch or the ErrExhausted exit without being set back to a header start: it is left on the first data block of a segment, and the next ArrangeBlock treats that block's user data as allocation bits (hands out allocated indices, writes into user data, Available goes negative)")
			})
		}
		if n == 0 {
			c.Decide("C17.R11", arrange, "stepped hint re-aligned to a header before the next header / ErrExhausted", nil, true, "")
		}
	}

	// R7 stride agreement
	{
		strideFns := map[*ssa.Function]bool{}
		for _, fn := range pkgFns {
			fn := fn
			if fn == ctor {
				continue
			}
			// maximal multiplication chains
			ir.Instrs(fn, func(in ssa.Instruction) {
				bo, ok := in.(*ssa.BinOp)
				if !ok || bo.Op != token.MUL {
					return
				}
				// only roots of chains: not an operand of another MUL
				if bo.Referrers() != nil {
					for _, r := range *bo.Referrers() {
						if p, ok := r.(*ssa.BinOp); ok && p.Op == token.MUL {
							return
						}
					}
				}
				var factors []ssa.Value
				var flat func(v ssa.Value)
				flat = func(v ssa.Value) {
					if m, ok := v.(*ssa.BinOp); ok && m.Op == token.MUL {
						flat(m.X)
						flat(m.Y)
						return
					}
					factors = append(factors, v)
				}
				flat(bo)
				hasSize, bare, plus := false, false, false
				for _, f := range factors {
					if ir.LoadedField(f) == blkSize {
						hasSize = true
					}
					if ir.LoadedField(f) == perSeg {
						bare = true
					}
					if a, ok := f.(*ssa.BinOp); ok && a.Op == token.ADD {
						if k, isC := ir.ConstInt(a.Y); isC && k == 1 && ir.LoadedField(a.X) == perSeg {
							plus = true
						}
					}
				}
				if hasSize && (bare || plus) {
					strideFns[fn] = true
					c.Decide("C17.R7", fn, "segment stride uses blocksPerSegment+1", bo, plus && !bare, "a byte offset is computed as blocksPerSegment*blockSize: every other site uses (blocksPerSegment+1)*blockSize because a segment contains its header block; the position lands inside user data")
				}
			})
		}
		// floor: each of the three operations that need the stride (allocate, free, recount on open) computes it somewhere
		// in the functions that carry it out - the number of product expressions depends on how often the code names the
		// product, the number of operations does not
		covered := 0
		groups := [][]*ssa.Function{arrangeGroup, freeGroup}
		if recount != nil {
			groups = append(groups, xcGroup(recount, map[*ssa.Function]bool{ctor: true, geom: true, arrange: true, free: true, blockFn: true}))
		}
		for _, g := range groups {
			for _, fn := range g {
				if strideFns[fn] {
					covered++
					break
				}
			}
		}
		c.xcFloorUnits("C17.R7", 3, covered, "operation(s) (allocate, free, recount)")
	}
	// R8: the geometry function bounds the block size from above. A segment takes (8*bs+1)*bs bytes and the offsets
	// are computed in int: without an upper bound on bs the product wraps (bs = 1<<30 on 64 bit, the everyday
	// 16384 on 32 bit), the wrapped geometry passes the size test and data blocks land on other segments' headers.
	// Necessary structural clause: every non-sentinel result of the geometry function is returned under a
	// dominating comparison that bounds the block-size parameter from above.
	{
		p := geom.Params[0]
		for _, ret := range ir.Returns(geom) {
			if k, isC := ir.ConstInt(ir.Resolve(ret.Results[0])); isC && k < 0 {
				continue
			}
			// every path to this return takes an edge on which the parameter is bounded from above
			upper := func(from, to *ssa.BasicBlock) bool {
				ef := ir.EdgeFact(from, to)
				if ef == nil {
					return false
				}
				cm, ok := ef.Cmp()
				if !ok {
					return false
				}
				x, y := ir.Resolve(cm.X), ir.Resolve(cm.Y)
				if x == ssa.Value(p) && (cm.Op == token.LEQ || cm.Op == token.LSS) {
					return true
				}
				if y == ssa.Value(p) && (cm.Op == token.GEQ || cm.Op == token.GTR) {
					return true
				}
				return false
			}
			w, err := (ir.Query{Fn: geom, BlockEdge: upper, Target: func(x ssa.Instruction) bool { return x == ssa.Instruction(ret) }}).Find()
			if err != nil {
				c.Undecided("C17.R8", geom, "accepted block sizes are bounded from above", ret, err.Error())
				continue
			}
			bounded := w == nil
			c.Decide("C17.R8", geom, "accepted block sizes are bounded from above", ret, bounded,
				"the geometry function accepts arbitrarily large block sizes: (8*bs+1)*bs overflows int, the constructor accepts the wrapped segment size and hands out blocks that overlap the headers of other segments (or reports a zero-segment allocator) instead of ErrInvalid")
		}
		c.R.Floor("C17.R8", 1)
	}
	// R9: the free counter is narrower than the block count (int32 vs int): the constructor rejects storages with
	// more blocks than the counter can hold - a dominating comparison of a value derived from the storage size with a
	// bound derived from the counter's maximum lies on every path to the recount.
	if b, ok := avail.Type().Underlying().(*types.Basic); (ok && b.Kind() == types.Int32) || xcAtomicIntWidth(avail.Type()) == 32 {
		var fromSize func(v ssa.Value, d int) bool
		fromSize = func(v ssa.Value, d int) bool {
			if d > 5 || v == nil {
				return false
			}
			v = ir.Resolve(v)
			if call, ok := v.(*ssa.Call); ok && call.Call.IsInvoke() && call.Call.Method.Name() == "Size" {
				return true
			}
			switch x := v.(type) {
			case *ssa.BinOp:
				return fromSize(x.X, d+1) || fromSize(x.Y, d+1)
			case *ssa.Convert:
				return fromSize(x.X, d+1)
			}
			return false
		}
		var hasMax func(v ssa.Value, d int) bool
		hasMax = func(v ssa.Value, d int) bool {
			if d > 5 || v == nil {
				return false
			}
			if k, isC := ir.ConstInt(v); isC {
				return k >= 1<<15 && k <= 1<<31
			}
			switch x := v.(type) {
			case *ssa.BinOp:
				return hasMax(x.X, d+1) || hasMax(x.Y, d+1)
			case *ssa.Convert:
				return hasMax(x.X, d+1)
			}
			return false
		}
		for _, ret := range ir.Returns(ctor) {
			if !possibleSuccessExit(ctor, ret) {
				continue
			}
			// an exit that hands out no allocator is not a success, whatever is known about its error
			if ir.IsNilConst(ir.Resolve(ir.ResultValue(ret, 0))) {
				continue
			}
			// (also when the comparison sits in a validation helper and the exit is behind "its error is nil": then it holds
			// at every exit of the helper that returns a nil error)
			ok := yhHolds(ret.Block(), func(cm ir.Cmp) bool {
				return (fromSize(cm.X, 0) && hasMax(cm.Y, 0)) || (fromSize(cm.Y, 0) && hasMax(cm.X, 0))
			})
			c.Decide("C17.R9", ctor, "block count fits the free counter", ret, ok,
				"the free counter is an int32 but the constructor puts no bound on the number of blocks: a storage with 2^31 or more blocks is accepted and Available() (int32(count)) is wrong - negative, or truncated - from the start")
		}
		c.R.Floor("C17.R9", 1)
	}
}

// fieldComparedIn returns the int field of t that fn compares a value against with >= (the segments bound).
func (c *Ctx) fieldComparedIn(fn *ssa.Function, t *types.Named) *types.Var {
	var res []*types.Var
	ir.Instrs(fn, func(in ssa.Instruction) {
		bo, ok := in.(*ssa.BinOp)
		if !ok || (bo.Op != token.GEQ && bo.Op != token.LSS) {
			return
		}
		if f := ir.LoadedField(bo.Y); f != nil && types.Identical(f.Type(), types.Typ[types.Int]) {
			res = appendUniq(res, f)
		}
	})
	if len(res) != 1 {
		c.Fatalf("role blocks.segments: expected one field used as upper bound in %s, found %d", fn.Name(), len(res))
	}
	c.Role("blocks.segments", res[0].Name(), res[0].Pos())
	return res[0]
}

// loopEarlyExits returns the terminators of blocks that leave a natural loop of fn from somewhere else than the
// loop header, unless the exit leads straight to a failure return.
func loopEarlyExits(fn *ssa.Function) []ssa.Instruction {
	var res []ssa.Instruction
	seen := map[*ssa.BasicBlock]bool{}
	// natural loops, merged per header
	loops := map[*ssa.BasicBlock]map[*ssa.BasicBlock]bool{}
	for _, b := range fn.Blocks {
		for _, h := range b.Succs {
			if !h.Dominates(b) {
				continue
			}
			body := loops[h]
			if body == nil {
				body = map[*ssa.BasicBlock]bool{h: true}
				loops[h] = body
			}
			stack := []*ssa.BasicBlock{b}
			for len(stack) > 0 {
				x := stack[len(stack)-1]
				stack = stack[:len(stack)-1]
				if body[x] {
					continue
				}
				body[x] = true
				stack = append(stack, x.Preds...)
			}
		}
	}
	for _, b := range fn.Blocks { // deterministic order
		body := loops[b]
		if body == nil {
			continue
		}
		h := b
		for _, x := range fn.Blocks {
			if !body[x] || x == h {
				continue
			}
			for _, y := range x.Succs {
				if body[y] || seen[x] {
					continue
				}
				// an exit that is a failure return is fine
				if ret, ok := y.Instrs[len(y.Instrs)-1].(*ssa.Return); ok {
					idx := ir.ErrResultIndex(fn)
					if idx >= 0 && ir.ClassifyErr(ir.ResultValue(ret, idx), y) == ir.ErrNonNil {
						continue
					}
				}
				// as is one that can only end in a failing exit point ("res = err; break" in front of a single return)
				if yhLeadsOnlyToFailure(fn, x, y) {
					continue
				}
				seen[x] = true
				res = append(res, x.Instrs[len(x.Instrs)-1])
			}
		}
	}
	return res
}

// fieldComparedInAny returns the int field (other than perSeg) that some method compares a segment number against.
func (c *Ctx) fieldComparedInAny(fns []*ssa.Function, t *types.Named, perSeg *types.Var) *types.Var {
	var res []*types.Var
	for _, fn := range fns {
		ir.Instrs(fn, func(in ssa.Instruction) {
			bo, ok := in.(*ssa.BinOp)
			if !ok || (bo.Op != token.GEQ && bo.Op != token.LSS) {
				return
			}
			q, isQ := ir.Resolve(bo.X).(*ssa.BinOp)
			if !isQ || q.Op != token.QUO || ir.LoadedField(q.Y) != perSeg {
				return
			}
			if f := ir.LoadedField(bo.Y); f != nil && types.Identical(f.Type(), types.Typ[types.Int]) {
				res = appendUniq(res, f)
			}
		})
	}
	if len(res) != 1 {
		c.Fatalf("role blocks.segments: expected one field used as upper bound of the segment number, found %d", len(res))
	}
	c.Role("blocks.segments", res[0].Name(), res[0].Pos())
	return res[0]
}
