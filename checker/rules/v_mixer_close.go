package rules

// Support for C11.R7 (composite iterators close every source): the Close of a source may be issued by a helper method of
// the struct that holds the source (Mixer.Close -> srcDesc.close -> it.Close()). A call of such a helper on a part of
// the receiver counts as the Close of the iterator kept in that part.

import (
	"go/token"
	"go/types"
	"strings"

	"golang.org/x/tools/go/ssa"

	"verif/checker/ir"
)

type helperCloseSite struct {
	in   ssa.Instruction
	path string // "recv.<part>.<iterator field>", as ir.Path renders a direct Close of that iterator
}

// closeSitesThroughHelpers lists the static calls in fn of closing helpers (see closingHelper) whose receiver is a part
// of fn's receiver.
func (c *Ctx) closeSitesThroughHelpers(fn *ssa.Function, iterIface *types.Named, depth int) []helperCloseSite {
	var res []helperCloseSite
	if depth > 2 {
		return nil
	}
	ir.Instrs(fn, func(in ssa.Instruction) {
		ci, ok := in.(ssa.CallInstruction)
		if !ok {
			return
		}
		if _, isGo := in.(*ssa.Go); isGo {
			return
		}
		cc := ci.Common()
		if cc.IsInvoke() || len(cc.Args) == 0 {
			return
		}
		h := ir.StaticCallee(ci)
		if h == nil || h == fn || h.Signature.Recv() == nil {
			return
		}
		sub, ok := c.closingHelper(h, iterIface, depth)
		if !ok {
			return
		}
		p := ir.Path(cc.Args[0])
		if p == "recv" || strings.HasPrefix(p, "recv.") {
			res = append(res, helperCloseSite{in, p + sub})
		}
	})
	return res
}

// closingHelper decides whether method h closes the one iterator kept in (a part of) its receiver on every path to a
// normal exit, except on paths on which that iterator is known to be nil (a source that was never set holds nothing).
// It returns the path of the iterator relative to the receiver (".it").
func (c *Ctx) closingHelper(h *ssa.Function, iterIface *types.Named, depth int) (string, bool) {
	if len(h.Blocks) == 0 || h.Parent() != nil || len(h.Params) == 0 {
		return "", false
	}
	sites := map[ssa.Instruction]bool{}
	paths := map[string]bool{}
	ir.Instrs(h, func(in ssa.Instruction) {
		ci, ok := in.(ssa.CallInstruction)
		if !ok {
			return
		}
		if _, isGo := in.(*ssa.Go); isGo {
			return
		}
		cc := ci.Common()
		if !cc.IsInvoke() || cc.Method.Name() != "Close" || namedOf(cc.Value.Type()) != iterIface {
			return
		}
		if p := ir.Path(cc.Value); strings.HasPrefix(p, "recv.") {
			sites[in] = true
			paths[p] = true
		}
	})
	for _, s := range c.closeSitesThroughHelpers(h, iterIface, depth+1) {
		sites[s.in] = true
		paths[s.path] = true
	}
	if len(paths) != 1 {
		return "", false
	}
	var p string
	for k := range paths {
		p = k
	}
	isNil := func(f ir.Fact) bool {
		cmp, ok := f.Cmp()
		if !ok || cmp.Op != token.EQL {
			return false
		}
		return (ir.IsNilConst(cmp.Y) && ir.Path(cmp.X) == p) || (ir.IsNilConst(cmp.X) && ir.Path(cmp.Y) == p)
	}
	w, err := ir.Query{Fn: h, Block: func(in ssa.Instruction) bool { return sites[in] }, BlockFact: isNil, Target: ir.IsExit}.Find()
	if err != nil || w != nil {
		return "", false
	}
	return strings.TrimPrefix(p, "recv"), true
}
