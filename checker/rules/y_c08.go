package rules

import (
	"go/token"
	"go/types"

	"golang.org/x/tools/go/ssa"

	"verif/checker/ir"
)

// Helpers of the LRU rules (C08, C09, C11.R4) added in the second robustness round.

// inflightEntryOfC reports whether v is the record read from the in-flight table under the key `key` (a plain lookup
// or the value half of a comma-ok lookup), and that no path leads to that read from a deregistration without passing
// a registration again (a read behind the delete sees no entry).
func (r *lruRoles) inflightEntryOfC(v ssa.Value, key ssa.Value) bool {
	v = ir.Resolve(v)
	if ex, ok := v.(*ssa.Extract); ok && ex.Index == 0 {
		v = ex.Tuple
	}
	lk, ok := v.(*ssa.Lookup)
	if !ok {
		return false
	}
	if _, isIn := loadOfField(lk.X, r.inflight); !isIn || !sameKeyH(lk.Index, key) {
		return false
	}
	fn := lk.Parent()
	stale := false
	ir.Instrs(fn, func(in ssa.Instruction) {
		cc := builtinCall(in, "delete")
		if cc == nil || stale {
			return
		}
		if _, isIn := loadOfField(cc.Args[0], r.inflight); !isIn {
			return
		}
		w, err := (ir.Flow{Fn: fn, From: in, Target: func(x ssa.Instruction) bool { return x == ssa.Instruction(lk) },
			Block: func(x ssa.Instruction) bool {
				mu, isMU := x.(*ssa.MapUpdate)
				if !isMU {
					return false
				}
				_, isIn := loadOfField(mu.Map, r.inflight)
				return isIn
			}}).Find()
		if w != nil || err != nil {
			stale = true
		}
	})
	return !stale
}

// fieldInStateC resolves a role to exactly one field of the struct behind t. The struct's own fields are searched
// first (one match there is the answer, more than one is ambiguous - as before). Only when none of them matches, the
// fields of the struct-typed fields the object holds BY VALUE (embedded or named, declared in the same package) are
// searched, transitively: such a field is storage of the same object - one mutex, one table per cache instance - so the
// role "the mutex / the table of the cache" is the same role. A struct reached through a pointer is not searched (it
// can be shared between objects). path lists the field names from the object to the field (for receiver-rooted lock
// paths).
func (c *Ctx) fieldInStateC(role string, t types.Type, pred func(*types.Var) bool) (f *types.Var, path []string) {
	type hit struct {
		f    *types.Var
		path []string
	}
	root := namedOf(t)
	var search func(st *types.Struct, prefix []string, depth int) []hit
	search = func(st *types.Struct, prefix []string, depth int) []hit {
		var here []hit
		for i := 0; i < st.NumFields(); i++ {
			if fld := st.Field(i); pred(fld) {
				here = append(here, hit{fld.Origin(), append(append([]string{}, prefix...), fld.Name())})
			}
		}
		if len(here) > 0 || depth >= 3 {
			return here
		}
		var below []hit
		for i := 0; i < st.NumFields(); i++ {
			fld := st.Field(i)
			if _, isPtr := fld.Type().(*types.Pointer); isPtr {
				continue
			}
			n, _ := fld.Type().(*types.Named)
			if n == nil || n.Obj().Pkg() == nil || root == nil || n.Obj().Pkg() != root.Obj().Pkg() {
				continue
			}
			sub, isStruct := n.Underlying().(*types.Struct)
			if !isStruct {
				continue
			}
			below = append(below, search(sub, append(append([]string{}, prefix...), fld.Name()), depth+1)...)
		}
		return below
	}
	st := structOf(t)
	if st == nil {
		c.Fatalf("role %q: %s is not a struct", role, types.TypeString(t, nil))
	}
	hits := search(st, nil, 0)
	if len(hits) != 1 {
		c.Fatalf("role %q: expected exactly one matching field in %s, found %d", role, types.TypeString(t, nil), len(hits))
	}
	c.Role(role, hits[0].f.Name(), hits[0].f.Pos())
	return hits[0].f, hits[0].path
}

// ---------------------------------------------------------------------------
// provenance with the innermost field selection

// rootSelC: a value a copy chain starts from, and the field that was selected directly on it (nil: the value itself).
type rootSelC struct {
	root ssa.Value
	sel  *types.Var
}

// rootsSelC is ir.CopyRoots that also reports which field of the root the value was read from: `e.Key` and `e.Value.v`
// have the same root e, the first with selection Key, the second with selection Value.
func rootsSelC(v ssa.Value) []rootSelC {
	type key struct {
		v   ssa.Value
		sel *types.Var
	}
	seen := map[key]bool{}
	var res []rootSelC
	var rec func(v ssa.Value, sel *types.Var, d int)
	rec = func(v ssa.Value, sel *types.Var, d int) {
		if v == nil || seen[key{v, sel}] || d > 64 {
			return
		}
		seen[key{v, sel}] = true
		switch x := v.(type) {
		case *ssa.UnOp:
			if x.Op == token.MUL {
				rec(x.X, sel, d+1)
				return
			}
		case *ssa.FieldAddr:
			rec(x.X, ir.FieldOf(x), d+1)
			return
		case *ssa.Field:
			rec(x.X, ir.FieldOf(x), d+1)
			return
		case *ssa.ChangeType:
			rec(x.X, sel, d+1)
			return
		case *ssa.MakeInterface:
			rec(x.X, sel, d+1)
			return
		case *ssa.Phi:
			for _, e := range x.Edges {
				rec(e, sel, d+1)
			}
			return
		case *ssa.FreeVar:
			if b := ir.BindingOf(x); b != nil {
				rec(b, sel, d+1)
				return
			}
		case *ssa.Alloc:
			whole := ir.StoresTo(x)
			fieldWritten := false
			if refs := x.Referrers(); refs != nil {
				for _, r := range *refs {
					if fa, ok := r.(*ssa.FieldAddr); ok && fa.Referrers() != nil {
						for _, rr := range *fa.Referrers() {
							if st, isSt := rr.(*ssa.Store); isSt && st.Addr == ssa.Value(fa) {
								fieldWritten = true
							}
						}
					}
				}
			}
			if len(whole) > 0 && !fieldWritten {
				for _, st := range whole {
					rec(st.Val, sel, d+1)
				}
				return
			}
		}
		res = append(res, rootSelC{v, sel})
	}
	rec(v, nil, 0)
	return res
}

// directSelC follows v back through loads, field selections and type changes only - and through a local of v's own
// function that is assigned exactly once as a whole (a spilled parameter) - to the value it is a part of, and reports
// the field selected directly on that value. No phi, no captured variable, no variable assigned at several places.
func directSelC(v ssa.Value) (root ssa.Value, sel *types.Var) {
	var home *ssa.Function
	if in, ok := v.(ssa.Instruction); ok {
		home = in.Parent()
	}
	for i := 0; i < 32 && v != nil; i++ {
		switch x := v.(type) {
		case *ssa.UnOp:
			if x.Op != token.MUL {
				return v, sel
			}
			v = x.X
		case *ssa.FieldAddr:
			sel = ir.FieldOf(x)
			v = x.X
		case *ssa.Field:
			sel = ir.FieldOf(x)
			v = x.X
		case *ssa.ChangeType:
			v = x.X
		case *ssa.Alloc:
			sts := ir.StoresTo(x)
			if len(sts) != 1 || x.Parent() != home || home == nil || sts[0].Parent() != home {
				return nil, nil
			}
			if refs := x.Referrers(); refs != nil {
				for _, r := range *refs {
					switch y := r.(type) {
					case *ssa.MakeClosure:
						return nil, nil
					case *ssa.FieldAddr:
						if y.Referrers() != nil {
							for _, rr := range *y.Referrers() {
								if st, isSt := rr.(*ssa.Store); isSt && st.Addr == ssa.Value(y) {
									return nil, nil
								}
							}
						}
					}
				}
			}
			v = sts[0].Val
		default:
			return v, sel
		}
	}
	return nil, nil
}

// entryFieldsC returns the key and the value field of iterable.MapEntry: the fields typed by the first and the second
// type parameter of the exported entry type.
func (r *lruRoles) entryFieldsC(p *ir.Prog) (keyF, valF *types.Var) {
	if r.entryKeyF != nil || r.entryResolved {
		return r.entryKeyF, r.entryValF
	}
	r.entryResolved = true
	me := p.LookupType("container/iterable", "MapEntry")
	if me == nil || me.TypeParams().Len() != 2 {
		return nil, nil
	}
	st, ok := me.Underlying().(*types.Struct)
	if !ok {
		return nil, nil
	}
	for i := 0; i < st.NumFields(); i++ {
		tp, isTP := st.Field(i).Type().(*types.TypeParam)
		if !isTP {
			continue
		}
		switch tp.Index() {
		case 0:
			if r.entryKeyF != nil {
				return nil, nil
			}
			r.entryKeyF = st.Field(i).Origin()
		case 1:
			r.entryValF = st.Field(i).Origin()
		}
	}
	return r.entryKeyF, r.entryValF
}

func isNextInvokeC(c *ssa.Call) bool {
	return c != nil && c.Call.IsInvoke() && c.Call.Method.Name() == "Next"
}

// freshHeadC: next is the first advance of an iterator that was opened over the recency list for it: the iterator is
// the result of one items.Iterator() call of the same function, no other Next of that iterator (and no second run of
// this one) lies between the opening and this call, and the list is not changed in between. items.First() is by
// definition this sequence (Iterator, Next, Close), so the entry it yields is the oldest one.
func (r *lruRoles) freshHeadC(next *ssa.Call) bool {
	if !isNextInvokeC(next) {
		return false
	}
	roots := ir.CopyRoots(next.Call.Value)
	if len(roots) != 1 {
		return false
	}
	itc, ok := roots[0].(*ssa.Call)
	if !ok || r.itemsCall(itc, r.mIt) == nil || itc.Parent() != next.Parent() || !ir.Dominates(itc, next) {
		return false
	}
	fn := next.Parent()
	sameIter := func(x ssa.Instruction) bool {
		c, isCall := x.(*ssa.Call)
		if !isCall || !isNextInvokeC(c) {
			return false
		}
		for _, o := range ir.CopyRoots(c.Call.Value) {
			if o == ssa.Value(itc) {
				return true
			}
		}
		return false
	}
	isOpen := func(x ssa.Instruction) bool { return x == ssa.Instruction(itc) }
	isThis := func(x ssa.Instruction) bool { return x == ssa.Instruction(next) }
	// a second run of this Next without a new iterator
	if w, err := (ir.Flow{Fn: fn, From: next, Target: isThis, Block: isOpen}).Find(); w != nil || err != nil {
		return false
	}
	// another advance, or a change of the list, between the opening and this Next
	disturbs := func(x ssa.Instruction) bool {
		if x == ssa.Instruction(next) {
			return false
		}
		return sameIter(x) || r.itemsCall(x, r.mRemove) != nil || r.itemsCall(x, r.mAdd) != nil
	}
	if w, err := (ir.Flow{Fn: fn, From: itc, Target: disturbs, Block: isThis}).Find(); w != nil || err != nil {
		return false
	}
	return true
}

// firstKeyC generalises "the key is what items.First() returned": every value the key can be a copy of is
//   - the key result of items.First(), or
//   - the Key field of the entry the first Next of a fresh iterator over the list yields (freshHeadC), or
//   - the result of a private function of the package, called on the same cache, all of whose returns hand back such a
//     key at that result position (the head accessor shared by eviction and Clear).
func (r *lruRoles) firstKeyC(p *ir.Prog, key ssa.Value, depth int) bool {
	rs := rootsSelC(key)
	if len(rs) == 0 || depth > 3 {
		return false
	}
	keyF, _ := r.entryFieldsC(p)
	for _, rs1 := range rs {
		var c *ssa.Call
		idx := 0
		switch o := rs1.root.(type) {
		case *ssa.Extract:
			c, _ = o.Tuple.(*ssa.Call)
			idx = o.Index
		case *ssa.Call:
			c = o
		}
		if c == nil {
			return false
		}
		switch {
		case r.itemsCall(c, r.mFirst) != nil:
			if idx != 0 || rs1.sel != nil {
				return false
			}
		case isNextInvokeC(c):
			if idx != 0 || keyF == nil || rs1.sel != keyF || !r.freshHeadC(c) {
				return false
			}
		default:
			cal := ir.StaticCallee(c)
			if cal == nil || c.Call.IsInvoke() || !r.locks.fns[cal] || rs1.sel != nil || len(cal.Blocks) == 0 {
				return false
			}
			if cal.Signature.Recv() != nil && (len(c.Call.Args) == 0 || ir.Path(c.Call.Args[0]) != "recv") {
				return false
			}
			rets := ir.Returns(cal)
			if len(rets) == 0 {
				return false
			}
			for _, ret := range rets {
				if idx >= len(ret.Results) || !r.firstKeyC(p, ret.Results[idx], depth+1) {
					return false
				}
			}
		}
	}
	return true
}

// ---------------------------------------------------------------------------
// "the callback gets the pair of the removed key", decided per path

// entryPairC: two roots are the value and the key of one entry - both taken from the same execution of
//   - a Next() of an iterator (the rule's old form: the entry the key was read from),
//   - items.Get(k) with k the key root itself (value result),
//   - a function with a known body all of whose return paths hand back such a pair at these two result positions.
func (r *lruRoles) entryPairC(st *ir.SrcState, ra, rk ssa.Value, depth int) bool {
	ea, ok := ra.(*ssa.Extract)
	if !ok || rk == nil {
		return false
	}
	c, ok := ea.Tuple.(*ssa.Call)
	if !ok {
		return false
	}
	if g := r.itemsCall(c, r.mGet); g != nil && ea.Index == 0 && st != nil {
		return st.Root(g.Call.Args[1]) == rk
	}
	ek, ok := rk.(*ssa.Extract)
	if !ok || ek.Tuple != ssa.Value(c) {
		return false
	}
	if isNextInvokeC(c) {
		return true
	}
	cal := ir.StaticCallee(c)
	if cal == nil || c.Call.IsInvoke() || len(cal.Blocks) == 0 || depth > 2 {
		return false
	}
	return r.resultPairC(cal, ea.Index, ek.Index, depth+1)
}

// resultPairC: on every path of fn to a return, results i and j are the value and the key of one entry.
func (r *lruRoles) resultPairC(fn *ssa.Function, i, j int, depth int) bool {
	rets := ir.Returns(fn)
	if len(rets) == 0 {
		return false
	}
	var track []ssa.Value
	for _, ret := range rets {
		if i >= len(ret.Results) || j >= len(ret.Results) {
			return false
		}
		track = append(track, ret.Results[i], ret.Results[j])
	}
	w, err := ir.SrcWalk(fn, track, func(in ssa.Instruction, st *ir.SrcState) bool {
		ret, isRet := in.(*ssa.Return)
		if !isRet {
			return false
		}
		return !r.entryPairC(st, st.Root(ret.Results[i]), st.Root(ret.Results[j]), depth)
	})
	return w == nil && err == nil
}

// pairOnPathsC decides "the callback cb receives the pair stored under the key removed by rem" path by path: on every
// path of fn that reaches cb, each argument and the key the removal was given are taken from one and the same entry
// (entryPairC). It is the per-path form of pairOfKey, for keys and values that are assigned at several places (a loop
// that fetches the next victim in its init and its post statement).
func (r *lruRoles) pairOnPathsC(fn *ssa.Function, rem, cb *ssa.Call, args []ssa.Value) bool {
	if len(args) == 0 || rem.Parent() != fn || cb.Parent() != fn {
		return false
	}
	key := rem.Call.Args[1]
	track := append([]ssa.Value{key}, args...)
	w, err := ir.SrcWalk(fn, track, func(in ssa.Instruction, st *ir.SrcState) bool {
		switch in {
		case ssa.Instruction(rem):
			if k := st.Root(key); k != nil {
				st.Note["key"] = k
			} else {
				delete(st.Note, "key")
			}
		case ssa.Instruction(cb):
			k := st.Note["key"]
			if k == nil {
				return true
			}
			for _, a := range args {
				if !r.entryPairC(st, st.Root(a), k, 0) {
					return true
				}
			}
		}
		return false
	})
	return w == nil && err == nil
}

// entryParamPairC: the callback argument v and the removed key are both read from ONE parameter of a function literal -
// v from its value field, the key from its key field - and that parameter is an entry of the recency list at every
// invocation of the literal: the literal is only ever called in place, or handed to a function with a known body that
// does nothing with it but call it, and each such call passes the entry a Next() of an iterator over the list yielded
// (the list being the receiver of an iteration helper of the map type that is called on the recency-list field).
func (r *lruRoles) entryParamPairC(p *ir.Prog, v, key ssa.Value) bool {
	keyF, valF := r.entryFieldsC(p)
	if keyF == nil || valF == nil {
		return false
	}
	// read directly: no variable that outlives one run of the literal on the way (a captured variable can carry the
	// entry of an earlier run)
	vroot, vsel := directSelC(v)
	kroot, ksel := directSelC(key)
	if vroot == nil || vroot != kroot || vsel != valF || ksel != keyF {
		return false
	}
	par, ok := vroot.(*ssa.Parameter)
	if !ok {
		return false
	}
	lit := par.Parent()
	if lit.Parent() == nil {
		return false
	}
	pidx := -1
	for i, q := range lit.Params {
		if q == par {
			pidx = i
		}
	}
	if pidx < 0 {
		return false
	}
	// entryArg: the argument is the entry of a Next() on an iterator opened over `list`
	entryArg := func(a ssa.Value, isList func(ssa.Value) bool) bool {
		rs := rootsSelC(a)
		if len(rs) == 0 {
			return false
		}
		for _, x := range rs {
			ex, isEx := x.root.(*ssa.Extract)
			if !isEx || ex.Index != 0 || x.sel != nil {
				return false
			}
			nx, isCall := ex.Tuple.(*ssa.Call)
			if !isCall || !isNextInvokeC(nx) {
				return false
			}
			its := ir.CopyRoots(nx.Call.Value)
			if len(its) == 0 {
				return false
			}
			for _, o := range its {
				itc, isC := o.(*ssa.Call)
				if !isC || ir.StaticCallee(itc) != r.mIt || len(itc.Call.Args) == 0 || !isList(itc.Call.Args[0]) {
					return false
				}
			}
		}
		return true
	}
	isItems := func(x ssa.Value) bool { _, is := loadOfField(x, r.items); return is }
	n := 0
	okAll := true
	var follow func(fv ssa.Value, isList func(ssa.Value) bool, depth int)
	follow = func(fv ssa.Value, isList func(ssa.Value) bool, depth int) {
		refs := fv.Referrers()
		if refs == nil || depth > 3 {
			okAll = false
			return
		}
		for _, ref := range *refs {
			switch x := ref.(type) {
			case *ssa.DebugRef:
			case *ssa.Call:
				if x.Call.Value == fv && !x.Call.IsInvoke() {
					// called in place
					if pidx >= len(x.Call.Args) || !entryArg(x.Call.Args[pidx], isList) {
						okAll = false
					}
					for _, a := range x.Call.Args {
						if a == fv {
							okAll = false
						}
					}
					n++
					continue
				}
				cal := ir.StaticCallee(x)
				if cal == nil || x.Call.IsInvoke() || len(cal.Blocks) == 0 {
					okAll = false
					continue
				}
				for i, a := range x.Call.Args {
					if a != fv {
						continue
					}
					if i >= len(cal.Params) {
						okAll = false
						continue
					}
					// inside the helper "the list" is what it was given: a method of the map type run on the list
					// iterates its own receiver
					inner := isList
					if cal.Signature.Recv() != nil && len(x.Call.Args) > 0 && isList(x.Call.Args[0]) && i != 0 {
						recv := cal.Params[0]
						inner = func(y ssa.Value) bool { return ir.Resolve(y) == ssa.Value(recv) }
					} else {
						okAll = false
						continue
					}
					follow(cal.Params[i], inner, depth+1)
				}
			default:
				okAll = false
			}
		}
	}
	found := false
	ir.Instrs(lit.Parent(), func(in ssa.Instruction) {
		if mc, isMC := in.(*ssa.MakeClosure); isMC && mc.Fn == ssa.Value(lit) {
			found = true
			follow(mc, isItems, 0)
		}
	})
	return found && okAll && n > 0
}

// stateMapFieldsC lists the map-typed fields of the object behind t: its own ones and those of the struct-typed fields
// it holds by value (declared in the same package, transitively) - the tables that live and die with the object,
// wherever the declaration groups them. (For C11.R6, see shared.diff: with the lock-protected state moved into an
// embedded struct the rule otherwise finds no table and passes on its "delegated" branch.)
func stateMapFieldsC(t *types.Named) []*types.Var {
	var res []*types.Var
	var walk func(st *types.Struct, depth int)
	walk = func(st *types.Struct, depth int) {
		if st == nil || depth > 3 {
			return
		}
		for i := 0; i < st.NumFields(); i++ {
			f := st.Field(i)
			if _, isMap := f.Type().Underlying().(*types.Map); isMap {
				res = append(res, f.Origin())
				continue
			}
			if _, isPtr := f.Type().(*types.Pointer); isPtr {
				continue
			}
			n, _ := f.Type().(*types.Named)
			if n == nil || n.Obj().Pkg() == nil || t.Obj().Pkg() != n.Obj().Pkg() {
				continue
			}
			if sub, isStruct := n.Underlying().(*types.Struct); isStruct {
				walk(sub, depth+1)
			}
		}
	}
	walk(structOf(t), 0)
	return res
}
