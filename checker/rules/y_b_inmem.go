package rules

import (
	"fmt"
	"go/constant"
	"go/token"
	"go/types"
	"os"
	"strings"

	"golang.org/x/tools/go/ssa"

	"verif/checker/ir"
)

// ---------------------------------------------------------------------------
// roles of the in-memory backend resolved by what the code does (round s)

// stateTypes: the service type and the named types of its package that its state is made of - reached through the
// fields of the service (by value, pointer, map/slice element). Their methods are functions of the backend: "must be
// called under the lock" helpers may be methods of an embedded table struct or of a named map type as well as of the
// service itself.
func (r *inmemRoles) stateTypes() map[*types.Named]bool {
	res := map[*types.Named]bool{}
	pkg := r.svc.Obj().Pkg()
	var walk func(t types.Type, depth int)
	walk = func(t types.Type, depth int) {
		if depth > 6 || t == nil {
			return
		}
		switch x := t.(type) {
		case *types.Pointer:
			walk(x.Elem(), depth+1)
			return
		case *types.Map:
			walk(x.Key(), depth+1)
			walk(x.Elem(), depth+1)
			return
		case *types.Slice:
			walk(x.Elem(), depth+1)
			return
		case *types.Array:
			walk(x.Elem(), depth+1)
			return
		case *types.Named:
			n := x.Origin()
			if n.Obj().Pkg() != pkg || res[n] {
				return
			}
			res[n] = true
			switch u := n.Underlying().(type) {
			case *types.Struct:
				for i := 0; i < u.NumFields(); i++ {
					walk(u.Field(i).Type(), depth+1)
				}
			default:
				walk(u, depth+1)
			}
		}
	}
	walk(r.svc, 0)
	return res
}

// resolveTableParams finds the parameters (receivers included) through which a helper is handed the record table or the
// waiter table itself: the parameter has the type of the table field and EVERY static call site passes the table (the
// field of the service, or such a parameter of the caller); the helper is never used as a value. Greatest fixed point,
// so helpers may hand the table on. A helper with such a parameter works on the table of the service and on nothing else.
func (r *inmemRoles) resolveTableParams() {
	r.tableParams = map[*ssa.Parameter]*types.Var{}
	isFn := map[*ssa.Function]bool{}
	for _, fn := range r.all {
		isFn[fn] = true
	}
	for _, fn := range r.all {
		if fn.Parent() != nil {
			continue
		}
		for _, p := range fn.Params {
			for _, f := range []*types.Var{r.recs, r.waiters} {
				if types.Identical(p.Type(), f.Type()) {
					r.tableParams[p] = f
				}
			}
		}
	}
	if len(r.tableParams) == 0 {
		return
	}
	// call sites and escapes
	type site struct {
		args []ssa.Value
	}
	sites := map[*ssa.Function][]site{}
	escaped := map[*ssa.Function]bool{}
	for _, caller := range r.all {
		ir.Instrs(caller, func(in ssa.Instruction) {
			if ci, ok := in.(ssa.CallInstruction); ok {
				if cal := ir.StaticCallee(ci); cal != nil && isFn[cal] && !ci.Common().IsInvoke() {
					if _, direct := ci.Common().Value.(*ssa.Function); direct {
						sites[cal] = append(sites[cal], site{ci.Common().Args})
					} else {
						escaped[cal] = true // reached through a value (closure, bound method)
					}
				}
			}
			for _, op := range in.Operands(nil) {
				if op == nil || *op == nil {
					continue
				}
				f, isF := (*op).(*ssa.Function)
				if !isF {
					continue
				}
				if ci, ok := in.(ssa.CallInstruction); ok && ci.Common().Value == ssa.Value(f) {
					continue
				}
				escaped[f] = true
				// a bound-method / thunk wrapper stands for the declared method
				if f.Synthetic != "" && f.Object() != nil {
					for g := range isFn {
						if g.Object() == f.Object() {
							escaped[g] = true
						}
					}
				}
			}
		})
	}
	for changed := true; changed; {
		changed = false
		for p, f := range r.tableParams {
			fn := p.Parent()
			idx := -1
			for i, q := range fn.Params {
				if q == p {
					idx = i
				}
			}
			ok := idx >= 0 && !escaped[fn] && len(sites[fn]) > 0
			for _, s := range sites[fn] {
				if !ok || idx >= len(s.args) || !r.tableVal(s.args[idx], f) {
					ok = false
				}
			}
			if !ok {
				delete(r.tableParams, p)
				changed = true
			}
		}
	}
}

// tableVal: v is the table held in field f of the service: a load of the field, or a parameter every call site binds
// to it.
func (r *inmemRoles) tableVal(v ssa.Value, f *types.Var) bool {
	if v == nil {
		return false
	}
	if _, ok := loadOfField(v, f); ok {
		return true
	}
	if p, ok := ir.Resolve(v).(*ssa.Parameter); ok {
		return r.tableParams[p] == f
	}
	return false
}

func (r *inmemRoles) isRecsVal(v ssa.Value) bool    { return r.tableVal(v, r.recs) }
func (r *inmemRoles) isWaitersVal(v ssa.Value) bool { return r.tableVal(v, r.waiters) }

// keyParamOfNotify: the parameter of the notifier that is the key whose waiters it wakes - the one it looks up / deletes
// in the waiter table (default: the first parameter behind the receiver).
func (r *inmemRoles) keyParamOfNotify() int {
	idx := -1
	note := func(k ssa.Value) {
		if p, ok := ir.Resolve(k).(*ssa.Parameter); ok && idx < 0 {
			for i, q := range r.notify.Params {
				if q == p {
					idx = i
				}
			}
		}
	}
	ir.Instrs(r.notify, func(in ssa.Instruction) {
		if lk, ok := in.(*ssa.Lookup); ok && r.isWaitersVal(lk.X) {
			note(lk.Index)
		}
		if cc := builtinCall(in, "delete"); cc != nil && r.isWaitersVal(cc.Args[0]) {
			note(cc.Args[1])
		}
	})
	if idx < 0 {
		return 1
	}
	return idx
}

// lookupOutcome: the branch fact f tells how a lookup of the record table came out - directly (the comma-ok flag of the
// map lookup), or through a live-lookup helper: its flag, or its error compared with nil (nil = a live record was found).
// src is the lookup / the helper call.
func (r *inmemRoles) lookupOutcome(f ir.Fact) (src ssa.Value, present bool, ok bool) {
	ff := f.StripNot()
	if ex, isEx := ff.Cond.(*ssa.Extract); isEx {
		if ex.Index != 1 {
			return nil, false, false
		}
		switch t := ex.Tuple.(type) {
		case *ssa.Lookup:
			if r.isRecsVal(t.X) {
				return t, ff.True, true
			}
		case *ssa.Call:
			if cal := ir.StaticCallee(t); cal != nil && r.liveHelpers[cal] && !r.liveErr[cal] {
				return t, ff.True, true
			}
		}
		return nil, false, false
	}
	if cm, isCmp := f.Cmp(); isCmp && (cm.Op == token.EQL || cm.Op == token.NEQ) {
		x, y := cm.X, cm.Y
		if ir.IsNilConst(x) {
			x, y = y, x
		}
		if !ir.IsNilConst(y) {
			return nil, false, false
		}
		if call := r.liveErrCall(x); call != nil {
			return call, cm.Op == token.EQL, true
		}
	}
	return nil, false, false
}

// liveErrCall: v is the error result of a call of an error-flavoured live-lookup helper; returns the call.
func (r *inmemRoles) liveErrCall(v ssa.Value) *ssa.Call {
	ex, isEx := ir.Resolve(v).(*ssa.Extract)
	if !isEx || ex.Index != 1 {
		return nil
	}
	call, isCall := ex.Tuple.(*ssa.Call)
	if !isCall {
		return nil
	}
	if cal := ir.StaticCallee(call); cal != nil && r.liveErr[cal] {
		return call
	}
	return nil
}

// errSentinel names the error class a returned value stands for: the package-level sentinel itself, or the error
// handed on from an error-flavoured live-lookup helper when every error that helper can return is one and the same
// sentinel (so "return err" behind "err != nil" returns exactly that value).
func (r *inmemRoles) errSentinel(v ssa.Value) string {
	if v == nil {
		return ""
	}
	if g := globalOf(v); g != nil {
		return g.Name()
	}
	call := r.liveErrCall(v)
	if call == nil {
		return ""
	}
	name := ""
	for _, e := range ir.ExitPoints(ir.StaticCallee(call)) {
		rv := e.Result(1)
		if rv == nil {
			return ""
		}
		if ir.IsNilConst(ir.Resolve(rv)) {
			continue
		}
		g := globalOf(rv)
		if g == nil || (name != "" && name != g.Name()) {
			return ""
		}
		name = g.Name()
	}
	return name
}

// decidedLiveBefore: on every path from a lookup of the record table in fn to instruction at, the looked-up record was
// found not to be expired (an ExpiresAt == nil edge or a not-before-now edge was taken). Asked per path.
func (r *inmemRoles) decidedLiveBefore(fn *ssa.Function, at ssa.Instruction) bool {
	live, n := true, 0
	ir.Instrs(fn, func(in ssa.Instruction) {
		if r.recsLookup(in) == nil {
			return
		}
		n++
		w, err := (ir.PathQuery{Fn: fn, From: in,
			StopEdge: func(from, to *ssa.BasicBlock) bool {
				k := r.expiryEdge(from, to)
				return k == freshEdge || k == noExpiryEdge
			},
			Target: func(x ssa.Instruction, _ *ir.Valuation) bool { return x == at }}).Find()
		if err != nil || w != nil {
			live = false
		}
	})
	return live && n > 0
}

// inmemLiveHelperSound: a live-lookup helper that reports through an error is trusted by its callers to return nil only
// together with a record that is in the table and not expired (they branch on err == nil / err != nil instead of testing
// presence and expiry themselves). Decided on the helper: every exit whose error can be nil lies behind the found edge
// of the table lookup and behind the expiry decision. (The flag flavour of the helper has been accepted on its
// signature since the rules were written; the error flavour is new and is checked.)
func (c *Ctx) inmemLiveHelperSound(r *inmemRoles, rule string) {
	for _, h := range r.svcFns {
		if !r.liveErr[h] {
			continue
		}
		for _, e := range ir.ExitPoints(h) {
			rv := e.Result(1)
			if rv != nil && globalOf(rv) != nil {
				continue // a sentinel: "no live record"
			}
			if rv != nil && !ir.IsNilConst(ir.Resolve(rv)) && ir.ClassifyErr(rv, e.Block) == ir.ErrNonNil {
				continue
			}
			at := ssa.Instruction(e.Ret)
			if e.Block != e.Ret.Block() && len(e.Block.Instrs) > 0 {
				at = e.Block.Instrs[len(e.Block.Instrs)-1]
			}
			found := e.HasFact(func(f ir.Fact) bool {
				src, present, ok := r.lookupOutcome(f)
				_, isLk := src.(*ssa.Lookup)
				return ok && present && isLk
			})
			okLive := found && r.decidedLiveBefore(h, at)
			c.Decide(rule, h, "live-lookup helper reports no error only for a live record", e.Ret, okLive,
				"the helper can return a nil error although the key is missing or the record is expired: its callers take a nil error for 'a live record exists' (Create answers ErrExist, Delete removes, the waiter parks) without testing presence or expiry themselves")
		}
	}
}

// debugDumpYB prints the SSA and guard facts of the functions named in VERIF_DUMP_YB (comma separated short names) of the
// given packages. Debugging aid only; it never influences a verdict.
func debugDumpYB(c *Ctx, pkgs ...string) {
	want := os.Getenv("VERIF_DUMP_YB")
	if want == "" {
		return
	}
	names := map[string]bool{}
	for _, n := range strings.Split(want, ",") {
		names[strings.TrimSpace(n)] = true
	}
	for _, pk := range pkgs {
		for _, fn := range c.P.FuncsOf(pk) {
			if !names[ir.FnName(fn)] && !names[fn.Name()] {
				continue
			}
			fn.WriteTo(os.Stdout)
			for _, b := range fn.Blocks {
				var fs []string
				for _, f := range ir.Facts(b) {
					fs = append(fs, fmt.Sprintf("%s=%t", f.Cond.Name(), f.True))
				}
				fmt.Printf("facts[%d]: %s\n", b.Index, strings.Join(fs, " "))
			}
		}
	}
}

// ---------------------------------------------------------------------------
// expiry predicates

// expiryPredCall: call is a call of an expiry predicate on the current time; truth is the value the branch saw.
func (r *inmemRoles) expiryPredCall(call *ssa.Call, truth bool, isNow func(ssa.Value) bool, depth int) expiryKind {
	cal := ir.StaticCallee(call)
	if cal == nil || len(cal.Blocks) == 0 || call.Call.IsInvoke() || depth > 2 {
		return notExpiryEdge
	}
	if !r.isExpiryPred(cal, depth) {
		return notExpiryEdge
	}
	if len(call.Call.Args) != len(cal.Params) {
		return notExpiryEdge
	}
	for i, p := range cal.Params {
		if ir.IsNamed(p.Type(), "time", "Time") && !isNow(call.Call.Args[i]) {
			return notExpiryEdge // the predicate is asked about another moment than now
		}
	}
	if truth {
		return expiredEdge
	}
	return freshEdge
}

// isExpiryPred: fn is a side-effect free function with one boolean result that returns true exactly when the record
// (expiration) it is given has an expiration and that expiration is before the moment it is given (a time.Time
// parameter, or time.Now() taken inside): every exit that can return true lies behind an "expired" step of the expiry
// decision, every exit that can return false behind a "no expiration" / "not before now" step - the very edges the rules
// look for when the test is written in place. Decided on the body (exit points with their guard facts, per path where
// one dominating fact does not exist); nothing about the name or the place of the function is used.
func (r *inmemRoles) isExpiryPred(fn *ssa.Function, depth int) bool {
	if r.expiryPreds == nil {
		r.expiryPreds = map[*ssa.Function]int{}
	}
	if k, ok := r.expiryPreds[fn]; ok {
		return k > 0
	}
	r.expiryPreds[fn] = -1 // recursion guard
	rs := fn.Signature.Results()
	if rs.Len() != 1 || !types.Identical(rs.At(0).Type().Underlying(), types.Typ[types.Bool]) || fn.Pkg == nil || !strings.HasPrefix(fn.Pkg.Pkg.Path(), ir.Module) {
		return false
	}
	// pure: spills of the parameters, field reads, time comparisons
	pure := true
	ir.Instrs(fn, func(in ssa.Instruction) {
		switch x := in.(type) {
		case *ssa.Alloc, *ssa.FieldAddr, *ssa.Field, *ssa.UnOp, *ssa.BinOp, *ssa.Phi, *ssa.If, *ssa.Jump, *ssa.Return, *ssa.DebugRef:
		case *ssa.Store:
			if _, isLocal := x.Addr.(*ssa.Alloc); !isLocal {
				pure = false
			}
		case *ssa.Call:
			switch ir.CalleeFullName(x) {
			case "time.Now", "(time.Time).Before", "(time.Time).After":
			default:
				if cal := ir.StaticCallee(x); cal == nil || !r.isExpiryPred(cal, depth+1) {
					pure = false
				}
			}
		default:
			pure = false
		}
		// the expiration read is the one of a parameter
		if fa, ok := in.(*ssa.FieldAddr); ok && ir.FieldOf(fa) == r.recExpires {
			base := fa.X
			if al, isAl := base.(*ssa.Alloc); isAl {
				sts := ir.StoresTo(al)
				if len(sts) != 1 {
					pure = false
					return
				}
				base = sts[0].Val
			}
			if _, isParam := base.(*ssa.Parameter); !isParam {
				pure = false
			}
		}
	})
	if !pure {
		return false
	}
	nowParam := func(v ssa.Value) bool {
		p, ok := ir.Resolve(v).(*ssa.Parameter)
		return ok && p.Parent() == fn && ir.IsNamed(p.Type(), "time", "Time")
	}
	classify := func(f ir.Fact) expiryKind { return r.expiryFactWith(f, nowParam, depth+1) }
	want := func(k expiryKind, truth bool) bool {
		if truth {
			return k == expiredEdge
		}
		return k == freshEdge || k == noExpiryEdge
	}
	exits := ir.ExitPoints(fn)
	for _, e := range exits {
		v := e.Result(0)
		if v == nil {
			return false
		}
		if cst, isC := v.(*ssa.Const); isC {
			if cst.Value == nil || cst.Value.Kind() != constant.Bool {
				return false
			}
			truth := constant.BoolVal(cst.Value)
			ok := e.HasFact(func(f ir.Fact) bool { return want(classify(f), truth) })
			if !ok {
				// per path: every way to this exit takes a step of the wanted kind
				at := ssa.Instruction(e.Ret)
				if e.Block != e.Ret.Block() && len(e.Block.Instrs) > 0 {
					at = e.Block.Instrs[len(e.Block.Instrs)-1]
				}
				w, err := (ir.PathQuery{Fn: fn,
					StopEdge: func(from, to *ssa.BasicBlock) bool {
						ef := ir.EdgeFact(from, to)
						return ef != nil && want(classify(*ef), truth)
					},
					Target: func(x ssa.Instruction, _ *ir.Valuation) bool { return x == at }}).Find()
				ok = err == nil && w == nil
			}
			if !ok {
				return false
			}
			continue
		}
		// the value of the time test itself
		if !want(classify(ir.Fact{Cond: v, True: true}), true) || !want(classify(ir.Fact{Cond: v, True: false}), false) {
			return false
		}
	}
	if len(exits) == 0 {
		return false
	}
	r.expiryPreds[fn] = 1
	return true
}

// constComparisonsHoldYB: a path of the per-path engine is infeasible when it has decided a comparison between two
// constants against their values - a state variable that is assigned constants in the branches (a "why did I wake up"
// enum set in the select cases) and compared with a constant behind the merge. The engine resolves the phi to the operand
// the path came through but does not evaluate `2 == 0`; this does, for the comparisons the path has decided. Nothing is
// computed beyond comparing two literal constants.
func constComparisonsHoldYB(fn *ssa.Function, val *ir.Valuation) bool {
	ok := true
	ir.Instrs(fn, func(in ssa.Instruction) {
		bo, isBo := in.(*ssa.BinOp)
		if !isBo || !ok {
			return
		}
		switch bo.Op {
		case token.EQL, token.NEQ, token.LSS, token.LEQ, token.GTR, token.GEQ:
		default:
			return
		}
		truth, known := val.Known(bo)
		if !known {
			return
		}
		x, isX := val.Selected(bo.X).(*ssa.Const)
		y, isY := val.Selected(bo.Y).(*ssa.Const)
		if !isX || !isY || x.Value == nil || y.Value == nil {
			return
		}
		switch x.Value.Kind() {
		case constant.Int, constant.String, constant.Float:
		case constant.Bool:
			if bo.Op != token.EQL && bo.Op != token.NEQ {
				return
			}
		default:
			return
		}
		if x.Value.Kind() != y.Value.Kind() {
			return
		}
		if constant.Compare(x.Value, bo.Op, y.Value) != truth {
			ok = false
		}
	})
	return ok
}

// tableUsesYB lists the instructions of fa's function that operate on the map read through field address fa: lookups,
// updates, deletes, len, range and iteration steps - followed through local variables the map value is kept in (a
// spilled local, a phi), so that an alias taken under the lock and used after the unlock is seen.
func tableUsesYB(fa *ssa.FieldAddr) []ssa.Instruction {
	var res []ssa.Instruction
	seen := map[ssa.Value]bool{}
	var follow func(v ssa.Value, depth int)
	follow = func(v ssa.Value, depth int) {
		if v == nil || seen[v] || depth > 6 || v.Referrers() == nil {
			return
		}
		seen[v] = true
		for _, ref := range *v.Referrers() {
			switch x := ref.(type) {
			case *ssa.UnOp:
				if x.Op == token.MUL {
					follow(x, depth+1)
				}
			case *ssa.Phi:
				follow(x, depth+1)
			case *ssa.ChangeType:
				follow(x, depth+1)
			case *ssa.Store:
				// the map value kept in a local variable: its loads are the map again
				if x.Val == v {
					if al, ok := x.Addr.(*ssa.Alloc); ok {
						follow(al, depth+1)
					}
				}
			case *ssa.Lookup:
				if x.X == v {
					res = append(res, x)
				}
			case *ssa.MapUpdate:
				if x.Map == v {
					res = append(res, x)
				}
			case *ssa.Range:
				res = append(res, x)
				if x.Referrers() != nil {
					for _, nx := range *x.Referrers() {
						if n, ok := nx.(*ssa.Next); ok {
							res = append(res, n)
						}
					}
				}
			case ssa.CallInstruction:
				if _, isBuiltin := x.Common().Value.(*ssa.Builtin); isBuiltin {
					res = append(res, x)
				}
			}
		}
	}
	follow(fa, 0)
	return res
}

// derivesYB reports whether v is computed from a value satisfying base (the expiration of the looked-up record): through
// loads, field selections, arithmetic, conversions, library calls (time.Until, time.NewTimer, ...), phis all of whose
// non-nil alternatives derive, local variables (every value stored to the variable or to its fields that is not a zero
// value derives), and helpers of the repository - for those the result must really be computed from the parameter that
// receives the derived argument (decided on the helper's body), an argument that is merely passed does not count.
func derivesYB(v ssa.Value, base func(ssa.Value) bool, depth int, stack map[*ssa.Function]bool) bool {
	if depth > 12 || v == nil {
		return false
	}
	rec := func(x ssa.Value) bool { return derivesYB(x, base, depth+1, stack) }
	// a struct variable that is also written field by field: ir.Resolve would take its only whole-value store (the zero
	// value it starts with) for its content
	if u, ok := v.(*ssa.UnOp); ok && u.Op == token.MUL {
		if al, isAl := u.X.(*ssa.Alloc); isAl && al.Referrers() != nil {
			for _, r := range *al.Referrers() {
				if fa, isFA := r.(*ssa.FieldAddr); isFA && len(ir.StoresTo(fa)) > 0 {
					return rec(al)
				}
			}
		}
	}
	v = ir.Resolve(v)
	if base(v) {
		return true
	}
	callResult := func(call *ssa.Call, idx int) bool {
		cal := ir.StaticCallee(call)
		if cal == nil || len(cal.Blocks) == 0 || call.Call.IsInvoke() || cal.Pkg == nil || !strings.HasPrefix(cal.Pkg.Pkg.Path(), ir.Module) {
			for _, a := range call.Call.Args {
				if rec(a) {
					return true
				}
			}
			return false
		}
		if stack[cal] || len(call.Call.Args) != len(cal.Params) {
			return false
		}
		stack[cal] = true
		defer delete(stack, cal)
		for i, a := range call.Call.Args {
			if !rec(a) {
				continue
			}
			p := cal.Params[i]
			n, all := 0, true
			for _, ret := range ir.Returns(cal) {
				if idx >= len(ret.Results) {
					all = false
					break
				}
				rv := ret.Results[idx]
				if ir.IsNilConst(rv) || ir.IsZeroConst(rv) {
					continue // "no timer"
				}
				if !derivesYB(rv, func(x ssa.Value) bool { return x == ssa.Value(p) }, depth+1, stack) {
					all = false
					break
				}
				n++
			}
			if all && n > 0 {
				return true
			}
		}
		return false
	}
	switch x := v.(type) {
	case *ssa.UnOp:
		if fa, ok := x.X.(*ssa.FieldAddr); ok {
			return rec(fa.X)
		}
		return rec(x.X)
	case *ssa.Alloc:
		// a local variable: what is stored to it, or to its fields
		n := 0
		var stores []*ssa.Store
		stores = append(stores, ir.StoresTo(x)...)
		if x.Referrers() != nil {
			for _, r := range *x.Referrers() {
				if fa, ok := r.(*ssa.FieldAddr); ok && fa.X == ssa.Value(x) {
					stores = append(stores, ir.StoresTo(fa)...)
				}
			}
		}
		for _, st := range stores {
			if ir.IsNilConst(st.Val) || ir.IsZeroConst(st.Val) {
				continue
			}
			if readsCellYB(st.Val, x, 0) {
				continue // d += c: an adjustment of the variable's own value derives from whatever the variable derives from
			}
			if !rec(st.Val) {
				return false
			}
			n++
		}
		return n > 0
	case *ssa.Call:
		return callResult(x, 0)
	case *ssa.BinOp:
		return rec(x.X) || rec(x.Y)
	case *ssa.FieldAddr:
		return rec(x.X)
	case *ssa.Field:
		return rec(x.X)
	case *ssa.Convert:
		return rec(x.X)
	case *ssa.Extract:
		if call, ok := x.Tuple.(*ssa.Call); ok {
			return callResult(call, x.Index)
		}
		return rec(x.Tuple)
	case *ssa.Phi:
		// a clamped / adjusted duration: every alternative derives from the expiry
		n := 0
		for _, e := range x.Edges {
			if ir.IsNilConst(e) {
				continue // "no timer": whether nil arrives only without an expiration is checked where it is used
			}
			if !rec(e) {
				return false
			}
			n++
		}
		return n > 0
	}
	return false
}

// readsCellYB: the expression v reads the local variable cell (through arithmetic and conversions only).
func readsCellYB(v ssa.Value, cell *ssa.Alloc, depth int) bool {
	if depth > 6 || v == nil {
		return false
	}
	switch x := v.(type) {
	case *ssa.UnOp:
		if x.Op == token.MUL && x.X == ssa.Value(cell) {
			return true
		}
		return x.Op != token.MUL && readsCellYB(x.X, cell, depth+1)
	case *ssa.BinOp:
		return readsCellYB(x.X, cell, depth+1) || readsCellYB(x.Y, cell, depth+1)
	case *ssa.Convert:
		return readsCellYB(x.X, cell, depth+1)
	case *ssa.ChangeType:
		return readsCellYB(x.X, cell, depth+1)
	}
	return false
}
