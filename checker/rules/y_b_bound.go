package rules

import (
	"go/constant"
	"go/token"
	"go/types"

	"golang.org/x/tools/go/ssa"

	"verif/checker/ir"
)

// ---------------------------------------------------------------------------
// "bounded above by a constant": a finite abstract interpretation with the two-point domain {bounded, unknown}
//
// C07.W8 asks that the pause between two polls has a constant upper bound. Written with loose locals the pause is a phi
// over constants and values that arrive under a `v <= const` guard. Written with a small state type (a back-off value
// with fields `limit`, `cur`, a method that doubles `cur` and wraps it when it exceeds `limit`) the same facts are spread
// over a constructor, a method and the fields of an object. ubYB follows them:
//
//   - a constant is bounded; a phi is bounded when every operand is (on its edge); an integer conversion of a bounded value;
//   - v is bounded where a guard v <= w / v < w / v == w with w bounded holds;
//   - the result of a function of the package is bounded when every value it returns is;
//   - a parameter of an unexported function that is never used as a value is bounded when the argument of EVERY call site is;
//   - a local variable cell is bounded when every value stored to it is;
//   - a load of field F of an object is bounded when (a) F is *globally* bounded: unexported, its address is never taken,
//     and every store to it anywhere in the package stores a bounded value (whole-struct stores only of zero values or
//     copies); or (b) *on every path* backwards from the load the closest event is a store of a bounded value to this very
//     cell, the allocation of the object, or a branch edge whose guard bounds a load of this very cell that no store
//     separates from the edge. A store to the same field through another pointer must store a bounded value too (it may
//     alias), a call that may write the field (a function of the package that stores to it, or an unknown callee while
//     another function of the package does) ends the search with "unknown".
//
// Arithmetic is never bounded, so assuming a value bounded when the search meets it again (a cycle through phis and
// copies) is sound: a cycle consists of copies only. Nothing is executed and no value is computed.
type ubYB struct {
	fns       []*ssa.Function
	isFn      map[*ssa.Function]bool
	sites     map[*ssa.Function][]ssa.CallInstruction
	escaped   map[*ssa.Function]bool
	fieldMemo map[*types.Var]int
	paramMemo map[*ssa.Parameter]int
	resMemo   map[*ssa.Function]map[int]int
	writers   map[*types.Var]map[*ssa.Function]bool
}

func newUBYB(fns []*ssa.Function) *ubYB {
	u := &ubYB{fns: fns, isFn: map[*ssa.Function]bool{}, sites: map[*ssa.Function][]ssa.CallInstruction{}, escaped: map[*ssa.Function]bool{},
		fieldMemo: map[*types.Var]int{}, paramMemo: map[*ssa.Parameter]int{}, resMemo: map[*ssa.Function]map[int]int{}, writers: map[*types.Var]map[*ssa.Function]bool{}}
	for _, fn := range fns {
		u.isFn[fn] = true
	}
	for _, caller := range fns {
		ir.Instrs(caller, func(in ssa.Instruction) {
			if ci, ok := in.(ssa.CallInstruction); ok && !ci.Common().IsInvoke() {
				if f, direct := ci.Common().Value.(*ssa.Function); direct && u.isFn[f] {
					u.sites[f] = append(u.sites[f], ci)
				}
			}
			for _, op := range in.Operands(nil) {
				if op == nil || *op == nil {
					continue
				}
				f, isF := (*op).(*ssa.Function)
				if !isF {
					continue
				}
				if ci, ok := in.(ssa.CallInstruction); ok && ci.Common().Value == ssa.Value(f) {
					continue
				}
				u.escaped[f] = true
				if f.Synthetic != "" && f.Object() != nil {
					for g := range u.isFn {
						if g.Object() == f.Object() {
							u.escaped[g] = true
						}
					}
				}
			}
			if st, ok := in.(*ssa.Store); ok {
				if fa, isFA := st.Addr.(*ssa.FieldAddr); isFA {
					if f := ir.FieldOf(fa); f != nil {
						if u.writers[f] == nil {
							u.writers[f] = map[*ssa.Function]bool{}
						}
						u.writers[f][caller] = true
					}
				}
			}
		})
	}
	return u
}

func isIntegerYB(t types.Type) bool {
	b, ok := t.Underlying().(*types.Basic)
	return ok && b.Info()&types.IsInteger != 0
}

// bounded: v, used in block blk (nil: unknown place), is bounded above by a constant.
func (u *ubYB) bounded(v ssa.Value, blk *ssa.BasicBlock, depth int, seen map[ssa.Value]bool) bool {
	if depth > 14 || v == nil {
		return false
	}
	if c, ok := v.(*ssa.Const); ok {
		return c.Value != nil && c.Value.Kind() == constant.Int
	}
	if !isIntegerYB(v.Type()) {
		return false
	}
	if blk != nil {
		for _, f := range ir.Facts(blk) {
			if u.upperFact(f, v, blk, depth, seen) {
				return true
			}
		}
	}
	switch x := v.(type) {
	case *ssa.Phi:
		if seen[x] {
			return true
		}
		seen[x] = true
		for i, e := range x.Edges {
			if !u.boundedOnEdge(e, x.Block().Preds[i], x.Block(), depth+1, seen) {
				return false
			}
		}
		return true
	case *ssa.Convert:
		return isIntegerYB(x.X.Type()) && u.bounded(x.X, blk, depth+1, seen)
	case *ssa.ChangeType:
		return u.bounded(x.X, blk, depth+1, seen)
	case *ssa.Parameter:
		return u.paramBounded(x, depth, seen)
	case *ssa.Call:
		return u.resultBounded(x, 0, depth, seen)
	case *ssa.Extract:
		if call, ok := x.Tuple.(*ssa.Call); ok {
			return u.resultBounded(call, x.Index, depth, seen)
		}
	case *ssa.UnOp:
		if x.Op != token.MUL {
			return false
		}
		switch a := x.X.(type) {
		case *ssa.FieldAddr:
			f := ir.FieldOf(a)
			if f == nil {
				return false
			}
			if u.fieldBounded(f, depth, seen) {
				return true
			}
			return u.reachingFieldBounded(x, a.X, f, depth, seen)
		case *ssa.Alloc:
			return u.cellBounded(a, depth, seen)
		}
	}
	return false
}

func (u *ubYB) boundedOnEdge(e ssa.Value, from, to *ssa.BasicBlock, depth int, seen map[ssa.Value]bool) bool {
	if ef := ir.EdgeFact(from, to); ef != nil && u.upperFact(*ef, e, from, depth, seen) {
		return true
	}
	for _, f := range edgeFacts(from, to) {
		if u.upperFact(f, e, from, depth, seen) {
			return true
		}
	}
	return u.bounded(e, from, depth, seen)
}

// upperFact: the fact says v <= w, v < w or v == w for a bounded w.
func (u *ubYB) upperFact(f ir.Fact, v ssa.Value, blk *ssa.BasicBlock, depth int, seen map[ssa.Value]bool) bool {
	cm, ok := f.Cmp()
	if !ok {
		return false
	}
	op, a, b := cm.Op, cm.X, cm.Y
	if b == v {
		a, b = b, a
		op = ir.SwapOp(op)
	}
	if a != v || b == v {
		return false
	}
	if op != token.LEQ && op != token.LSS && op != token.EQL {
		return false
	}
	if _, isC := ir.ConstInt(b); isC {
		return true
	}
	return u.bounded(b, blk, depth+1, seen)
}

// cellBounded: a local variable whose address is only loaded from and stored to (in its function and the closures that
// capture it) and every store stores a bounded value.
func (u *ubYB) cellBounded(a *ssa.Alloc, depth int, seen map[ssa.Value]bool) bool {
	if seen[a] {
		return true
	}
	seen[a] = true
	if a.Referrers() == nil {
		return false
	}
	for _, r := range *a.Referrers() {
		switch y := r.(type) {
		case *ssa.Store:
			if y.Addr != ssa.Value(a) {
				return false
			}
			if !u.bounded(y.Val, y.Block(), depth+1, seen) {
				return false
			}
		case *ssa.UnOp:
			if y.Op != token.MUL {
				return false
			}
		case *ssa.DebugRef:
		default:
			return false
		}
	}
	return true
}

// paramBounded: every call site passes a bounded argument.
func (u *ubYB) paramBounded(p *ssa.Parameter, depth int, seen map[ssa.Value]bool) bool {
	if k, ok := u.paramMemo[p]; ok {
		return k > 0
	}
	u.paramMemo[p] = -1
	fn := p.Parent()
	if fn == nil || !u.isFn[fn] || fn.Parent() != nil || u.escaped[fn] || fn.Object() == nil || fn.Object().Exported() || len(u.sites[fn]) == 0 {
		return false
	}
	idx := -1
	for i, q := range fn.Params {
		if q == p {
			idx = i
		}
	}
	if idx < 0 {
		return false
	}
	for _, s := range u.sites[fn] {
		args := s.Common().Args
		if idx >= len(args) || !u.bounded(args[idx], s.Block(), depth+1, map[ssa.Value]bool{}) {
			return false
		}
	}
	u.paramMemo[p] = 1
	return true
}

// resultBounded: every value the (static, in-package) callee returns at position idx is bounded.
func (u *ubYB) resultBounded(call *ssa.Call, idx int, depth int, seen map[ssa.Value]bool) bool {
	cal := ir.StaticCallee(call)
	if cal == nil || !u.isFn[cal] || len(cal.Blocks) == 0 || call.Call.IsInvoke() {
		return false
	}
	if m := u.resMemo[cal]; m != nil {
		if k, ok := m[idx]; ok {
			return k > 0
		}
	} else {
		u.resMemo[cal] = map[int]int{}
	}
	u.resMemo[cal][idx] = -1
	rets := ir.Returns(cal)
	if len(rets) == 0 {
		return false
	}
	for _, ret := range rets {
		if idx >= len(ret.Results) || !u.bounded(ret.Results[idx], ret.Block(), depth+1, map[ssa.Value]bool{}) {
			return false
		}
	}
	u.resMemo[cal][idx] = 1
	return true
}

// containsTypeYB: t is, or contains by value, the struct type st.
func containsTypeYB(t types.Type, st types.Type, depth int) bool {
	if depth > 4 {
		return false
	}
	if types.Identical(t, st) {
		return true
	}
	switch x := t.Underlying().(type) {
	case *types.Struct:
		for i := 0; i < x.NumFields(); i++ {
			if containsTypeYB(x.Field(i).Type(), st, depth+1) {
				return true
			}
		}
	case *types.Array:
		return containsTypeYB(x.Elem(), st, depth+1)
	}
	return false
}

// fieldBounded: field f never holds an unbounded value, whatever object it belongs to.
func (u *ubYB) fieldBounded(f *types.Var, depth int, seen map[ssa.Value]bool) bool {
	if k, ok := u.fieldMemo[f]; ok {
		return k > 0
	}
	u.fieldMemo[f] = -1
	if f.Exported() || !isIntegerYB(f.Type()) {
		return false
	}
	ok := true
	var owner types.Type
	for _, fn := range u.fns {
		ir.Instrs(fn, func(in ssa.Instruction) {
			fa, isFA := in.(*ssa.FieldAddr)
			if !isFA || ir.FieldOf(fa) != f || !ok {
				return
			}
			if pt, isPtr := fa.X.Type().Underlying().(*types.Pointer); isPtr {
				owner = pt.Elem()
			}
			if fa.Referrers() == nil {
				return
			}
			for _, r := range *fa.Referrers() {
				switch y := r.(type) {
				case *ssa.Store:
					if y.Addr != ssa.Value(fa) || !u.bounded(y.Val, y.Block(), depth+1, map[ssa.Value]bool{}) {
						ok = false
					}
				case *ssa.UnOp:
					if y.Op != token.MUL {
						ok = false
					}
				case *ssa.DebugRef:
				default:
					ok = false // the address of the field is handed on
				}
			}
		})
	}
	if ok && owner != nil {
		// whole-object stores: zero values and copies of other objects of the type only
		for _, fn := range u.fns {
			ir.Instrs(fn, func(in ssa.Instruction) {
				st, isSt := in.(*ssa.Store)
				if !isSt || !ok || !containsTypeYB(st.Val.Type(), owner, 0) {
					return
				}
				switch y := st.Val.(type) {
				case *ssa.Const:
				case *ssa.UnOp:
					if y.Op != token.MUL {
						ok = false
					}
				default:
					ok = false
				}
			})
		}
	}
	if ok {
		u.fieldMemo[f] = 1
	}
	return ok
}

// callMayWrite: the call may store to field f (see the header).
func (u *ubYB) callMayWrite(ci ssa.CallInstruction, f *types.Var, cur *ssa.Function) bool {
	storesF := func(x ssa.Instruction) bool {
		st, ok := x.(*ssa.Store)
		if !ok {
			return false
		}
		if fa, isFA := st.Addr.(*ssa.FieldAddr); isFA && ir.FieldOf(fa) == f {
			return true
		}
		// a whole-object store may overwrite the field as well
		if _, isStruct := st.Val.Type().Underlying().(*types.Struct); isStruct {
			return true
		}
		return false
	}
	others := false
	for g := range u.writers[f] {
		if g != cur {
			others = true
		}
	}
	cc := ci.Common()
	if cc.IsInvoke() {
		return others
	}
	cal := ir.StaticCallee(ci)
	if cal == nil {
		return others // a function value
	}
	if _, isBuiltin := cc.Value.(*ssa.Builtin); isBuiltin {
		return false
	}
	if u.isFn[cal] {
		if cal == cur {
			return true
		}
		return ir.MayReach(cal, storesF, 4)
	}
	// a function of another package cannot name the unexported field; it can only run code of this package it is handed
	for _, a := range cc.Args {
		switch a.(type) {
		case *ssa.MakeClosure, *ssa.Function:
			return true
		}
		if _, isSig := a.Type().Underlying().(*types.Signature); isSig {
			return true
		}
	}
	return false
}

// reachingFieldBounded is clause (b) of the field rule, for the load ld of field f of the object base points to.
func (u *ubYB) reachingFieldBounded(ld *ssa.UnOp, base ssa.Value, f *types.Var, depth int, seen map[ssa.Value]bool) bool {
	if f.Exported() {
		return false
	}
	fn := ld.Parent()
	rbase := ir.Resolve(base)
	cellOf := func(addr ssa.Value) (same, may bool) {
		fa, ok := addr.(*ssa.FieldAddr)
		if !ok || ir.FieldOf(fa) != f {
			return false, false
		}
		if fa.X == base || ir.Resolve(fa.X) == rbase {
			return true, true
		}
		return false, true
	}
	var owner types.Type
	if pt, isPtr := base.Type().Underlying().(*types.Pointer); isPtr {
		owner = pt.Elem()
	}
	// event classifies instruction in, met on the way backwards: stop with a verdict, or go on
	const (
		goOn = iota
		stopOK
		stopBad
	)
	event := func(in ssa.Instruction, b *ssa.BasicBlock) int {
		if v, isV := in.(ssa.Value); isV && (v == base || v == rbase) {
			if _, isAlloc := in.(*ssa.Alloc); isAlloc {
				return stopOK // the object is created here: the field is zero
			}
			return stopBad // the pointer is produced here (a call, a load): what it points to is not known
		}
		switch x := in.(type) {
		case *ssa.Store:
			if same, may := cellOf(x.Addr); same {
				if u.bounded(x.Val, b, depth+1, seen) {
					return stopOK
				}
				return stopBad
			} else if may {
				if !u.bounded(x.Val, b, depth+1, seen) {
					return stopBad
				}
				return goOn
			}
			if owner != nil && containsTypeYB(x.Val.Type(), owner, 0) {
				if c, isC := x.Val.(*ssa.Const); isC && c.Value == nil {
					if x.Addr == base || ir.Resolve(x.Addr) == rbase {
						return stopOK
					}
					return goOn
				}
				return stopBad
			}
		case ssa.CallInstruction:
			if u.callMayWrite(x, f, fn) {
				return stopBad
			}
		}
		return goOn
	}
	// edgeBounds: the edge p -> b is taken under a guard that bounds a load of this cell made in p, with nothing that can
	// change the cell between that load and the end of p
	edgeBounds := func(p, b *ssa.BasicBlock) bool {
		ef := ir.EdgeFact(p, b)
		if ef == nil {
			return false
		}
		cm, ok := ef.Cmp()
		if !ok {
			return false
		}
		try := func(x, w ssa.Value, op token.Token) bool {
			l2, isLoad := x.(*ssa.UnOp)
			if !isLoad || l2.Op != token.MUL || l2.Block() != p {
				return false
			}
			if same, _ := cellOf(l2.X); !same {
				return false
			}
			if op != token.LEQ && op != token.LSS && op != token.EQL {
				return false
			}
			after := false
			for _, in := range p.Instrs {
				if in == ssa.Instruction(l2) {
					after = true
					continue
				}
				if after && event(in, p) != goOn {
					return false
				}
			}
			if _, isC := ir.ConstInt(w); isC {
				return true
			}
			return u.bounded(w, p, depth+1, seen)
		}
		return try(cm.X, cm.Y, cm.Op) || try(cm.Y, cm.X, ir.SwapOp(cm.Op))
	}
	topDone := map[*ssa.BasicBlock]bool{}
	bodyDone := map[*ssa.BasicBlock]bool{}
	var walk func(b *ssa.BasicBlock, from int) bool
	walk = func(b *ssa.BasicBlock, from int) bool {
		for i := from - 1; i >= 0; i-- {
			switch event(b.Instrs[i], b) {
			case stopOK:
				return true
			case stopBad:
				return false
			}
		}
		if len(b.Preds) == 0 {
			return false // the function entry: the object came from the caller, its field is what the caller left
		}
		if topDone[b] {
			return true
		}
		topDone[b] = true
		for _, p := range b.Preds {
			if edgeBounds(p, b) {
				continue
			}
			if bodyDone[p] {
				continue
			}
			bodyDone[p] = true
			if !walk(p, len(p.Instrs)) {
				return false
			}
		}
		return true
	}
	idx := -1
	for i, in := range ld.Block().Instrs {
		if in == ssa.Instruction(ld) {
			idx = i
		}
	}
	if idx < 0 {
		return false
	}
	return walk(ld.Block(), idx)
}
