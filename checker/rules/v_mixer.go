package rules

// Rules of the iterator mixer (C18) that concern the life cycle of the mixer's sources.
//
// T9 - no source is closed before the mixer is closed. The Iterator contract says that an iterator must not be used
// after Close; Reset has to restart both sources, so a source has to stay open for the whole life of the mixer. The
// abstract interpretation of Init/HasNext/Next/Reset (c18.go) answers the calls the mixer makes to its sources: a
// Close among them is reported. What the interpreter does not follow (function literals, goroutines, deferred calls
// made by these methods) is looked at by a census: a Close of a held iterator there is "not established".
//
// T10 - a resettable iterator replays. Mixer.Reset restarts the merge by calling Reset of its sources and believes a
// nil answer. For every type of the package that is an Iterator and a golibs.Reseter (the slice iterator, the Mixer
// itself when it is the input of another mixer): whatever the iteration methods (the Iterator methods other than
// Close, and what they call) modify and also read - a field of the iterator, the memory reached through it, a nested
// iterator they advance - is written again by Reset (or, for a nested iterator, reset through golibs.Reseter). A field that the
// iteration changes and Reset never touches keeps the value the iteration left: the "reset" iterator does not start
// from the beginning (an iterator that drops or consumes its backing data cannot replay it at all).

import (
	"fmt"
	"go/token"
	"go/types"
	"sort"
	"strings"

	"golang.org/x/tools/go/ssa"

	"verif/checker/ai"
	"verif/checker/ir"
)

const (
	c18T9            = "C18.T9"
	c18NoEarlyClose  = "no source is closed before the mixer is closed"
	c18T10           = "C18.T10"
	c18ResetReplays  = "a successful Reset re-establishes everything the iteration modifies"
	c18ClosureCloses = "no source is closed in a function literal, goroutine or deferred call of the iteration methods"
)

// c18EarlyCloseDetail words the T9 finding of the abstract interpretation: op is the operation sequence being
// interpreted, k the index of the source.
func c18EarlyCloseDetail(op string, k int) string {
	if op == "" {
		op = "Init"
	}
	return fmt.Sprintf("%s calls Close() of source %d: an iterator must not be used after Close, so the source cannot be restarted any more - a following Reset() either fails although both inputs can be reset, or succeeds on a source that comes back empty (the restarted merge loses that input). Sources may only be closed by the mixer's own Close", op, k+1)
}

// ---------------------------------------------------------------------------------------------------------------------
// access chains: the struct fields an address or a value is derived from

type fchain struct {
	fields []*types.Var
	fresh  bool // rooted in memory allocated by the function itself (a local, a new object)
}

func (c fchain) with(f *types.Var) fchain {
	n := fchain{fresh: c.fresh}
	n.fields = append(append(n.fields, c.fields...), f)
	return n
}

// chainsOf lists the field chains v (an address, or a value loaded through one) is derived from: x.f.g, x.f[i], *x.f,
// x.f.(T) all derive from field f (and g). Instances are not told apart (x is dropped): the chain names fields only.
func chainsOf(v ssa.Value, depth int, seen map[ssa.Value]bool) []fchain {
	if v == nil || depth > 24 || seen[v] {
		return nil
	}
	seen[v] = true
	defer delete(seen, v)
	sub := func(x ssa.Value) []fchain { return chainsOf(x, depth+1, seen) }
	switch x := v.(type) {
	case *ssa.FieldAddr:
		f := ir.FieldOf(x)
		var res []fchain
		for _, c := range sub(x.X) {
			res = append(res, c.with(f))
		}
		return res
	case *ssa.Field:
		f := ir.FieldOf(x)
		var res []fchain
		for _, c := range sub(x.X) {
			res = append(res, c.with(f))
		}
		return res
	case *ssa.IndexAddr:
		return sub(x.X)
	case *ssa.Index:
		return sub(x.X)
	case *ssa.Slice:
		return sub(x.X)
	case *ssa.Lookup:
		return sub(x.X)
	case *ssa.TypeAssert:
		return sub(x.X)
	case *ssa.ChangeInterface:
		return sub(x.X)
	case *ssa.MakeInterface:
		return sub(x.X)
	case *ssa.ChangeType:
		return sub(x.X)
	case *ssa.Convert:
		return sub(x.X)
	case *ssa.SliceToArrayPointer:
		return sub(x.X)
	case *ssa.Extract:
		return sub(x.Tuple)
	case *ssa.Phi:
		var res []fchain
		for _, e := range x.Edges {
			res = append(res, sub(e)...)
		}
		return res
	case *ssa.UnOp:
		if x.Op != token.MUL {
			return nil
		}
		if a, ok := x.X.(*ssa.Alloc); ok {
			// a local cell: what was stored into it
			var res []fchain
			for _, st := range ir.StoresTo(a) {
				res = append(res, sub(st.Val)...)
			}
			return res
		}
		if fv, ok := x.X.(*ssa.FreeVar); ok {
			if b := ir.BindingOf(fv); b != nil {
				var res []fchain
				for _, st := range ir.StoresTo(b) {
					res = append(res, sub(st.Val)...)
				}
				if len(res) > 0 {
					return res
				}
			}
		}
		return sub(x.X)
	case *ssa.FreeVar:
		if b := ir.BindingOf(x); b != nil {
			return sub(b)
		}
		return []fchain{{}}
	case *ssa.Alloc:
		return []fchain{{fresh: true}}
	case *ssa.MakeSlice, *ssa.MakeMap:
		return []fchain{{fresh: true}}
	}
	// parameters, globals, call results: a root the rule knows nothing about
	return []fchain{{}}
}

// valueFields adds the fields a value of type t contains by value (struct fields, recursively; array elements).
func valueFields(t types.Type, depth int, add func(path []*types.Var), prefix []*types.Var) {
	if depth > 4 {
		return
	}
	switch u := t.Underlying().(type) {
	case *types.Struct:
		for i := 0; i < u.NumFields(); i++ {
			f := u.Field(i).Origin()
			p := append(append([]*types.Var{}, prefix...), f)
			add(p)
			valueFields(f.Type(), depth+1, add, p)
		}
	case *types.Array:
		valueFields(u.Elem(), depth+1, add, prefix)
	}
}

// ---------------------------------------------------------------------------------------------------------------------
// footprints

type iterWrite struct {
	chain []*types.Var
	fn    *ssa.Function
	at    ssa.Instruction
	what  string // "stores to", "advances the iterator held in"
}

type footprint struct {
	writes   []iterWrite // memory written
	advances []iterWrite // nested iterators advanced (iteration methods of the Iterator interface invoked on a held value)
	resets   []iterWrite // golibs.Reseter.Reset invoked on a held value
}

// closureOf lists the functions of pkg statically reachable from roots: static callees, function literals created,
// functions passed or stored as values, goroutines and deferred calls.
func closureOf(roots []*ssa.Function, pkg *ssa.Package) []*ssa.Function {
	seen := map[*ssa.Function]bool{}
	var order []*ssa.Function
	var visit func(fn *ssa.Function)
	visit = func(fn *ssa.Function) {
		if fn == nil {
			return
		}
		if o := fn.Origin(); o != nil {
			fn = o
		}
		if seen[fn] || len(fn.Blocks) == 0 {
			return
		}
		root := fn
		for root.Parent() != nil {
			root = root.Parent()
		}
		if root.Pkg != pkg {
			return
		}
		seen[fn] = true
		order = append(order, fn)
		ir.Instrs(fn, func(in ssa.Instruction) {
			if ci, ok := in.(ssa.CallInstruction); ok {
				visit(ir.StaticCallee(ci))
			}
			for _, op := range in.Operands(nil) {
				if op == nil || *op == nil {
					continue
				}
				if f, ok := (*op).(*ssa.Function); ok {
					visit(f)
				}
			}
		})
	}
	for _, r := range roots {
		visit(r)
	}
	return order
}

type iterRoles struct {
	iface    *types.Interface // the package's Iterator interface (generic)
	iterate  []*types.Func    // its iteration methods
	closing  *types.Func      // its Close
	resetM   *types.Func      // golibs.Reseter.Reset
	reseterI *types.Interface
}

func (r *iterRoles) isIterate(m *types.Func) bool {
	if m == nil {
		return false
	}
	for _, x := range r.iterate {
		if m.Origin() == x || (m.Name() == x.Name() && sameShape(m, x)) && isIteratorRecv(m, r) {
			return true
		}
	}
	return false
}

func (r *iterRoles) isClosing(m *types.Func) bool {
	return m != nil && (m.Origin() == r.closing || (m.Name() == r.closing.Name() && sameShape(m, r.closing) && isIteratorRecv(m, r)))
}

// isIteratorRecv: m is a method of an interface that has all the Iterator methods (an instantiation of Iterator, or an
// interface embedding it).
func isIteratorRecv(m *types.Func, r *iterRoles) bool {
	sig, _ := m.Type().(*types.Signature)
	if sig == nil || sig.Recv() == nil {
		return false
	}
	it, _ := sig.Recv().Type().Underlying().(*types.Interface)
	if it == nil {
		return false
	}
	for i := 0; i < r.iface.NumMethods(); i++ {
		want := r.iface.Method(i)
		found := false
		for j := 0; j < it.NumMethods(); j++ {
			if it.Method(j).Name() == want.Name() && sameShape(it.Method(j), want) {
				found = true
			}
		}
		if !found {
			return false
		}
	}
	return true
}

func sameShape(a, b *types.Func) bool {
	sa, _ := a.Type().(*types.Signature)
	sb, _ := b.Type().(*types.Signature)
	return sa != nil && sb != nil && sa.Params().Len() == sb.Params().Len() && sa.Results().Len() == sb.Results().Len()
}

func (c *Ctx) iteratorRoles(rel string) *iterRoles {
	itNamed := c.P.LookupType(rel, "Iterator")
	if itNamed == nil {
		c.Fatalf("role Iterator interface of %s not found", rel)
	}
	iface, _ := itNamed.Underlying().(*types.Interface)
	if iface == nil {
		c.Fatalf("role Iterator of %s is not an interface", rel)
	}
	res := &iterRoles{iface: iface}
	for i := 0; i < iface.NumMethods(); i++ {
		m := iface.Method(i)
		sig := m.Type().(*types.Signature)
		if sig.Params().Len() == 0 && sig.Results().Len() == 1 && ir.IsErrorType(sig.Results().At(0).Type()) {
			res.closing = m
		} else {
			res.iterate = append(res.iterate, m)
		}
	}
	if res.closing == nil || len(res.iterate) == 0 {
		c.Fatalf("role Iterator of %s: cannot tell the iteration methods from Close", rel)
	}
	rs := c.P.LookupTypeAny(ir.Module, "Reseter")
	if rs == nil {
		c.Fatalf("role golibs.Reseter not found")
	}
	res.reseterI, _ = rs.Underlying().(*types.Interface)
	if res.reseterI == nil || res.reseterI.NumMethods() != 1 {
		c.Fatalf("role golibs.Reseter is not a one-method interface")
	}
	res.resetM = res.reseterI.Method(0)
	return res
}

// footprintOf collects what the functions write, which held iterators they advance and which they reset.
func footprintOf(fns []*ssa.Function, roles *iterRoles) footprint {
	var fp footprint
	for _, fn := range fns {
		fn := fn
		addWrite := func(addr ssa.Value, stored types.Type, at ssa.Instruction) {
			for _, ch := range chainsOf(addr, 0, map[ssa.Value]bool{}) {
				if ch.fresh {
					continue
				}
				if len(ch.fields) > 0 {
					fp.writes = append(fp.writes, iterWrite{chain: ch.fields, fn: fn, at: at, what: "stores to"})
				}
				if stored != nil {
					valueFields(stored, 0, func(p []*types.Var) {
						fp.writes = append(fp.writes, iterWrite{chain: p, fn: fn, at: at, what: "stores to"})
					}, ch.fields)
				}
			}
		}
		ir.Instrs(fn, func(in ssa.Instruction) {
			switch x := in.(type) {
			case *ssa.Store:
				var stored types.Type
				if p, ok := x.Addr.Type().Underlying().(*types.Pointer); ok {
					stored = p.Elem()
				}
				addWrite(x.Addr, stored, x)
			case *ssa.MapUpdate:
				addWrite(x.Map, nil, x)
			case ssa.CallInstruction:
				cc := x.Common()
				if b, ok := cc.Value.(*ssa.Builtin); ok && len(cc.Args) > 0 {
					switch b.Name() {
					case "copy", "clear", "delete":
						addWrite(cc.Args[0], nil, x)
					}
					return
				}
				if !cc.IsInvoke() {
					return
				}
				var dst *[]iterWrite
				what := ""
				switch {
				case cc.Method == roles.resetM || (cc.Method.Name() == roles.resetM.Name() && types.Identical(cc.Method.Type().(*types.Signature).Results(), roles.resetM.Type().(*types.Signature).Results()) && cc.Method.Type().(*types.Signature).Params().Len() == 0):
					dst, what = &fp.resets, "resets"
				case roles.isIterate(cc.Method):
					dst, what = &fp.advances, "advances the iterator held in"
				default:
					return
				}
				for _, ch := range chainsOf(cc.Value, 0, map[ssa.Value]bool{}) {
					if len(ch.fields) > 0 && !ch.fresh {
						*dst = append(*dst, iterWrite{chain: ch.fields, fn: fn, at: x, what: what})
					}
				}
			}
		})
	}
	return fp
}

// fieldsRead lists the fields the functions read: the field is loaded, extracted from a value, or its address is used for
// anything but a store into it or a step to a sub-field. A field that is only ever stored to is not in the list.
func fieldsRead(fns []*ssa.Function) map[*types.Var]bool {
	res := map[*types.Var]bool{}
	var readUse func(addr ssa.Value, depth int) bool
	readUse = func(addr ssa.Value, depth int) bool {
		refs := addr.Referrers()
		if refs == nil || depth > 6 {
			return true
		}
		for _, r := range *refs {
			switch x := r.(type) {
			case *ssa.Store:
				if x.Val == addr {
					return true
				}
			case *ssa.FieldAddr:
				// a sub-field: decided at that instruction
			case *ssa.IndexAddr:
				if readUse(x, depth+1) {
					return true
				}
			case *ssa.DebugRef:
			default:
				return true
			}
		}
		return false
	}
	for _, fn := range fns {
		ir.Instrs(fn, func(in ssa.Instruction) {
			switch x := in.(type) {
			case *ssa.Field:
				if f := ir.FieldOf(x); f != nil {
					res[f] = true
				}
			case *ssa.FieldAddr:
				if f := ir.FieldOf(x); f != nil && readUse(x, 0) {
					res[f] = true
				}
			}
		})
	}
	return res
}

// sameObjectFields lists the fields f of the struct that has field g such that g always holds the very object held in f
// (seen through another interface), or nil: wherever the package stores to g it stores, into the same struct value, the
// value it stores to f after an interface conversion or type assertion (or nil, or a conversion of f's current content);
// wherever it stores to f it also stores to g; neither field's address is used for anything but these stores and loads.
// Whole-value copies of the struct keep the pair together and need no look.
func sameObjectFields(fns []*ssa.Function, g *types.Var) []*types.Var {
	type site struct {
		fn        *ssa.Function
		base, val ssa.Value
	}
	stores := map[*types.Var][]site{}
	escapes := map[*types.Var]bool{}
	for _, fn := range fns {
		fn := fn
		ir.Instrs(fn, func(in ssa.Instruction) {
			fa, ok := in.(*ssa.FieldAddr)
			if !ok {
				return
			}
			f := ir.FieldOf(fa)
			if f == nil || fa.Referrers() == nil {
				return
			}
			for _, r := range *fa.Referrers() {
				switch x := r.(type) {
				case *ssa.Store:
					if x.Addr == ssa.Value(fa) && x.Val != ssa.Value(fa) {
						stores[f] = append(stores[f], site{fn, fa.X, x.Val})
					} else {
						escapes[f] = true
					}
				case *ssa.UnOp:
					if x.Op != token.MUL {
						escapes[f] = true
					}
				case *ssa.DebugRef:
				default:
					escapes[f] = true
				}
			}
		})
	}
	var objRoot func(v ssa.Value, depth int) ssa.Value
	objRoot = func(v ssa.Value, depth int) ssa.Value {
		if depth > 12 || v == nil {
			return nil
		}
		switch x := v.(type) {
		case *ssa.MakeInterface:
			return objRoot(x.X, depth+1)
		case *ssa.ChangeInterface:
			return objRoot(x.X, depth+1)
		case *ssa.ChangeType:
			return objRoot(x.X, depth+1)
		case *ssa.TypeAssert:
			return objRoot(x.X, depth+1)
		case *ssa.Extract:
			if ta, ok := x.Tuple.(*ssa.TypeAssert); ok && x.Index == 0 {
				return objRoot(ta.X, depth+1)
			}
			return v
		case *ssa.Phi:
			var root ssa.Value
			for _, e := range x.Edges {
				if ir.IsNilConst(e) {
					continue
				}
				r := objRoot(e, depth+1)
				if r == nil || (root != nil && r != root) {
					return nil
				}
				root = r
			}
			return root
		}
		return v
	}
	if escapes[g] || len(stores[g]) == 0 {
		return nil
	}
	storedOn := func(f *types.Var, fn *ssa.Function, base ssa.Value) []site {
		var res []site
		for _, s := range stores[f] {
			if s.fn == fn && s.base == base {
				res = append(res, s)
			}
		}
		return res
	}
	cands := map[*types.Var]bool{}
	for f, ss := range stores {
		if f == g || escapes[f] {
			continue
		}
		for _, s := range ss {
			if len(storedOn(g, s.fn, s.base)) > 0 {
				cands[f] = true
			}
		}
	}
	var res []*types.Var
	for f := range cands {
		ok := true
		for _, sg := range stores[g] {
			if ir.IsNilConst(sg.val) {
				continue
			}
			root := objRoot(sg.val, 0)
			match := false
			sfs := storedOn(f, sg.fn, sg.base)
			for _, sf := range sfs {
				if root != nil && objRoot(sf.val, 0) == root {
					match = true
				}
			}
			if !match && len(sfs) == 0 {
				// g = conversion of the current content of f of the same struct value
				if ld, isLd := root.(*ssa.UnOp); isLd && ld.Op == token.MUL {
					if fa, isFA := ld.X.(*ssa.FieldAddr); isFA && ir.FieldOf(fa) == f && fa.X == sg.base {
						match = true
					}
				}
			}
			if !match {
				ok = false
			}
		}
		for _, sf := range stores[f] {
			if len(storedOn(g, sf.fn, sf.base)) == 0 {
				ok = false
			}
		}
		if ok {
			res = append(res, f)
		}
	}
	sort.Slice(res, func(i, j int) bool { return res[i].Pos() < res[j].Pos() })
	return res
}

func chainString(ch []*types.Var) string {
	var s []string
	for _, f := range ch {
		s = append(s, f.Name())
	}
	return strings.Join(s, ".")
}

// methodOn finds the method named like m in the method set of *nt (declared or promoted) with m's shape.
func (c *Ctx) methodOn(nt *types.Named, m *types.Func) *ssa.Function {
	obj, _, _ := types.LookupFieldOrMethod(types.NewPointer(nt), true, nt.Obj().Pkg(), m.Name())
	f, ok := obj.(*types.Func)
	if !ok || !sameShape(f, m) {
		return nil
	}
	return c.P.SSA.FuncValue(f.Origin())
}

// resettableIteratorsReplay is T10 (see the head of the file) for the types declared in package rel.
func (c *Ctx) resettableIteratorsReplay(rule, rel string, required ...*types.Named) {
	roles := c.iteratorRoles(rel)
	pkg := c.P.SSAPkg(rel)
	done := map[*types.Named]bool{}
	for _, nt := range c.P.NamedTypes(rel) {
		if _, isI := nt.Underlying().(*types.Interface); isI {
			continue
		}
		var iterFns []*ssa.Function
		complete := true
		for _, m := range roles.iterate {
			fn := c.methodOn(nt, m)
			if fn == nil || len(fn.Blocks) == 0 {
				complete = false
				break
			}
			iterFns = append(iterFns, fn)
		}
		if !complete || c.methodOn(nt, roles.closing) == nil {
			continue
		}
		resetFn := c.methodOn(nt, roles.resetM)
		if resetFn == nil || len(resetFn.Blocks) == 0 {
			continue
		}
		if rs := resetFn.Signature.Results(); rs.Len() != 1 || !ir.IsErrorType(rs.At(0).Type()) {
			continue
		}
		// a Reset that always fails promises nothing
		canSucceed := false
		for _, ret := range ir.Returns(resetFn) {
			if ir.ClassifyErr(ir.ResultValue(ret, 0), ret.Block()) != ir.ErrNonNil {
				canSucceed = true
			}
		}
		if !canSucceed {
			continue
		}
		done[nt] = true
		c.Role("resettable iterator "+nt.Obj().Name(), ir.FnName(resetFn), resetFn.Pos())
		c.Saw(iterFns...)
		c.Saw(resetFn)

		iterClosure := closureOf(iterFns, pkg)
		iterFP := footprintOf(iterClosure, roles)
		// what the iteration never reads cannot change what it answers: such a field needs no restoring
		read := fieldsRead(iterClosure)
		resetFP := footprintOf(closureOf([]*ssa.Function{resetFn}, pkg), roles)
		restored := map[*types.Var]bool{} // fields Reset writes (the field itself, or a struct it is part of)
		for _, w := range resetFP.writes {
			restored[w.chain[len(w.chain)-1]] = true
		}
		rewound := map[*types.Var]bool{} // fields holding an iterator that Reset resets
		for _, w := range resetFP.resets {
			g := w.chain[len(w.chain)-1]
			rewound[g] = true
			// the reset capability kept in a field of its own (resolved once, when the iterator is stored): resetting
			// that field's object resets the iterator in the sibling field it was derived from
			for _, f := range sameObjectFields(c.P.FuncsOf(rel), g) {
				rewound[f] = true
			}
		}
		covered := func(ch []*types.Var, sets ...map[*types.Var]bool) bool {
			for _, f := range ch {
				for _, s := range sets {
					if s[f] {
						return true
					}
				}
			}
			return false
		}
		var missing []string
		seenMsg := map[string]bool{}
		var at ssa.Instruction
		note := func(w iterWrite, need string) {
			k := chainString(w.chain) + "|" + ir.FnName(w.fn)
			if seenMsg[k] {
				return
			}
			seenMsg[k] = true
			if at == nil {
				at = w.at
			}
			missing = append(missing, fmt.Sprintf("%s %s %s (%s) but %s %s", ir.FnName(w.fn), w.what, chainString(w.chain), c.P.InstrPos(w.at), ir.FnName(resetFn), need))
		}
		for _, w := range iterFP.writes {
			if covered(w.chain, read) && !covered(w.chain, restored) {
				note(w, "never writes it")
			}
		}
		for _, w := range iterFP.advances {
			if !covered(w.chain, restored, rewound) {
				note(w, "neither resets nor replaces that iterator")
			}
		}
		sort.Strings(missing)
		pos := nt.Obj().Pos()
		if at != nil {
			pos = at.Pos()
			if !pos.IsValid() {
				pos = nt.Obj().Pos()
			}
		}
		c.DecideAt(rule, nt.Obj().Name(), c18ResetReplays, pos, len(missing) == 0,
			"Reset() of this iterator can report success, the mixer then takes the source as restarted; but the iteration changes state that Reset never re-establishes, so the iterator does not replay its elements from the beginning after a successful Reset (the restarted merge misses elements of this input): "+strings.Join(missing, "; "))
	}
	for _, nt := range required {
		if !done[nt] {
			c.R.Errorf("%s: %s is not recognised as a resettable iterator (Iterator methods, Reset() error that can succeed)", rule, nt.Obj().Name())
		}
	}
	c.R.Floor(rule, len(required))
}

// noCloseOutsideInterpretation is the census part of T9: the abstract interpretation follows static calls only; a Close
// of a held iterator in a function literal, or in a goroutine/deferred call, reached from the given methods is not seen
// there. Such a construct is reported as not established.
func (c *Ctx) noCloseOutsideInterpretation(rule, rel string, methods ...*ssa.Function) {
	roles := c.iteratorRoles(rel)
	pkg := c.P.SSAPkg(rel)
	for _, fn := range closureOf(methods, pkg) {
		fn := fn
		ir.Instrs(fn, func(in ssa.Instruction) {
			ci, ok := in.(ssa.CallInstruction)
			if !ok {
				return
			}
			_, isCall := in.(*ssa.Call)
			hidden := fn.Parent() != nil || !isCall
			if !hidden {
				return
			}
			cc := ci.Common()
			closes := cc.IsInvoke() && roles.isClosing(cc.Method)
			if !closes && !isCall {
				// go/defer of a function of the package that closes a held iterator
				if callee := ir.StaticCallee(ci); callee != nil {
					for _, g := range closureOf([]*ssa.Function{callee}, pkg) {
						ir.Instrs(g, func(in2 ssa.Instruction) {
							if c2, ok := in2.(ssa.CallInstruction); ok && c2.Common().IsInvoke() && roles.isClosing(c2.Common().Method) {
								closes = true
							}
						})
					}
				}
			}
			if closes {
				c.Undecided(rule, fn, c18ClosureCloses, in, "an iterator is closed in a function literal, goroutine or deferred call reached from "+ir.FnName(methods[0])+" and its siblings; the interpretation of the merge step does not follow these, so it is not established that the sources stay open until the mixer's own Close")
			}
		})
	}
}

// ---------------------------------------------------------------------------------------------------------------------
// initial states of the interpretation (used by runC18)

// c18InitStates turns the outcomes of interpreting Init into the initial states of the exploration. Init may ask the
// environment (a mixer that resolves each source's golibs.Reseter once, in Init): every outcome is an initial state,
// tagged with its index so that a successful Reset is compared with the initial state the run started from.
func c18InitStates(outs []ai.Outcome, err error) ([]*ai.State, string) {
	if err != nil {
		return nil, err.Error()
	}
	if len(outs) == 0 || len(outs) > 64 {
		return nil, fmt.Sprintf("%d outcomes", len(outs))
	}
	var res []*ai.State
	for _, o := range outs {
		if o.Panic {
			return nil, "Init can panic"
		}
		st := o.State
		st.Events = nil
		res = append(res, st)
	}
	return res, ""
}

// c18DistinctInits numbers the initial states by their implementation state (equal ones share a number) and returns
// the distinct implementation states.
func c18DistinctInits(states []*ai.State, impls []string) []string {
	var distinct []string
	for i, st := range states {
		idx := -1
		for j, d := range distinct {
			if d == impls[i] {
				idx = j
			}
		}
		if idx < 0 {
			idx = len(distinct)
			distinct = append(distinct, impls[i])
		}
		st.Mem["model.init"] = ai.Int(int64(idx))
	}
	return distinct
}

// c18InitOf returns the number of the initial state st descends from.
func c18InitOf(st *ai.State, n int) int {
	i, ok := ai.AsInt(st.Mem["model.init"])
	if !ok || i < 0 || int(i) >= n {
		return 0
	}
	return int(i)
}
