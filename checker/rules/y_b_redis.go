package rules

import (
	"go/token"

	"golang.org/x/tools/go/ssa"

	"verif/checker/ir"
)

// ---------------------------------------------------------------------------
// the accumulating "all" loop
//
//	ok := INIT
//	for i := 0; ok && i < len(s); i++ { ok = TEST(s[i]) }
//	... ok is true here ...
//
// is the other spelling of the any/all pre-pass ir.UniversalFacts knows as a range loop with an early exit. accumAllYB
// recognises it from its shape only and tells what "ok is true behind the loop" says: INIT held and TEST held for every
// element of s.
//
// Shape (all of it is checked, nothing is assumed): flag is a phi of a loop header with one entry edge (INIT) and one
// back edge (a comparison TEST computed in the loop on a value read from s[i]); i is a phi of the same header that
// starts at 0 and is incremented by exactly 1 on the back edge; the loop contains no store, no map update and no call
// (but len); every way round the loop takes the "flag is true" edge; the loop is left only over a "flag is false" edge
// or over the "i >= len(s)" edge. Then, by induction over the visits of the header: at the visit with i = k+1 the flag
// holds TEST(s[k]) and the loop only went on because it was true; the last visit is left with the flag true (that is
// the fact the caller has) only over i >= len(s), so every k < len(s) was visited; the first visit holds INIT.
type accumAllYBResult struct {
	Init  ssa.Value // held when the loop was entered
	Slice ssa.Value
	Test  *ssa.BinOp     // held (evaluated true) for every element
	Elem  *ssa.IndexAddr // the element address the test reads through
	Loop  map[*ssa.BasicBlock]bool
}

func accumAllYB(flag ssa.Value) *accumAllYBResult {
	p, ok := flag.(*ssa.Phi)
	if !ok || len(p.Edges) != 2 {
		return nil
	}
	h := p.Block()
	back, entry := -1, -1
	for j, pred := range h.Preds {
		if h.Dominates(pred) {
			if back >= 0 {
				return nil
			}
			back = j
		} else {
			entry = j
		}
	}
	if back < 0 || entry < 0 {
		return nil
	}
	test, isCmp := p.Edges[back].(*ssa.BinOp)
	if !isCmp {
		return nil
	}
	// the natural loop of the back edge
	loop := map[*ssa.BasicBlock]bool{h: true}
	var up func(b *ssa.BasicBlock)
	up = func(b *ssa.BasicBlock) {
		if loop[b] {
			return
		}
		loop[b] = true
		for _, q := range b.Preds {
			up(q)
		}
	}
	up(h.Preds[back])
	if !loop[test.Block()] {
		return nil
	}
	// the index
	var idx *ssa.Phi
	for _, in := range h.Instrs {
		q, isPhi := in.(*ssa.Phi)
		if !isPhi {
			break
		}
		if q == p || len(q.Edges) != 2 {
			continue
		}
		c0, isC := ir.ConstInt(q.Edges[entry])
		nx, isBin := q.Edges[back].(*ssa.BinOp)
		if !isC || c0 != 0 || !isBin || nx.Op != token.ADD || nx.X != ssa.Value(q) {
			continue
		}
		if one, isOne := ir.ConstInt(nx.Y); !isOne || one != 1 {
			continue
		}
		idx = q
	}
	if idx == nil {
		return nil
	}
	// the element the test reads
	var elem *ssa.IndexAddr
	var find func(v ssa.Value, d int) *ssa.IndexAddr
	find = func(v ssa.Value, d int) *ssa.IndexAddr {
		if d > 6 || v == nil {
			return nil
		}
		switch x := v.(type) {
		case *ssa.IndexAddr:
			if x.Index == ssa.Value(idx) && loop[x.Block()] {
				return x
			}
		case *ssa.UnOp:
			if x.Op == token.MUL {
				return find(x.X, d+1)
			}
		case *ssa.FieldAddr:
			return find(x.X, d+1)
		case *ssa.Field:
			return find(x.X, d+1)
		}
		return nil
	}
	for _, pair := range [][2]ssa.Value{{test.X, test.Y}, {test.Y, test.X}} {
		if _, isC := pair[1].(*ssa.Const); !isC {
			continue
		}
		if e := find(pair[0], 0); e != nil {
			elem = e
			break
		}
	}
	if elem == nil {
		return nil
	}
	slice := elem.X
	if in, isIn := slice.(ssa.Instruction); isIn && loop[in.Block()] {
		return nil // the slice must be the same value in every iteration
	}
	// nothing in the loop writes memory or calls out
	for b := range loop {
		for _, in := range b.Instrs {
			switch x := in.(type) {
			case *ssa.Store, *ssa.MapUpdate, *ssa.Send, *ssa.Go, *ssa.Defer:
				return nil
			case *ssa.Call:
				if builtinCall(x, "len") == nil {
					return nil
				}
			}
		}
	}
	flagEdge := func(from, to *ssa.BasicBlock) (isFlag, truth bool) {
		ef := ir.EdgeFact(from, to)
		if ef == nil {
			return false, false
		}
		ff := ef.StripNot()
		if ff.Cond == ssa.Value(p) {
			return true, ff.True
		}
		return false, false
	}
	// every way round takes the "flag is true" edge
	{
		seen := map[*ssa.BasicBlock]bool{}
		reached := false
		var dfs func(b *ssa.BasicBlock)
		dfs = func(b *ssa.BasicBlock) {
			if seen[b] {
				return
			}
			seen[b] = true
			for _, s := range b.Succs {
				if !loop[s] {
					continue
				}
				if isF, truth := flagEdge(b, s); isF && truth {
					continue
				}
				if s == h {
					reached = true
					continue
				}
				dfs(s)
			}
		}
		dfs(h)
		if reached {
			return nil
		}
	}
	// exits: flag false, or the index has run to the end of the slice
	for b := range loop {
		for _, s := range b.Succs {
			if loop[s] {
				continue
			}
			if isF, truth := flagEdge(b, s); isF && !truth {
				continue
			}
			ef := ir.EdgeFact(b, s)
			if ef == nil {
				return nil
			}
			cm, isC := ef.Cmp()
			if !isC {
				return nil
			}
			op, x, y := cm.Op, cm.X, cm.Y
			if y == ssa.Value(idx) {
				x, y = y, x
				op = ir.SwapOp(op)
			}
			if x != ssa.Value(idx) || op != token.GEQ || !isLenOf(y, slice) {
				return nil
			}
		}
	}
	return &accumAllYBResult{Init: p.Edges[entry], Slice: slice, Test: test, Elem: elem, Loop: loop}
}

// accumNonEmptyYB: a fact at block b says that an accumulating all-loop over slice s ended with its flag true, and the
// flag started as "len(s) > 0" (or the like): s is not empty.
func accumNonEmptyYB(b *ssa.BasicBlock, s ssa.Value) bool {
	for _, f := range ir.Facts(b) {
		ff := f.StripNot()
		if !ff.True {
			continue
		}
		acc := accumAllYB(ff.Cond)
		if acc == nil || acc.Loop[b] {
			continue
		}
		cm, ok := (ir.Fact{Cond: acc.Init, True: true}).Cmp()
		if !ok {
			continue
		}
		op, x, y := cm.Op, cm.X, cm.Y
		if isLenOf(y, s) {
			x, y = y, x
			op = ir.SwapOp(op)
		}
		k, isC := ir.ConstInt(y)
		if !isLenOf(x, s) || !isC {
			continue
		}
		if (op == token.GTR && k >= 0) || (op == token.GEQ && k >= 1) || (op == token.NEQ && k == 0) {
			return true
		}
	}
	return false
}
