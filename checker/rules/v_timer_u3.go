package rules

import (
	"go/types"

	"golang.org/x/tools/go/ssa"

	"verif/checker/ir"
)

// Timer rules, benign round u: the exported Call may delegate to another scheduling entry point.
//
// The roles "future type", "add routine" and the rules about how a future is built (R5 fire time, R7 fresh future, R8
// queued before the return, the construction exemption of R6) are anchored in the function that builds the future. That
// is timeout.Call itself, or - when Call is a pure delegation `return g(f, <expr>)` - the function g of the package it
// hands its callback to (CallAt(f, t) with Call(f, d) = CallAt(f, time.Now().Add(d))). A pure delegation has a single
// return whose result is the result of one call of g, passes its callback parameter on, and does nothing else to the
// package: no store, no go/defer, no other call of a function of the package. Every path of Call is then a path of g
// with Call's arguments, so what the rules decide of g holds of Call:
//   - R7/R8/R6 are about g's body alone;
//   - R5 follows the argument: g stores its own time parameter as the fire time (for a caller of g that is the moment it
//     asked for) and Call hands time.Now().Add(timeout) - with its own duration parameter - to exactly that parameter.

// tmDelegation is one step Call -> g.
type tmDelegation struct {
	from *ssa.Function
	call *ssa.Call // the call of g in from
}

// tmPureDelegation reports whether fn only forwards to one function of its package, and returns that call.
func tmPureDelegation(fn *ssa.Function) *ssa.Call {
	rets := ir.Returns(fn)
	if fn == nil || len(rets) != 1 || len(rets[0].Results) != 1 {
		return nil
	}
	call, ok := ir.ResultValue(rets[0], 0).(*ssa.Call)
	if !ok || call.Call.IsInvoke() {
		return nil
	}
	g := ir.StaticCallee(call)
	if g == nil || g == fn || g.Pkg != fn.Pkg || len(g.Blocks) == 0 || g.TypeParams().Len() > 0 {
		return nil
	}
	if !types.Identical(g.Signature.Results(), fn.Signature.Results()) {
		return nil
	}
	pure := true
	ir.Instrs(fn, func(in ssa.Instruction) {
		switch x := in.(type) {
		case *ssa.Store:
			if _, local := x.Addr.(*ssa.Alloc); !local {
				pure = false
			}
		case *ssa.Go, *ssa.Defer, *ssa.Send, *ssa.Select, *ssa.MapUpdate:
			pure = false
		case *ssa.Call:
			if x == call {
				return
			}
			if cal := ir.StaticCallee(x); x.Call.IsInvoke() || cal == nil || cal.Pkg == fn.Pkg {
				if _, isB := x.Call.Value.(*ssa.Builtin); !isB {
					pure = false
				}
			}
		}
	})
	if !pure {
		return nil
	}
	// the callback is handed on as it is
	passes := false
	for _, p := range fn.Params {
		if _, isFunc := p.Type().Underlying().(*types.Signature); !isFunc {
			continue
		}
		for _, a := range call.Call.Args {
			if ir.Resolve(a) == ssa.Value(p) {
				passes = true
			}
		}
	}
	if !passes {
		return nil
	}
	return call
}

// tmFollowDelegation moves the role "Call" (the function that builds the future) along pure delegations, at most three
// steps, and records the steps for R5.
func (r *timerRoles) tmFollowDelegation(c *Ctx) {
	for i := 0; i < 3; i++ {
		call := tmPureDelegation(r.callFn)
		if call == nil {
			return
		}
		r.deleg = append(r.deleg, tmDelegation{from: r.callFn, call: call})
		r.callFn = c.RequireFn(ir.StaticCallee(call), "timeout.Call delegate")
		c.Role("timer.call.delegate", relName(r.callFn), r.callFn.Pos())
	}
}

// tmFireTimeThroughDelegate (R5): val, stored as the fire time in the function that builds the future, is a time
// parameter of that function, and the exported Call reaches that parameter with time.Now().Add(d), d its own duration
// parameter, through the recorded delegation steps (each step hands the value on unchanged, the first one computes it).
func (r *timerRoles) tmFireTimeThroughDelegate(val ssa.Value) bool {
	steps := r.deleg
	if len(steps) == 0 {
		return false
	}
	v := ir.Resolve(val)
	for i := len(steps) - 1; i >= 0; i-- {
		prm, ok := v.(*ssa.Parameter)
		if !ok {
			return false
		}
		g := ir.StaticCallee(steps[i].call)
		if prm.Parent() != g {
			return false
		}
		idx := -1
		for k, q := range g.Params {
			if q == prm {
				idx = k
			}
		}
		if idx < 0 || idx >= len(steps[i].call.Call.Args) {
			return false
		}
		v = ir.Resolve(steps[i].call.Call.Args[idx])
	}
	api := steps[0].from
	add, isCall := v.(*ssa.Call)
	if !isCall || ir.CalleeFullName(add) != "(time.Time).Add" || len(add.Call.Args) != 2 {
		return false
	}
	now, isNow := ir.Resolve(add.Call.Args[0]).(*ssa.Call)
	if !isNow || ir.CalleeFullName(now) != "time.Now" {
		return false
	}
	d, isPrm := ir.Resolve(add.Call.Args[1]).(*ssa.Parameter)
	return isPrm && d.Parent() == api && ir.IsNamed(d.Type(), "time", "Duration")
}
