package rules

import (
	"strings"

	"golang.org/x/tools/go/ssa"

	"verif/checker/ir"
)

// ---------------------------------------------------------------------------
// Round g, seed C04-g2 (C04.R10): a clean-up Delete under the context that has just been found ended.

// contextRootsVG: the contexts v is derived from by the context.With* constructors (v itself included): when one of them
// has ended, v has ended. context.WithoutCancel cuts the chain.
func contextRootsVG(v ssa.Value, depth int) []ssa.Value {
	v = ir.Resolve(v)
	res := []ssa.Value{v}
	if depth > 4 {
		return res
	}
	if ex, ok := v.(*ssa.Extract); ok && ex.Index == 0 {
		v = ex.Tuple
	}
	call, ok := v.(*ssa.Call)
	if !ok || len(call.Call.Args) == 0 {
		return res
	}
	name := ir.CalleeFullName(call)
	if !strings.HasPrefix(name, "context.With") || name == "context.WithoutCancel" {
		return res
	}
	return append(res, contextRootsVG(call.Call.Args[0], depth+1)...)
}

// underEndedContextVG: the storage call sc runs under a context that the path described by val has found ended: some
// ctx.Err() of that context (or of a context it is derived from) was read and is known non-nil on this path. A context
// stays ended, so the call is made with a context that is over: a storage that honours its context (the redis client
// returns the context's error without sending the command) does not execute it.
func (r *lockRoles) underEndedContextVG(sc *ssa.Call, val *ir.Valuation) bool {
	if len(sc.Call.Args) == 0 {
		return false
	}
	roots := contextRootsVG(sc.Call.Args[0], 0)
	ended := false
	ir.Instrs(sc.Parent(), func(in ssa.Instruction) {
		e, ok := in.(*ssa.Call)
		if ended || !ok || !e.Call.IsInvoke() || e.Call.Method.Name() != "Err" || len(e.Call.Args) != 0 || !ir.IsNamed(e.Call.Value.Type(), "context", "Context") {
			return
		}
		isNil, known := val.KnownIsNil(e)
		if !known || isNil {
			return
		}
		cv := ir.Resolve(e.Call.Value)
		for _, root := range roots {
			if root == cv {
				ended = true
			}
		}
	})
	return ended
}
