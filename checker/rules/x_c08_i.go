package rules

// Round i, property C08 (seed shape: the creator's epilogue split into two critical sections by a panic-safe helper).
//
//	C08.R13  (lruMissCompletesInOneSectionI = the clause of C09.R2 composed over helpers, literals and deferred calls,
//	         run under the id of C08)
//
// What it decides. Over all CFG paths of GetOrCreate, with the private helpers, function literals and deferred calls
// it runs summarised as state transformers (flightV, v_lru_flight.go): once the in-flight channel of the key has been
// closed or its in-flight entry has been deleted inside a critical section of the cache mutex, no insert into the
// recency list and no deletion of the entry happens in a LATER critical section of the same run (before the next
// registration / call of the create function). Roles are resolved by type (the mutex field, the map-of-channel-carrier
// field, the iterable.Map field and its Add method, the field of the create function type); no private name is read.
//
// Why the clause is necessary for C08 as stated. C08 promises "a miss calls the create function once and, on success,
// inserts the value", and that the delete callback runs exactly once for every entry that leaves the cache, for EVERY
// history of GetOrCreate / Remove / Clear. What makes "once per miss" true is that, whenever the mutex is free, a key
// whose creation has succeeded is resident or still registered as in flight. When the release (close / delete of the
// registration) and the insert are two critical sections, a caller that takes the mutex in between sees a miss and no
// registration, registers and calls the create function a second time although nothing was removed; the loser's Add
// fails on the duplicate key, so a created value is handed out that is never resident and never reaches the delete
// callback: two creations for one miss and a create/delete account that is off by one - observations no reference LRU
// produces.
//
// Not flagged (behaviour preserving): the epilogue in a helper that locks for itself or expects the lock, a deferred
// epilogue that does close+delete+Add in one section, defer vs explicit Unlock, inverted error test, single-exit style.
// Over-approximation: a may-analysis without path conditions across helpers beyond constant flags - an epilogue whose
// second section is only entered when the first one released nothing, expressed through a non-constant flag, would be
// flagged; an insert in a later section that is preceded by a re-check of residency AND a fresh registration is not
// (the registration event resets the automaton).
func (c *Ctx) lruMissCompletesInOneSectionI(r *lruRoles, rule string) {
	c.lruReleaseInsertSectionV(r, rule)
}
