package rules

// C14.R12 - every advance of the write index leaves one slot empty.
//
// The ring tells full from empty by keeping one slot free: Cap() = len(buf)-1, Len() = (w - r) mod len(buf). A method
// that advances the write index until it meets the read index makes a full buffer look empty: everything stored is
// lost. Write is protected by its not-full guard (R3); the clause here is the general one, for every method that
// advances the write index by a COUNT (a block write): with o the write index before the store, v the stored value
// (before the wrap to 0) and r the read index,
//
//	when o <  r:  v <= r - 1                 (the free slots are [o, r-1))
//	when o >= r:  v <= r - 1 + len(buf)      (free up to the end of the array and on to r-1; for r = 0 the last slot stays free)
//
// or the count v - o is at most Cap() - Len() = len(buf) - 1 - Len() for a call of Len() that dominates the store with no
// index write in between;
// proved with the symbolic linear bounds under every choice of phi edges and helper exits, each case with its
// assumption added to the branch facts. An advance by exactly one element (v = o+1, or the wrapped 0) behind a not-full
// guard (Len() != Cap(), Len() < Cap(), next(w) != r) is R3's single-element case and is accepted as such. An advance
// whose value the engine cannot express gets no obligation.

import (
	"go/token"
	"strings"

	"golang.org/x/tools/go/ssa"

	"verif/checker/ir"
)

func (k *c14) writeAdvancesKeepSpareSlot(scope []*ssa.Function) {
	c := k.Ctx
	L := c14atom("L")
	for _, fn := range scope {
		fn := fn
		ir.Instrs(fn, func(in ssa.Instruction) {
			if _, ok := k.idxStore(in, k.wIdx); !ok || k.isFoldStore(in, k.wIdx) {
				return
			}
			S := in.(*ssa.Store)
			base := k.guardFacts(S.Block())
			notFull := false
			for _, ft := range base {
				cm, ok := ft.Cmp()
				if !ok {
					continue
				}
				lc := k.lenCall(cm.X) && k.capCall(cm.Y)
				cl := k.capCall(cm.X) && k.lenCall(cm.Y)
				if (lc && (cm.Op == token.NEQ || cm.Op == token.LSS)) || (cl && (cm.Op == token.NEQ || cm.Op == token.GTR)) {
					notFull = true
				}
				if cm.Op == token.NEQ && k.nextOfWriteIsReadV(fn, cm) {
					notFull = true
				}
			}
			var lens []*ssa.Call
			ir.Instrs(fn, func(x ssa.Instruction) {
				if lc, isCall := x.(*ssa.Call); isCall && k.lenCall(lc) && ir.Dominates(lc, S) && !k.writeBetweenV(lc, S) {
					lens = append(lens, lc)
				}
			})
			why, understood, finished := "", true, false
			ok := k.forAllChoices(fn, func(e *c14env, efs []ir.Fact) bool {
				o := e.fieldLoad(S, k.wIdx)
				v := e.lin(S.Val)
				r := e.fieldLoad(S, k.rIdx)
				if len(e.need) > 0 {
					return false
				}
				e.c14shared.frozen = true
				for _, f := range []c14lform{o, v, r} {
					for key := range f.t {
						if strings.HasPrefix(key, "x:") || (strings.HasPrefix(key, "v:") && !k.paramOrPhiAtomV(fn, key)) {
							understood = false
							return false
						}
					}
				}
				finished = true
				d := v.add(o, -1)
				if notFull && ((len(d.t) == 0 && d.c == 1) || (len(v.t) == 0 && v.c == 0)) {
					return true // one element behind the not-full guard
				}
				all := append(append([]ir.Fact{}, base...), k.expandFacts(efs, 0)...)
				facts := append(e.factForms(all), e.extra...)
				// x != 0 for a non-negative x is x >= 1
				for _, ft := range all {
					cm, isCmp := ft.Cmp()
					if !isCmp || cm.Op != token.NEQ || !isIntTypeB(cm.X.Type()) {
						continue
					}
					x, y := cm.X, cm.Y
					if kk, isC := ir.ConstInt(x); isC && kk == 0 {
						x, y = y, x
					}
					if kk, isC := ir.ConstInt(y); isC && kk == 0 {
						if fx := e.lin(x); e.geq0(fx, facts, 0) {
							facts = append(facts, fx.add(c14const(1), -1))
						}
					}
				}
				// the count is bounded by the free room Cap() - Len(), for a Len() that is still current at the store
				for _, lc := range lens {
					if e.geq0(L.add(c14const(1), -1).add(e.lin(lc), -1).add(d, -1), facts, 0) {
						return true
					}
				}
				// (a case whose assumption contradicts a branch fact of the chosen path is vacuous)
				vacuous := func(assume c14lform) bool {
					for _, g := range facts {
						if sum := assume.add(g, 1); len(sum.t) == 0 && sum.c < 0 {
							return true
						}
					}
					return false
				}
				if len(d.t) == 0 && d.c == 1 {
					understood = false // one element without a guard in this function: R3's business (the guard may be the caller's)
					return false
				}
				// o < r
				fa := append(append([]c14lform{}, facts...), r.add(o, -1).add(c14const(1), -1))
				if !vacuous(r.add(o, -1).add(c14const(1), -1)) && !e.geq0(r.add(c14const(1), -1).add(v, -1), fa, 0) {
					why = "when the write index " + relShowV(o) + " is below the read index, the new write index " + relShowV(v) + " is not shown to stay below it"
					return false
				}
				// o >= r
				fb := append(append([]c14lform{}, facts...), o.add(r, -1))
				if !vacuous(o.add(r, -1)) && !e.geq0(r.add(c14const(1), -1).add(L, 1).add(v, -1), fb, 0) {
					why = "when the write index " + relShowV(o) + " is at or above the read index " + relShowV(r) + ", the new write index " + relShowV(v) + " is not shown to stop one slot before the read index (L = len(buf): at most " + relShowV(r.add(c14const(1), -1).add(L, 1)) + ")"
					return false
				}
				return true
			})
			if !understood || (!ok && !(finished && why != "")) {
				return
			}
			c.Decide("C14.R12", fn, "the advance of the write index leaves one slot empty", S, ok,
				fn.Name()+" can advance the write index onto the read index: "+why+" - the spare slot is filled, Len() becomes 0 for a full buffer and everything in it is lost")
		})
	}
}

func (k *c14) paramOrPhiAtomV(fn *ssa.Function, key string) bool {
	for _, p := range fn.Params {
		if key == "v:"+p.Name() {
			return true
		}
	}
	found := false
	ir.Instrs(fn, func(in ssa.Instruction) {
		if p, ok := in.(*ssa.Phi); ok && key == "v:"+p.Name() {
			found = true
		}
	})
	return found
}
