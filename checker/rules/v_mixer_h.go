package rules

// C18.T12 - a resettable iterator of the package refuses Reset only when it is closed (or when an input of its own
// cannot be reset). Companion of T10: Mixer.Reset restarts the merge "when both inputs can be reset"; an input that
// implements golibs.Reseter and was never closed can be reset, so its Reset must not fail in a state a constructor (or
// the iteration) can produce - e.g. an empty input built from a nil slice. For every Iterator+Reseter type whose Reset
// can succeed, every failing exit of Reset (in-package callees that deliver the error are looked into) must be
//   - the propagation of an error delivered by the environment (a nested iterator's Reset, an external call), or
//   - guarded by a failed assertion of a capability (x.(golibs.Reseter) not ok, or a field that only ever holds the
//     result of such an assertion, found nil), or by an error of the environment found non-nil, or
//   - guarded by a test of a field that only Close can make true: the zero value of the field and every value stored
//     to the field outside the call closure of Close are constants that fail the test (a dedicated closed marker).
// A failing exit guarded only by tests of fields that a constructor or the iteration writes with other values is a
// refusal in a state of a live iterator: violated. An exit whose guards are not understood is not established.

import (
	"fmt"
	"go/constant"
	"go/token"
	"go/types"
	"sort"
	"strings"

	"golang.org/x/tools/go/ssa"

	"verif/checker/ir"
)

const (
	c18T12           = "C18.T12"
	c18RefusesClosed = "Reset refuses only a closed iterator or an input that cannot be reset"
)

func (c *Ctx) resetRefusesOnlyClosed(rule, rel string) {
	roles := c.iteratorRoles(rel)
	pkg := c.P.SSAPkg(rel)
	all := c.P.FuncsOf(rel)
	for _, nt := range c.P.NamedTypes(rel) {
		if _, isI := nt.Underlying().(*types.Interface); isI {
			continue
		}
		ok := true
		for _, m := range roles.iterate {
			if fn := c.methodOn(nt, m); fn == nil || len(fn.Blocks) == 0 {
				ok = false
			}
		}
		closeFn := c.methodOn(nt, roles.closing)
		resetFn := c.methodOn(nt, roles.resetM)
		if !ok || closeFn == nil || resetFn == nil || len(resetFn.Blocks) == 0 {
			continue
		}
		if rs := resetFn.Signature.Results(); rs.Len() != 1 || !ir.IsErrorType(rs.At(0).Type()) {
			continue
		}
		canSucceed := false
		for _, ret := range ir.Returns(resetFn) {
			if ir.ClassifyErr(ir.ResultValue(ret, 0), ret.Block()) != ir.ErrNonNil {
				canSucceed = true
			}
		}
		if !canSucceed {
			continue
		}
		inClose := map[*ssa.Function]bool{}
		for _, f := range closureOf([]*ssa.Function{closeFn}, pkg) {
			inClose[f] = true
		}
		a := &refusalAnalysis{c: c, pkg: pkg, all: all, inClose: inClose, seen: map[*ssa.Function]bool{}}
		a.exits(resetFn, 0)
		sort.Strings(a.bad)
		sort.Strings(a.unknown)
		switch {
		case len(a.bad) > 0:
			c.DecideAt(rule, nt.Obj().Name(), c18RefusesClosed, a.pos, false,
				"Reset() of this iterator can fail for an iterator that was never closed, so Mixer.Reset() fails (and the merge is not restarted) although both inputs can be reset: "+strings.Join(a.bad, "; "))
		case len(a.unknown) > 0:
			c.UndecidedAt(rule, nt.Obj().Name(), c18RefusesClosed, a.pos, "a failing exit of Reset is guarded by conditions the rule does not understand: "+strings.Join(a.unknown, "; "))
		default:
			c.DecideAt(rule, nt.Obj().Name(), c18RefusesClosed, nt.Obj().Pos(), true, "")
		}
	}
}

type refusalAnalysis struct {
	c       *Ctx
	pkg     *ssa.Package
	all     []*ssa.Function
	inClose map[*ssa.Function]bool
	seen    map[*ssa.Function]bool
	bad     []string
	unknown []string
	pos     token.Pos
}

// leaves lists the values v is computed from (through phis, conversions, extracts).
func errLeaves(v ssa.Value, depth int, seen map[ssa.Value]bool, out *[]ssa.Value) {
	if v == nil || depth > 12 || seen[v] {
		return
	}
	seen[v] = true
	switch x := v.(type) {
	case *ssa.Phi:
		for _, e := range x.Edges {
			errLeaves(e, depth+1, seen, out)
		}
	case *ssa.ChangeInterface:
		errLeaves(x.X, depth+1, seen, out)
	case *ssa.MakeInterface:
		errLeaves(x.X, depth+1, seen, out)
	case *ssa.Extract:
		errLeaves(x.Tuple, depth+1, seen, out)
	case *ssa.UnOp:
		if x.Op == token.MUL {
			if a, ok := x.X.(*ssa.Alloc); ok {
				for _, st := range ir.StoresTo(a) {
					errLeaves(st.Val, depth+1, seen, out)
				}
				return
			}
		}
		*out = append(*out, v)
	default:
		*out = append(*out, v)
	}
}

func (a *refusalAnalysis) inPkgCallee(call *ssa.Call) *ssa.Function {
	if call.Common().IsInvoke() {
		return nil
	}
	fn := ir.StaticCallee(call)
	if fn == nil || len(fn.Blocks) == 0 {
		return nil
	}
	root := fn
	for root.Parent() != nil {
		root = root.Parent()
	}
	if root.Pkg != a.pkg {
		return nil
	}
	return fn
}

// exits examines the failing exits of fn.
func (a *refusalAnalysis) exits(fn *ssa.Function, depth int) {
	if a.seen[fn] || depth > 3 {
		return
	}
	a.seen[fn] = true
	idx := ir.ErrResultIndex(fn)
	if idx < 0 {
		return
	}
	for _, ret := range ir.Returns(fn) {
		v := ir.ResultValue(ret, idx)
		if ir.ClassifyErr(v, ret.Block()) == ir.ErrNil {
			continue
		}
		// an error handed over by the environment, or by a callee of the package (examined in turn)
		var ls []ssa.Value
		errLeaves(v, 0, map[ssa.Value]bool{}, &ls)
		propagated := false
		for _, l := range ls {
			if call, ok := l.(*ssa.Call); ok {
				if cal := a.inPkgCallee(call); cal != nil {
					if ir.ErrResultIndex(cal) >= 0 {
						a.exits(cal, depth+1)
						propagated = true
					}
				} else if !isErrorConstructor(call) {
					propagated = true
				}
			}
		}
		if propagated {
			continue
		}
		accepted := false
		var fieldGuards []string
		for _, f := range ir.Facts(ret.Block()) {
			switch a.classifyFact(f, depth) {
			case "ok":
				accepted = true
			case "":
			default:
				fieldGuards = append(fieldGuards, a.classifyFact(f, depth))
			}
		}
		if !accepted && len(fieldGuards) == 0 {
			// "if a || b { return err }" compiled to two branches into one block: every way in must be acceptable
			accepted = a.everyWayIn(ret.Block(), depth, 0)
		}
		if accepted {
			continue
		}
		if !a.pos.IsValid() {
			a.pos = ret.Pos()
		}
		where := relName(fn) + " (" + a.c.P.InstrPos(ret) + ")"
		if len(fieldGuards) > 0 {
			a.bad = append(a.bad, where+" fails under "+strings.Join(fieldGuards, " and "))
		} else {
			a.unknown = append(a.unknown, where)
		}
	}
}

func isErrorConstructor(call *ssa.Call) bool {
	switch ir.CalleeFullName(call) {
	case "fmt.Errorf", "errors.New":
		return true
	}
	return false
}

// classifyFact: "ok" - the fact restricts the exit to a closed iterator / an incapable or failing environment;
// "<text>" - a test of a field that live iterators can satisfy; "" - not a guard the rule understands.
func (a *refusalAnalysis) classifyFact(f ir.Fact, depth int) string {
	f = f.StripNot()
	// a || b found true (a && b found false): the exit is reached under either operand - each must be acceptable
	if phi, ok := f.Cond.(*ssa.Phi); ok && depth < 6 {
		res := "ok"
		for i, e := range phi.Edges {
			var sub string
			if k, isConst := e.(*ssa.Const); isConst && k.Value != nil && k.Value.Kind() == constant.Bool {
				if constant.BoolVal(k.Value) != f.True {
					continue // this edge does not make the condition come out as found
				}
				ef := ir.EdgeFact(phi.Block().Preds[i], phi.Block())
				if ef == nil {
					return ""
				}
				sub = a.classifyFact(*ef, depth+1)
			} else {
				sub = a.classifyFact(ir.Fact{Cond: e, True: f.True}, depth+1)
			}
			if sub == "" {
				return ""
			}
			if sub != "ok" {
				res = sub
			}
		}
		return res
	}
	// x.(T) not ok
	if ex, ok := f.Cond.(*ssa.Extract); ok && ex.Index == 1 {
		if _, isTA := ex.Tuple.(*ssa.TypeAssert); isTA && !f.True {
			return "ok"
		}
	}
	var field *types.Var
	var pred func(v constant.Value, isNil bool) (bool, bool) // (satisfied, decidable)
	var text string
	if fld := ir.LoadedField(f.Cond); fld != nil {
		field = fld
		want := f.True
		pred = func(v constant.Value, isNil bool) (bool, bool) {
			if v == nil || v.Kind() != constant.Bool {
				return false, false
			}
			return constant.BoolVal(v) == want, true
		}
		text = fmt.Sprintf("%s == %v", fld.Name(), want)
	} else if cmp, ok := f.Cmp(); ok {
		x, y := cmp.X, cmp.Y
		op := cmp.Op
		if ir.LoadedField(x) == nil && ir.LoadedField(y) != nil {
			x, y, op = y, x, ir.SwapOp(op)
		}
		// an error of the environment found non-nil
		if op == token.NEQ && ir.IsNilConst(y) && ir.IsErrorType(x.Type()) {
			var ls []ssa.Value
			errLeaves(x, 0, map[ssa.Value]bool{}, &ls)
			for _, l := range ls {
				if call, isCall := l.(*ssa.Call); isCall && !isErrorConstructor(call) {
					if cal := a.inPkgCallee(call); cal != nil {
						a.exits(cal, depth+1)
					}
					return "ok"
				}
			}
		}
		fld := ir.LoadedField(x)
		if fld == nil {
			// len(field) compared: every live iterator may satisfy it
			if call, isCall := ir.Resolve(x).(*ssa.Call); isCall {
				if b, isB := call.Common().Value.(*ssa.Builtin); isB && len(call.Common().Args) == 1 {
					if lf := ir.LoadedField(call.Common().Args[0]); lf != nil {
						return fmt.Sprintf("a test of %s(%s), which the constructor decides", b.Name(), lf.Name())
					}
				}
			}
			return ""
		}
		c, isConst := ir.Resolve(y).(*ssa.Const)
		if !isConst {
			return fmt.Sprintf("a test of %s against a value that is not constant", fld.Name())
		}
		field = fld
		cv, cnil := c.Value, c.Value == nil
		pred = func(v constant.Value, isNil bool) (bool, bool) {
			if cnil || isNil {
				if !(cnil && isNil) {
					return false, false
				}
				return op == token.EQL, op == token.EQL || op == token.NEQ
			}
			if v == nil || cv == nil || v.Kind() != cv.Kind() && !(isNumeric(v) && isNumeric(cv)) {
				return false, false
			}
			return constant.Compare(v, op, cv), true
		}
		text = fmt.Sprintf("%s %s %s", fld.Name(), op, c.Name())
	} else {
		return ""
	}
	// capability field: only ever holds the result of a type assertion (or nil), tested for nil
	if sat, dec := pred(nil, true); dec && sat && a.capabilityField(field) {
		return "ok"
	}
	// closed marker: the zero value and every store outside Close fail the test
	zv, znil := zeroConst(field.Type())
	if sat, dec := pred(zv, znil); !dec || sat {
		return "the test " + text + ", which holds for a freshly built iterator whose field " + field.Name() + " has the zero value (e.g. an empty input)"
	}
	for _, fn := range a.all {
		if a.inClose[fn] {
			continue
		}
		bad := ""
		ir.Instrs(fn, func(in ssa.Instruction) {
			st, ok := in.(*ssa.Store)
			if !ok {
				return
			}
			fa, ok := st.Addr.(*ssa.FieldAddr)
			if !ok || ir.FieldOf(fa) != field {
				return
			}
			k, isConst := st.Val.(*ssa.Const)
			if !isConst {
				bad = "the test " + text + ", but " + relName(fn) + " stores a value that is not constant to " + field.Name() + " (" + a.c.P.InstrPos(st) + ")"
				return
			}
			if sat, dec := pred(k.Value, k.Value == nil && !isBasic(field.Type())); !dec || sat {
				bad = "the test " + text + ", which " + relName(fn) + " makes true outside Close (" + a.c.P.InstrPos(st) + ")"
			}
		})
		if bad != "" {
			return bad
		}
	}
	return "ok"
}

func isNumeric(v constant.Value) bool {
	return v.Kind() == constant.Int || v.Kind() == constant.Float
}

func isBasic(t types.Type) bool {
	_, ok := t.Underlying().(*types.Basic)
	return ok
}

func zeroConst(t types.Type) (constant.Value, bool) {
	if b, ok := t.Underlying().(*types.Basic); ok {
		switch {
		case b.Info()&types.IsBoolean != 0:
			return constant.MakeBool(false), false
		case b.Info()&types.IsNumeric != 0:
			return constant.MakeInt64(0), false
		case b.Info()&types.IsString != 0:
			return constant.MakeString(""), false
		}
	}
	return nil, true
}

// capabilityField: every store to the field in the package stores nil or the result of a type assertion.
func (a *refusalAnalysis) capabilityField(field *types.Var) bool {
	n := 0
	ok := true
	for _, fn := range a.all {
		ir.Instrs(fn, func(in ssa.Instruction) {
			st, isSt := in.(*ssa.Store)
			if !isSt {
				return
			}
			fa, isFA := st.Addr.(*ssa.FieldAddr)
			if !isFA || ir.FieldOf(fa) != field {
				return
			}
			if ir.IsNilConst(st.Val) {
				return
			}
			v := st.Val
			if ex, isEx := v.(*ssa.Extract); isEx && ex.Index == 0 {
				v = ex.Tuple
			}
			if _, isTA := v.(*ssa.TypeAssert); isTA {
				n++
				return
			}
			ok = false
		})
	}
	return ok && n > 0
}

// everyWayIn: block b has several predecessors and each edge into it (or the predecessor itself) carries an accepted fact.
func (a *refusalAnalysis) everyWayIn(b *ssa.BasicBlock, depth, n int) bool {
	if len(b.Preds) < 2 || n > 3 {
		return false
	}
	for _, p := range b.Preds {
		ok := false
		if ef := ir.EdgeFact(p, b); ef != nil && a.classifyFact(*ef, depth) == "ok" {
			ok = true
		}
		if !ok {
			for _, f := range ir.Facts(p) {
				if a.classifyFact(f, depth) == "ok" {
					ok = true
				}
			}
		}
		if !ok && !a.everyWayIn(p, depth, n+1) {
			return false
		}
	}
	return true
}
