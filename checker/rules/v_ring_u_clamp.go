package rules

// C14.R6 when the request is clamped once, in front of the loop.
//
// R6 wants the caller's count bounded by Len() (or another quantity that cannot exceed len(buf)) where it enters index
// arithmetic. The original Skip re-clamps n inside the loop, so a branch fact bounds every use. A Skip that clamps once
// before the loop (`if n > Len() { n = Len() }; for n > 0 { ...; n -= consumed }`) has the bound on the value that ENTERS
// the loop only; inside, n is the loop variable phi(n_clamped, n - consumed). By induction the loop variable never
// exceeds the value it entered with as long as every value that flows back into it is the variable itself minus
// something (R6 takes `x - consumed` for no larger than x wherever it meets it: consumed counts are lengths of
// segments). So: a phi of a loop header every back-edge operand of which is (a chain of subtractions from) the phi
// itself is bounded when its entry operands are; the recursion through the back edge ends at the phi.
// A loop variable that is also increased, or re-assigned from something else in the loop, does not qualify, and an
// entry operand that is not clamped is reported as before.

import (
	"go/token"

	"golang.org/x/tools/go/ssa"
)

// clampedLoopVarV: p is a phi of a loop header, and every operand that arrives over a back edge is p minus something
// (possibly through phis merged in the body whose operands are all of that form, or p itself).
func clampedLoopVarV(p *ssa.Phi) bool {
	h := p.Block()
	if !isLoopHeaderB(h) {
		return false
	}
	var decreased func(v ssa.Value, depth int) bool
	decreased = func(v ssa.Value, depth int) bool {
		if depth > 4 {
			return false
		}
		if v == ssa.Value(p) {
			return true
		}
		switch x := v.(type) {
		case *ssa.BinOp:
			return x.Op == token.SUB && decreased(x.X, depth+1)
		case *ssa.Phi:
			if x.Block() == h {
				return false
			}
			for _, e := range x.Edges {
				if !decreased(e, depth+1) {
					return false
				}
			}
			return len(x.Edges) > 0
		}
		return false
	}
	back := 0
	for i, pred := range h.Preds {
		if !h.Dominates(pred) {
			continue
		}
		back++
		if !decreased(p.Edges[i], 0) {
			return false
		}
	}
	return back > 0
}
