package rules

import (
	"go/constant"
	"go/token"
	"go/types"
	"strings"

	"golang.org/x/tools/go/ssa"

	"verif/checker/ir"
)

const redisPkg = "github.com/go-redis/redis/v8"

type redisRoles struct {
	client                               *types.Named
	recordT                              *types.Named
	recKey, recVersion, recExpires       *types.Var
	storage                              map[string]*ssa.Function
	all                                  []*ssa.Function
	encode, expiration, mapKey, unmapKey *ssa.Function
	mapErr                               *ssa.Function
	newID                                *ssa.Function
	toProto, fromProto                   *ssa.Function
}

func resolveRedisRoles(c *Ctx) *redisRoles {
	r := &redisRoles{storage: map[string]*ssa.Function{}}
	var iface *types.Named
	r.recordT, r.recKey, r.recVersion, r.recExpires, iface = resolveRecordRoles(c)
	impls := c.P.Implementers("kvs/redis", iface.Underlying().(*types.Interface))
	if len(impls) != 1 {
		c.Fatalf("role redis backend: expected one implementation of kvs.Storage in kvs/redis, found %d", len(impls))
	}
	r.client = impls[0]
	c.Role("redis.client", r.client.Obj().Name(), r.client.Obj().Pos())
	for _, n := range storageMethodNames() {
		r.storage[n] = c.RequireFn(c.P.MethodOf(r.client, n), "redis."+n)
	}
	r.all = c.P.FuncsOf("kvs/redis")
	pk := c.P.SSAPkg("kvs/redis")
	isStr := func(t types.Type) bool { b, ok := t.Underlying().(*types.Basic); return ok && b.Kind() == types.String }
	for _, m := range pk.Members {
		fn, ok := m.(*ssa.Function)
		if !ok || len(fn.Blocks) == 0 || fn.Signature.Recv() != nil {
			continue
		}
		ps, rs := sigOf(fn)
		switch {
		case len(ps) == 1 && len(rs) == 1 && namedOf(ps[0]) == r.recordT && isByteSlice(rs[0]) && !fn.Object().Exported():
			// the encoder is the function that marshals (it calls the record->proto conversion); a helper that stamps a
			// version and then calls the encoder has the same signature
			if r.encode == nil || callsByName(fn, "Record2protoRecord") {
				r.encode = fn
			}
		case len(ps) == 2 && len(rs) == 1 && ir.IsNamed(rs[0], "time", "Duration") && ir.IsNamed(ps[1], "time", "Time"):
			r.expiration = fn
		case len(ps) == 1 && len(rs) == 1 && ir.IsErrorType(ps[0]) && ir.IsErrorType(rs[0]):
			r.mapErr = fn
		case len(ps) == 1 && len(rs) == 1 && isStr(ps[0]) && isStr(rs[0]):
			// the key mapping produces the prefixed key with Sprintf / concatenation; its inverse slices
			if usesSlice(fn) {
				r.unmapKey = fn
			} else {
				r.mapKey = fn
			}
		}
	}
	c.RequireFn(r.encode, "redis.encodeRecord")
	c.RequireFn(r.expiration, "redis.expiration")
	c.RequireFn(r.mapKey, "redis.keyMapping")
	c.RequireFn(r.unmapKey, "redis.keyUnmapping")
	c.RequireFn(r.mapErr, "redis.errorMapping")
	c.Role("redis.encodeRecord", relName(r.encode), r.encode.Pos())
	c.Role("redis.expiration", relName(r.expiration), r.expiration.Pos())
	c.Role("redis.keyMapping", relName(r.mapKey), r.mapKey.Pos())
	c.KeyByRole(r.mapKey, "redis.keyMapping")
	c.Role("redis.keyUnmapping", relName(r.unmapKey), r.unmapKey.Pos())
	c.Role("redis.errorMapping", relName(r.mapErr), r.mapErr.Pos())
	r.newID = c.P.Func("ulidutils", "NewID")
	r.toProto = c.RequireFn(c.P.Func("kvs/redis", "Record2protoRecord"), "redis.Record2protoRecord")
	r.fromProto = c.RequireFn(c.P.Func("kvs/redis", "ProtoRecord2Record"), "redis.ProtoRecord2Record")
	return r
}

func isByteSlice(t types.Type) bool {
	s, ok := t.Underlying().(*types.Slice)
	return ok && types.Identical(s.Elem(), types.Typ[types.Byte])
}

func usesSlice(fn *ssa.Function) bool {
	found := false
	ir.Instrs(fn, func(in ssa.Instruction) {
		if s, ok := in.(*ssa.Slice); ok {
			if _, isParam := ir.Resolve(s.X).(*ssa.Parameter); isParam {
				for _, ret := range ir.Returns(fn) {
					if ir.Resolve(ret.Results[0]) == ssa.Value(s) {
						found = true
					}
				}
			}
		}
	})
	return found
}

// redisCmd reports whether in is a call of the go-redis command `name` (on the client, a Tx or a pipeline).
func redisCmd(in ssa.Instruction, name string) *ssa.Call {
	call, ok := in.(*ssa.Call)
	if !ok {
		return nil
	}
	if call.Call.IsInvoke() {
		if call.Call.Method.Name() == name && call.Call.Method.Pkg() != nil && call.Call.Method.Pkg().Path() == redisPkg {
			return call
		}
		return nil
	}
	fn := ir.CalleeFullName(call)
	if strings.HasPrefix(fn, "("+redisPkg+".") || strings.HasPrefix(fn, "(*"+redisPkg+".") {
		if strings.HasSuffix(fn, ")."+name) {
			return call
		}
	}
	return nil
}

// cmdArgs returns the arguments of a redis command after ctx (receiver and ctx stripped).
func cmdArgs(call *ssa.Call) []ssa.Value {
	a := ir.MethodArgs(call)
	if len(a) > 0 {
		return a[1:]
	}
	return a
}

// withClosures returns fn and the closures defined in it.
func withClosures(fn *ssa.Function) []*ssa.Function {
	res := []*ssa.Function{fn}
	for _, a := range fn.AnonFuncs {
		res = append(res, withClosures(a)...)
	}
	return res
}

// recordCellOf returns the local cell whose address was passed to the encoder producing value v.
func (r *redisRoles) recordCellOf(v ssa.Value) ssa.Value {
	for _, o := range ir.Origins(v) {
		call, ok := o.(*ssa.Call)
		if !ok {
			continue
		}
		if ir.StaticCallee(call) == r.encode {
			return call.Call.Args[0]
		}
		// cast.ByteArrayToString(rec2db(&r))
		if len(call.Call.Args) == 1 {
			if c2 := r.recordCellOf(call.Call.Args[0]); c2 != nil {
				return c2
			}
		}
	}
	return nil
}

// ---------------------------------------------------------------------------

func (c *Ctx) redisFreshVersions(r *redisRoles, rule string) {
	for _, name := range []string{"Create", "Put", "PutMany", "CasByVersion"} {
		fn := r.storage[name]
		n := 0
		for _, f := range withClosures(fn) {
			ir.Instrs(f, func(in ssa.Instruction) {
				call, ok := in.(*ssa.Call)
				if !ok || ir.StaticCallee(call) != r.encode {
					return
				}
				n++
				c.freshVersion(rule, f, in, call.Call.Args[0], r.recVersion, r.newID, "encoded record has a fresh version")
			})
		}
		if n == 0 && name != "PutMany" {
			c.Decide(rule, fn, "writing method encodes a record", nil, false, "the method does not encode a record for storing")
		}
	}
}

func (c *Ctx) redisAtomicPrimitives(r *redisRoles, rule string) {
	// Create: the only write command is SetNX
	{
		fn := r.storage["Create"]
		nx, other := 0, 0
		ir.Instrs(fn, func(in ssa.Instruction) {
			if redisCmd(in, "SetNX") != nil {
				nx++
			}
			for _, w := range []string{"Set", "MSet", "SetEX", "SetXX", "Del", "GetSet", "Append"} {
				if redisCmd(in, w) != nil {
					other++
				}
			}
			if call, ok := in.(*ssa.Call); ok {
				for _, w := range []string{"Put", "PutMany", "CasByVersion", "Delete"} {
					if ir.StaticCallee(call) == r.storage[w] {
						other++
					}
				}
			}
		})
		c.Decide(rule, fn, "Create is SETNX only", nil, nx >= 1 && other == 0, "Create does not use the atomic create-if-absent command exclusively (a check followed by SET lets two racing creators both succeed)")
		// success exit only on the ok edge of SetNX
		for _, ret := range ir.Returns(fn) {
			if ir.ClassifyErr(ir.ResultValue(ret, 1), ret.Block()) != ir.ErrNil {
				continue
			}
			okEdge := ir.HasFact(ret.Block(), func(f ir.Fact) bool {
				ff := f.StripNot()
				ex, isEx := ff.Cond.(*ssa.Extract)
				if !isEx || ex.Index != 0 || !ff.True {
					return false
				}
				res, isCall := ex.Tuple.(*ssa.Call)
				if !isCall {
					return false
				}
				inner, isInner := ir.Recv(res).(*ssa.Call)
				return isInner && redisCmd(inner, "SetNX") != nil
			})
			c.Decide(rule, fn, "Create succeeds only when SETNX set the key", ret, okEdge, "Create reports success on a path where SETNX did not report that it set the key")
		}
	}
	// CasByVersion: Watch(fn, key); inside: Get on the Tx, Set on the pipeline of TxPipelined; same key
	{
		fn := r.storage["CasByVersion"]
		var watch *ssa.Call
		ir.Instrs(fn, func(in ssa.Instruction) {
			if w := redisCmd(in, "Watch"); w != nil {
				watch = w
			}
		})
		if watch == nil {
			c.Decide(rule, fn, "CAS runs inside WATCH", nil, false, "CasByVersion does not use WATCH/MULTI/EXEC: the version check and the write are not atomic")
			return
		}
		args := ir.MethodArgs(watch) // ctx, fn, keys...
		var cb *ssa.Function
		if mc, ok := args[1].(*ssa.MakeClosure); ok {
			cb = mc.Fn.(*ssa.Function)
		}
		var watched []ssa.Value
		if len(args) >= 3 {
			watched = variadicArgs(args[2])
		}
		if cb == nil || len(watched) == 0 {
			c.Undecided(rule, fn, "CAS runs inside WATCH", watch, "cannot resolve the transaction callback / watched keys")
			return
		}
		sameKey := func(v ssa.Value) bool {
			for _, w := range watched {
				if ir.Path(w) == ir.Path(v) || r.sameMappedKeyV(w, v) {
					return true
				}
			}
			return false
		}
		var get, set *ssa.Call
		var setFn *ssa.Function
		for _, f := range withClosures(cb) {
			ir.Instrs(f, func(in ssa.Instruction) {
				if g := redisCmd(in, "Get"); g != nil {
					get = g
				}
				if s := redisCmd(in, "Set"); s != nil {
					set, setFn = s, f
				}
			})
		}
		onTx := false
		if get != nil {
			if prm, isParam := baseOf(ir.Recv(get)).(*ssa.Parameter); isParam && ir.IsNamed(prm.Type(), redisPkg, "Tx") {
				onTx = true
			}
		}
		okGet := get != nil && get.Parent() == cb && onTx && sameKey(cmdArgs(get)[0])
		c.Decide(rule, fn, "CAS reads the watched key through the Tx", get, okGet, "the version is not read through the transaction object for the watched key: a concurrent writer is not detected")
		okSet := false
		if set != nil && setFn != cb {
			// the Set is issued inside the function passed to TxPipelined, on the pipeliner parameter
			ir.Instrs(cb, func(in ssa.Instruction) {
				if tp := redisCmd(in, "TxPipelined"); tp != nil {
					if mc, ok := ir.MethodArgs(tp)[1].(*ssa.MakeClosure); ok && mc.Fn == ssa.Value(setFn) {
						if _, isParam := ir.Recv(set).(*ssa.Parameter); isParam && sameKey(cmdArgs(set)[0]) {
							okSet = true
						}
					}
				}
			})
		}
		// the other spelling of MULTI/EXEC: pipe := tx.TxPipeline(); pipe.Set(...); pipe.Exec(ctx) in the callback itself
		viaTxPipeline := false
		if set != nil && setFn == cb && !okSet && sameKey(cmdArgs(set)[0]) {
			var pipe *ssa.Call
			for _, o := range ir.Origins(ir.Recv(set)) {
				if pc, isCall := o.(*ssa.Call); isCall && redisCmd(pc, "TxPipeline") != nil {
					if prm, isParam := baseOf(ir.Recv(pc)).(*ssa.Parameter); isParam && ir.IsNamed(prm.Type(), redisPkg, "Tx") {
						pipe = pc
					}
				}
			}
			if pipe != nil {
				isExec := func(x ssa.Instruction) bool {
					ex := redisCmd(x, "Exec")
					if ex == nil {
						return false
					}
					for _, o := range ir.Origins(ir.Recv(ex)) {
						if o == ssa.Value(pipe) {
							return true
						}
					}
					return false
				}
				if w, err := (ir.Query{Fn: cb, From: set, Block: isExec, Target: ir.IsExit}).Find(); err == nil && w == nil {
					okSet, viaTxPipeline = true, true
				}
			}
		}
		c.Decide(rule, fn, "CAS writes the watched key inside MULTI/EXEC", set, okSet, "the write is not queued in the MULTI/EXEC pipeline of the watching transaction for the same key")
		// the write is dominated by the version-equal edge
		if set != nil {
			okCmp := false
			for _, f := range []*ssa.Function{cb} {
				ir.Instrs(f, func(in ssa.Instruction) {
					tp := redisCmd(in, "TxPipelined")
					if tp == nil && viaTxPipeline && in == ssa.Instruction(set) {
						tp = set
					}
					if tp != nil {
						if hasFactCmp(tp.Block(), func(cm ir.Cmp) bool {
							return cm.Op == token.EQL && ir.LoadedField(cm.X) == r.recVersion && ir.LoadedField(cm.Y) == r.recVersion
						}) {
							okCmp = true
						}
					}
				})
			}
			c.Decide(rule, fn, "CAS writes only when the versions are equal", set, okCmp, "the write is not guarded by stored version == expected version")
		}
	}
}

func (c *Ctx) redisLoserOutcome(r *redisRoles, rule string) {
	fn := r.storage["CasByVersion"]
	isTxFailed := func(v ssa.Value) bool {
		v = ir.Resolve(v)
		if cv := ir.ConstVal(v); cv != nil && cv.Kind() == constant.String {
			return constant.StringVal(cv) == "redis: transaction failed"
		}
		return false
	}
	ok := false
	for _, ret := range ir.Returns(fn) {
		ev := ir.ResultValue(ret, ir.ErrResultIndex(fn))
		// some operand of the returned error is ErrConflict arriving over the "err is TxFailedErr" edge
		var visit func(v ssa.Value, from, to *ssa.BasicBlock)
		visit = func(v ssa.Value, from, to *ssa.BasicBlock) {
			if p, isPhi := v.(*ssa.Phi); isPhi {
				for i, e := range p.Edges {
					visit(e, p.Block().Preds[i], p.Block())
				}
				return
			}
			g := globalOf(v)
			if g == nil || g.Name() != "ErrConflict" {
				return
			}
			var facts []ir.Fact
			if from != nil {
				facts = append(ir.Facts(from), edgeFacts(from, to)...)
			} else {
				facts = ir.Facts(ret.Block())
			}
			for _, f := range facts {
				if cm, isCmp := f.Cmp(); isCmp && cm.Op == token.EQL && (isTxFailed(cm.X) || isTxFailed(cm.Y)) {
					ok = true
				}
				ff := f.StripNot()
				if call, isCall := ff.Cond.(*ssa.Call); isCall && ff.True && strings.HasSuffix(ir.CalleeFullName(call), "errors.Is") && len(call.Call.Args) == 2 && isTxFailed(call.Call.Args[1]) {
					ok = true
				}
			}
		}
		visit(ev, nil, nil)
	}
	c.Decide(rule, fn, "lost optimistic transaction -> ErrConflict", nil, ok, "a CasByVersion that loses the WATCH/EXEC race does not report ErrConflict: the loser receives the driver's 'redis: transaction failed'")
	// the class of the loser is decided by a fresh read: a transaction is also lost when the watched key was DELETED (or
	// expired) in between - then no record with "another version" exists and the contract's answer is ErrNotExist. On
	// the TxFailedErr edge the key is read again and the error of that read can reach the result.
	reread := false
	for _, b := range fn.Blocks {
		underTx := ir.HasFact(b, func(f ir.Fact) bool {
			if cm, isCmp := f.Cmp(); isCmp && cm.Op == token.EQL && (isTxFailed(cm.X) || isTxFailed(cm.Y)) {
				return true
			}
			ff := f.StripNot()
			call, isCall := ff.Cond.(*ssa.Call)
			return isCall && ff.True && strings.HasSuffix(ir.CalleeFullName(call), "errors.Is") && len(call.Call.Args) == 2 && isTxFailed(call.Call.Args[1])
		})
		if !underTx {
			continue
		}
		for _, in := range b.Instrs {
			call, isCall := in.(*ssa.Call)
			if !isCall {
				continue
			}
			isRead := ir.StaticCallee(call) == r.storage["Get"] || redisCmd(call, "Get") != nil || redisCmd(call, "Exists") != nil
			if !isRead {
				continue
			}
			// the read's error reaches the returned error
			for _, ret := range ir.Returns(fn) {
				for _, o := range ir.Origins(ir.ResultValue(ret, ir.ErrResultIndex(fn))) {
					if ex, isEx := o.(*ssa.Extract); isEx && ex.Tuple == ssa.Value(call) {
						reread = true
					}
					if oc, isC := o.(*ssa.Call); isC {
						// checkErr(err) of the read / .Err() of the command
						for _, a := range oc.Call.Args {
							for _, o2 := range ir.Origins(a) {
								if ex, isEx := o2.(*ssa.Extract); isEx {
									if res, isRes := ex.Tuple.(*ssa.Call); isRes && (res == call || ir.Recv(res) == ssa.Value(call)) {
										reread = true
									}
								}
							}
						}
					}
				}
			}
		}
	}
	c.Decide(rule, fn, "lost transaction: the key is read again to tell a conflict from a removal", nil, reread,
		"every lost WATCH/EXEC transaction is reported as ErrConflict, but a transaction is also lost when the watched key was deleted or expired in between: the loser is told 'another version is stored' about a record that does not exist (no sequential order of the CAS and the Delete yields ErrConflict); the key must be read again and the read's ErrNotExist returned")
}

// redisTTL is C06.R3/R4/R5 (and C03.R6).
func (c *Ctx) redisTTL(r *redisRoles, r3, r4, r5 string) {
	if r3 != "" {
		n := 0
		for _, name := range storageMethodNames() {
			for _, f := range withClosures(r.storage[name]) {
				ir.Instrs(f, func(in ssa.Instruction) {
					call := redisCmd(in, "Set")
					if call == nil {
						call = redisCmd(in, "SetNX")
					}
					if call == nil {
						return
					}
					n++
					a := cmdArgs(call) // key, value, expiration
					if len(a) < 3 {
						return
					}
					cell := r.recordCellOf(a[1])
					ttl, isCall := ir.Resolve(a[2]).(*ssa.Call)
					ok, detail := false, "the TTL of the SET is not expiration(record.ExpiresAt, time.Now()) of the record being written: the key's lifetime in redis differs from the record's ExpiresAt (kept TTL, stale TTL or none)"
					if isCall && ir.StaticCallee(ttl) == r.expiration && cell != nil {
						exp := ttl.Call.Args[0]
						if ir.LoadedField(exp) == r.recExpires {
							// the ExpiresAt is read from the same cell that is encoded
							if u, isU := ir.Resolve(exp).(*ssa.UnOp); isU {
								if fa, isFA := u.X.(*ssa.FieldAddr); isFA && (fa.X == cell || ir.Path(fa.X) == ir.Path(cell)) {
									ok = true
								} else {
									detail = "the TTL is computed from the ExpiresAt of another record than the one being written (stale record)"
								}
							}
						}
						if now, isNow := ir.Resolve(ttl.Call.Args[1]).(*ssa.Call); !isNow || ir.CalleeFullName(now) != "time.Now" {
							ok = false
						}
					}
					c.Decide(r3, f, call.Call.Value.Name()+" gets the TTL of the record written", in, ok, detail)
				})
			}
		}
		if n < 3 {
			c.R.Errorf("%s matched %d SET/SETNX commands, below its floor of 3", r3, n)
		}
	}
	if r4 != "" {
		fn := r.expiration
		okNil, okClamp := false, false
		for _, ret := range ir.Returns(fn) {
			// result = phi over paths; the nil edge brings 0, the non-nil edges bring a value that passed a clamp
			var visit func(v ssa.Value, from, to *ssa.BasicBlock, depth int)
			visit = func(v ssa.Value, from, to *ssa.BasicBlock, depth int) {
				if depth > 6 {
					return
				}
				if p, isPhi := v.(*ssa.Phi); isPhi {
					for i, e := range p.Edges {
						visit(e, p.Block().Preds[i], p.Block(), depth+1)
					}
					return
				}
				var facts []ir.Fact
				if from != nil {
					facts = append(ir.Facts(from), edgeFacts(from, to)...)
				} else {
					facts = ir.Facts(ret.Block())
				}
				isNilEdge := false
				for _, f := range facts {
					if cm, ok := f.Cmp(); ok && cm.Op == token.EQL {
						if p0, isP := ir.Resolve(cm.X).(*ssa.Parameter); isP && p0 == fn.Params[0] && ir.IsNilConst(cm.Y) {
							isNilEdge = true
						}
					}
				}
				if k, isC := ir.ConstInt(v); isC {
					if isNilEdge && k == 0 {
						okNil = true
					}
					if !isNilEdge && k > 0 {
						okClamp = true // the clamped value
					}
					return
				}
				// non-constant: must be known >= positive constant on this edge
				for _, f := range facts {
					if cm, ok := f.Cmp(); ok && ir.Resolve(cm.X) == ir.Resolve(v) {
						if k, isC := ir.ConstInt(cm.Y); isC && k > 0 && (cm.Op == token.GEQ || cm.Op == token.GTR) {
							okClamp = true
						}
					}
				}
			}
			visit(ir.Resolve(ret.Results[0]), nil, nil, 0)
		}
		c.Decide(r4, fn, "no expiry -> TTL 0 (persistent)", nil, okNil, "a record without ExpiresAt does not map to TTL 0")
		c.Decide(r4, fn, "expiry -> TTL clamped to a positive value", nil, okClamp, "an ExpiresAt in the past (or less than the resolution away) is not clamped to a positive TTL: redis would store the key without expiry or reject the command")
	}
	if r5 != "" {
		fn := r.storage["PutMany"]
		var mset *ssa.Call
		ir.Instrs(fn, func(in ssa.Instruction) {
			if m := redisCmd(in, "MSet"); m != nil {
				mset = m
			}
		})
		if mset == nil {
			return // no batch command: nothing to check
		}
		n := 0
		ir.Instrs(fn, func(in ssa.Instruction) {
			cc := builtinCall(in, "append")
			if cc == nil || len(cc.Args) < 2 {
				return
			}
			// appends of encoded records
			vals := variadicArgs(cc.Args[1])
			for _, v := range vals {
				cell := r.recordCellOf(v)
				if cell == nil {
					continue
				}
				n++
				ok := hasFactCmp(in.Block(), func(cm ir.Cmp) bool {
					if cm.Op != token.EQL || !ir.IsNilConst(cm.Y) || ir.LoadedField(cm.X) != r.recExpires {
						return false
					}
					u, isU := ir.Resolve(cm.X).(*ssa.UnOp)
					if !isU {
						return false
					}
					fa, isFA := u.X.(*ssa.FieldAddr)
					return isFA && fa.X == cell
				})
				if !ok {
					// a pre-pass over the whole batch ("no record expires") instead of a test per record
					ok = r.batchWithoutExpiry(in, cell)
				}
				c.Decide(r5, fn, "MSET batch holds only records without expiry", in, ok, "a record is put into the MSET batch without the test that it has no ExpiresAt: MSET cannot carry a TTL, the record would never expire")
			}
		})
		if n == 0 {
			c.Decide(r5, fn, "MSET batch holds only records without expiry", mset, false, "cannot find where the MSET arguments are assembled")
		}
	}
}

// redisOneStrategy is C03.R5: a batch is written either by one MSET or record by record, in the given order.
func (c *Ctx) redisOneStrategy(r *redisRoles, rule string) {
	fn := r.storage["PutMany"]
	isMSet := func(x ssa.Instruction) bool { return redisCmd(x, "MSet") != nil }
	isSingle := func(x ssa.Instruction) bool {
		if redisCmd(x, "Set") != nil {
			return true
		}
		call, ok := x.(*ssa.Call)
		return ok && ir.StaticCallee(call) == r.storage["Put"]
	}
	mixed := false
	var at ssa.Instruction
	ir.Instrs(fn, func(in ssa.Instruction) {
		if isMSet(in) {
			if w, _ := (ir.Query{Fn: fn, From: in, Target: isSingle}).Find(); w != nil {
				mixed, at = true, w.End
			}
		}
		if isSingle(in) {
			if w, _ := (ir.Query{Fn: fn, From: in, Target: isMSet}).Find(); w != nil {
				mixed, at = true, w.End
			}
		}
	})
	c.Decide(rule, fn, "batch written by one strategy in the given order", at, !mixed, "one PutMany call issues both an MSET and single writes: the records are no longer applied in the order given (a key repeated in the batch ends with the wrong value/expiry)")
	// the record-by-record loop ranges over the parameter slice itself
	okOrder := false
	ir.Instrs(fn, func(in ssa.Instruction) {
		if !isSingle(in) {
			return
		}
		call := in.(*ssa.Call)
		for _, a := range call.Call.Args {
			for _, o := range pairFieldOrigins(a) {
				if u, ok := o.(*ssa.UnOp); ok {
					if ia, ok := u.X.(*ssa.IndexAddr); ok && len(fn.Params) >= 3 && ir.Resolve(ia.X) == ssa.Value(fn.Params[2]) {
						if _, _, step, isInd := inductionVarLoose(ia.Index); isInd && step == 1 {
							okOrder = true
						}
					}
					// the draining spelling of the same walk: rest = batch; for len(rest) > 0 { write(rest[0]); rest = rest[1:] }
					if ia, ok := u.X.(*ssa.IndexAddr); ok && len(fn.Params) >= 3 {
						if cur, isPhi := ia.X.(*ssa.Phi); isPhi && isDrainCursorZB(cur, fn.Params[2]) {
							if k, isC := ir.ConstInt(ia.Index); isC && k == 0 {
								okOrder = true
							}
						}
					}
				}
			}
		}
	})
	c.Decide(rule, fn, "single writes follow the order of the batch", nil, okOrder, "the record-by-record path does not walk the given slice front to back")
}

// inductionVarLoose accepts the rotated range loop form phi(-1, i+1).
func inductionVarLoose(v ssa.Value) (*ssa.Phi, int64, int64, bool) {
	if bo, ok := v.(*ssa.BinOp); ok && bo.Op == token.ADD {
		if k, isC := ir.ConstInt(bo.Y); isC {
			if p, ok := bo.X.(*ssa.Phi); ok {
				for _, e := range p.Edges {
					if e == v {
						return p, 0, k, true
					}
				}
			}
		}
	}
	return inductionVar(v)
}

// redisCodec is C03.R3 / R4.
func (c *Ctx) redisCodec(r *redisRoles, r3, r4 string) {
	st := structOf(r.recordT)
	if r3 != "" {
		read, written := map[*types.Var]bool{}, map[*types.Var]bool{}
		ir.Instrs(r.toProto, func(in ssa.Instruction) {
			if u, ok := in.(*ssa.UnOp); ok && u.Op == token.MUL {
				if fa, ok := u.X.(*ssa.FieldAddr); ok && namedOf(fa.X.Type()) == r.recordT {
					if p, isParam := ir.Resolve(fa.X).(*ssa.Parameter); isParam && p == r.toProto.Params[0] {
						read[ir.FieldOf(fa)] = true
					}
				}
			}
		})
		ir.Instrs(r.fromProto, func(in ssa.Instruction) {
			if stt, ok := in.(*ssa.Store); ok {
				if fa, ok := stt.Addr.(*ssa.FieldAddr); ok && namedOf(fa.X.Type()) == r.recordT {
					written[ir.FieldOf(fa)] = true
				}
			}
		})
		for i := 0; i < st.NumFields(); i++ {
			f := st.Field(i).Origin()
			c.Decide(r3, r.toProto, "encoder reads Record."+f.Name(), nil, read[f], "the record->proto conversion does not read Record."+f.Name()+": the field is lost in redis")
			c.Decide(r3, r.fromProto, "decoder writes Record."+f.Name(), nil, written[f], "the proto->record conversion does not set Record."+f.Name()+": Get returns a record without it")
		}
		c.redisDecodeFresh(r, r3)
		// the storing paths use the pair: encode calls toProto, decode calls fromProto
		c.Decide(r3, r.encode, "encoder uses the record->proto conversion", nil, len(callsTo(r.encode, r.toProto)) == 1, "the record encoder does not go through Record2protoRecord")
	}
	if r4 != "" {
		// prefix literal length of the mapping = slice offset of the inverse
		prefixLen := int64(-1)
		ir.Instrs(r.mapKey, func(in ssa.Instruction) {
			call, ok := in.(*ssa.Call)
			if ok && ir.CalleeFullName(call) == "fmt.Sprintf" {
				if cv := ir.ConstVal(call.Call.Args[0]); cv != nil && cv.Kind() == constant.String {
					f := constant.StringVal(cv)
					if i := strings.Index(f, "%s"); i >= 0 && strings.Count(f, "%") == 1 && i+2 == len(f) {
						prefixLen = int64(i)
					}
				}
			}
			if bo, ok := in.(*ssa.BinOp); ok && bo.Op == token.ADD {
				if cv := ir.ConstVal(bo.X); cv != nil && cv.Kind() == constant.String {
					prefixLen = int64(len(constant.StringVal(cv)))
				}
			}
		})
		off, guard := int64(-2), int64(-2)
		ir.Instrs(r.unmapKey, func(in ssa.Instruction) {
			if s, ok := in.(*ssa.Slice); ok && s.Low != nil {
				if k, isC := ir.ConstInt(s.Low); isC {
					off = k
					lb := lenLowerBoundStr(s.Block(), s.X)
					guard = lb
				}
			}
		})
		c.Decide(r4, r.unmapKey, "key prefix length agrees between mapping and inverse", nil, prefixLen >= 0 && prefixLen == off && guard >= off,
			"the prefix the key mapping adds and the offset its inverse removes differ (or the slice is not guarded by the length test): ListKeys returns mangled keys")
		lk := r.storage["ListKeys"]
		okMap := false
		ir.Instrs(lk, func(in ssa.Instruction) {
			if sc := redisCmd(in, "Scan"); sc != nil {
				for _, a := range cmdArgs(sc) {
					if call, ok := ir.Resolve(a).(*ssa.Call); ok && ir.StaticCallee(call) == r.mapKey && len(lk.Params) >= 3 && ir.Resolve(call.Call.Args[0]) == ssa.Value(lk.Params[2]) {
						okMap = true
					}
				}
			}
		})
		c.Decide(r4, lk, "ListKeys scans the mapped pattern", nil, okMap, "ListKeys does not apply the key mapping to the pattern")
		okUnmap := false
		for _, fn := range r.all {
			if fn.Signature.Recv() != nil && fn.Name() == "HasNext" || fn.Name() == "Next" {
				if len(callsTo(fn, r.unmapKey)) > 0 {
					okUnmap = true
				}
			}
		}
		c.Decide(r4, lk, "listed keys are un-mapped", nil, okUnmap, "the keys iterator does not strip the storage prefix from the scanned keys")
	}
}

// lenLowerBoundStr is lenLowerBound for len(string) guards.
func lenLowerBoundStr(b *ssa.BasicBlock, s ssa.Value) int64 { return lenLowerBound(b, s) }

// redisClassEdges is the redis half of C03.R1/R2.
func (c *Ctx) redisClassEdges(r *redisRoles, r1, r2 string) {
	sentinel := func(v ssa.Value) string {
		if g := globalOf(v); g != nil {
			return g.Name()
		}
		return ""
	}
	// error mapping: the nil reply maps to ErrNotExist, nil stays nil, everything else passes through
	{
		fn := r.mapErr
		// the nil reply is recognised by its text ("redis: nil" literally, or redis.Nil.Error()), by errors.Is(err,
		// redis.Nil) or by comparison with redis.Nil
		isNilReply := func(v ssa.Value) bool {
			v = ir.Resolve(v)
			if cv := ir.ConstVal(v); cv != nil && cv.Kind() == constant.String && constant.StringVal(cv) == "redis: nil" {
				return true
			}
			if call, ok := v.(*ssa.Call); ok {
				// redis.Nil.Error()
				for _, a := range call.Call.Args {
					if cv := ir.ConstVal(ir.Resolve(a)); cv != nil && cv.Kind() == constant.String && constant.StringVal(cv) == "redis: nil" {
						return true
					}
				}
				if call.Call.IsInvoke() {
					if cv := ir.ConstVal(ir.Resolve(call.Call.Value)); cv != nil && cv.Kind() == constant.String && constant.StringVal(cv) == "redis: nil" {
						return true
					}
				}
			}
			return false
		}
		nilReplyFact := func(f ir.Fact) bool {
			if cm, ok := f.Cmp(); ok && cm.Op == token.EQL && (isNilReply(cm.X) || isNilReply(cm.Y)) {
				return true
			}
			ff := f.StripNot()
			if call, ok := ff.Cond.(*ssa.Call); ok && ff.True && strings.HasSuffix(ir.CalleeFullName(call), "errors.Is") && len(call.Call.Args) == 2 && isNilReply(call.Call.Args[1]) {
				return true
			}
			return false
		}
		okNotExist, okOthers := false, true
		for _, e := range ir.ExitPoints(fn) {
			v := ir.Resolve(e.Result(0))
			switch {
			case ir.IsNilConst(v), v == ssa.Value(fn.Params[0]):
				// nil stays nil, any other error passes through
			case sentinel(v) == "ErrNotExist":
				if e.HasFact(nilReplyFact) {
					okNotExist = true
				} else {
					okOthers = false
				}
			default:
				okOthers = false
			}
		}
		c.Decide(r1, fn, "missing key reply -> ErrNotExist", nil, okNotExist && okOthers, "the redis error mapping does not turn the nil reply (and only it) into ErrNotExist and pass everything else through")
	}
	viaMap := func(fn *ssa.Function, cmd string) bool {
		ok := false
		for _, f := range withClosures(fn) {
			for _, e := range ir.ExitPoints(f) {
				idx := ir.ErrResultIndex(f)
				if idx < 0 {
					continue
				}
				// (looked at through annotating wrappers that hand the class on unchanged, v_kvs_inmem.go)
				if call := throughClassWrappersV(e.Result(idx), f, "ErrNotExist"); call != nil && ir.StaticCallee(call) == r.mapErr {
					// the mapped error is the command's error
					if ex, isEx := ir.Resolve(call.Call.Args[0]).(*ssa.Extract); isEx {
						if res, isRes := ex.Tuple.(*ssa.Call); isRes {
							if inner, isInner := ir.Recv(res).(*ssa.Call); isInner && redisCmd(inner, cmd) != nil {
								ok = true
							}
						}
					}
				}
			}
		}
		// ... and the command's error reaches no result past the mapping (annotated, re-wrapped) unless the mapped error
		// was seen not to be the class (v_kvs_inmem.go)
		return ok && !classLeakV(r, fn, cmd, "ErrNotExist")
	}
	c.Decide(r1, r.storage["Get"], "Get: missing key -> ErrNotExist", nil, viaMap(r.storage["Get"], "Get"), "Get does not pass the GET error through the error mapping")
	c.Decide(r1, r.storage["CasByVersion"], "CasByVersion: missing key -> ErrNotExist", nil, viaMap(r.storage["CasByVersion"], "Get"), "CasByVersion does not map a missing key to ErrNotExist")
	// Delete: count == 0 -> ErrNotExist
	{
		fn := r.storage["Delete"]
		ok := false
		for _, ret := range ir.Returns(fn) {
			if sentinel(ir.ResultValue(ret, 0)) == "ErrNotExist" && hasFactCmp(ret.Block(), func(cm ir.Cmp) bool {
				k, isC := ir.ConstInt(cm.Y)
				return isC && k == 0 && cm.Op == token.EQL
			}) {
				ok = true
			}
		}
		c.Decide(r1, fn, "Delete: nothing deleted -> ErrNotExist", nil, ok, "Delete does not report ErrNotExist when DEL removed nothing")
	}
	// CAS: version mismatch -> ErrConflict
	{
		fn := r.storage["CasByVersion"]
		ok := false
		for _, f := range withClosures(fn) {
			for _, e := range ir.ExitPoints(f) {
				idx := ir.ErrResultIndex(f)
				if idx >= 0 && sentinel(e.Result(idx)) == "ErrConflict" && e.HasFact(func(ft ir.Fact) bool {
					cm, isCmp := ft.Cmp()
					return isCmp && cm.Op == token.NEQ && ir.LoadedField(cm.X) == r.recVersion && ir.LoadedField(cm.Y) == r.recVersion
				}) {
					ok = true
				}
			}
		}
		c.Decide(r1, fn, "CasByVersion: version mismatch -> ErrConflict", nil, ok, "CasByVersion does not report ErrConflict on the stored != expected version edge")
		// and nowhere else: every ErrConflict is on the mismatch edge of a stored record or on the lost-transaction edge
		for _, f := range withClosures(fn) {
			idx := ir.ErrResultIndex(f)
			if idx < 0 {
				continue
			}
			for _, e := range ir.ExitPoints(f) {
				if sentinel(e.Result(idx)) != "ErrConflict" {
					continue
				}
				okEdge := false
				for _, ft := range e.Facts() {
					if cm, isCmp := ft.Cmp(); isCmp {
						if cm.Op == token.NEQ && ir.LoadedField(cm.X) == r.recVersion && ir.LoadedField(cm.Y) == r.recVersion {
							okEdge = true
						}
						if cm.Op == token.EQL {
							for _, side := range []ssa.Value{cm.X, cm.Y} {
								if cv := ir.ConstVal(ir.Resolve(side)); cv != nil && cv.Kind() == constant.String && constant.StringVal(cv) == "redis: transaction failed" {
									okEdge = true
								}
							}
						}
					}
					ff := ft.StripNot()
					if call, isCall := ff.Cond.(*ssa.Call); isCall && ff.True && strings.HasSuffix(ir.CalleeFullName(call), "errors.Is") {
						okEdge = true
					}
				}
				c.Decide(r1, f, "ErrConflict only for a stored record with another version", e.Ret, okEdge, "CasByVersion reports ErrConflict on a path where no stored record was compared (nor the transaction lost): for a missing key the contract and the other backend say ErrNotExist")
			}
		}
	}
	// Create: key present -> ErrExist with the stored version
	{
		fn := r.storage["Create"]
		found := false
		for _, e := range ir.ExitPoints(fn) {
			ret := e.Ret
			if sentinel(e.Result(1)) != "ErrExist" {
				continue
			}
			found = true
			v := ir.Resolve(e.Result(0))
			okV := false
			if ir.LoadedField(v) == r.recVersion {
				// of a record read from the storage
				for _, o := range pairFieldOrigins(v) {
					if ex, isEx := o.(*ssa.Extract); isEx {
						if call, isCall := ex.Tuple.(*ssa.Call); isCall && ir.StaticCallee(call) == r.storage["Get"] {
							okV = true
						}
					}
				}
			}
			c.Decide(r2, fn, "ErrExist carries the stored version", ret, okV, "Create returns ErrExist without the version of the existing record (callers wait on that version)")
		}
		c.Decide(r1, fn, "Create: key present -> ErrExist", nil, found, "Create never reports ErrExist")
	}
}

// redisWaitResults is C07.W5 for the polling implementation.
func (c *Ctx) redisWaitResults(r *redisRoles, rule string) {
	fn := r.storage["WaitForVersionChange"]
	n := 0
	for _, e := range ir.ExitPoints(fn) {
		ret := e.Ret
		ev := ir.Resolve(e.Result(0))
		switch {
		case ir.IsNilConst(ev):
			n++
			ok := e.HasFact(func(f ir.Fact) bool {
				cm, isCmp := f.Cmp()
				return isCmp && cm.Op == token.NEQ && (ir.LoadedField(cm.X) == r.recVersion || ir.LoadedField(cm.Y) == r.recVersion)
			})
			c.Decide(rule, fn, "nil only when the stored version differs", ret, ok, "the polling waiter returns nil on a path where the version was not seen to differ")
			// ... and the version compared is the one read by a poll that succeeded: the read's error was seen to be nil
			okRead := e.HasFact(func(f ir.Fact) bool {
				cm, isCmp := f.Cmp()
				if !isCmp || cm.Op != token.EQL {
					return false
				}
				x, y := cm.X, cm.Y
				if ir.IsNilConst(x) {
					x, y = y, x
				}
				ex, isEx := ir.Resolve(x).(*ssa.Extract)
				if !isEx || !ir.IsNilConst(y) {
					return false
				}
				call, isCall := ex.Tuple.(*ssa.Call)
				return isCall && (ir.StaticCallee(call) == r.storage["Get"] || redisCmd(call, "Result") != nil)
			})
			c.Decide(rule, fn, "nil decided on a record read without error on this poll", ret, okRead, "the polling waiter compares the version of a record that was not read successfully on this poll (a zero or stale record after a failed read): it reports a change that did not happen")
		default:
			if call, ok := ev.(*ssa.Call); ok && call.Call.IsInvoke() && call.Call.Method.Name() == "Err" {
				n++
				okG := e.HasFact(func(f ir.Fact) bool {
					cm, isCmp := f.Cmp()
					if !isCmp || cm.Op != token.EQL {
						return false
					}
					ex, isEx := ir.Resolve(cm.X).(*ssa.Extract)
					if !isEx {
						return false
					}
					_, isSel := ex.Tuple.(*ssa.Select)
					return isSel
				})
				c.Decide(rule, fn, "ctx.Err() only in the ctx.Done() case", ret, okG, "the context's error is returned outside the ctx.Done() case")
			}
		}
	}
	// the poll reads through Get (which maps a missing key to ErrNotExist) and its error is returned
	okGet := false
	for _, call := range callsTo(fn, r.storage["Get"]) {
		for _, e := range ir.ExitPoints(fn) {
			if ex, ok := ir.Resolve(e.Result(0)).(*ssa.Extract); ok && ex.Tuple == ssa.Value(call) && ex.Index == 1 {
				okGet = true
			}
		}
	}
	c.Decide(rule, fn, "missing key ends the wait with Get's error", nil, okGet, "the polling waiter does not return the error of its Get (ErrNotExist for a missing key)")
	// the poll sleeps cancellably: the select has a ctx.Done() case
	okSel := false
	ir.Instrs(fn, func(in ssa.Instruction) {
		if sel, ok := in.(*ssa.Select); ok && sel.Blocking {
			for _, st := range sel.States {
				if call, ok := ir.Resolve(st.Chan).(*ssa.Call); ok && call.Call.IsInvoke() && call.Call.Method.Name() == "Done" {
					okSel = true
				}
			}
		}
	})
	c.Decide(rule, fn, "poll sleeps cancellably", nil, okSel, "the polling waiter cannot be cancelled while it sleeps")
	if n < 2 {
		c.R.Errorf("%s matched %d exits of the redis waiter, below its floor of 2", rule, n)
	}
}

// redisPollBounded is C07.W8: the sleep between two polls is bounded above by a constant.
func (c *Ctx) redisPollBounded(r *redisRoles, rule string) {
	fn := r.storage["WaitForVersionChange"]
	n := 0
	var bounded func(v ssa.Value, from, to *ssa.BasicBlock, depth int, seen map[ssa.Value]bool) bool
	bounded = func(v ssa.Value, from, to *ssa.BasicBlock, depth int, seen map[ssa.Value]bool) bool {
		if depth > 10 {
			return false
		}
		if _, isC := ir.ConstInt(v); isC {
			return true
		}
		var facts []ir.Fact
		if from != nil {
			facts = append(ir.Facts(from), edgeFacts(from, to)...)
		} else if in, ok := v.(ssa.Instruction); ok {
			facts = ir.Facts(in.Block())
		}
		for _, f := range facts {
			cm, ok := f.Cmp()
			if !ok {
				continue
			}
			op, a, b := cm.Op, cm.X, cm.Y
			if b == v {
				a, b = b, a
				op = ir.SwapOp(op)
			}
			if _, isC := ir.ConstInt(b); a == v && isC && (op == token.LEQ || op == token.LSS) {
				return true
			}
		}
		if p, ok := v.(*ssa.Phi); ok {
			if seen[p] {
				return true
			}
			seen[p] = true
			for i, e := range p.Edges {
				if !bounded(e, p.Block().Preds[i], p.Block(), depth+1, seen) {
					return false
				}
			}
			return true
		}
		return false
	}
	ir.Instrs(fn, func(in ssa.Instruction) {
		call, ok := in.(*ssa.Call)
		if !ok {
			return
		}
		switch ir.CalleeFullName(call) {
		case "time.NewTimer", "time.After", "time.Sleep", "time.NewTicker":
		default:
			return
		}
		n++
		okB := bounded(call.Call.Args[0], nil, nil, 0, map[ssa.Value]bool{})
		if !okB {
			// the pause kept in a small state object (constructor, step method, fields): the same question asked through
			// calls, parameters and fields (y_b_bound.go)
			okB = newUBYB(r.all).bounded(call.Call.Args[0], call.Block(), 0, map[ssa.Value]bool{})
		}
		c.Decide(rule, fn, "poll interval bounded above", in, okB,
			"the pause between two polls has no constant upper bound on some path (growing back-off without cap): a waiter that has been blocked for T notices a change up to T late")
	})
	if n == 0 {
		c.Decide(rule, fn, "poll sleeps between polls", nil, false, "the polling waiter does not sleep between polls")
	}
}

// putReturnsOwnRecord is C02.R6: Put (and a successful CasByVersion) returns the record it wrote itself - the local
// copy whose version it assigned - not a record read back from the storage.
func (c *Ctx) putReturnsOwnRecord(rule string, fn *ssa.Function, encode *ssa.Function, isStore func(ssa.Instruction) ssa.Value) {
	// the cell that was written
	var cell ssa.Value
	for _, f := range withClosures(fn) {
		ir.Instrs(f, func(in ssa.Instruction) {
			if v := isStore(in); v != nil {
				cell = v
			}
		})
	}
	for _, ret := range ir.Returns(fn) {
		idx := ir.ErrResultIndex(fn)
		if idx < 0 || ir.ClassifyErr(ir.ResultValue(ret, idx), ret.Block()) == ir.ErrNonNil {
			continue
		}
		ok := false
		for _, v := range []ssa.Value{ret.Results[0], ir.ResultValue(ret, 0)} {
			if u, isU := v.(*ssa.UnOp); isU && cell != nil {
				if u.X == cell {
					ok = true
				}
			}
			// the written record handed on through local copies (result variables of helpers)
			for _, cc := range ir.CopyChain(v) {
				if cell != nil && cc == cell {
					ok = true
				}
			}
		}
		c.Decide(rule, fn, "returns the record it wrote", ret, ok, "the operation returns a record read back from the storage instead of the one it wrote: a concurrent writer in between makes a successful write report somebody else's version and value (the same version is handed to several writers)")
	}
}

// callsByName reports whether fn calls a function of that (exported API) name.
func callsByName(fn *ssa.Function, name string) bool {
	found := false
	ir.Instrs(fn, func(in ssa.Instruction) {
		if call, ok := in.(ssa.CallInstruction); ok {
			if cal := ir.StaticCallee(call); cal != nil && cal.Name() == name {
				found = true
			}
		}
	})
	return found
}

// batchWithoutExpiry: the record in cell is an element of a slice about which a dominating flag says "every element has
// ExpiresAt == nil" (an any/all loop over the same slice run before the batch is assembled).
func (r *redisRoles) batchWithoutExpiry(at ssa.Instruction, cell ssa.Value) bool {
	// the slice the record comes from
	var from ssa.Value
	if al, ok := cell.(*ssa.Alloc); ok {
		for _, st := range ir.StoresTo(al) {
			if ld, isLd := st.Val.(*ssa.UnOp); isLd && ld.Op == token.MUL {
				if ia, isIA := ld.X.(*ssa.IndexAddr); isIA {
					from = ia.X
				}
			}
		}
	}
	if ia, ok := cell.(*ssa.IndexAddr); ok {
		from = ia.X
	}
	if from == nil {
		return false
	}
	for _, f := range ir.Facts(at.Block()) {
		ff := f.StripNot()
		for _, ef := range ir.UniversalFacts(ff.Cond, ff.True) {
			if ir.Resolve(ef.Slice) != ir.Resolve(from) {
				continue
			}
			if (ef.Test.Op != token.EQL && ef.Test.Op != token.NEQ) || (ir.LoadedField(ef.Test.X) != r.recExpires && ir.LoadedField(ef.Test.Y) != r.recExpires) {
				continue
			}
			if !ir.IsNilConst(ef.Test.X) && !ir.IsNilConst(ef.Test.Y) {
				continue
			}
			if ef.Outcome == (ef.Test.Op == token.EQL) {
				return true
			}
		}
		// the same pre-pass spelled as an accumulating flag in a three-clause loop (y_b_redis.go)
		if acc := accumAllYB(ff.Cond); acc != nil && ff.True && !acc.Loop[at.Block()] && ir.Resolve(acc.Slice) == ir.Resolve(from) {
			t := acc.Test
			if t.Op == token.EQL && ((ir.LoadedField(t.X) == r.recExpires && ir.IsNilConst(t.Y)) || (ir.LoadedField(t.Y) == r.recExpires && ir.IsNilConst(t.X))) {
				return true
			}
		}
	}
	// the same universal fact carried by control flow: behind the exhaustion edge of a scan that leaves at the first
	// expiring record (v_kvs_u.go)
	return r.exhaustedNoExpiryScanU(at, from)
}

// redisNoSeparateTTL: a record's value and its time-to-live are written by ONE command (SET/SETNX with the TTL). A TTL
// set, changed or removed by a command of its own (EXPIRE, PEXPIRE, EXPIREAT, PEXPIREAT, PERSIST, also inside a
// pipeline - a pipeline is not a transaction) can be applied to a value another writer has put there in between:
// that record then vanishes (or stays for ever) without any operation of the contract explaining it. SetArgs is refused
// as well: its ExpireAt is sent as EXAT in whole seconds, and KeepTTL inherits the TTL of whatever was stored before.
func (c *Ctx) redisNoSeparateTTL(r *redisRoles, rule string) {
	n := 0
	for _, fn := range r.all {
		ir.Instrs(fn, func(in ssa.Instruction) {
			for _, cmd := range []string{"Expire", "PExpire", "ExpireAt", "PExpireAt", "Persist", "ExpireNX", "ExpireXX", "ExpireGT", "ExpireLT", "SetArgs", "GetEx"} {
				if call := redisCmd(in, cmd); call != nil {
					n++
					c.Decide(rule, fn, "value and TTL written by one command", in, false,
						"the storage issues "+cmd+": the time-to-live of a key is written separately from (or with another resolution than) its value - between the two commands another writer's value can land and inherit the TTL, or the record disappears up to a second early")
				}
			}
		})
	}
	if n == 0 {
		c.Decide(rule, r.storage["Put"], "value and TTL written by one command", nil, true, "")
	}
}

// redisDecodeFresh: every decode of a stored record starts from an empty message. proto3 leaves default-valued fields
// (empty value, no expiry) off the wire, so decoding into a message that still holds the previous record and is not
// reset (UnmarshalOptions.Merge) makes the record inherit the other record's value or expiry. proto.Unmarshal resets the
// message itself; a merging decode is accepted only into a message that is local to the decoding call and used once.
func (c *Ctx) redisDecodeFresh(r *redisRoles, rule string) {
	n := 0
	for _, fn := range r.all {
		ir.Instrs(fn, func(in ssa.Instruction) {
			call, ok := in.(*ssa.Call)
			if !ok {
				return
			}
			name := ir.CalleeFullName(call)
			plain := name == "google.golang.org/protobuf/proto.Unmarshal"
			method := strings.HasPrefix(name, "(google.golang.org/protobuf/proto.UnmarshalOptions).Unmarshal")
			if !plain && !method {
				return
			}
			n++
			if plain {
				c.Decide(rule, fn, "decode starts from an empty message", in, true, "")
				return
			}
			args := call.Call.Args // options, buf, message
			// may the options merge?
			merges := true
			if ld, isLd := args[0].(*ssa.UnOp); isLd && ld.Op == token.MUL {
				if al, isAl := ld.X.(*ssa.Alloc); isAl {
					merges = false
					if al.Referrers() != nil {
						for _, ref := range *al.Referrers() {
							if fa, isFA := ref.(*ssa.FieldAddr); isFA && ir.FieldOf(fa) != nil && ir.FieldOf(fa).Name() == "Merge" && fa.Referrers() != nil {
								for _, r2 := range *fa.Referrers() {
									if st, isSt := r2.(*ssa.Store); isSt {
										if cv := ir.ConstVal(st.Val); cv == nil || cv.String() != "false" {
											merges = true
										}
									}
								}
							}
						}
					}
				}
			}
			// is the message a local of this call that no loop re-uses?
			freshMsg := false
			msg := args[len(args)-1]
			if mi, isMI := msg.(*ssa.MakeInterface); isMI {
				msg = mi.X
			}
			if al, isAl := msg.(*ssa.Alloc); isAl {
				freshMsg = true
				cb, ab := call.Block(), al.Block()
				if cb != ab {
					inCycle := false
					for _, s := range cb.Succs {
						if reachesAvoiding(s, cb, ab) {
							inCycle = true
						}
					}
					if inCycle {
						freshMsg = false // declared outside the loop the decode runs in
					}
				}
				uses := 0
				ir.Instrs(fn, func(x ssa.Instruction) {
					if c2, isC := x.(*ssa.Call); isC {
						for _, a := range c2.Call.Args {
							if mi, isMI := a.(*ssa.MakeInterface); isMI && mi.X == ssa.Value(al) {
								if strings.Contains(ir.CalleeFullName(c2), "Unmarshal") {
									uses++
								}
							}
						}
					}
				})
				if uses > 1 {
					freshMsg = false
				}
			}
			c.Decide(rule, fn, "decode starts from an empty message", in, !merges || freshMsg,
				"a stored record is decoded with merge semantics into a message that may still hold another record: fields proto3 leaves off the wire (an empty value, no expiry) keep the other record's content - GetMany then reports a value/expiry for one key that belongs to another")
		})
	}
	if n == 0 {
		c.Decide(rule, r.fromProto, "decode starts from an empty message", nil, false, "no protobuf decode found in the redis backend")
	}
}

// reachesAvoiding: to is reachable from from without passing through avoid.
func reachesAvoiding(from, to, avoid *ssa.BasicBlock) bool {
	seen := map[*ssa.BasicBlock]bool{}
	var rec func(b *ssa.BasicBlock) bool
	rec = func(b *ssa.BasicBlock) bool {
		if b == avoid || seen[b] {
			return false
		}
		if b == to {
			return true
		}
		seen[b] = true
		for _, s := range b.Succs {
			if rec(s) {
				return true
			}
		}
		return false
	}
	return rec(from)
}
