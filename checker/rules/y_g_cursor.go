package rules

// Helpers of the codec rules (C15/C16), second robustness round:
//
//   - views of the coding buffer: the slice values of a function that denote (a window of) the buffer parameter - the
//     parameter, re-slicings of a view, and phi nodes that merge views. The access rules (R1/R2/S7) apply to every view,
//     each access bounded by the length of the very slice value it indexes (which is what the run-time check compares with).
//   - shrinking cursors: a loop variable `rest = phi(root, rest[k:])`. It is the position of the classic index loop in
//     another spelling (position = len(root)-len(rest)), with the loop invariant len(rest) <= len(root).
//   - accumulators kept in a field of a local struct (a spilled `shft += 7`).

import (
	"go/token"
	"go/types"

	"golang.org/x/tools/go/ssa"

	"verif/checker/ir"
)

// bufViewsG returns the values of fn that are views of buf: buf itself, a slice expression on a view, and a phi node
// every operand of which is a view (greatest fixed point, so that a loop-carried cursor phi(buf, cursor[1:]) is one).
func bufViewsG(fn *ssa.Function, buf ssa.Value) map[ssa.Value]bool {
	views := map[ssa.Value]bool{}
	root := ir.Resolve(buf)
	if root == nil {
		return views
	}
	views[root] = true
	isByteSlice := func(t types.Type) bool {
		sl, ok := t.Underlying().(*types.Slice)
		return ok && types.Identical(sl.Elem(), root.Type().Underlying().(*types.Slice).Elem())
	}
	if _, ok := root.Type().Underlying().(*types.Slice); !ok {
		return views
	}
	// candidates: every slice expression and every phi of the buffer's type
	ir.Instrs(fn, func(in ssa.Instruction) {
		switch x := in.(type) {
		case *ssa.Slice:
			if isByteSlice(x.Type()) {
				views[x] = true
			}
		case *ssa.Phi:
			if isByteSlice(x.Type()) {
				views[x] = true
			}
		}
	})
	for changed := true; changed; {
		changed = false
		for v := range views {
			ok := true
			switch x := v.(type) {
			case *ssa.Slice:
				ok = views[ir.Resolve(x.X)]
			case *ssa.Phi:
				for _, e := range x.Edges {
					if !views[ir.Resolve(e)] {
						ok = false
					}
				}
			}
			if !ok {
				delete(views, v)
				changed = true
			}
		}
	}
	return views
}

// loopCarriedViewG: the view is, or is cut from, a phi node of a loop header: its position in the buffer changes from
// one iteration to the next, so even a constant index on it is an access at a variable position (rule R2).
func loopCarriedViewG(v ssa.Value) bool {
	for i := 0; i < 16 && v != nil; i++ {
		v = ir.Resolve(v)
		switch x := v.(type) {
		case *ssa.Slice:
			v = x.X
		case *ssa.Phi:
			return isLoopHeaderB(x.Block())
		default:
			return false
		}
	}
	return false
}

// cursorRootG decodes p as a shrinking cursor: a loop-header phi whose operands from outside the loop are all the same
// slice value root, and whose operands from inside the loop are p itself re-sliced without an upper bound (p[k:], also
// repeatedly). Then len(p) <= len(root) whenever p is defined: it holds on entry, and x[k:] has len(x)-k elements with
// k >= 0, or panics (an upper bound could extend the slice up to its capacity, hence none is accepted).
func cursorRootG(p *ssa.Phi) (root ssa.Value, ok bool) {
	if p == nil || !isLoopHeaderB(p.Block()) {
		return nil, false
	}
	if _, isSlice := p.Type().Underlying().(*types.Slice); !isSlice {
		return nil, false
	}
	for j, e := range p.Edges {
		pred := p.Block().Preds[j]
		if !p.Block().Dominates(pred) {
			r := ir.Resolve(e)
			if root != nil && root != r {
				return nil, false
			}
			root = r
			continue
		}
		v := ir.Resolve(e)
		steps := 0
		for v != ssa.Value(p) {
			s, isSlice := v.(*ssa.Slice)
			if !isSlice || s.High != nil || s.Max != nil || steps > 8 {
				return nil, false
			}
			v = ir.Resolve(s.X)
			steps++
		}
	}
	return root, root != nil
}

// cursorOfG: v is a shrinking cursor (through any number of nested cursors) of the slice value base.
func cursorOfG(v ssa.Value, base ssa.Value) bool {
	for i := 0; i < 8 && v != nil; i++ {
		p, isPhi := ir.Resolve(v).(*ssa.Phi)
		if !isPhi {
			return false
		}
		r, ok := cursorRootG(p)
		if !ok {
			return false
		}
		if same(r, base) {
			return true
		}
		v = r
	}
	return false
}

// cursorInvariantsG: for every length atom of q that is the length of a shrinking cursor, the inequality
// len(cursor) - len(root) <= 0.
func (cx *linCtxB) cursorInvariantsG(q linB) []leFactB {
	var res []leFactB
	for key, v := range q.vals {
		if len(key) < 4 || key[:4] != "len:" {
			continue
		}
		p, isPhi := v.(*ssa.Phi)
		if !isPhi {
			continue
		}
		for i := 0; i < 4 && p != nil; i++ {
			root, ok := cursorRootG(p)
			if !ok {
				break
			}
			res = append(res, leFactB{linAtomB(key, v).add(cx.lenOf(root, 0), -1), 0})
			p, _ = root.(*ssa.Phi)
		}
	}
	return res
}

// emptyCursorFactG: the comparison says that a shrinking cursor of buf has no element left - the position reached
// len(buf) in the spelling of the cursor idiom.
func (cx *linCtxB) emptyCursorFactG(cm ir.Cmp, buf ssa.Value) bool {
	op, x, y := cm.Op, cm.X, cm.Y
	if _, isC := ir.ConstInt(y); !isC {
		x, y = y, x
		op = ir.SwapOp(op)
	}
	k, isC := ir.ConstInt(y)
	if !isC || !isIntTypeB(x.Type()) {
		return false
	}
	key, v, single := cx.of(x).single()
	if !single || len(key) < 4 || key[:4] != "len:" || !cursorOfG(v, buf) {
		return false
	}
	return (op == token.EQL && k == 0) || (op == token.LEQ && k == 0) || (op == token.LSS && k == 1)
}

// memAccumStepG: y loads a field of a local struct that is an accumulator kept in memory: the struct does not escape
// (its address is only used to address its fields, the field's address only to load and store), and the one store to
// the field inside a loop writes (the field's current value + k) for a constant k, once per iteration; stores outside loops initialise it
// with a constant. Returns k and the adding instruction. This is the accumulator phi(c, phi+k) of shiftStepB before the
// compiler could lift it into a register (the struct had its address taken by an inlined pointer-receiver method).
func memAccumStepG(y ssa.Value) (step int64, at ssa.Instruction, ok bool) {
	ld, isLoad := y.(*ssa.UnOp)
	if !isLoad || ld.Op != token.MUL {
		return 0, nil, false
	}
	fa, isFA := ld.X.(*ssa.FieldAddr)
	if !isFA {
		return 0, nil, false
	}
	al, isAlloc := fa.X.(*ssa.Alloc)
	if !isAlloc || al.Referrers() == nil {
		return 0, nil, false
	}
	// the headers of the loops b belongs to: h dominates b and b reaches a back edge of h without passing h
	loopsOf := func(b *ssa.BasicBlock) map[*ssa.BasicBlock]bool {
		res := map[*ssa.BasicBlock]bool{}
		for _, h := range b.Parent().Blocks {
			if isLoopHeaderB(h) && h.Dominates(b) {
				for _, p := range h.Preds {
					if h.Dominates(p) && (p == b || b == h || reachesWithinG(b, p, h)) {
						res[h] = true
					}
				}
			}
		}
		return res
	}
	inLoop := func(b *ssa.BasicBlock) bool { return len(loopsOf(b)) > 0 }
	// the adding store runs exactly once per iteration of the loop the count is read in: it sits in the same loops as
	// the load (not in a nested one) and its block dominates every back edge of those loops (it is not conditional)
	oncePerIteration := func(st *ssa.Store) bool {
		ls, ll := loopsOf(st.Block()), loopsOf(ld.Block())
		if len(ls) == 0 || len(ls) != len(ll) {
			return false
		}
		for h := range ls {
			if !ll[h] {
				return false
			}
			for _, p := range h.Preds {
				if h.Dominates(p) && !st.Block().Dominates(p) {
					return false
				}
			}
		}
		return true
	}
	found := false
	for _, r := range *al.Referrers() {
		switch x := r.(type) {
		case *ssa.DebugRef:
		case *ssa.FieldAddr:
			if x.Referrers() == nil {
				continue
			}
			for _, rr := range *x.Referrers() {
				switch s := rr.(type) {
				case *ssa.UnOp, *ssa.DebugRef:
				case *ssa.Store:
					if s.Addr != ssa.Value(x) {
						return 0, nil, false // the field's address is stored somewhere
					}
					if x.Field != fa.Field {
						continue
					}
					if !inLoop(s.Block()) {
						if _, isC := ir.ConstInt(s.Val); !isC {
							return 0, nil, false
						}
						continue
					}
					add, isAdd := s.Val.(*ssa.BinOp)
					if !isAdd || add.Op != token.ADD {
						return 0, nil, false
					}
					k, isC := ir.ConstInt(add.Y)
					cur, isCur := add.X.(*ssa.UnOp)
					if !isC || !isCur || cur.Op != token.MUL {
						return 0, nil, false
					}
					cfa, isCFA := cur.X.(*ssa.FieldAddr)
					if !isCFA || cfa.X != ssa.Value(al) || cfa.Field != fa.Field {
						return 0, nil, false
					}
					// nothing may write the field between the load and the store: both in one block, and no store to
					// the field in between
					if cur.Block() != s.Block() || storeBetweenG(cur, s, al, fa.Field) {
						return 0, nil, false
					}
					if found || !oncePerIteration(s) {
						return 0, nil, false // several additions per iteration, or a conditional one: not a plain step
					}
					step, at, found = k, add, true
				default:
					return 0, nil, false // the field's address escapes
				}
			}
		default:
			return 0, nil, false // the struct is copied, passed on or its address escapes
		}
	}
	return step, at, found
}

// reachesWithinG: there is a path from a to b that does not pass through the block stop.
func reachesWithinG(a, b, stop *ssa.BasicBlock) bool {
	seen := map[*ssa.BasicBlock]bool{}
	var rec func(x *ssa.BasicBlock) bool
	rec = func(x *ssa.BasicBlock) bool {
		if x == b {
			return true
		}
		if seen[x] || x == stop {
			return false
		}
		seen[x] = true
		for _, s := range x.Succs {
			if rec(s) {
				return true
			}
		}
		return false
	}
	for _, s := range a.Succs {
		if rec(s) {
			return true
		}
	}
	return false
}

// storeBetweenG: a store to field `field` of the local struct al sits between the instructions from and to of one block.
func storeBetweenG(from, to ssa.Instruction, al *ssa.Alloc, field int) bool {
	on := false
	for _, in := range from.Block().Instrs {
		if in == from {
			on = true
			continue
		}
		if in == to {
			return false
		}
		if !on {
			continue
		}
		if st, ok := in.(*ssa.Store); ok {
			if fa, isFA := st.Addr.(*ssa.FieldAddr); isFA && fa.X == ssa.Value(al) && fa.Field == field {
				return true
			}
		}
	}
	return false
}

// intPhiEdgesG: cm compares an integer phi node of the (non-loop-header) block blk with a constant. The operands the
// comparison excludes are marked infeasible: a constant operand c with "c op k" false, and - for ==, <=, < - an operand
// whose constant lower bound (a loop variable that starts at c0 and only grows, plus a constant; a length) already lies
// above what the comparison admits. Reports whether an operand was excluded. Operands are evaluated without facts, so
// this does not depend on what is being refined.
func (cx *linCtxB) intPhiEdgesG(cm ir.Cmp, blk *ssa.BasicBlock, feasible []bool) bool {
	if isLoopHeaderB(blk) {
		return false // operands of a loop variable are values of the previous iteration
	}
	op, x, y := cm.Op, cm.X, cm.Y
	if _, isC := ir.ConstInt(y); !isC {
		x, y = y, x
		op = ir.SwapOp(op)
	}
	k, isC := ir.ConstInt(y)
	q, isPhi := x.(*ssa.Phi)
	if !isC || !isPhi || q.Block() != blk || !isIntTypeB(q.Type()) {
		return false
	}
	holds := func(c int64) bool {
		switch op {
		case token.EQL:
			return c == k
		case token.NEQ:
			return c != k
		case token.LSS:
			return c < k
		case token.LEQ:
			return c <= k
		case token.GTR:
			return c > k
		case token.GEQ:
			return c >= k
		}
		return true
	}
	plain := &linCtxB{excluded: map[*ssa.BasicBlock]bool{}}
	excludedAny := false
	for j, e := range q.Edges {
		if j >= len(feasible) || !feasible[j] {
			continue
		}
		if c, isConst := ir.ConstInt(e); isConst {
			if !holds(c) {
				feasible[j] = false
				excludedAny = true
			}
			continue
		}
		if op != token.EQL && op != token.LEQ && op != token.LSS {
			continue
		}
		if lb, known := plain.lowerBound(plain.of(e)); known && (lb > k || (op == token.LSS && lb >= k)) {
			feasible[j] = false
			excludedAny = true
		}
	}
	return excludedAny
}
