package rules

// C16.R6, a consumed count computed by bit tricks.
//
// "On success the reported consumed length lies within the input." Where the count is not an index that the guards
// place inside the buffer but a number computed from the data (the position of the first byte without continuation bit,
// found with bits.TrailingZeros64 on a loaded word), R6 evaluates it as an interval: constants, + - by intervals, shifts
// right by constants, and the documented ranges of the math/bits functions (TrailingZeros64/LeadingZeros64/Len64/
// OnesCount64: 0..64, the 32/16/8-bit variants accordingly - the upper end is reached: TrailingZeros64(0) = 64). The exit
// is accepted when the whole interval lies in [0, K] for the largest K with len(buf) >= K among the branch facts of the
// exit, and reported otherwise: `TrailingZeros64(m)>>3 + 1` ranges over 1..9, which a guard len(buf) >= 8 does not cover.

import (
	"go/token"
	"strings"

	"golang.org/x/tools/go/ssa"

	"verif/checker/ir"
)

// bitCountIntervalV evaluates v as an interval; ok only when a math/bits counting function is involved (other forms are
// left to the linear reasoning of R6).
func bitCountIntervalV(v ssa.Value, depth int) (lo, hi int64, usesBits, ok bool) {
	if depth > 6 {
		return 0, 0, false, false
	}
	if k, isC := ir.ConstInt(v); isC {
		return k, k, false, true
	}
	switch x := v.(type) {
	case *ssa.Convert:
		if isIntTypeB(x.Type()) && isIntTypeB(x.X.Type()) {
			l, h, u, o := bitCountIntervalV(x.X, depth+1)
			if o && l >= 0 {
				return l, h, u, true
			}
		}
	case *ssa.Call:
		name := ir.CalleeFullName(x)
		if !strings.HasPrefix(name, "math/bits.") {
			return 0, 0, false, false
		}
		fn := strings.TrimPrefix(name, "math/bits.")
		for _, pre := range []string{"TrailingZeros", "LeadingZeros", "Len", "OnesCount"} {
			if strings.HasPrefix(fn, pre) {
				switch strings.TrimPrefix(fn, pre) {
				case "64", "":
					return 0, 64, true, true
				case "32":
					return 0, 32, true, true
				case "16":
					return 0, 16, true, true
				case "8":
					return 0, 8, true, true
				}
			}
		}
	case *ssa.BinOp:
		a0, a1, ua, oka := bitCountIntervalV(x.X, depth+1)
		b0, b1, ub, okb := bitCountIntervalV(x.Y, depth+1)
		if !oka || !okb {
			return 0, 0, false, false
		}
		switch x.Op {
		case token.ADD:
			return a0 + b0, a1 + b1, ua || ub, true
		case token.SUB:
			return a0 - b1, a1 - b0, ua || ub, true
		case token.SHR:
			if b0 == b1 && b0 >= 0 && b0 < 63 && a0 >= 0 {
				return a0 >> uint(b0), a1 >> uint(b0), ua || ub, true
			}
		case token.QUO:
			if b0 == b1 && b0 > 0 && a0 >= 0 {
				return a0 / b0, a1 / b0, ua || ub, true
			}
		case token.MUL:
			if a0 >= 0 && b0 >= 0 && a1 < 1<<20 && b1 < 1<<20 {
				return a0 * b0, a1 * b1, ua || ub, true
			}
		case token.SHL:
			if b0 == b1 && b0 >= 0 && b0 < 20 && a0 >= 0 && a1 < 1<<20 {
				return a0 << uint(b0), a1 << uint(b0), ua || ub, true
			}
		}
	}
	return 0, 0, false, false
}
