package rules

import (
	"go/types"

	"golang.org/x/tools/go/ssa"

	"verif/checker/ir"
)

// Timer rules, round h: the heap.Interface methods of the queue belong to container/heap.
//
// R1 decides what Swap/Push/Pop do to the indexes, R3/R4 that the worker takes the HEAD (heap.Pop) when it is due, R2/R12
// that Cancel takes out THE future (heap.Remove at its index). All of that is about the heap.* functions: they sift, and
// they call the interface methods with the element already moved to where the method expects it (Pop: the element to
// take out has been swapped to the last slot; Push: the new element is sifted up afterwards). The methods themselves are
// raw array operations: a direct `queue.Pop()` drops whatever sits in the LAST slot - some unrelated, usually late,
// future, whose index is dutifully reset, so every index rule stays satisfied while that call never starts and the one
// that was meant stays queued; a direct `queue.Push(x)` appends without sifting (the head is no longer the earliest:
// calls start late or, behind an early head, a due one waits); a direct Swap/Less-driven reshuffle breaks the order the
// worker relies on.
//
// Clause (census): in the timer package the Push, Pop, Swap and Less methods of the queue type are not called by package
// code - not by a static call (also go/defer), not as a method value, not through a heap.Interface value - outside the
// heap methods themselves. container/heap reaches them through the interface; nothing else has a reason to. Len only
// reads and is used freely.
func (c *Ctx) timerHeapMethodsCensus(r *timerRoles, rule string) {
	raw := map[*ssa.Function]string{}
	objs := map[types.Object]string{}
	for name, m := range map[string]*ssa.Function{"Push": r.push, "Pop": r.pop, "Swap": r.swap, "Less": r.less} {
		if m != nil {
			raw[m] = name
			if m.Object() != nil {
				objs[m.Object()] = name
			}
		}
	}
	heapSet := map[*ssa.Function]bool{}
	for _, m := range r.heapMethods {
		heapSet[m] = true
	}
	what := func(name string) string {
		return "the heap.Interface method " + name + " of the queue is used directly by package code instead of through container/heap: the raw method works on the array as it stands (Pop drops the last slot, Push appends without sifting) - an unrelated future is lost or the earliest future is no longer the head, while the index rules stay satisfied"
	}
	n := 0
	for _, fn := range r.all {
		if heapSet[fn] {
			continue
		}
		root := fn
		for root.Parent() != nil {
			root = root.Parent()
		}
		if heapSet[root] {
			continue
		}
		fn := fn
		ir.Instrs(fn, func(in ssa.Instruction) {
			name := ""
			if ci, isCall := in.(ssa.CallInstruction); isCall {
				com := ci.Common()
				if com.IsInvoke() {
					// through an interface value: a method of container/heap.Interface invoked by package code
					if m := com.Method; m != nil && m.Pkg() != nil && m.Pkg().Path() == "container/heap" && m.Name() != "Len" {
						name = m.Name()
					}
				} else if cal := ir.StaticCallee(ci); cal != nil {
					if nm, isRaw := raw[cal.Origin()]; isRaw {
						name = nm
					} else if nm, isRaw := raw[cal]; isRaw {
						name = nm
					}
				}
			}
			if mc, isMC := in.(*ssa.MakeClosure); isMC && name == "" {
				// a method value (queue.Pop as a func value): the bound wrapper of the method
				if g, ok := mc.Fn.(*ssa.Function); ok && g.Object() != nil {
					if nm, isRaw := objs[g.Object()]; isRaw {
						name = nm
					}
				}
			}
			if name == "" {
				// the method itself as a value: (*futures).Pop
				var ops [16]*ssa.Value
				for _, op := range in.Operands(ops[:0]) {
					if op == nil || *op == nil {
						continue
					}
					if g, ok := (*op).(*ssa.Function); ok {
						if _, isCall := in.(ssa.CallInstruction); isCall && in.(ssa.CallInstruction).Common().Value == *op {
							continue // a static call, handled above
						}
						if nm, isRaw := raw[g]; isRaw {
							name = nm
						}
					}
				}
			}
			if name == "" {
				return
			}
			n++
			c.Decide(rule, fn, "heap.Interface method "+name+" used only by container/heap", in, false, what(name))
		})
	}
	if n == 0 {
		c.Decide(rule, r.pop, "Push/Pop/Swap/Less of the queue are used only by container/heap", nil, true, "")
	}
}
