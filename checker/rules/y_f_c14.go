package rules

import (
	"go/constant"
	"go/token"
	"go/types"

	"golang.org/x/tools/go/ssa"

	"verif/checker/ir"
)

// c14intFieldsDeep lists the int fields of the ring, including those of the struct-typed (non-pointer) fields it holds
// by value that are declared in the same package (an embedded cursor struct, a typed wrapper around the index pair): such
// a field is storage of the ring itself, and loads/stores of it are matched by the field object, whatever the base.
func c14intFieldsDeep(ring *types.Named) []*types.Var {
	var res []*types.Var
	var walk func(t types.Type, depth int)
	walk = func(t types.Type, depth int) {
		st := structOf(t)
		if st == nil || depth > 2 {
			return
		}
		for i := 0; i < st.NumFields(); i++ {
			f := st.Field(i).Origin()
			if types.Identical(f.Type(), types.Typ[types.Int]) {
				res = appendUniq(res, f)
				continue
			}
			if _, isPtr := f.Type().(*types.Pointer); isPtr {
				continue
			}
			if n := namedOf(f.Type()); n != nil && n.Obj().Pkg() != nil && n.Obj().Pkg() == ring.Obj().Pkg() {
				if _, isStruct := n.Underlying().(*types.Struct); isStruct {
					walk(n, depth+1)
				}
			}
		}
	}
	walk(ring, 0)
	return res
}

// isFoldStore: in stores (index f) - len(buf) back to index f: the same slot of the ring, one lap earlier.
func (k *c14) isFoldStore(in ssa.Instruction, f *types.Var) bool {
	_, v, ok := storeToField(in, f)
	if !ok {
		return false
	}
	bo, isBin := ir.Resolve(v).(*ssa.BinOp)
	if !isBin || bo.Op != token.SUB || !k.isLenBuf(bo.Y) {
		return false
	}
	_, isF := loadOfField(bo.X, f)
	return isF
}

// classifierFacts: f says that the result of a classifying helper of the package - a function that returns a constant at
// every exit (an enum describing the state) - is (not) a given constant. What holds at every exit that is compatible with
// this holds where the fact holds.
func (k *c14) classifierFacts(f ir.Fact) []ir.Fact {
	cm, ok := f.Cmp()
	if !ok || (cm.Op != token.EQL && cm.Op != token.NEQ) {
		return nil
	}
	x, y := cm.X, cm.Y
	if ir.ConstVal(x) != nil {
		x, y = y, x
	}
	want := ir.ConstVal(y)
	call, isCall := ir.Resolve(x).(*ssa.Call)
	if want == nil || !isCall {
		return nil
	}
	g := ir.StaticCallee(call)
	if g == nil || !k.inPkg(g) || g == k.lenFn || g == k.capFn || g.Signature.Results().Len() != 1 {
		return nil
	}
	var common []ir.Fact
	n := 0
	for _, ep := range ir.ExitPoints(g) {
		cv := ir.ConstVal(ep.Result(0))
		if cv == nil {
			return nil // not a classifier
		}
		if cv.Kind() != want.Kind() {
			return nil
		}
		if constant.Compare(cv, token.EQL, want) != (cm.Op == token.EQL) {
			continue
		}
		var fs []ir.Fact
		for _, x := range ep.Facts() {
			fs = append(fs, x.StripNot())
		}
		if n == 0 {
			common = fs
		} else {
			var keep []ir.Fact
			for _, a := range common {
				for _, b := range fs {
					if a.Cond == b.Cond && a.True == b.True {
						keep = append(keep, a)
						break
					}
				}
			}
			common = keep
		}
		n++
	}
	if n == 0 {
		return nil
	}
	return common
}

// leBufLen: v is a quantity of the buffer state that cannot exceed len(buf): len(buf), Len(), Cap(), an index, the length
// of a part of the backing array, one of these minus a non-negative number, or a phi of such values.
func (k *c14) leBufLen(v ssa.Value, fs []ir.Fact, depth int) bool {
	v = ir.Resolve(v)
	if v == nil || depth > 5 {
		return false
	}
	if c, ok := ir.ConstInt(v); ok {
		return c <= 0
	}
	if k.isLenBuf(v) || k.lenCall(v) || k.capCall(v) || k.isIdxLoad(v) {
		return true
	}
	switch x := v.(type) {
	case *ssa.Call:
		if cc := builtinCall(x, "len"); cc != nil {
			return k.bufDerived(cc.Args[0])
		}
	case *ssa.BinOp:
		if x.Op == token.SUB {
			return k.leBufLen(x.X, fs, depth+1) && k.nonNeg(x.Y, fs, depth+1)
		}
	case *ssa.Phi:
		n := 0
		for i, e := range x.Edges {
			if ir.Resolve(e) == v {
				continue
			}
			if !k.leBufLen(e, c14edgeFacts(x, i), depth+1) {
				return false
			}
			n++
		}
		return n > 0
	}
	return false
}

// segmentEndsAtWriteIndexOnly: every value that can be the upper bound of the slice expression is the write index.
func (k *c14) segmentEndsAtWriteIndexOnly(sl *ssa.Slice) bool {
	if sl.High == nil {
		return false
	}
	os := ir.Origins(sl.High)
	for _, o := range os {
		if _, isW := loadOfField(o, k.wIdx); !isW {
			return false
		}
	}
	return len(os) > 0
}

// orderGuarded: b is reached through a branch on the order of the read and the write index.
func (k *c14) orderGuarded(b *ssa.BasicBlock) bool {
	for _, ft := range k.guardFacts(b) {
		cm, ok := ft.Cmp()
		if !ok {
			continue
		}
		_, xr := loadOfField(cm.X, k.rIdx)
		_, xw := loadOfField(cm.X, k.wIdx)
		_, yr := loadOfField(cm.Y, k.rIdx)
		_, yw := loadOfField(cm.Y, k.wIdx)
		if (xr && yw) || (xw && yr) {
			return true
		}
	}
	return false
}

func c14sameForm(a, b c14lform) bool { return a.add(b, -1).isZero() }

// foldLinear is C14.R5 for the spellings the pattern matcher of foldOperator does not know. Every load of At is located
// in the backing array symbolically (offset of the part it reads from + index, per choice of phi edges). With
// U = read index + idx, a load at U is the unfolded alternative, a load at U - len(buf) the folded one; the folded one
// must sit behind a test that says exactly U - len(buf) >= 0 (spelled in any equivalent way: idx >= len(buf) - r,
// !(idx < len(head)) with head = buf[r:], ...). A test that says U - len(buf) > 0 leaves slot len(buf) to the unfolded
// alternative: violated. It reports whether it reached a verdict.
func (k *c14) foldLinear(fn *ssa.Function, lds []*ssa.UnOp, first ssa.Instruction) bool {
	c := k.Ctx
	if len(fn.Params) < 2 {
		return false
	}
	idx := fn.Params[1]
	folded, selected, gtr, unknown := 0, 0, false, false
	for _, ld := range lds {
		ld := ld
		ia := ld.X.(*ssa.IndexAddr)
		base := k.guardFacts(ld.Block())
		k.forAllChoices(fn, func(e *c14env, efs []ir.Fact) bool {
			if !e.unwritten(k.rIdx) {
				unknown = true
				return true
			}
			sg, ok := e.seg(ia.X)
			pos := e.lin(ia.Index)
			if len(e.need) > 0 {
				return true
			}
			if !ok {
				unknown = true
				return true
			}
			if sg.isNil {
				return true // indexing the nil slice panics: no slot is read
			}
			u := c14atom("f:"+k.rIdx.Name()+"@entry").add(e.opaque(idx), 1)
			d := sg.off.add(pos, 1).add(u, -1)
			switch {
			case d.isZero():
				return true
			case c14sameForm(d, c14atom("L").scale(-1)):
				folded++
				e.c14shared.frozen = true
				want := u.add(c14atom("L"), -1)
				sel := false
				for _, g := range append(e.factForms(append(append([]ir.Fact{}, base...), k.expandFacts(efs, 0)...)), e.extra...) {
					if c14sameForm(g, want) {
						sel = true
					}
					if c14sameForm(g, want.add(c14const(1), -1)) {
						gtr = true
					}
				}
				if sel {
					selected++
				}
			default:
				unknown = true
			}
			return true
		})
	}
	if unknown || folded == 0 {
		return false
	}
	if gtr {
		c.Decide("C14.R5", fn, "fold selected by >= len(buf)", first, false, "the index is folded back only when it is > len(buf): for read index + i == len(buf) the access hits slot len(buf), which does not exist")
		return true
	}
	c.Decide("C14.R5", fn, "fold selected by >= len(buf)", first, selected == folded, "the fold of the element index is not selected by the test >= len(buf)")
	return true
}

// bufDerivedOrNil: v is a part of the backing array, or a variable that holds such a part on some paths and the nil slice
// on the others (the second segment of a two-segment view when the data does not wrap). Only for reads: indexing the nil
// slice panics, so no element is read through it.
func (k *c14) bufDerivedOrNil(v ssa.Value) bool {
	if k.bufDerived(v) {
		return true
	}
	p, ok := ir.Resolve(v).(*ssa.Phi)
	if !ok {
		return false
	}
	n := 0
	for _, e := range p.Edges {
		if ir.IsNilConst(e) {
			continue
		}
		if !k.bufDerived(e) {
			return false
		}
		n++
	}
	return n > 0
}

// resetAtEnd: the store of 0 to index f sits on the edge on which the index (or the value an advance has just stored to
// it) is known to be at or behind the end of the array, or it empties the ring (the other index is set to 0 next to it).
func (k *c14) resetAtEnd(in ssa.Instruction, f, other *types.Var) bool {
	for _, y := range in.Block().Instrs {
		if k.isReset(y, other) {
			return true
		}
	}
	fn := in.Parent()
	ok := false
	k.cmpVsLenBuf(k.guardFacts(in.Block()), func(op token.Token, a ssa.Value) {
		if op != token.EQL && op != token.GEQ {
			return
		}
		if _, isF := loadOfField(a, f); isF {
			ok = true
			return
		}
		ir.Instrs(fn, func(x ssa.Instruction) {
			if v, isAdv := k.idxStore(x, f); isAdv && k.sameVal(a, v, 0) {
				ok = true
			}
		})
	})
	return ok
}

// ---------------------------------------------------------------------------
// private helpers seen from their call sites

// c14sites: the static calls of one function inside the package.
type c14sites struct {
	calls    []ssa.CallInstruction
	complete bool // the function is private, is never used as a value and is not reachable through an interface: every call is listed
}

// callSites lists the calls of g in the package. The list is complete for an unexported function or method that is only
// ever called by name: then what holds for the arguments of every listed call holds for its parameters.
func (k *c14) callSites(g *ssa.Function) *c14sites {
	if k.sites == nil {
		k.sites = map[*ssa.Function]*c14sites{}
	}
	if s, ok := k.sites[g]; ok {
		return s
	}
	s := &c14sites{complete: true}
	k.sites[g] = s
	if g == nil || g.Parent() != nil || g.Object() == nil || g.Object().Exported() || !k.inPkg(g) {
		s.complete = false
		return s
	}
	for _, fn := range k.P.SrcFuncs {
		if c14root(fn) == nil || c14root(fn).Pkg != k.pkg {
			continue
		}
		ir.Instrs(fn, func(in ssa.Instruction) {
			if ci, ok := in.(ssa.CallInstruction); ok {
				if ir.StaticCallee(ci) == g {
					if _, isCall := in.(*ssa.Call); !isCall {
						s.complete = false // go/defer: runs at another time than the call site suggests
					}
					s.calls = append(s.calls, ci)
				}
				if ci.Common().IsInvoke() && ci.Common().Method.Name() == g.Name() {
					s.complete = false
				}
			}
			// any other mention of the function (method value, function value, closure)
			for _, op := range in.Operands(nil) {
				if op == nil || *op == nil {
					continue
				}
				f, isFn := (*op).(*ssa.Function)
				if !isFn {
					continue
				}
				if f != g && f.Origin() != g {
					continue
				}
				if ci, ok := in.(ssa.CallInstruction); ok && ci.Common().Value == *op && !ci.Common().IsInvoke() {
					continue // the callee position of a static call
				}
				s.complete = false
			}
		})
	}
	if len(s.calls) == 0 {
		s.complete = false
	}
	return s
}

// paramIndex returns the position of p among the parameters of its function (receiver included), or -1.
func c14paramIndex(p *ssa.Parameter) int {
	if p.Parent() == nil {
		return -1
	}
	for i, q := range p.Parent().Params {
		if q == p {
			return i
		}
	}
	return -1
}

// lenBufParam: v is a parameter of a private helper to which every call in the package passes len(buf) (directly or as
// such a parameter of its own): inside the helper it stands for len(buf), which never changes after the constructor.
func (k *c14) lenBufParam(v ssa.Value, depth int) bool {
	p, ok := v.(*ssa.Parameter)
	if !ok || depth > 2 {
		return false
	}
	i := c14paramIndex(p)
	s := k.callSites(p.Parent())
	if i < 0 || !s.complete {
		return false
	}
	for _, ci := range s.calls {
		args := ci.Common().Args
		if i >= len(args) {
			return false
		}
		a := ir.Resolve(args[i])
		if !k.isLenBuf(a) && !k.lenBufParam(a, depth+1) {
			return false
		}
	}
	return true
}
