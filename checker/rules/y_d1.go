package rules

import (
	"go/constant"
	"go/token"
	"go/types"

	"golang.org/x/tools/go/ssa"

	"verif/checker/ir"
)

// This file holds the generalisations of the ordered-map rules (C10/C11, shared by C08/C09 as the M rules) that were
// needed for the second round of behaviour-preserving refactorings. Every helper is named ...D.

// ---------------------------------------------------------------------------
// the "new head" protocol of the unlink routine: (head) with nil = unchanged, or (head, changed)

// unlinkResultIdxD returns the index of the node-pointer result of the unlink routine (the reported new head) and the
// index of its boolean result (the "head changed" flag of the comma-ok spelling); -1 when there is none.
func (r *mapRoles) unlinkResultIdxD() (head, flag int) {
	head, flag = -1, -1
	if r.unlink == nil {
		return
	}
	_, rs := sigOf(r.unlink)
	for i, t := range rs {
		if r.isNodePtr(t) && head < 0 {
			head = i
		}
		if b, ok := t.Underlying().(*types.Basic); ok && b.Kind() == types.Bool && flag < 0 {
			flag = i
		}
	}
	return
}

// headResultStoredD decides C10.R1 at one call site of an unlink routine that reports the new head to its caller: the
// reported node is stored into the head field of the map, and only on an edge on which it is known to be a new head:
//   - the result is tested to be non-nil (the sentinel spelling: nil = head unchanged), or
//   - the boolean result of the same call is tested to be true (the comma-ok spelling: the flag says whether the head
//     changed). That the flag of the routine is true exactly where it reports its successor, and that it reports nil
//     where the flag is false, is decided inside the routine (R9, unlinkFlagAgreesD), so "flag is true" carries what
//     "result is non-nil" carried.
func (r *mapRoles) headResultStoredD(call *ssa.Call) (bool, string) {
	hi, fi := r.unlinkResultIdxD()
	_, rs := sigOf(r.unlink)
	var heads, flags []ssa.Value
	if len(rs) == 1 {
		heads = append(heads, call)
	} else if refs := call.Referrers(); refs != nil {
		for _, ref := range *refs {
			if ex, ok := ref.(*ssa.Extract); ok {
				if ex.Index == hi {
					heads = append(heads, ex)
				}
				if ex.Index == fi {
					flags = append(flags, ex)
				}
			}
		}
	}
	ok := false
	detail := "the result of the unlink routine (new head or nil) is discarded"
	for _, hv := range heads {
		refs := hv.Referrers()
		if refs == nil || len(*refs) == 0 {
			continue
		}
		if detail == "the result of the unlink routine (new head or nil) is discarded" {
			detail = "the result is not stored into the head field on its non-nil edge"
		}
		for _, ref := range *refs {
			s, isStore := ref.(*ssa.Store)
			if !isStore || s.Val != hv {
				continue
			}
			if _, isHead := fieldAddrOf(s.Addr, r.head); !isHead {
				continue
			}
			guarded := ir.HasFact(s.Block(), func(f ir.Fact) bool {
				if cm, isCmp := f.Cmp(); isCmp && cm.Op == token.NEQ && ((cm.X == hv && ir.IsNilConst(cm.Y)) || (cm.Y == hv && ir.IsNilConst(cm.X))) {
					return true
				}
				ff := f.StripNot()
				if ff.True {
					for _, fl := range flags {
						if ff.Cond == fl {
							return true
						}
					}
				}
				return false
			})
			if guarded {
				ok = true
			} else {
				detail = "the result is stored into the head field without the nil test (nil means: head unchanged)"
			}
		}
	}
	return ok, detail
}

// unlinkFlagAgreesD is the part of R9 that belongs to the comma-ok spelling of the unlink result (head, changed): at
// every way the routine returns, the flag is true only together with the node's own successor (never nil: the caller
// stores it into the head without a further test) and false only together with nil (a successor reported with a false
// flag is a new head the caller drops - what "return nil" on the head branch would be in the sentinel spelling). A flag
// computed as "reported head != nil" agrees by construction. Anything else is not decided.
func (c *Ctx) unlinkFlagAgreesD(r *mapRoles, rule string, isSuccessor func(ssa.Value) bool) {
	hi, fi := r.unlinkResultIdxD()
	if hi < 0 || fi < 0 {
		return
	}
	for _, ep := range ir.ExitPoints(r.unlink) {
		hv, fv := ep.Result(hi), ep.Result(fi)
		if hv == nil || fv == nil {
			continue
		}
		const what = "head-changed flag agrees with the reported head"
		alts := phiClosure(ir.Resolve(hv))
		if k, isC := fv.(*ssa.Const); isC && k.Value != nil && k.Value.Kind() == constant.Bool {
			ok := true
			for _, o := range alts {
				if constant.BoolVal(k.Value) {
					if !isSuccessor(o) {
						ok = false
					}
				} else if !ir.IsNilConst(o) {
					ok = false
				}
			}
			c.Decide(rule, r.unlink, what, ep.Ret, ok, "the unlink routine reports 'head changed' without handing out its own successor, or hands out a node together with 'head unchanged': the caller stores nil into the head or drops the new head, and the head field keeps pointing at the unlinked node")
			continue
		}
		if cm, isCmp := ir.AsCmp(fv); isCmp && cm.Op == token.NEQ {
			x, y := cm.X, cm.Y
			if ir.IsNilConst(x) {
				x, y = y, x
			}
			if ir.IsNilConst(y) && (x == hv || same(x, hv)) {
				c.Decide(rule, r.unlink, what, ep.Ret, true, "")
				continue
			}
		}
		c.Undecided(rule, r.unlink, what, ep.Ret, "the head-changed flag is neither a constant on this way out nor the non-nil test of the reported head")
	}
}

// ---------------------------------------------------------------------------
// live-cursor routines

// liveResultIdxD: a live-cursor routine is a Map method that takes one node (a cursor) and hands a node back - the
// cursor settled on an entry that is not removed. The node may be its only result (cursor = settle(cursor)) or come with
// further results that are not nodes (node, has := settle(cursor)): the premise - what the routine does with the node -
// is the same, only the arity differs. It returns the index of the node result, or -1 when m is no such routine
// (no node parameter, several node results, none).
func (r *mapRoles) liveResultIdxD(m *ssa.Function) int {
	if m == nil || m.Signature.Recv() == nil || namedOf(m.Signature.Recv().Type()) != r.Map {
		return -1
	}
	ps, rs := sigOf(m)
	if len(ps) != 1 || namedOf(ps[0]) != r.node {
		return -1
	}
	idx := -1
	for i, t := range rs {
		if namedOf(t) == r.node {
			if idx >= 0 {
				return -1
			}
			idx = i
		}
	}
	return idx
}

// ---------------------------------------------------------------------------
// the payload of a node

// payloadLeafD is one payload value of a node: the chain of fields, held by value, that leads from the node to a field
// whose type is a type parameter (the key, the value). The chain has length one when the node holds key and value as
// loose fields and is longer when it holds them inside an entry struct (node.entry.Key).
type payloadLeafD struct{ path []*types.Var }

func (l payloadLeafD) last() *types.Var { return l.path[len(l.path)-1] }

// under reports whether the access path p reaches the leaf or a struct around it (p is a prefix of the leaf's path):
// a read of p reads the leaf, a store of a zero value to p zeroes it.
func (l payloadLeafD) under(p []*types.Var) bool {
	if len(p) == 0 || len(p) > len(l.path) {
		return false
	}
	for i := range p {
		if p[i] != l.path[i] {
			return false
		}
	}
	return true
}

// payloadLeavesD lists the payload values of the node type, in declaration order.
func (r *mapRoles) payloadLeavesD() []payloadLeafD {
	var res []payloadLeafD
	var walk func(st *types.Struct, prefix []*types.Var, depth int)
	walk = func(st *types.Struct, prefix []*types.Var, depth int) {
		if st == nil || depth > 2 {
			return
		}
		for i := 0; i < st.NumFields(); i++ {
			f := st.Field(i)
			p := append(append([]*types.Var{}, prefix...), f.Origin())
			if _, isTP := f.Type().(*types.TypeParam); isTP {
				res = append(res, payloadLeafD{p})
				continue
			}
			if inner, isStruct := f.Type().Underlying().(*types.Struct); isStruct {
				walk(inner, p, depth+1)
			}
		}
	}
	walk(structOf(r.node), nil, 0)
	return res
}

// isStrictNodePtrD: t is *node (one pointer level).
func (r *mapRoles) isStrictNodePtrD(t types.Type) bool {
	p, ok := t.(*types.Pointer)
	if !ok {
		return false
	}
	n, ok := p.Elem().(*types.Named)
	return ok && n.Origin() == r.node
}

// nodeFieldPathD decodes addr as the address of (a part of) a node: &base.f1.f2... with base a node pointer and every
// step a field held by value. It returns the node and the field chain.
func (r *mapRoles) nodeFieldPathD(addr ssa.Value) (base ssa.Value, path []*types.Var, ok bool) {
	x := addr
	for i := 0; i < 4; i++ {
		fa, isFA := x.(*ssa.FieldAddr)
		if !isFA {
			return nil, nil, false
		}
		f := ir.FieldOf(fa)
		if f == nil {
			return nil, nil, false
		}
		path = append([]*types.Var{f}, path...)
		if r.isStrictNodePtrD(fa.X.Type()) {
			return fa.X, path, true
		}
		x = fa.X
	}
	return nil, nil, false
}

// madeOfParamsD reports whether v is handed in by the caller of fn: a parameter of fn, or a struct value assembled in a
// local cell (a composite literal) whose fields are only ever assigned such values.
func madeOfParamsD(fn *ssa.Function, v ssa.Value, depth int) bool {
	if v == nil || depth > 3 {
		return false
	}
	rv := ir.Resolve(v)
	if prm, isP := rv.(*ssa.Parameter); isP {
		return prm.Parent() == fn
	}
	// a field of such a value (e.Key of an entry handed in as one value)
	if f, isField := rv.(*ssa.Field); isField {
		return madeOfParamsD(fn, f.X, depth+1)
	}
	u, ok := rv.(*ssa.UnOp)
	if !ok || u.Op != token.MUL {
		return false
	}
	if fa, isFA := u.X.(*ssa.FieldAddr); isFA {
		// ... read through the cell a struct parameter was spilled to (written once: with the parameter)
		if cell, isCell := fa.X.(*ssa.Alloc); isCell {
			if sts := ir.StoresTo(cell); len(sts) == 1 {
				return madeOfParamsD(fn, sts[0].Val, depth+1)
			}
		}
		return false
	}
	a, ok := u.X.(*ssa.Alloc)
	if !ok || a.Referrers() == nil {
		return false
	}
	if _, isStruct := a.Type().(*types.Pointer).Elem().Underlying().(*types.Struct); !isStruct {
		return false
	}
	stores := 0
	for _, ref := range *a.Referrers() {
		switch x := ref.(type) {
		case *ssa.DebugRef:
		case *ssa.UnOp:
			if x.Op != token.MUL {
				return false
			}
		case *ssa.FieldAddr:
			if x.Referrers() == nil {
				continue
			}
			for _, fr := range *x.Referrers() {
				switch y := fr.(type) {
				case *ssa.DebugRef:
				case *ssa.UnOp:
					if y.Op != token.MUL {
						return false
					}
				case *ssa.Store:
					if y.Addr != ssa.Value(x) || !madeOfParamsD(fn, y.Val, depth+1) {
						return false
					}
					stores++
				default:
					return false
				}
			}
		default:
			return false
		}
	}
	return stores > 0
}
