package rules

import (
	"fmt"
	"go/constant"
	"go/token"
	"go/types"
	"strings"

	"golang.org/x/tools/go/ssa"

	"verif/checker/ir"
)

func init() {
	register(&Check{
		ID: "C20", Title: "Zip helpers: lossless round trip and extraction confined to target",
		Pkgs:      []string{"files"},
		Run:       runC20,
		Technique: "static analysis: forward taint from zip entry names to file-creating sinks (with summaries of repository helpers) sanitised only by a dominating containment guard; shape check of the containment predicate; path enumeration of the walk callback with a per-path boolean valuation; must-pass-through of Close between an open and the next iteration / the return; provenance agreement of the walk root with the directories that meet the walked path; taint to every file-system mutator including reads of captured variables at the points a closure runs; must-pass-through of create and copy between two entry acquisitions; element-read-to-return paths of the entry iterator (go/ssa)",
		Explanation: "R17 (session 4): when the zip entry name is the walked path with the walk root cut off as a literal prefix (TrimPrefix/CutPrefix/slicing by len(root)), the root derives from filepath.Abs: Walk hands out cleaned joins, for root '.' the cut eats the first character of dot-names. " +
			"R1: no value derived from archive/zip entry names (File.Name / FileHeader.Name, through filepath.Join/Split/Dir/Clean/Base, concatenation, Sprintf, phi) reaches a file-system creating call (os.Create, os.OpenFile, os.Mkdir(All), os.WriteFile, os.Rename, and repository functions whose parameter reaches one) unless the sink is dominated by the true edge of a containment test applied to that value (or to the value it is the Dir of), or - asked per path, with phi nodes resolved to the operand the path selects - every path to the sink either carries no entry-name-derived value in the argument or knows a containment test on it to have succeeded; the test may be a predicate call or the same test spelled out in place (filepath.Rel with err == nil, rel != \"..\" and !HasPrefix(rel, \"..\"+separator) all known on the path); entry names are followed through repository helpers whose result derives from a parameter. " +
			"R3: the name ZipFolder/ZipWriter gives an archive entry derives from the walked file path only through injective operations (slicing off the source prefix, filepath.Rel, Join, ToSlash, TrimPrefix); cut-set trims, case folding, Replace and Base are rejected - a necessary condition of the lossless round trip. " +
			"R4: files are created truncating (os.Create, or os.OpenFile with O_TRUNC/O_EXCL). " +
			"R2: the containment test is filepath.IsLocal, or a repository predicate built from filepath.Rel plus the '..' test, or strings.HasPrefix against a prefix that ends with a path separator; a bare string-prefix test (which accepts sibling directories such as out-old for out) is rejected. " +
			"R5: in the function that writes archive entries (closure, method used as walk function; the selection inputs are its captured variables, receiver fields or parameters of type func(string) bool / bool that it only reads) a file reaches the archive write only on paths on which BOTH selection inputs decided so: the filter is nil or was called on the walked path and returned true, and the recursive flag is true or the comparison of the file's directory with the source directory decided 'same directory' (paths enumerated with phi operands resolved per path, so an overwritten flag variable counts as not decided; a repository predicate that is handed the walked path and the inputs counts, when its result is known on the path, for what every one of its own paths returning that result has decided). R6 (for captured variables, parameters - every call site - and receiver fields - every store): a captured directory string that is cut off the walked path by its length, or compared with the walked path's directory, derives from a path-cleaning call (filepath.Walk hands out cleaned paths). R7: nothing reached from UnzipToFolder creates a link or device (os.Symlink, os.Link, ...). R8: directories are created by os.MkdirAll only (ZipFolder stores file entries only, an intermediate folder exists in the archive as a name prefix). " +
			"R9: in the zip helpers (the functions that touch archive/zip, what they call, their closures) a value with a Close method that is obtained while one entry is handled - in the body of a loop, or in a function that runs once per entry because it is handed over as a value (walk callback, iteration body) or called from such a place - and is not handed on, is closed before the next entry is handled: no path leads from the successful open round the loop to the same open again without a Close that was CALLED (a deferred Close only runs when the function returns), and in a once-per-entry function every path from the successful open to a return that is not a failure passes a called or deferred Close (directly, through a repository helper that closes its parameter, or a closure called/deferred in place); the property quantifies over trees with many files, and a handle per entry that lives until the whole archive is done exhausts the descriptors of the process. " +
			"R10: in the function that writes archive entries every path that returns without a failure and without having reached the archive write knows one of the reasons the property allows for leaving an entry out: a test of the file-TYPE bits only said it is no regular file (IsDir, Mode().IsDir, !Mode().IsRegular, Mode()&M != 0 with M inside os.ModeType - a mask that also covers permission or attribute bits such as setuid/setgid/sticky says nothing about the kind), the filter was called on the walked path and returned false, the recursive flag is known off AND the directory comparison said 'other directory', or the walk itself reported an error for the entry; a repository predicate whose result is known on the path (also one that is handed only the FileInfo, also the element of a fixed table of predicates) counts for what every one of its paths returning that result knows. " +
			"R11: every directory string that meets the walked path in that function and the helpers it hands the path to - the base of filepath.Rel, a prefix cut off, the directory the file's directory is compared with - is the root filepath.Walk was given for this callback: the same variable, field or expression (variables and fields assigned once are looked through, a parameter is what the call it was reached through passes), not another value that merely holds the same string for most inputs. " +
			"R12: what R1 asks of the creating calls holds for every call that changes the file system (os.Remove, RemoveAll, Rename, Chmod, Chown, Chtimes, Truncate ... and repository functions whose parameter reaches one): no entry-name-derived value reaches it without a containment test known to have succeeded on it - and a closure that hands a captured variable to such a call either makes the test itself or runs (call sites; for a deferred closure every exit of the function behind the defer statement) only where the value last assigned to the variable has passed the test; a variable assigned from the entry name before the test and read by a deferred clean-up is unchecked at that read. R13: in the function that extracts, every path from the point an entry is obtained to the point the next one is obtained, or to a return that is no failure, passes the creating call named by the entry name and a call that moves the entry's content into the created file (io.Copy/CopyBuffer/CopyN, ReadFrom/WriteTo, Write, os.WriteFile of io.ReadAll; a repository function counts when every one of its own paths to a return that is no failure passes one), unless the path knows the entry is no regular file (kind bits, trailing slash), that the containment test rejected it, or that there is no entry. R14: a function that returns *zip.File, reads elements of a []*zip.File and keeps a cursor (writes state that outlives the call) returns every element it reads: no path from the read of an element to the read of another one or to a return of something else. R15: in ZipFolder and everything of the package it reaches, no branch condition (through string operations, map lookups keyed by it, comparisons, predicates) rests on a lossy image - R3's case folding, cut-set trims, Replace, Base; strings.EqualFold; a repository function returning such an image of its parameter - of a value the archive entry name is built from, and no such image comes back from a repository function as the entry name: two files of one tree whose relative paths coincide under the image (Readme.txt / readme.txt) would be treated as one - refused as a duplicate, left out, or the archive given up. R16: the extraction side of R3 - the argument of a creating call that derives from an entry name is not (built from) a lossy image of it (cut-set trims, case folding, Replace/ReplaceAll, strings.Map, Base; directly, through a repository function returning such an image, or inside the repository function the name is handed on to); FromSlash/ToSlash, Clean, Join are what the writing side inverts.",
		NotDecided: "the lossless round trip ZipFolder -> UnzipToFolder as such (equal relative paths and contents for every tree) is a value statement over file trees; injectivity of the name mapping (R3) and the selection clause (R5: both selection inputs decide on every path) are the structural parts decided; symbolic links already present inside the destination.",
		Trusted:    []string{"archive/zip entry names are attacker controlled", "filepath.Rel / filepath.IsLocal semantics"},
	})
}

// extractionCalls (C20.R7, C20.R8): what the extraction may create. Reached from UnzipToFolder (through functions of the
// package): no link of any kind is created - a link whose target comes from the archive redirects every later entry
// written "below" it, and a lexical containment test of the target says nothing about where a chain of links resolves;
// and directories are created with their missing parents (os.MkdirAll) - the archives written by ZipFolder carry file
// entries only, so an intermediate folder exists in the archive as a name prefix and nowhere else.
func (c *Ctx) extractionCalls() {
	unzip := c.P.Func("files", "UnzipToFolder")
	if unzip == nil || len(unzip.Blocks) == 0 {
		c.Decide("C20.R7", nil, "extraction creates regular files and directories only", nil, false, "files.UnzipToFolder not found")
		return
	}
	seen := map[*ssa.Function]bool{}
	links, mk, mkAll := 0, 0, 0
	var visit func(fn *ssa.Function, d int)
	visit = func(fn *ssa.Function, d int) {
		if fn == nil || seen[fn] || d > 4 || len(fn.Blocks) == 0 {
			return
		}
		seen[fn] = true
		for _, call := range ir.Calls(fn) {
			in, _ := call.(ssa.Instruction)
			switch ir.CalleeFullName(call) {
			case "os.Symlink", "os.Link", "syscall.Symlink", "syscall.Link", "syscall.Mkfifo", "syscall.Mknod":
				links++
				c.Decide("C20.R7", fn, "extraction creates regular files and directories only", in, false,
					"the extraction creates a link (or device) from archive data: entries that follow are written through it, a chain of relative links that each look harmless resolves outside of the destination directory")
			case "os.Mkdir":
				mk++
				c.Decide("C20.R8", fn, "directories are created with their parents", in, false,
					"the extraction creates a directory with os.Mkdir: a folder whose parent holds no file of its own exists in the archive only as a name prefix, os.Mkdir fails for it (ENOENT) and every file below is lost in the round trip")
			case "os.MkdirAll":
				mkAll++
			}
			if cal := ir.StaticCallee(call); cal != nil && cal.Pkg == unzip.Pkg {
				visit(cal, d+1)
			}
		}
		for _, an := range fn.AnonFuncs {
			visit(an, d+1)
		}
	}
	visit(unzip, 0)
	if links == 0 {
		c.Decide("C20.R7", unzip, "extraction creates regular files and directories only", nil, true, "")
	}
	if mk == 0 {
		c.Decide("C20.R8", unzip, "directories are created with their parents", nil, mkAll > 0, "the extraction never creates a directory (no os.MkdirAll reached from UnzipToFolder)")
	}
}

func runC20(c *Ctx) {
	c.extractionCalls()
	fns := c.P.FuncsOf("files")
	if len(fns) == 0 {
		c.Fatalf("package files not loaded")
	}
	c.entryHandles(fns, "C20.R9")
	osSink := map[string][]int{ // callee -> indices of path arguments that name something created/overwritten
		"os.Create": {0}, "os.OpenFile": {0}, "os.Mkdir": {0}, "os.MkdirAll": {0}, "os.WriteFile": {0},
		"os.Rename": {1}, "os.Symlink": {1}, "os.Link": {1}, "os.MkdirTemp": {0}, "os.CreateTemp": {0},
		"os.Chmod": {0}, "os.Chtimes": {0}, "os.Truncate": {0},
	}
	// summaries: parameters of repository functions that reach a sink
	reach := map[*ssa.Function]map[int]bool{}
	// summaries: parameters of repository functions a result derives from (join/rel-style helpers, helpers that
	// build and return the destination name)
	flows := map[*ssa.Function]map[int]bool{}
	inPkg := map[*ssa.Function]bool{}
	for _, fn := range fns {
		inPkg[fn] = true
	}
	sinkArgs := func(call ssa.CallInstruction) []ssa.Value {
		name := ir.CalleeFullName(call)
		var res []ssa.Value
		if idx, ok := osSink[name]; ok {
			if name == "os.OpenFile" {
				// read-only opens are no sinks
				if fl, isC := ir.ConstInt(call.Common().Args[1]); isC && fl&0x3 == 0 && fl&0x40 == 0 {
					return nil
				}
			}
			for _, i := range idx {
				if i < len(call.Common().Args) {
					res = append(res, call.Common().Args[i])
				}
			}
			return res
		}
		if cal := ir.StaticCallee(call); cal != nil {
			for i := range reach[cal] {
				if i < len(call.Common().Args) {
					res = append(res, call.Common().Args[i])
				}
			}
		}
		return res
	}
	derives := func(fn *ssa.Function, from map[ssa.Value]bool) map[ssa.Value]bool {
		t := map[ssa.Value]bool{}
		for k := range from {
			t[k] = true
		}
		for changed := true; changed; {
			changed = false
			mark := func(v ssa.Value) {
				if !t[v] {
					t[v] = true
					changed = true
				}
			}
			ir.Instrs(fn, func(in ssa.Instruction) {
				switch x := in.(type) {
				case *ssa.Phi:
					for _, e := range x.Edges {
						if t[e] {
							mark(x)
						}
					}
				case *ssa.BinOp:
					if x.Op == token.ADD && (t[x.X] || t[x.Y]) {
						mark(x)
					}
				case *ssa.Extract:
					if t[x.Tuple] {
						mark(x)
					}
				case *ssa.Slice:
					if t[x.X] {
						mark(x)
					}
				case *ssa.ChangeType:
					if t[x.X] {
						mark(x)
					}
				case *ssa.Convert:
					if t[x.X] {
						mark(x)
					}
				case *ssa.MakeInterface:
					if t[x.X] {
						mark(x)
					}
				case *ssa.Store:
					// variadic argument arrays and spilled locals
					if t[x.Val] {
						switch a := x.Addr.(type) {
						case *ssa.IndexAddr:
							mark(a.X)
						case *ssa.Alloc:
							mark(a)
						}
					}
				case *ssa.UnOp:
					if x.Op == token.MUL && t[x.X] {
						if _, isAlloc := x.X.(*ssa.Alloc); isAlloc {
							mark(x)
						}
					}
				case *ssa.Call:
					name := ir.CalleeFullName(x)
					switch name {
					case "path/filepath.Join", "path/filepath.Split", "path/filepath.Dir", "path/filepath.Clean", "path/filepath.Base",
						"path/filepath.FromSlash", "path/filepath.ToSlash", "path/filepath.Abs", "path.Join", "path.Clean", "path.Dir",
						"fmt.Sprintf", "fmt.Sprint", "strings.TrimPrefix", "strings.TrimSuffix", "strings.TrimLeft", "strings.TrimRight", "strings.Trim",
						"strings.ReplaceAll", "strings.Replace", "strings.ToLower", "strings.ToUpper", "strings.TrimSpace":
						for _, a := range x.Call.Args {
							if t[a] {
								mark(x)
							}
						}
					default:
						if cal := ir.StaticCallee(x); cal != nil && inPkg[cal] {
							for i := range flows[cal] {
								if i < len(x.Call.Args) && t[x.Call.Args[i]] {
									mark(x)
								}
							}
						}
					}
				}
			})
		}
		return t
	}
	isStringy := func(t types.Type) bool {
		b, ok := t.Underlying().(*types.Basic)
		return ok && b.Info()&types.IsString != 0
	}
	for changed := true; changed; {
		changed = false
		for _, fn := range fns {
			for i, p := range fn.Params {
				if !isStringy(p.Type()) || flows[fn][i] {
					continue
				}
				t := derives(fn, map[ssa.Value]bool{p: true})
				hit := false
				for _, ret := range ir.Returns(fn) {
					for _, r := range ret.Results {
						if t[r] {
							hit = true
						}
					}
				}
				if hit {
					if flows[fn] == nil {
						flows[fn] = map[int]bool{}
					}
					flows[fn][i] = true
					changed = true
				}
			}
		}
	}
	for changed := true; changed; {
		changed = false
		for _, fn := range fns {
			for i, p := range fn.Params {
				if !isStringy(p.Type()) {
					continue
				}
				if reach[fn][i] {
					continue
				}
				t := derives(fn, map[ssa.Value]bool{p: true})
				hit := false
				for _, call := range ir.Calls(fn) {
					for _, a := range sinkArgs(call) {
						if t[a] {
							hit = true
						}
					}
				}
				if hit {
					if reach[fn] == nil {
						reach[fn] = map[int]bool{}
					}
					reach[fn][i] = true
					changed = true
				}
			}
		}
	}
	for fn, ps := range reach {
		for i := range ps {
			c.R.Role("sink summary "+relName(fn)+" param "+fn.Params[i].Name(), "reaches a file-creating call")
		}
	}

	// containment predicates of the repository
	type predInfo struct {
		ok     bool
		detail string
	}
	preds := map[*ssa.Function]predInfo{}
	for _, fn := range fns {
		rs := fn.Signature.Results()
		if rs.Len() != 1 || !types.Identical(rs.At(0).Type(), types.Typ[types.Bool]) || fn.Signature.Params().Len() < 1 {
			continue
		}
		usesRel, usesDotDot, usesPrefix, sepPrefix, barePrefix := false, false, false, false, false
		ir.Instrs(fn, func(in ssa.Instruction) {
			for _, op := range in.Operands(nil) {
				if op != nil && *op != nil {
					if cv := ir.ConstVal(*op); cv != nil && cv.Kind() == constant.String && strings.HasPrefix(constant.StringVal(cv), "..") {
						usesDotDot = true
					}
				}
			}
			call, ok := in.(*ssa.Call)
			if !ok {
				return
			}
			switch ir.CalleeFullName(call) {
			case "path/filepath.Rel":
				usesRel = true
			default:
				// a repository wrapper of filepath.Rel (a method of a directory type, say)
				if _, isRel := relCall(call); isRel {
					usesRel = true
				}
			case "strings.HasPrefix":
				usesPrefix = true
				pre := ir.Resolve(call.Call.Args[1])
				if endsWithSeparator(pre) {
					sepPrefix = true
				} else if cv := ir.ConstVal(pre); cv == nil || !strings.HasPrefix(constant.StringVal(cv), "..") {
					barePrefix = true
				}
			}
		})
		switch {
		case usesRel && usesDotDot:
			preds[fn] = predInfo{true, ""}
		case usesPrefix && sepPrefix && !barePrefix:
			preds[fn] = predInfo{true, ""}
		case usesPrefix && barePrefix:
			preds[fn] = predInfo{false, "the containment test is a bare strings.HasPrefix(path, dir): a sibling whose name starts with the directory's name (out-old for out) passes, entries reach it through '..'"}
		}
	}
	isContainment := func(call *ssa.Call) (bool, *ssa.Function) {
		switch ir.CalleeFullName(call) {
		case "path/filepath.IsLocal":
			return true, nil
		}
		if cal := ir.StaticCallee(call); cal != nil {
			if _, ok := preds[cal]; ok {
				return true, cal
			}
		}
		return false, nil
	}

	// sources
	isEntryName := func(v ssa.Value) bool {
		var fa *ssa.FieldAddr
		switch x := v.(type) {
		case *ssa.UnOp:
			if x.Op == token.MUL {
				fa, _ = x.X.(*ssa.FieldAddr)
			}
		case *ssa.Field:
			f := ir.FieldOf(x)
			return f != nil && f.Name() == "Name" && f.Pkg() != nil && f.Pkg().Path() == "archive/zip"
		}
		if fa == nil {
			return false
		}
		f := ir.FieldOf(fa)
		return f != nil && f.Name() == "Name" && f.Pkg() != nil && f.Pkg().Path() == "archive/zip"
	}
	nSinks := 0
	usedInline := map[*ssa.Call]*ssa.Function{} // in-place containment tests that discharged a sink
	env := &r1Env{c: c, derives: derives, isContainment: isContainment, inPkg: inPkg, sums: map[*ssa.Function]*ctorSum{},
		predOK: func(f *ssa.Function) (bool, string) { return preds[f].ok, preds[f].detail }}
	for _, fn := range fns {
		src := map[ssa.Value]bool{}
		ir.Instrs(fn, func(in ssa.Instruction) {
			if v, ok := in.(ssa.Value); ok && isEntryName(v) {
				src[v] = true
			}
		})
		if len(src) == 0 {
			continue
		}
		c.Saw(fn)
		t := derives(fn, src)
		for _, call := range ir.Calls(fn) {
			for _, a := range sinkArgs(call) {
				if !t[a] {
					continue
				}
				nSinks++
				// guard: a containment call with a (or a value a is derived from by Dir/identity) as argument, true on this path
				guarded, weak := false, ""
				for _, f := range ir.Facts(call.Block()) {
					f = f.StripNot()
					gc, ok := f.Cond.(*ssa.Call)
					if !ok || !f.True {
						continue
					}
					isC, pred := isContainment(gc)
					if !isC {
						continue
					}
					covers := false
					for _, ga := range gc.Call.Args {
						if !t[ga] {
							continue
						}
						if same(ga, a) || dirOf(a, ga) {
							covers = true
						}
					}
					if !covers {
						continue
					}
					if pred != nil && !preds[pred].ok {
						weak = preds[pred].detail
						continue
					}
					guarded = true
				}
				if !guarded {
					// the same question asked per path: the test need not dominate the sink as a branch condition (its
					// result may travel through a boolean variable, the tested name through a result variable of an
					// inlined helper), and it may be spelled out in place (filepath.Rel + the ".." tests)
					ev := c.containmentEvidence(fn, t, isContainment)
					ctors := env.ctorCalls(fn, 0)
					sinkCall, sinkArg := call, a
					tmpUsed := map[*ssa.Call]*ssa.Function{}
					q := ir.PathQuery{Fn: fn, Target: func(in ssa.Instruction, val *ir.Valuation) bool {
						if in != sinkCall.(ssa.Instruction) {
							return false
						}
						ra := val.Selected(sinkArg)
						if !t[ra] {
							return false // on this path the argument is not built from an entry name (e.g. the "" of an error return)
						}
						return !env.guardedOn(fn, t, ev, ctors, val, ra, tmpUsed, &weak)
					}}
					w, err := q.Find()
					switch {
					case err != nil:
						c.Undecided("C20.R1", fn, "entry name -> "+shortCallee(call)+" is guarded", call, err.Error())
						continue
					case w == nil:
						guarded = true
						for rc, where := range tmpUsed {
							usedInline[rc] = where
						}
					}
				}
				if !guarded && c.zipCalleeGuards(env, fns, call, a, sinkArgs) {
					guarded = true // the function the name is handed to makes the test itself before every sink (v_zip_u.go)
				}
				detail := "a path built from a zip entry name reaches " + ir.CalleeFullName(call) + " without a dominating containment test on it: an entry named ../x or /abs is created outside the destination"
				if !guarded && weak != "" {
					detail = "the only containment test on this path is unsound: " + weak
				}
				c.Decide("C20.R1", fn, "entry name -> "+shortCallee(call)+" is guarded", call, guarded, detail)
				// R4: an extracted file is created truncating (os.Create, or OpenFile with O_TRUNC / O_EXCL)
				if ir.CalleeFullName(call) == "os.OpenFile" {
					fl, isC := ir.ConstInt(call.Common().Args[1])
					c.Decide("C20.R4", fn, "extracted file is created truncating", call, isC && (fl&0x200 != 0 || fl&0x80 != 0),
						"the extracted file is opened with O_CREATE but without O_TRUNC (or O_EXCL): extracting over a longer existing file keeps its old tail, the unzipped content differs from the archived one")
				}
			}
		}
	}
	c.zipHardening(fns, env, isEntryName, sinkArgs) // R12, R13, R14 (v_zip*.go)
	// R2 for tests spelled out in place: the recognised form is filepath.Rel + err == nil + rel != ".." +
	// !HasPrefix(rel, ".."+separator), which is separator-safe by construction
	for rc, fn := range usedInline {
		c.Decide("C20.R2", fn, "in-place containment test (filepath.Rel form) is separator-safe", rc, true, "")
	}
	// R2: report the shape verdict of each predicate that guards something
	for fn, pi := range preds {
		used := false
		for _, f := range fns {
			if len(callsTo(f, fn)) > 0 {
				used = true
			}
		}
		if used {
			c.Decide("C20.R2", fn, "containment predicate is separator-safe", nil, pi.ok, pi.detail)
		}
	}
	// R3: the entry-name mapping is injective (necessary for a lossless round trip)
	lossy := map[string]bool{"strings.TrimLeft": true, "strings.TrimRight": true, "strings.Trim": true, "strings.ToLower": true, "strings.ToUpper": true,
		"strings.ReplaceAll": true, "strings.Replace": true, "strings.TrimSpace": true, "path/filepath.Base": true, "path.Base": true, "strings.Title": true,
		"strings.Map": true, "strings.TrimFunc": true, "strings.TrimLeftFunc": true, "strings.TrimRightFunc": true, "strings.Fields": true}
	c.zipLossyDecisions(fns, env, lossy, "C20.R15")                         // v_zip_g.go
	c.zipLossyExtraction(fns, env, lossy, isEntryName, sinkArgs, "C20.R16") // v_zip_h.go
	nameChain := func(fn *ssa.Function, v ssa.Value) (string, ssa.Instruction) {
		seen := map[ssa.Value]bool{}
		var bad string
		var at ssa.Instruction
		var rec func(v ssa.Value, depth int)
		rec = func(v ssa.Value, depth int) {
			v = ir.Resolve(v)
			if v == nil || seen[v] || depth > 12 {
				return
			}
			seen[v] = true
			switch x := v.(type) {
			case *ssa.Call:
				name := ir.CalleeFullName(x)
				if lossy[name] {
					bad, at = name, x
					return
				}
				for _, a := range x.Call.Args {
					if _, isStr := a.Type().Underlying().(*types.Basic); isStr {
						rec(a, depth+1)
					}
					if sl, isSl := a.(*ssa.Slice); isSl {
						for _, e := range variadicArgs(sl) {
							rec(e, depth+1)
						}
					}
				}
			case *ssa.Phi:
				for _, e := range x.Edges {
					rec(e, depth+1)
				}
			case *ssa.BinOp:
				rec(x.X, depth+1)
				rec(x.Y, depth+1)
			case *ssa.Slice:
				rec(x.X, depth+1)
			case *ssa.Extract:
				rec(x.Tuple, depth+1)
			case *ssa.UnOp:
				if a, ok := x.X.(*ssa.Alloc); ok {
					for _, st := range ir.StoresTo(a) {
						rec(st.Val, depth+1)
					}
				}
			}
		}
		rec(v, 0)
		return bad, at
	}
	nNames := 0
	for _, fn := range fns {
		for _, call := range ir.Calls(fn) {
			name := ir.CalleeFullName(call)
			var arg ssa.Value
			switch name {
			case "(*archive/zip.Writer).Create":
				arg = ir.MethodArgs(call)[0]
			case "os.Create":
				// only the extraction side: fed by an entry name
				continue
			default:
				continue
			}
			nNames++
			bad, at := nameChain(fn, arg)
			if at == nil {
				at = call
			}
			c.Decide("C20.R3", fn, "archive entry name derives from the file path injectively", at, bad == "",
				"the entry name passes through "+bad+", which maps different relative paths to the same name (or drops characters): the round trip loses or renames files")
		}
	}
	c.R.Floor("C20.R3", 1)
	c.zipSelection(fns, "C20.R5", "C20.R6")
	c.R.Floor("C20.R6", 1)
	if nSinks == 0 {
		c.R.Errorf("C20.R1 matched no sink fed by a zip entry name: UnzipToFolder changed shape and the rule would pass vacuously")
	}
	c.R.Floor("C20.R1", 2)
	c.R.Floor("C20.R2", 1)
}

func shortCallee(call ssa.CallInstruction) string {
	n := ir.CalleeFullName(call)
	if i := strings.LastIndex(n, "/"); i >= 0 {
		n = n[i+1:]
	}
	return n
}

// dirOf reports whether a is filepath.Dir(b) (possibly through Clean).
func dirOf(a, b ssa.Value) bool {
	call, ok := ir.Resolve(a).(*ssa.Call)
	if !ok {
		return false
	}
	switch ir.CalleeFullName(call) {
	case "path/filepath.Dir", "path/filepath.Clean":
		return same(call.Call.Args[0], b) || dirOf(call.Call.Args[0], b)
	}
	return false
}

// endsWithSeparator reports whether string value v is a concatenation ending with a path separator.
func endsWithSeparator(v ssa.Value) bool {
	v = ir.Resolve(v)
	if cv := ir.ConstVal(v); cv != nil && cv.Kind() == constant.String {
		s := constant.StringVal(cv)
		return strings.HasSuffix(s, "/") || strings.HasSuffix(s, "\\")
	}
	switch x := v.(type) {
	case *ssa.BinOp:
		if x.Op == token.ADD {
			return endsWithSeparator(x.Y)
		}
	case *ssa.Convert:
		// string(filepath.Separator) / string(os.PathSeparator)
		if cv := ir.ConstVal(x.X); cv != nil {
			if k, ok := constant.Int64Val(constant.ToInt(cv)); ok && (k == '/' || k == '\\') {
				return true
			}
		}
	}
	return false
}

// zipSelection is C20.R5: a file becomes an archive entry only after BOTH selection inputs decided so on that very
// path - the caller's filter (nil, or called on the walked path and true) and the recursive flag (true, or the
// comparison of the file's directory with the source directory decided "same directory"). The paths of the walk
// callback are enumerated with phi nodes resolved per path, so a flag variable assigned by one test and overwritten
// by the other is seen as "not decided on this path". It decides that structural part of "every file the filter and
// the recursive flag select, and nothing else", not the round trip.
//
// The selection inputs are found by what they are - a func(string) bool and a bool that the function only reads - in
// whichever representation the code keeps them: variables captured by a closure, fields of the receiver of a method
// used as the walk function, parameters of a helper. A selection predicate of the repository (a bool function that is
// handed the walked path and the inputs) is not presumed to decide anything: its own paths are enumerated, and a call
// of it known true (false) counts for what every path returning true (false) has decided.
func (c *Ctx) zipSelection(fns []*ssa.Function, rule, rule6 string) {
	z := &zipSel{c: c, fns: fns, rule6: rule6, inPkg: map[*ssa.Function]bool{}, archives: map[*ssa.Function]bool{},
		visited: map[string]*selRoles{}, summaries: map[string]*bool{}, r6done: map[string]bool{}}
	for _, fn := range fns {
		z.inPkg[fn] = true
	}
	// functions that write archive entries, directly or through repository functions they call
	for _, fn := range fns {
		for _, call := range ir.Calls(fn) {
			if isArchiveCreate(call) {
				z.archives[fn] = true
			}
		}
	}
	for changed := true; changed; {
		changed = false
		for _, fn := range fns {
			if z.archives[fn] {
				continue
			}
			for _, call := range ir.Calls(fn) {
				if cal := ir.StaticCallee(call); cal != nil && z.archives[cal] {
					if _, isCall := call.(*ssa.Call); isCall {
						z.archives[fn] = true
						changed = true
					}
				}
			}
		}
	}
	for _, fn := range fns {
		if !z.archives[fn] {
			continue
		}
		var writes []*ssa.Call
		for _, call := range ir.Calls(fn) {
			cc, ok := call.(*ssa.Call)
			if !ok {
				continue
			}
			if isArchiveCreate(cc) {
				writes = append(writes, cc)
			} else if cal := ir.StaticCallee(cc); cal != nil && z.archives[cal] {
				writes = append(writes, cc)
			}
		}
		if len(writes) == 0 {
			continue
		}
		r := z.topRoles(fn)
		if r == nil {
			continue
		}
		// a walk that prunes directories (filepath.SkipDir) selects by other means: not analysed
		prunes := false
		ir.Instrs(fn, func(in ssa.Instruction) {
			for _, op := range in.Operands(nil) {
				if op != nil && *op != nil {
					if g, ok := (*op).(*ssa.Global); ok && (g.Name() == "SkipDir" || g.Name() == "SkipAll") {
						prunes = true
					}
				}
			}
		})
		c.Saw(fn)
		r = z.visit(r, 0)
		z.tops = append(z.tops, &selTop{fn: fn, roles: r, writes: writes})
		for _, cr := range writes {
			if prunes {
				c.Decide(rule, fn, "selection delegated to directory pruning (not analysed)", cr, true, "")
				continue
			}
			for _, kind := range []int{selFilter, selFlag} {
				if !z.hasKind(r, kind) {
					continue
				}
				kind, cr := kind, cr
				q := ir.PathQuery{Fn: fn, Target: func(in ssa.Instruction, val *ir.Valuation) bool {
					if in != ssa.Instruction(cr) {
						return false
					}
					return !z.decidedOn(r, val, kind, 0, in)
				}}
				if kind == selFilter {
					c.pathVerdict(rule, fn, "archived only if the filter is nil or accepted the path", cr, q,
						"a file becomes an archive entry on a path where the filter was neither nil nor asked-and-true: files the filter rejects are archived (or the filter's verdict is overwritten before it is used)")
				} else {
					c.pathVerdict(rule, fn, "archived only if recursive or the file lies directly in the source directory", cr, q,
						"a file becomes an archive entry on a path where the recursive flag is not known true and the directory comparison did not decide 'same directory': files of sub-folders are archived in non-recursive mode (or the test result is overwritten before it is used)")
				}
			}
		}
	}
	c.R.Floor(rule, 2)
	z.skipLicensed("C20.R10")
	z.walkRootAgreement("C20.R11")
}

func isArchiveCreate(call ssa.CallInstruction) bool {
	switch ir.CalleeFullName(call) {
	case "(*archive/zip.Writer).Create", "(*archive/zip.Writer).CreateHeader":
		return true
	}
	return false
}

const (
	selFilter = iota
	selFlag
)

// selInput is something a function only reads: a variable captured by a closure, a field of the receiver of a method,
// a parameter.
type selInput struct {
	fv    *ssa.FreeVar
	field *types.Var
	param *ssa.Parameter
	typ   types.Type
	reads map[ssa.Value]bool // the SSA values of fn that are the content of the input (not used for captured variables)
}

func (in *selInput) key() string {
	switch {
	case in.fv != nil:
		return "fv:" + in.fv.Name()
	case in.field != nil:
		return "field:" + in.field.Name()
	default:
		return "param:" + in.param.Name()
	}
}

// isRead: v is the content of the input (through string conversions and single-assignment locals).
func (in *selInput) isRead(v ssa.Value) bool {
	v = peelLocal(v)
	if in.fv != nil {
		u, ok := v.(*ssa.UnOp)
		return ok && u.Op == token.MUL && u.X == ssa.Value(in.fv)
	}
	return in.reads[v]
}

// peelLocal strips conversions between string types and loads of locals that are assigned once; loads of captured
// variables and of fields stay what they are.
func peelLocal(v ssa.Value) ssa.Value {
	for i := 0; i < 16 && v != nil; i++ {
		switch x := v.(type) {
		case *ssa.ChangeType:
			v = x.X
		case *ssa.Convert:
			if !isStringType(x.Type()) || !isStringType(x.X.Type()) {
				return v
			}
			v = x.X
		case *ssa.UnOp:
			a, ok := x.X.(*ssa.Alloc)
			if !ok || x.Op != token.MUL {
				return v
			}
			sts := ir.StoresTo(a)
			if len(sts) != 1 {
				return v
			}
			v = sts[0].Val
		default:
			return v
		}
	}
	return v
}

func isStringType(t types.Type) bool {
	b, ok := t.Underlying().(*types.Basic)
	return ok && b.Info()&types.IsString != 0
}

func isFilterType(t types.Type) bool {
	sg, ok := t.Underlying().(*types.Signature)
	return ok && sg.Params().Len() == 1 && sg.Results().Len() == 1 && types.Identical(sg.Results().At(0).Type(), types.Typ[types.Bool])
}

func isBoolType(t types.Type) bool {
	b, ok := t.Underlying().(*types.Basic)
	return ok && b.Kind() == types.Bool
}

// selRoles: what is what in one function of the selection.
type selRoles struct {
	fn      *ssa.Function
	key     string
	paths   map[ssa.Value]bool // parameters holding the walked path
	filters []*selInput
	flags   []*selInput
	dirs    []*selInput
	// candidates (filled by visit)
	filterCalls map[*selInput][]*ssa.Call
	nilTests    map[*selInput][]*ssa.BinOp
	dirTests    []ssa.Value
	helpers     []*selHelper
	// fixed tables of predicates evaluated by a loop over all of their elements (filled by topRoles / visit)
	tables     []*selTable
	tablesDone bool
}

// selHelper is a call of a repository function that is handed the walked path.
type selHelper struct {
	call  *ssa.Call
	roles *selRoles // the callee seen with the caller's inputs mapped onto its parameters / receiver fields
}

type zipSel struct {
	c         *Ctx
	fns       []*ssa.Function
	rule6     string
	inPkg     map[*ssa.Function]bool
	archives  map[*ssa.Function]bool
	visited   map[string]*selRoles
	summaries map[string]*bool
	r6done    map[string]bool
	// the functions that write archive entries and carry selection inputs, with their roles and write sites (R10, R11)
	tops []*selTop
	// R10
	licSums   map[string]*licSum
	kindCache map[*ssa.Function][]kindTest
}

// receiverInputs: the fields of fn's receiver that fn reads and that nothing but a constructor writes.
func (z *zipSel) receiverInputs(fn *ssa.Function) []*selInput {
	if fn.Signature.Recv() == nil || len(fn.Params) == 0 {
		return nil
	}
	recv := fn.Params[0]
	byField := map[*types.Var]*selInput{}
	var order []*types.Var
	ir.Instrs(fn, func(in ssa.Instruction) {
		var f *types.Var
		var val ssa.Value
		switch x := in.(type) {
		case *ssa.UnOp:
			fa, ok := x.X.(*ssa.FieldAddr)
			if !ok || x.Op != token.MUL || peelLocal(fa.X) != ssa.Value(recv) {
				return
			}
			f, val = ir.FieldOf(fa), x
		case *ssa.Field:
			if peelLocal(x.X) != ssa.Value(recv) {
				return
			}
			f, val = ir.FieldOf(x), x
		default:
			return
		}
		if f == nil {
			return
		}
		if byField[f] == nil {
			byField[f] = &selInput{field: f, typ: f.Type(), reads: map[ssa.Value]bool{}}
			order = append(order, f)
		}
		byField[f].reads[val] = true
	})
	var res []*selInput
	for _, f := range order {
		if z.fieldWrittenOutsideConstructor(f, fn) {
			continue
		}
		res = append(res, byField[f])
	}
	return res
}

// fieldStores lists the stores of the package into field f.
func (z *zipSel) fieldStores(f *types.Var) []*ssa.Store {
	var res []*ssa.Store
	for _, fn := range z.fns {
		ir.Instrs(fn, func(in ssa.Instruction) {
			if st, ok := in.(*ssa.Store); ok {
				if fa, isFA := st.Addr.(*ssa.FieldAddr); isFA && ir.FieldOf(fa) == f {
					res = append(res, st)
				}
			}
		})
	}
	return res
}

// fieldWrittenOutsideConstructor: f is stored to in reader itself, or somewhere through anything but a freshly
// allocated struct (composite literal / local variable).
func (z *zipSel) fieldWrittenOutsideConstructor(f *types.Var, reader *ssa.Function) bool {
	for _, st := range z.fieldStores(f) {
		if st.Parent() == reader {
			return true
		}
		if _, fresh := st.Addr.(*ssa.FieldAddr).X.(*ssa.Alloc); !fresh {
			return true
		}
	}
	return false
}

func classify(r *selRoles, in *selInput) {
	switch {
	case isFilterType(in.typ):
		r.filters = append(r.filters, in)
	case isBoolType(in.typ):
		r.flags = append(r.flags, in)
	case isStringType(in.typ):
		r.dirs = append(r.dirs, in)
	}
}

// topRoles resolves the roles in a function that writes archive entries: the walked path is its first string parameter,
// the selection inputs are the captured variables / receiver fields / other parameters of the fitting types.
func (z *zipSel) topRoles(fn *ssa.Function) *selRoles {
	r := &selRoles{fn: fn, key: ir.FnName(fn), paths: map[ssa.Value]bool{}}
	start := 0
	if fn.Signature.Recv() != nil {
		start = 1
	}
	for i := start; i < len(fn.Params); i++ {
		if b, ok := fn.Params[i].Type().Underlying().(*types.Basic); ok && b.Kind() == types.String {
			r.paths[fn.Params[i]] = true
			break
		}
	}
	if len(r.paths) == 0 {
		return nil
	}
	for _, fv := range fn.FreeVars {
		if pt, ok := fv.Type().Underlying().(*types.Pointer); ok {
			classify(r, &selInput{fv: fv, typ: pt.Elem()})
		}
	}
	for _, in := range z.receiverInputs(fn) {
		classify(r, in)
	}
	for i := start; i < len(fn.Params); i++ {
		p := fn.Params[i]
		if r.paths[p] {
			continue
		}
		classify(r, &selInput{param: p, typ: p.Type(), reads: map[ssa.Value]bool{p: true}})
	}
	if len(r.filters) == 0 && len(r.flags) == 0 && !z.tableHasInputs(r) {
		return nil
	}
	return r
}

// calleeRoles maps the caller's roles onto the parameters (and, for a method called on the same receiver, the receiver
// fields) of the callee of call. nil when the callee is not handed the walked path.
func (z *zipSel) calleeRoles(r *selRoles, call *ssa.Call) *selRoles {
	cal := ir.StaticCallee(call)
	if cal == nil || !z.inPkg[cal] || len(cal.Blocks) == 0 || cal == r.fn {
		return nil
	}
	args := call.Call.Args
	if len(args) != len(cal.Params) {
		return nil
	}
	h := &selRoles{fn: cal, paths: map[ssa.Value]bool{}}
	key := ir.FnName(cal) + "("
	for i, p := range cal.Params {
		a := args[i]
		tag := "-"
		switch {
		case i == 0 && cal.Signature.Recv() != nil:
			if r.fn.Signature.Recv() != nil && len(r.fn.Params) > 0 && peelLocal(a) == ssa.Value(r.fn.Params[0]) {
				for _, in := range z.receiverInputs(cal) {
					classify(h, in)
				}
				tag = "recv"
			} else if isStringType(p.Type()) && !z.onPath(r, a) {
				// a method of a string type (a directory name type) called on an input
				h.dirs = append(h.dirs, &selInput{param: p, typ: p.Type(), reads: map[ssa.Value]bool{p: true}})
				tag = "dir"
			}
		case isStringType(p.Type()) && z.onPath(r, a):
			h.paths[p] = true
			tag = "path"
		case isStringType(p.Type()):
			h.dirs = append(h.dirs, &selInput{param: p, typ: p.Type(), reads: map[ssa.Value]bool{p: true}})
			tag = "dir"
		case isFilterType(p.Type()):
			for _, f := range r.filters {
				if f.isRead(a) {
					h.filters = append(h.filters, &selInput{param: p, typ: p.Type(), reads: map[ssa.Value]bool{p: true}})
					tag = "filter"
				}
			}
		case isBoolType(p.Type()):
			for _, f := range r.flags {
				if f.isRead(a) {
					h.flags = append(h.flags, &selInput{param: p, typ: p.Type(), reads: map[ssa.Value]bool{p: true}})
					tag = "flag"
				}
			}
		}
		key += tag + ","
	}
	if len(h.paths) == 0 {
		return nil
	}
	h.key = key + ")"
	return h
}

// dep: v depends (backward, through operands and stores into locals) on a value satisfying want.
func selDep(v ssa.Value, want func(ssa.Value) bool, seen map[ssa.Value]bool, d int) bool {
	if v == nil || seen[v] || d > 14 {
		return false
	}
	seen[v] = true
	if want(v) {
		return true
	}
	switch x := v.(type) {
	case *ssa.UnOp:
		if a, ok := x.X.(*ssa.Alloc); ok && x.Op == token.MUL {
			for _, st := range ir.StoresTo(a) {
				if selDep(st.Val, want, seen, d+1) {
					return true
				}
			}
			return false
		}
	}
	in, ok := v.(ssa.Instruction)
	if !ok {
		return false
	}
	for _, op := range in.Operands(nil) {
		if op != nil && *op != nil && selDep(*op, want, seen, d+1) {
			return true
		}
	}
	return false
}

func (z *zipSel) onPath(r *selRoles, v ssa.Value) bool {
	return selDep(v, func(x ssa.Value) bool { return r.paths[x] }, map[ssa.Value]bool{}, 0)
}

func (z *zipSel) onSrc(r *selRoles, v ssa.Value) bool {
	return selDep(v, func(x ssa.Value) bool {
		for _, d := range r.dirs {
			if d.fv != nil && x == ssa.Value(d.fv) {
				return true
			}
			if d.fv == nil && d.reads[x] {
				return true
			}
		}
		return false
	}, map[ssa.Value]bool{}, 0)
}

// dirInputOf: the directory input v is a read of.
func (r *selRoles) dirInputOf(v ssa.Value) *selInput {
	for _, d := range r.dirs {
		if d.isRead(v) {
			return d
		}
	}
	return nil
}

// visit collects the candidates of one function (filter calls, nil tests, directory tests, helper calls), checks R6 on
// it and descends into the helpers that are handed the walked path.
func (z *zipSel) visit(r *selRoles, depth int) *selRoles {
	if prev, ok := z.visited[r.key]; ok {
		return prev
	}
	z.visited[r.key] = r
	fn := r.fn
	r.filterCalls = map[*selInput][]*ssa.Call{}
	r.nilTests = map[*selInput][]*ssa.BinOp{}
	var helperCalls []*ssa.Call
	ir.Instrs(fn, func(in ssa.Instruction) {
		switch x := in.(type) {
		case *ssa.Call:
			if !x.Call.IsInvoke() {
				for _, f := range r.filters {
					if f.isRead(x.Call.Value) {
						if len(x.Call.Args) == 1 && z.onPath(r, x.Call.Args[0]) {
							r.filterCalls[f] = append(r.filterCalls[f], x)
						}
						return
					}
				}
			}
			if cal := ir.StaticCallee(x); cal != nil && z.inPkg[cal] && len(cal.Blocks) > 0 {
				helperCalls = append(helperCalls, x)
				return
			}
			if types.Identical(x.Type(), types.Typ[types.Bool]) && z.onPath(r, x) && z.onSrc(r, x) {
				r.dirTests = append(r.dirTests, x)
			}
		case *ssa.BinOp:
			if x.Op != token.EQL && x.Op != token.NEQ {
				return
			}
			for _, f := range r.filters {
				if (f.isRead(x.X) && ir.IsNilConst(x.Y)) || (f.isRead(x.Y) && ir.IsNilConst(x.X)) {
					r.nilTests[f] = append(r.nilTests[f], x)
				}
			}
			if z.onPath(r, x) && z.onSrc(r, x) {
				if b, ok := x.X.Type().Underlying().(*types.Basic); ok && b.Info()&types.IsString != 0 {
					r.dirTests = append(r.dirTests, x)
				}
			}
		}
	})
	z.prefixUses(r)
	z.prefixCutRoot(r, "C20.R17") // x_c20_i.go
	if depth < 3 {
		for _, tb := range z.tablesOf(r) {
			for i, er := range tb.elems {
				z.c.Saw(er.fn)
				tb.elems[i] = z.visit(er, depth+1)
			}
		}
		for _, hc := range helperCalls {
			if hr := z.calleeRoles(r, hc); hr != nil {
				z.c.Saw(hr.fn)
				r.helpers = append(r.helpers, &selHelper{call: hc, roles: z.visit(hr, depth+1)})
			}
		}
	}
	return r
}

// decidedOn: has the path (valuation val, in function r.fn) decided the selection input of the given kind?
func (z *zipSel) decidedOn(r *selRoles, val *ir.Valuation, kind int, depth int, at ssa.Instruction) bool {
	inputs := r.filters
	if kind == selFlag {
		inputs = r.flags
	}
	// a selection predicate of the repository whose result is known on this path
	if depth < 3 {
		for _, h := range r.helpers {
			if !types.Identical(h.call.Type(), types.Typ[types.Bool]) {
				continue
			}
			if k, ok := val.Known(h.call); ok && z.summary(h.roles, k, kind, depth+1) {
				return true
			}
		}
	}
	// a fixed table of predicates all of which were called on the walked path and returned the same result before `at`
	if depth < 3 && z.tablesDecide(r, kind, depth, at) {
		return true
	}
	if kind == selFlag {
		// the comparison of the file's directory with the source directory decided "same directory"
		for _, dt := range r.dirTests {
			k, ok := val.Known(dt)
			if !ok {
				continue
			}
			if bo, isBin := dt.(*ssa.BinOp); isBin {
				if (bo.Op == token.EQL) == k {
					return true
				}
				continue
			}
			return true
		}
	}
	if len(inputs) == 0 {
		return false
	}
	for _, in := range inputs {
		if !z.inputDecided(r, in, val, kind) {
			return false
		}
	}
	return true
}

func (z *zipSel) inputDecided(r *selRoles, in *selInput, val *ir.Valuation, kind int) bool {
	if kind == selFilter {
		if in.fv != nil {
			if isNil, ok := val.KnownNil(in.fv); ok && isNil {
				return true
			}
		} else {
			for _, b := range r.nilTests[in] {
				if k, ok := val.Known(b); ok && k == (b.Op == token.EQL) {
					return true
				}
			}
		}
		for _, fc := range r.filterCalls[in] {
			if k, ok := val.Known(fc); ok && k {
				return true
			}
		}
		return false
	}
	if in.fv != nil {
		k, ok := val.KnownCell(in.fv)
		return ok && k
	}
	for rd := range in.reads {
		if k, ok := val.Known(rd); ok && k {
			return true
		}
	}
	return false
}

// summary: every path of the helper that returns the given truth has decided the selection input of the given kind.
func (z *zipSel) summary(h *selRoles, truth bool, kind int, depth int) bool {
	key := fmt.Sprintf("%s|%t|%d", h.key, truth, kind)
	if res, ok := z.summaries[key]; ok {
		return res != nil && *res // nil: being computed (recursion) - not decided
	}
	z.summaries[key] = nil
	fn := h.fn
	res := false
	if fn.Signature.Results().Len() == 1 && fn.Recover == nil {
		q := ir.PathQuery{Fn: fn, Target: func(in ssa.Instruction, val *ir.Valuation) bool {
			ret, ok := in.(*ssa.Return)
			if !ok || len(ret.Results) != 1 {
				return false
			}
			if k, known := val.Known(ret.Results[0]); known && k != truth {
				return false
			}
			return !z.decidedOn(h, val.Assume(ret.Results[0], truth), kind, depth, in)
		}}
		w, err := q.Find()
		res = err == nil && w == nil
	}
	z.summaries[key] = &res
	return res
}

// prefixUses is R6: prefix arithmetic on walked paths needs a cleaned root. filepath.Walk hands the callback paths built
// with filepath.Join(root, name), i.e. cleaned; a directory string that is sliced off the walked path by its length, or
// compared with (the directory of) the walked path, is the prefix actually present only if it is in filepath.Clean form
// itself ("." / "./x" / "x/." / "x//" / "x/y/.." are not).
func (z *zipSel) prefixUses(r *selRoles) {
	if z.rule6 == "" {
		return
	}
	fn := r.fn
	used := map[*selInput]ssa.Instruction{}
	var order []*selInput
	note := func(d *selInput, at ssa.Instruction) {
		if _, has := used[d]; !has {
			order = append(order, d)
		}
		used[d] = at
	}
	ir.Instrs(fn, func(in ssa.Instruction) {
		switch x := in.(type) {
		case *ssa.Slice:
			if x.Low == nil || !z.onPath(r, x.X) {
				return
			}
			if call, ok := peelLocal(x.Low).(*ssa.Call); ok {
				if b := builtinCall(call, "len"); b != nil {
					if d := r.dirInputOf(b.Args[0]); d != nil {
						note(d, in)
					}
				}
			}
		case *ssa.BinOp:
			if x.Op == token.EQL || x.Op == token.NEQ {
				for _, pair := range [][2]ssa.Value{{x.X, x.Y}, {x.Y, x.X}} {
					if d := r.dirInputOf(pair[0]); d != nil && z.onPath(r, pair[1]) {
						note(d, in)
					}
				}
			}
		case *ssa.Call:
			switch ir.CalleeFullName(x) {
			case "strings.TrimPrefix", "strings.HasPrefix", "strings.CutPrefix":
				if len(x.Call.Args) == 2 && z.onPath(r, x.Call.Args[0]) {
					if d := r.dirInputOf(x.Call.Args[1]); d != nil {
						note(d, in)
					}
				}
			}
		}
	})
	for _, d := range order {
		k := ir.FnName(fn) + "|" + d.key()
		if z.r6done[k] {
			continue
		}
		z.r6done[k] = true
		z.c.Decide(z.rule6, fn, "the directory compared with / cut off the walked path is in cleaned form", used[d], z.cleanedInput(fn, d, 0),
			"the captured directory string is used as a literal prefix of (or compared with) paths handed out by filepath.Walk, which are cleaned, but it is not itself the result of filepath.Clean/Abs/EvalSymlinks: for a source directory spelled \".\", \"./x\", \"x/.\", \"x//\" or \"x/y/..\" the entry names are cut at the wrong offset (files renamed, or a slice-bounds panic) and the non-recursive guard skips every file")
	}
}

// cleanedInput: whatever the input of fn holds derives from a path-cleaning call - for a captured variable the value in
// the cell when the closure is made, for a parameter the argument of every call of fn, for a receiver field every
// value stored into it.
func (z *zipSel) cleanedInput(fn *ssa.Function, in *selInput, depth int) bool {
	if depth > 4 {
		return false
	}
	switch {
	case in.fv != nil:
		return z.c.cleanedCell(fn, in.fv)
	case in.param != nil:
		idx := -1
		for i, p := range fn.Params {
			if p == in.param {
				idx = i
			}
		}
		n := 0
		for _, g := range z.fns {
			for _, call := range callsTo(g, fn) {
				if idx < 0 || idx >= len(call.Call.Args) {
					return false
				}
				n++
				if !z.cleanedValue(g, call.Call.Args[idx], depth+1) {
					return false
				}
			}
		}
		return n > 0
	case in.field != nil:
		sts := z.fieldStores(in.field)
		for _, st := range sts {
			if !z.cleanedValue(st.Parent(), st.Val, depth+1) {
				return false
			}
		}
		return len(sts) > 0
	}
	return false
}

var cleaningCalls = map[string]bool{"path/filepath.Clean": true, "path/filepath.Abs": true, "path/filepath.EvalSymlinks": true,
	"path/filepath.Join": true, "path/filepath.Dir": true, "path/filepath.Rel": true, "path.Clean": true}

// cleanedValue: the value v of function g derives from a path-cleaning call.
func (z *zipSel) cleanedValue(g *ssa.Function, v ssa.Value, depth int) bool {
	if depth > 8 || v == nil {
		return false
	}
	switch x := v.(type) {
	case *ssa.ChangeType:
		return z.cleanedValue(g, x.X, depth+1)
	case *ssa.Convert:
		if isStringType(x.Type()) && isStringType(x.X.Type()) {
			return z.cleanedValue(g, x.X, depth+1)
		}
	case *ssa.Call:
		if cleaningCalls[ir.CalleeFullName(x)] {
			return true
		}
		// a helper: cleanliness passes through its string arguments
		for _, a := range x.Call.Args {
			if isStringType(a.Type()) && z.cleanedValue(g, a, depth+1) {
				return true
			}
		}
	case *ssa.Extract:
		return z.cleanedValue(g, x.Tuple, depth+1)
	case *ssa.Phi:
		for _, e := range x.Edges {
			if !z.cleanedValue(g, e, depth+1) {
				return false
			}
		}
		return len(x.Edges) > 0
	case *ssa.Parameter:
		return z.cleanedInput(g, &selInput{param: x, typ: x.Type()}, depth+1)
	case *ssa.UnOp:
		if x.Op != token.MUL {
			return false
		}
		switch a := x.X.(type) {
		case *ssa.Alloc:
			var dom *ssa.Store
			for _, st := range ir.StoresTo(a) {
				if ir.Dominates(st, x) && (dom == nil || ir.Dominates(dom, st)) {
					dom = st
				}
			}
			if dom != nil {
				return z.cleanedValue(g, dom.Val, depth+1)
			}
		case *ssa.FreeVar:
			return z.c.cleanedCell(g, a)
		case *ssa.FieldAddr:
			if f := ir.FieldOf(a); f != nil {
				return z.cleanedInput(g, &selInput{field: f, typ: f.Type()}, depth+1)
			}
		}
	}
	return false
}

// cleanedCell: the captured variable fv of closure fn holds, when the closure is made, a value whose derivation
// contains a path-cleaning call.
func (c *Ctx) cleanedCell(fn *ssa.Function, fv *ssa.FreeVar) bool {
	// a closure nested in closures sees the variable through the captured variables of the enclosing closures: the
	// cell is the variable of the outermost function, the site the creation of the outermost closure of the chain
	// (every closure inside is made, and runs, after that one was made)
	b := ir.BindingOf(fv)
	for i := 0; i < 4; i++ {
		pfv, nested := b.(*ssa.FreeVar)
		if !nested {
			break
		}
		fn = pfv.Parent()
		b = ir.BindingOf(pfv)
	}
	cell, ok := b.(*ssa.Alloc)
	if !ok {
		return false
	}
	cleaning := map[string]bool{"path/filepath.Clean": true, "path/filepath.Abs": true, "path/filepath.EvalSymlinks": true,
		"path/filepath.Join": true, "path/filepath.Dir": true, "path/filepath.Rel": true, "path.Clean": true}
	// the closure creation site
	var site ssa.Instruction
	ir.Instrs(cell.Parent(), func(in ssa.Instruction) {
		if mc, ok := in.(*ssa.MakeClosure); ok && mc.Fn == ssa.Value(fn) {
			site = in
		}
	})
	if site == nil {
		return false
	}
	// the last store into the cell that dominates the site
	var last *ssa.Store
	for _, st := range ir.StoresTo(cell) {
		if !ir.Dominates(st, site) {
			// a store that may or may not happen before the walk: be conservative, require every store to be clean
			last = nil
			for _, st2 := range ir.StoresTo(cell) {
				if _, isParam := st2.Val.(*ssa.Parameter); isParam {
					continue
				}
				if !derivesFromCleaning(st2.Val, cell, cleaning, 0) {
					return false
				}
			}
			return true
		}
		if last == nil || ir.Dominates(last, st) {
			last = st
		}
	}
	if last == nil {
		return false
	}
	return derivesFromCleaning(last.Val, cell, cleaning, 0)
}

func derivesFromCleaning(v ssa.Value, cell *ssa.Alloc, cleaning map[string]bool, depth int) bool {
	if depth > 6 || v == nil {
		return false
	}
	switch x := v.(type) {
	case *ssa.Call:
		if cleaning[ir.CalleeFullName(x)] {
			return true
		}
		// a helper: cleanliness passes through its string arguments
		for _, a := range x.Call.Args {
			if b, ok := a.Type().Underlying().(*types.Basic); ok && b.Info()&types.IsString != 0 {
				if derivesFromCleaning(a, cell, cleaning, depth+1) {
					return true
				}
			}
		}
	case *ssa.Extract:
		return derivesFromCleaning(x.Tuple, cell, cleaning, depth+1)
	case *ssa.Phi:
		for _, e := range x.Edges {
			if !derivesFromCleaning(e, cell, cleaning, depth+1) {
				return false
			}
		}
		return len(x.Edges) > 0
	case *ssa.UnOp:
		if a, ok := x.X.(*ssa.Alloc); ok && x.Op == token.MUL {
			// a load of a local: the stores that can reach it (over-approximated by: every non-parameter store is clean,
			// or the single dominating one is)
			var dom *ssa.Store
			for _, st := range ir.StoresTo(a) {
				if ir.Dominates(st, x) && (dom == nil || ir.Dominates(dom, st)) {
					dom = st
				}
			}
			if dom != nil {
				return derivesFromCleaning(dom.Val, cell, cleaning, depth+1)
			}
		}
	}
	return false
}

// pathVerdict records the result of a PathQuery: a witness is a violation.
func (c *Ctx) pathVerdict(rule string, fn *ssa.Function, construct string, at ssa.Instruction, q ir.PathQuery, what string) {
	w, err := q.Find()
	switch {
	case err != nil:
		c.Undecided(rule, fn, construct, at, err.Error())
	case w != nil:
		c.Decide(rule, fn, construct, at, false, what+": path "+w.String(c.P))
	default:
		c.Decide(rule, fn, construct, at, true, "")
	}
}

// ---------------------------------------------------------------------------
// containment evidence for the per-path form of R1

type contCall struct {
	call *ssa.Call
	pred *ssa.Function // repository predicate (nil: filepath.IsLocal)
}

// inlineRel is a containment test spelled out in place: rel, err := filepath.Rel(dir, target) followed by the tests
// err == nil, rel != ".." and !strings.HasPrefix(rel, ".."+separator) - the body of the repository's predicate.
type inlineRel struct {
	rel    *ssa.Call
	target ssa.Value
	errNil []*ssa.BinOp
	dotdot []*ssa.BinOp
	prefix []*ssa.Call
}

// holds: on this path the error is known nil, the relative path known different from ".." and known not to start
// with "../".
func (r inlineRel) holds(val *ir.Valuation) bool {
	okErr, okDD, okPre := false, false, false
	for _, b := range r.errNil {
		if k, ok := val.Known(b); ok && k == (b.Op == token.EQL) {
			okErr = true
		}
	}
	for _, b := range r.dotdot {
		if k, ok := val.Known(b); ok && k == (b.Op == token.NEQ) {
			okDD = true
		}
	}
	for _, p := range r.prefix {
		if k, ok := val.Known(p); ok && !k {
			okPre = true
		}
	}
	return okErr && okDD && okPre
}

type contEvidence struct {
	calls  []contCall
	inline []inlineRel
}

// relCall: call is filepath.Rel or a repository wrapper that returns filepath.Rel(.., param); the tested path argument.
func relCall(call *ssa.Call) (target ssa.Value, ok bool) {
	if ir.CalleeFullName(call) == "path/filepath.Rel" {
		if len(call.Call.Args) == 2 {
			return call.Call.Args[1], true
		}
		return nil, false
	}
	cal := ir.StaticCallee(call)
	if cal == nil || len(cal.Blocks) != 1 {
		return nil, false
	}
	var inner *ssa.Call
	n := 0
	for _, in := range cal.Blocks[0].Instrs {
		if x, isCall := in.(*ssa.Call); isCall {
			n++
			inner = x
		}
	}
	if n != 1 || ir.CalleeFullName(inner) != "path/filepath.Rel" || len(inner.Call.Args) != 2 {
		return nil, false
	}
	rets := ir.Returns(cal)
	if len(rets) != 1 || len(rets[0].Results) != 2 {
		return nil, false
	}
	for i, r := range rets[0].Results {
		ex, isEx := r.(*ssa.Extract)
		if !isEx || ex.Tuple != ssa.Value(inner) || ex.Index != i {
			return nil, false
		}
	}
	p, isParam := ir.Resolve(inner.Call.Args[1]).(*ssa.Parameter)
	if !isParam {
		return nil, false
	}
	for i, q := range cal.Params {
		if q == p && i < len(call.Call.Args) {
			return call.Call.Args[i], true
		}
	}
	return nil, false
}

// dotDotSepPrefix: v is ".."+separator.
func dotDotSepPrefix(v ssa.Value) bool {
	v = ir.Resolve(v)
	if cv := ir.ConstVal(v); cv != nil && cv.Kind() == constant.String {
		s := constant.StringVal(cv)
		return s == "../" || s == "..\\"
	}
	if b, ok := v.(*ssa.BinOp); ok && b.Op == token.ADD {
		if cv := ir.ConstVal(ir.Resolve(b.X)); cv != nil && cv.Kind() == constant.String && constant.StringVal(cv) == ".." {
			return endsWithSeparator(b.Y)
		}
	}
	return false
}

func isStringConst(v ssa.Value, s string) bool {
	cv := ir.ConstVal(ir.Resolve(v))
	return cv != nil && cv.Kind() == constant.String && constant.StringVal(cv) == s
}

func (c *Ctx) containmentEvidence(fn *ssa.Function, t map[ssa.Value]bool, isContainment func(*ssa.Call) (bool, *ssa.Function)) contEvidence {
	var ev contEvidence
	ir.Instrs(fn, func(in ssa.Instruction) {
		call, ok := in.(*ssa.Call)
		if !ok {
			return
		}
		if isC, pred := isContainment(call); isC {
			ev.calls = append(ev.calls, contCall{call, pred})
			return
		}
		target, isRel := relCall(call)
		if !isRel || !t[target] {
			return
		}
		rt := inlineRel{rel: call, target: target}
		var e0, e1 []ssa.Value
		if refs := call.Referrers(); refs != nil {
			for _, r := range *refs {
				if ex, isEx := r.(*ssa.Extract); isEx {
					if ex.Index == 0 {
						e0 = append(e0, ex)
					} else {
						e1 = append(e1, ex)
					}
				}
			}
		}
		isOf := func(v ssa.Value, set []ssa.Value) bool {
			v = ir.Resolve(v)
			for _, s := range set {
				if v == s {
					return true
				}
			}
			return false
		}
		ir.Instrs(fn, func(in2 ssa.Instruction) {
			switch x := in2.(type) {
			case *ssa.BinOp:
				if x.Op != token.EQL && x.Op != token.NEQ {
					return
				}
				for _, pr := range [][2]ssa.Value{{x.X, x.Y}, {x.Y, x.X}} {
					if isOf(pr[0], e1) && ir.IsNilConst(pr[1]) {
						rt.errNil = append(rt.errNil, x)
					}
					if isOf(pr[0], e0) && isStringConst(pr[1], "..") {
						rt.dotdot = append(rt.dotdot, x)
					}
				}
			case *ssa.Call:
				if ir.CalleeFullName(x) == "strings.HasPrefix" && len(x.Call.Args) == 2 && isOf(x.Call.Args[0], e0) && dotDotSepPrefix(x.Call.Args[1]) {
					rt.prefix = append(rt.prefix, x)
				}
			}
		})
		if len(rt.errNil) > 0 && len(rt.dotdot) > 0 && len(rt.prefix) > 0 {
			ev.inline = append(ev.inline, rt)
		}
	})
	return ev
}

// coversOn: on this path a is x, or the Dir/Clean of x.
func coversOn(val *ir.Valuation, a, x ssa.Value) bool {
	x = val.Selected(x)
	for i := 0; i < 6; i++ {
		a = val.Selected(a)
		if same(a, x) {
			return true
		}
		call, ok := ir.Resolve(a).(*ssa.Call)
		if !ok {
			return false
		}
		switch ir.CalleeFullName(call) {
		case "path/filepath.Dir", "path/filepath.Clean":
			a = call.Call.Args[0]
		default:
			return false
		}
	}
	return false
}
