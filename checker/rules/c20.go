package rules

import (
	"go/constant"
	"go/token"
	"go/types"
	"strings"

	"golang.org/x/tools/go/ssa"

	"verif/checker/ir"
)

func init() {
	register(&Check{
		ID: "C20", Title: "Zip helpers: lossless round trip and extraction confined to target",
		Pkgs:      []string{"files"},
		Run:       runC20,
		Technique: "static analysis: forward taint from zip entry names to file-creating sinks (with summaries of repository helpers) sanitised only by a dominating containment guard; shape check of the containment predicate; path enumeration of the walk callback with a per-path boolean valuation (go/ssa)",
		Explanation: "R1: no value derived from archive/zip entry names (File.Name / FileHeader.Name, through filepath.Join/Split/Dir/Clean/Base, concatenation, Sprintf, phi) reaches a file-system creating call (os.Create, os.OpenFile, os.Mkdir(All), os.WriteFile, os.Rename, and repository functions whose parameter reaches one) unless the sink is dominated by the true edge of a containment test applied to that value (or to the value it is the Dir of). " +
			"R3: the name ZipFolder/ZipWriter gives an archive entry derives from the walked file path only through injective operations (slicing off the source prefix, filepath.Rel, Join, ToSlash, TrimPrefix); cut-set trims, case folding, Replace and Base are rejected - a necessary condition of the lossless round trip. " +
			"R4: files are created truncating (os.Create, or os.OpenFile with O_TRUNC/O_EXCL). " +
			"R2: the containment test is filepath.IsLocal, or a repository predicate built from filepath.Rel plus the '..' test, or strings.HasPrefix against a prefix that ends with a path separator; a bare string-prefix test (which accepts sibling directories such as out-old for out) is rejected. " +
			"R5: in the walk callback a file reaches the archive write only on paths on which BOTH selection inputs decided so: the filter is nil or was called on the walked path and returned true, and the recursive flag is true or the comparison of the file's directory with the source directory decided 'same directory' (paths enumerated with phi operands resolved per path, so an overwritten flag variable counts as not decided). R6: a captured directory string that is cut off the walked path by its length, or compared with the walked path's directory, derives from a path-cleaning call (filepath.Walk hands out cleaned paths).",
		NotDecided: "the lossless round trip ZipFolder -> UnzipToFolder as such (equal relative paths and contents for every tree) is a value statement over file trees; injectivity of the name mapping (R3) and the selection clause (R5: both selection inputs decide on every path) are the structural parts decided; symbolic links already present inside the destination.",
		Trusted:    []string{"archive/zip entry names are attacker controlled", "filepath.Rel / filepath.IsLocal semantics"},
	})
}

func runC20(c *Ctx) {
	fns := c.P.FuncsOf("files")
	if len(fns) == 0 {
		c.Fatalf("package files not loaded")
	}
	osSink := map[string][]int{ // callee -> indices of path arguments that name something created/overwritten
		"os.Create": {0}, "os.OpenFile": {0}, "os.Mkdir": {0}, "os.MkdirAll": {0}, "os.WriteFile": {0},
		"os.Rename": {1}, "os.Symlink": {1}, "os.Link": {1}, "os.MkdirTemp": {0}, "os.CreateTemp": {0},
		"os.Chmod": {0}, "os.Chtimes": {0}, "os.Truncate": {0},
	}
	// summaries: parameters of repository functions that reach a sink
	reach := map[*ssa.Function]map[int]bool{}
	sinkArgs := func(call ssa.CallInstruction) []ssa.Value {
		name := ir.CalleeFullName(call)
		var res []ssa.Value
		if idx, ok := osSink[name]; ok {
			if name == "os.OpenFile" {
				// read-only opens are no sinks
				if fl, isC := ir.ConstInt(call.Common().Args[1]); isC && fl&0x3 == 0 && fl&0x40 == 0 {
					return nil
				}
			}
			for _, i := range idx {
				if i < len(call.Common().Args) {
					res = append(res, call.Common().Args[i])
				}
			}
			return res
		}
		if cal := ir.StaticCallee(call); cal != nil {
			for i := range reach[cal] {
				if i < len(call.Common().Args) {
					res = append(res, call.Common().Args[i])
				}
			}
		}
		return res
	}
	derives := func(fn *ssa.Function, from map[ssa.Value]bool) map[ssa.Value]bool {
		t := map[ssa.Value]bool{}
		for k := range from {
			t[k] = true
		}
		for changed := true; changed; {
			changed = false
			mark := func(v ssa.Value) {
				if !t[v] {
					t[v] = true
					changed = true
				}
			}
			ir.Instrs(fn, func(in ssa.Instruction) {
				switch x := in.(type) {
				case *ssa.Phi:
					for _, e := range x.Edges {
						if t[e] {
							mark(x)
						}
					}
				case *ssa.BinOp:
					if x.Op == token.ADD && (t[x.X] || t[x.Y]) {
						mark(x)
					}
				case *ssa.Extract:
					if t[x.Tuple] {
						mark(x)
					}
				case *ssa.Slice:
					if t[x.X] {
						mark(x)
					}
				case *ssa.ChangeType:
					if t[x.X] {
						mark(x)
					}
				case *ssa.Convert:
					if t[x.X] {
						mark(x)
					}
				case *ssa.MakeInterface:
					if t[x.X] {
						mark(x)
					}
				case *ssa.Store:
					// variadic argument arrays and spilled locals
					if t[x.Val] {
						switch a := x.Addr.(type) {
						case *ssa.IndexAddr:
							mark(a.X)
						case *ssa.Alloc:
							mark(a)
						}
					}
				case *ssa.UnOp:
					if x.Op == token.MUL && t[x.X] {
						if _, isAlloc := x.X.(*ssa.Alloc); isAlloc {
							mark(x)
						}
					}
				case *ssa.Call:
					name := ir.CalleeFullName(x)
					switch name {
					case "path/filepath.Join", "path/filepath.Split", "path/filepath.Dir", "path/filepath.Clean", "path/filepath.Base",
						"path/filepath.FromSlash", "path/filepath.ToSlash", "path/filepath.Abs", "path.Join", "path.Clean", "path.Dir",
						"fmt.Sprintf", "fmt.Sprint", "strings.TrimPrefix", "strings.TrimSuffix", "strings.TrimLeft", "strings.TrimRight", "strings.Trim",
						"strings.ReplaceAll", "strings.Replace", "strings.ToLower", "strings.ToUpper", "strings.TrimSpace":
						for _, a := range x.Call.Args {
							if t[a] {
								mark(x)
							}
						}
					}
				}
			})
		}
		return t
	}
	for changed := true; changed; {
		changed = false
		for _, fn := range fns {
			for i, p := range fn.Params {
				if b, ok := p.Type().Underlying().(*types.Basic); !ok || b.Kind() != types.String {
					continue
				}
				if reach[fn][i] {
					continue
				}
				t := derives(fn, map[ssa.Value]bool{p: true})
				hit := false
				for _, call := range ir.Calls(fn) {
					for _, a := range sinkArgs(call) {
						if t[a] {
							hit = true
						}
					}
				}
				if hit {
					if reach[fn] == nil {
						reach[fn] = map[int]bool{}
					}
					reach[fn][i] = true
					changed = true
				}
			}
		}
	}
	for fn, ps := range reach {
		for i := range ps {
			c.R.Role("sink summary "+relName(fn)+" param "+fn.Params[i].Name(), "reaches a file-creating call")
		}
	}

	// containment predicates of the repository
	type predInfo struct {
		ok     bool
		detail string
	}
	preds := map[*ssa.Function]predInfo{}
	for _, fn := range fns {
		rs := fn.Signature.Results()
		if rs.Len() != 1 || !types.Identical(rs.At(0).Type(), types.Typ[types.Bool]) || fn.Signature.Params().Len() < 1 {
			continue
		}
		usesRel, usesDotDot, usesPrefix, sepPrefix, barePrefix := false, false, false, false, false
		ir.Instrs(fn, func(in ssa.Instruction) {
			for _, op := range in.Operands(nil) {
				if op != nil && *op != nil {
					if cv := ir.ConstVal(*op); cv != nil && cv.Kind() == constant.String && strings.HasPrefix(constant.StringVal(cv), "..") {
						usesDotDot = true
					}
				}
			}
			call, ok := in.(*ssa.Call)
			if !ok {
				return
			}
			switch ir.CalleeFullName(call) {
			case "path/filepath.Rel":
				usesRel = true
			case "strings.HasPrefix":
				usesPrefix = true
				pre := ir.Resolve(call.Call.Args[1])
				if endsWithSeparator(pre) {
					sepPrefix = true
				} else if cv := ir.ConstVal(pre); cv == nil || !strings.HasPrefix(constant.StringVal(cv), "..") {
					barePrefix = true
				}
			}
		})
		switch {
		case usesRel && usesDotDot:
			preds[fn] = predInfo{true, ""}
		case usesPrefix && sepPrefix && !barePrefix:
			preds[fn] = predInfo{true, ""}
		case usesPrefix && barePrefix:
			preds[fn] = predInfo{false, "the containment test is a bare strings.HasPrefix(path, dir): a sibling whose name starts with the directory's name (out-old for out) passes, entries reach it through '..'"}
		}
	}
	isContainment := func(call *ssa.Call) (bool, *ssa.Function) {
		switch ir.CalleeFullName(call) {
		case "path/filepath.IsLocal":
			return true, nil
		}
		if cal := ir.StaticCallee(call); cal != nil {
			if _, ok := preds[cal]; ok {
				return true, cal
			}
		}
		return false, nil
	}

	// sources
	isEntryName := func(v ssa.Value) bool {
		var fa *ssa.FieldAddr
		switch x := v.(type) {
		case *ssa.UnOp:
			if x.Op == token.MUL {
				fa, _ = x.X.(*ssa.FieldAddr)
			}
		case *ssa.Field:
			f := ir.FieldOf(x)
			return f != nil && f.Name() == "Name" && f.Pkg() != nil && f.Pkg().Path() == "archive/zip"
		}
		if fa == nil {
			return false
		}
		f := ir.FieldOf(fa)
		return f != nil && f.Name() == "Name" && f.Pkg() != nil && f.Pkg().Path() == "archive/zip"
	}
	nSinks := 0
	for _, fn := range fns {
		src := map[ssa.Value]bool{}
		ir.Instrs(fn, func(in ssa.Instruction) {
			if v, ok := in.(ssa.Value); ok && isEntryName(v) {
				src[v] = true
			}
		})
		if len(src) == 0 {
			continue
		}
		c.Saw(fn)
		t := derives(fn, src)
		for _, call := range ir.Calls(fn) {
			for _, a := range sinkArgs(call) {
				if !t[a] {
					continue
				}
				nSinks++
				// guard: a containment call with a (or a value a is derived from by Dir/identity) as argument, true on this path
				guarded, weak := false, ""
				for _, f := range ir.Facts(call.Block()) {
					f = f.StripNot()
					gc, ok := f.Cond.(*ssa.Call)
					if !ok || !f.True {
						continue
					}
					isC, pred := isContainment(gc)
					if !isC {
						continue
					}
					covers := false
					for _, ga := range gc.Call.Args {
						if !t[ga] {
							continue
						}
						if same(ga, a) || dirOf(a, ga) {
							covers = true
						}
					}
					if !covers {
						continue
					}
					if pred != nil && !preds[pred].ok {
						weak = preds[pred].detail
						continue
					}
					guarded = true
				}
				detail := "a path built from a zip entry name reaches " + ir.CalleeFullName(call) + " without a dominating containment test on it: an entry named ../x or /abs is created outside the destination"
				if !guarded && weak != "" {
					detail = "the only containment test on this path is unsound: " + weak
				}
				c.Decide("C20.R1", fn, "entry name -> "+shortCallee(call)+" is guarded", call, guarded, detail)
				// R4: an extracted file is created truncating (os.Create, or OpenFile with O_TRUNC / O_EXCL)
				if ir.CalleeFullName(call) == "os.OpenFile" {
					fl, isC := ir.ConstInt(call.Common().Args[1])
					c.Decide("C20.R4", fn, "extracted file is created truncating", call, isC && (fl&0x200 != 0 || fl&0x80 != 0),
						"the extracted file is opened with O_CREATE but without O_TRUNC (or O_EXCL): extracting over a longer existing file keeps its old tail, the unzipped content differs from the archived one")
				}
			}
		}
	}
	// R2: report the shape verdict of each predicate that guards something
	for fn, pi := range preds {
		used := false
		for _, f := range fns {
			if len(callsTo(f, fn)) > 0 {
				used = true
			}
		}
		if used {
			c.Decide("C20.R2", fn, "containment predicate is separator-safe", nil, pi.ok, pi.detail)
		}
	}
	// R3: the entry-name mapping is injective (necessary for a lossless round trip)
	lossy := map[string]bool{"strings.TrimLeft": true, "strings.TrimRight": true, "strings.Trim": true, "strings.ToLower": true, "strings.ToUpper": true,
		"strings.ReplaceAll": true, "strings.Replace": true, "strings.TrimSpace": true, "path/filepath.Base": true, "path.Base": true, "strings.Title": true,
		"strings.Map": true, "strings.TrimFunc": true, "strings.TrimLeftFunc": true, "strings.TrimRightFunc": true, "strings.Fields": true}
	nameChain := func(fn *ssa.Function, v ssa.Value) (string, ssa.Instruction) {
		seen := map[ssa.Value]bool{}
		var bad string
		var at ssa.Instruction
		var rec func(v ssa.Value, depth int)
		rec = func(v ssa.Value, depth int) {
			v = ir.Resolve(v)
			if v == nil || seen[v] || depth > 12 {
				return
			}
			seen[v] = true
			switch x := v.(type) {
			case *ssa.Call:
				name := ir.CalleeFullName(x)
				if lossy[name] {
					bad, at = name, x
					return
				}
				for _, a := range x.Call.Args {
					if _, isStr := a.Type().Underlying().(*types.Basic); isStr {
						rec(a, depth+1)
					}
					if sl, isSl := a.(*ssa.Slice); isSl {
						for _, e := range variadicArgs(sl) {
							rec(e, depth+1)
						}
					}
				}
			case *ssa.Phi:
				for _, e := range x.Edges {
					rec(e, depth+1)
				}
			case *ssa.BinOp:
				rec(x.X, depth+1)
				rec(x.Y, depth+1)
			case *ssa.Slice:
				rec(x.X, depth+1)
			case *ssa.Extract:
				rec(x.Tuple, depth+1)
			case *ssa.UnOp:
				if a, ok := x.X.(*ssa.Alloc); ok {
					for _, st := range ir.StoresTo(a) {
						rec(st.Val, depth+1)
					}
				}
			}
		}
		rec(v, 0)
		return bad, at
	}
	nNames := 0
	for _, fn := range fns {
		for _, call := range ir.Calls(fn) {
			name := ir.CalleeFullName(call)
			var arg ssa.Value
			switch name {
			case "(*archive/zip.Writer).Create":
				arg = ir.MethodArgs(call)[0]
			case "os.Create":
				// only the extraction side: fed by an entry name
				continue
			default:
				continue
			}
			nNames++
			bad, at := nameChain(fn, arg)
			if at == nil {
				at = call
			}
			c.Decide("C20.R3", fn, "archive entry name derives from the file path injectively", at, bad == "",
				"the entry name passes through "+bad+", which maps different relative paths to the same name (or drops characters): the round trip loses or renames files")
		}
	}
	c.R.Floor("C20.R3", 1)
	c.zipSelection(fns, "C20.R5", "C20.R6")
	c.R.Floor("C20.R6", 1)
	if nSinks == 0 {
		c.R.Errorf("C20.R1 matched no sink fed by a zip entry name: UnzipToFolder changed shape and the rule would pass vacuously")
	}
	c.R.Floor("C20.R1", 2)
	c.R.Floor("C20.R2", 1)
}

func shortCallee(call ssa.CallInstruction) string {
	n := ir.CalleeFullName(call)
	if i := strings.LastIndex(n, "/"); i >= 0 {
		n = n[i+1:]
	}
	return n
}

// dirOf reports whether a is filepath.Dir(b) (possibly through Clean).
func dirOf(a, b ssa.Value) bool {
	call, ok := ir.Resolve(a).(*ssa.Call)
	if !ok {
		return false
	}
	switch ir.CalleeFullName(call) {
	case "path/filepath.Dir", "path/filepath.Clean":
		return same(call.Call.Args[0], b) || dirOf(call.Call.Args[0], b)
	}
	return false
}

// endsWithSeparator reports whether string value v is a concatenation ending with a path separator.
func endsWithSeparator(v ssa.Value) bool {
	v = ir.Resolve(v)
	if cv := ir.ConstVal(v); cv != nil && cv.Kind() == constant.String {
		s := constant.StringVal(cv)
		return strings.HasSuffix(s, "/") || strings.HasSuffix(s, "\\")
	}
	switch x := v.(type) {
	case *ssa.BinOp:
		if x.Op == token.ADD {
			return endsWithSeparator(x.Y)
		}
	case *ssa.Convert:
		// string(filepath.Separator) / string(os.PathSeparator)
		if cv := ir.ConstVal(x.X); cv != nil {
			if k, ok := constant.Int64Val(constant.ToInt(cv)); ok && (k == '/' || k == '\\') {
				return true
			}
		}
	}
	return false
}

// zipSelection is C20.R5: a file becomes an archive entry only after BOTH selection inputs decided so on that very
// path - the caller's filter (nil, or called on the walked path and true) and the recursive flag (true, or the
// comparison of the file's directory with the source directory decided "same directory"). The paths of the walk
// callback are enumerated with phi nodes resolved per path, so a flag variable assigned by one test and overwritten
// by the other is seen as "not decided on this path". It decides that structural part of "every file the filter and
// the recursive flag select, and nothing else", not the round trip.
func (c *Ctx) zipSelection(fns []*ssa.Function, rule, rule6 string) {
	n, n6 := 0, 0
	for _, fn := range fns {
		var creates []*ssa.Call
		for _, call := range ir.Calls(fn) {
			if cc, ok := call.(*ssa.Call); ok {
				switch ir.CalleeFullName(cc) {
				case "(*archive/zip.Writer).Create", "(*archive/zip.Writer).CreateHeader":
					creates = append(creates, cc)
				}
			}
		}
		if len(creates) == 0 || fn.Parent() == nil {
			continue
		}
		// selection inputs captured from the enclosing function: a func(string) bool and a bool
		var filter, flag ssa.Value
		var others []ssa.Value
		for _, fv := range fn.FreeVars {
			pt, ok := fv.Type().Underlying().(*types.Pointer)
			if !ok {
				continue
			}
			switch t := pt.Elem().Underlying().(type) {
			case *types.Signature:
				if t.Params().Len() == 1 && t.Results().Len() == 1 && types.Identical(t.Results().At(0).Type(), types.Typ[types.Bool]) {
					filter = fv
				}
			case *types.Basic:
				if t.Kind() == types.Bool {
					flag = fv
				} else if t.Kind() == types.String {
					others = append(others, fv)
				}
			}
		}
		if filter == nil && flag == nil {
			continue
		}
		var pathParam *ssa.Parameter
		for _, p := range fn.Params {
			if b, ok := p.Type().Underlying().(*types.Basic); ok && b.Kind() == types.String {
				pathParam = p
				break
			}
		}
		if pathParam == nil {
			continue
		}
		// a walk that prunes directories (filepath.SkipDir) selects by other means: not analysed
		prunes := false
		ir.Instrs(fn, func(in ssa.Instruction) {
			for _, op := range in.Operands(nil) {
				if op != nil && *op != nil {
					if g, ok := (*op).(*ssa.Global); ok && (g.Name() == "SkipDir" || g.Name() == "SkipAll") {
						prunes = true
					}
				}
			}
		})
		c.Saw(fn)
		// data dependence (backward) of a value on the walked path / on a captured string
		var dep func(v ssa.Value, want func(ssa.Value) bool, seen map[ssa.Value]bool, d int) bool
		dep = func(v ssa.Value, want func(ssa.Value) bool, seen map[ssa.Value]bool, d int) bool {
			if v == nil || seen[v] || d > 14 {
				return false
			}
			seen[v] = true
			if want(v) {
				return true
			}
			switch x := v.(type) {
			case *ssa.UnOp:
				if a, ok := x.X.(*ssa.Alloc); ok && x.Op == token.MUL {
					for _, st := range ir.StoresTo(a) {
						if dep(st.Val, want, seen, d+1) {
							return true
						}
					}
					return false
				}
			}
			in, ok := v.(ssa.Instruction)
			if !ok {
				return false
			}
			for _, op := range in.Operands(nil) {
				if op != nil && *op != nil && dep(*op, want, seen, d+1) {
					return true
				}
			}
			return false
		}
		onPath := func(v ssa.Value) bool {
			return dep(v, func(x ssa.Value) bool { return x == ssa.Value(pathParam) }, map[ssa.Value]bool{}, 0)
		}
		onSrc := func(v ssa.Value) bool {
			return dep(v, func(x ssa.Value) bool {
				for _, o := range others {
					if x == o {
						return true
					}
				}
				return false
			}, map[ssa.Value]bool{}, 0)
		}
		// candidates
		var filterCalls []*ssa.Call
		var dirTests []ssa.Value
		ir.Instrs(fn, func(in ssa.Instruction) {
			switch x := in.(type) {
			case *ssa.Call:
				if filter != nil && !x.Call.IsInvoke() {
					if ld, ok := x.Call.Value.(*ssa.UnOp); ok && ld.Op == token.MUL && ld.X == filter {
						if len(x.Call.Args) == 1 && onPath(x.Call.Args[0]) {
							filterCalls = append(filterCalls, x)
						}
						return
					}
				}
				if types.Identical(x.Type(), types.Typ[types.Bool]) && onPath(x) && onSrc(x) {
					dirTests = append(dirTests, x)
				}
			case *ssa.BinOp:
				if (x.Op == token.EQL || x.Op == token.NEQ) && onPath(x) && onSrc(x) {
					if b, ok := x.X.Type().Underlying().(*types.Basic); ok && b.Info()&types.IsString != 0 {
						dirTests = append(dirTests, x)
					}
				}
			}
		})
		// R6: prefix arithmetic on walked paths needs a cleaned root. filepath.Walk hands the callback paths built with
		// filepath.Join(root, name), i.e. cleaned; a captured directory string that is sliced off the walked path by its
		// length, or compared with (the directory of) the walked path, is the prefix actually present only if it is in
		// filepath.Clean form itself ("." / "./x" / "x/." / "x//" / "x/y/.." are not).
		if rule6 != "" {
			usedAsPrefix := map[ssa.Value]ssa.Instruction{}
			cellOfLoad := func(v ssa.Value) ssa.Value {
				if u, ok := ir.Resolve(v).(*ssa.UnOp); ok && u.Op == token.MUL {
					for _, o := range others {
						if u.X == o {
							return o
						}
					}
				}
				return nil
			}
			ir.Instrs(fn, func(in ssa.Instruction) {
				switch x := in.(type) {
				case *ssa.Slice:
					if x.Low == nil || !onPath(x.X) {
						return
					}
					if call, ok := ir.Resolve(x.Low).(*ssa.Call); ok {
						if b := builtinCall(call, "len"); b != nil {
							if cell := cellOfLoad(b.Args[0]); cell != nil {
								usedAsPrefix[cell] = in
							}
						}
					}
				case *ssa.BinOp:
					if x.Op == token.EQL || x.Op == token.NEQ {
						for _, pair := range [][2]ssa.Value{{x.X, x.Y}, {x.Y, x.X}} {
							if cell := cellOfLoad(pair[0]); cell != nil && onPath(pair[1]) {
								usedAsPrefix[cell] = in
							}
						}
					}
				case *ssa.Call:
					switch ir.CalleeFullName(x) {
					case "strings.TrimPrefix", "strings.HasPrefix", "strings.CutPrefix":
						if len(x.Call.Args) == 2 && onPath(x.Call.Args[0]) {
							if cell := cellOfLoad(x.Call.Args[1]); cell != nil {
								usedAsPrefix[cell] = in
							}
						}
					}
				}
			})
			for cell, at := range usedAsPrefix {
				c.Decide(rule6, fn, "the directory compared with / cut off the walked path is in cleaned form", at, c.cleanedCell(fn, cell.(*ssa.FreeVar)),
					"the captured directory string is used as a literal prefix of (or compared with) paths handed out by filepath.Walk, which are cleaned, but it is not itself the result of filepath.Clean/Abs/EvalSymlinks: for a source directory spelled \".\", \"./x\", \"x/.\", \"x//\" or \"x/y/..\" the entry names are cut at the wrong offset (files renamed, or a slice-bounds panic) and the non-recursive guard skips every file")
				n6++
			}
		}
		for _, cr := range creates {
			n++
			if prunes {
				c.Decide(rule, fn, "selection delegated to directory pruning (not analysed)", cr, true, "")
				continue
			}
			if filter != nil {
				q := ir.PathQuery{Fn: fn, Target: func(in ssa.Instruction, val *ir.Valuation) bool {
					if in != ssa.Instruction(cr) {
						return false
					}
					if isNil, ok := val.KnownNil(filter); ok && isNil {
						return false
					}
					for _, fc := range filterCalls {
						if k, ok := val.Known(fc); ok && k {
							return false
						}
					}
					return true
				}}
				c.pathVerdict(rule, fn, "archived only if the filter is nil or accepted the path", cr, q,
					"a file becomes an archive entry on a path where the filter was neither nil nor asked-and-true: files the filter rejects are archived (or the filter's verdict is overwritten before it is used)")
			}
			if flag != nil {
				q := ir.PathQuery{Fn: fn, Target: func(in ssa.Instruction, val *ir.Valuation) bool {
					if in != ssa.Instruction(cr) {
						return false
					}
					if k, ok := val.KnownCell(flag); ok && k {
						return false
					}
					for _, dt := range dirTests {
						k, ok := val.Known(dt)
						if !ok {
							continue
						}
						if bo, isBin := dt.(*ssa.BinOp); isBin {
							if (bo.Op == token.EQL) == k {
								return false
							}
							continue
						}
						return false
					}
					return true
				}}
				c.pathVerdict(rule, fn, "archived only if recursive or the file lies directly in the source directory", cr, q,
					"a file becomes an archive entry on a path where the recursive flag is not known true and the directory comparison did not decide 'same directory': files of sub-folders are archived in non-recursive mode (or the test result is overwritten before it is used)")
			}
		}
	}
	_ = n
	c.R.Floor(rule, 2)
	_ = n6
}

// cleanedCell: the captured variable fv of closure fn holds, when the closure is made, a value whose derivation
// contains a path-cleaning call.
func (c *Ctx) cleanedCell(fn *ssa.Function, fv *ssa.FreeVar) bool {
	cell, ok := ir.BindingOf(fv).(*ssa.Alloc)
	if !ok {
		return false
	}
	cleaning := map[string]bool{"path/filepath.Clean": true, "path/filepath.Abs": true, "path/filepath.EvalSymlinks": true,
		"path/filepath.Join": true, "path/filepath.Dir": true, "path/filepath.Rel": true, "path.Clean": true}
	// the closure creation site
	var site ssa.Instruction
	ir.Instrs(cell.Parent(), func(in ssa.Instruction) {
		if mc, ok := in.(*ssa.MakeClosure); ok && mc.Fn == ssa.Value(fn) {
			site = in
		}
	})
	if site == nil {
		return false
	}
	// the last store into the cell that dominates the site
	var last *ssa.Store
	for _, st := range ir.StoresTo(cell) {
		if !ir.Dominates(st, site) {
			// a store that may or may not happen before the walk: be conservative, require every store to be clean
			last = nil
			for _, st2 := range ir.StoresTo(cell) {
				if _, isParam := st2.Val.(*ssa.Parameter); isParam {
					continue
				}
				if !derivesFromCleaning(st2.Val, cell, cleaning, 0) {
					return false
				}
			}
			return true
		}
		if last == nil || ir.Dominates(last, st) {
			last = st
		}
	}
	if last == nil {
		return false
	}
	return derivesFromCleaning(last.Val, cell, cleaning, 0)
}

func derivesFromCleaning(v ssa.Value, cell *ssa.Alloc, cleaning map[string]bool, depth int) bool {
	if depth > 6 || v == nil {
		return false
	}
	switch x := v.(type) {
	case *ssa.Call:
		if cleaning[ir.CalleeFullName(x)] {
			return true
		}
		// a helper: cleanliness passes through its string arguments
		for _, a := range x.Call.Args {
			if b, ok := a.Type().Underlying().(*types.Basic); ok && b.Info()&types.IsString != 0 {
				if derivesFromCleaning(a, cell, cleaning, depth+1) {
					return true
				}
			}
		}
	case *ssa.Extract:
		return derivesFromCleaning(x.Tuple, cell, cleaning, depth+1)
	case *ssa.Phi:
		for _, e := range x.Edges {
			if !derivesFromCleaning(e, cell, cleaning, depth+1) {
				return false
			}
		}
		return len(x.Edges) > 0
	case *ssa.UnOp:
		if a, ok := x.X.(*ssa.Alloc); ok && x.Op == token.MUL {
			// a load of a local: the stores that can reach it (over-approximated by: every non-parameter store is clean,
			// or the single dominating one is)
			var dom *ssa.Store
			for _, st := range ir.StoresTo(a) {
				if ir.Dominates(st, x) && (dom == nil || ir.Dominates(dom, st)) {
					dom = st
				}
			}
			if dom != nil {
				return derivesFromCleaning(dom.Val, cell, cleaning, depth+1)
			}
		}
	}
	return false
}

// pathVerdict records the result of a PathQuery: a witness is a violation.
func (c *Ctx) pathVerdict(rule string, fn *ssa.Function, construct string, at ssa.Instruction, q ir.PathQuery, what string) {
	w, err := q.Find()
	switch {
	case err != nil:
		c.Undecided(rule, fn, construct, at, err.Error())
	case w != nil:
		c.Decide(rule, fn, construct, at, false, what+": path "+w.String(c.P))
	default:
		c.Decide(rule, fn, construct, at, true, "")
	}
}
