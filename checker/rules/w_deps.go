package rules

// Contracts of the repository's own helpers that the rules of several properties name as trusted.
//
// The rules of a property read the packages the property is anchored in. Those packages call a few helpers of the same
// repository that live elsewhere - the error class variables and errors.Is, chans.IsOpened, cast.Ptr - and the rules
// recognise these helpers by their types.Object and reason with their documented meaning ("errors.Is(err, ErrExist) is
// true iff the chain of err holds ErrExist", "chans.IsOpened(done) is false iff done was closed"). A change made in the
// helper, with every anchored function textually untouched, would therefore break the property without any rule looking.
// The D rules close that: each helper a property's code actually refers to is held to the contract the rules assume, as a
// structural clause over the helper's own body. `verifcheck deps` lists what remains trusted after that.

import (
	"fmt"
	"go/ast"
	"go/constant"
	"go/token"
	"go/types"
	"sort"
	"strings"

	"golang.org/x/tools/go/ssa"

	"verif/checker/ir"
)

// depSources: per property, the packages whose functions' references to the helpers are held to the contracts.
var depSources = map[string][]string{
	"C01": {"kvs/distlock", "kvs/inmem", "kvs"},
	"C04": {"kvs/distlock", "kvs/inmem", "kvs"},
	"C05": {"kvs/distlock", "kvs/inmem", "kvs", "timeout"},
	"C02": {"kvs/inmem", "kvs/redis", "kvs"},
	"C03": {"kvs/inmem", "kvs/redis", "kvs"},
	"C06": {"kvs/inmem", "kvs/redis", "kvs"},
	"C07": {"kvs/inmem", "kvs/redis", "kvs"},
	"C14": {"container"},
	"C17": {"container/bytes"},
	"C18": {"container/iterable"},
	// D6 only (v_codec_cast.go, depOnlyV): the checks that take the zero-copy conversions of package cast at their word
	"C15": {"xbinary"},
	"C16": {"xbinary"},
	"C19": {"errors"},
}

const depExplanation = "D1-D5 (helpers of this repository the code above calls and the rules above take at their word, decided on the helpers' own bodies): " +
	"D1 the error classes the code tells apart are pairwise independent values (distinct foreign variable, or fmt.Errorf/errors.New of a constant without %w); D2 no class variable is written after initialisation; " +
	"D3 the repository's errors.Is answers true only behind a standard errors.Is(x, target) match and never loses a match of errors.Is(err, target); " +
	"D4 chans.IsOpened is one non-blocking receive whose answer is the receive's ok, true when nothing was ready; D5 cast.Ptr returns the address of a fresh copy of its argument."

// depPkgs are the packages the dependency contracts read.
var depPkgs = []string{"errors", "chans", "cast"}

func withDeps(pkgs []string) []string {
	res := append([]string{}, pkgs...)
	for _, d := range depPkgs {
		has := false
		for _, p := range res {
			if p == d {
				has = true
			}
		}
		if !has {
			res = append(res, d)
		}
	}
	return res
}

// depContracts runs the D rules for property id over what the functions of the packages `from` refer to.
func (c *Ctx) depContracts(id string, from ...string) {
	isDep := map[string]bool{}
	for _, d := range depPkgs {
		isDep[ir.Module+"/"+d] = true
	}
	usedClasses := map[*types.Var]bool{}
	usedFns := map[string]*ssa.Function{}
	usedRepo := map[string]*ssa.Function{} // every function of the repository the code refers to (v_*.go: D6, D7)
	for _, rel := range from {
		for _, fn := range c.P.FuncsOf(rel) {
			ir.Instrs(fn, func(in ssa.Instruction) {
				var ops [16]*ssa.Value
				for _, op := range in.Operands(ops[:0]) {
					if op == nil || *op == nil {
						continue
					}
					switch v := (*op).(type) {
					case *ssa.Global:
						if v.Pkg != nil && v.Pkg.Pkg.Path() == ir.Module+"/errors" {
							if ov, ok := v.Object().(*types.Var); ok && ir.IsErrorType(ov.Type()) {
								usedClasses[ov] = true
							}
						}
					case *ssa.Function:
						f := v
						if o := f.Origin(); o != nil {
							f = o
						}
						if f.Pkg != nil && isDep[f.Pkg.Pkg.Path()] && f.Object() != nil {
							usedFns[f.Object().(*types.Func).FullName()] = f
						}
						if f.Pkg != nil && strings.HasPrefix(f.Pkg.Pkg.Path(), ir.Module+"/") && f.Object() != nil && f.Parent() == nil {
							usedRepo[f.Object().(*types.Func).FullName()] = f
						}
					}
				}
			})
		}
	}
	c.depContractsV(id, usedRepo)
	if !depRuleOnV(id, "D1") {
		return
	}
	if len(usedClasses) > 0 || usedFns[ir.Module+"/errors.Is"] != nil {
		if !c.P.HasPkg("errors") {
			c.Fatalf("dependency contracts: package errors is referred to but not loaded")
		}
	}
	var classes []*types.Var
	for v := range usedClasses {
		classes = append(classes, v)
	}
	sort.Slice(classes, func(i, j int) bool { return classes[i].Name() < classes[j].Name() })
	if len(classes) > 0 {
		c.depClassValues(id+".D1", classes)
		c.depClassesNotReassigned(id+".D2", classes)
	}
	if fn := usedFns[ir.Module+"/errors.Is"]; fn != nil {
		c.depErrorsIs(id+".D3", fn)
	}
	if fn := usedFns[ir.Module+"/chans.IsOpened"]; fn != nil {
		c.depIsOpened(id+".D4", fn)
	}
	if fn := usedFns[ir.Module+"/cast.Ptr"]; fn != nil {
		c.depFreshPtr(id+".D5", fn)
	}
}

// depClassValues is D1: the error classes the property's code tells apart are pairwise independent values - each is
// initialised from a distinct foreign variable or by fmt.Errorf/errors.New with a constant format without %w. Two classes
// that are one value (or one wrapping the other) make `errors.Is(err, ErrExist)` true for an ErrConflict, and the code
// that branches on the class takes the wrong branch.
func (c *Ctx) depClassValues(rule string, classes []*types.Var) {
	pk := c.P.Pkg("errors")
	want := map[*types.Var]bool{}
	for _, k := range classes {
		want[k] = true
	}
	origin := map[string]*types.Var{}
	found := map[*types.Var]bool{}
	for _, f := range pk.Syntax {
		for _, d := range f.Decls {
			gd, ok := d.(*ast.GenDecl)
			if !ok || gd.Tok != token.VAR {
				continue
			}
			for _, sp := range gd.Specs {
				vs := sp.(*ast.ValueSpec)
				for i, name := range vs.Names {
					obj, _ := pk.TypesInfo.Defs[name].(*types.Var)
					if obj == nil || !want[obj] {
						continue
					}
					found[obj] = true
					construct := "class " + obj.Name() + " is a value of its own"
					if i >= len(vs.Values) || len(vs.Values) != len(vs.Names) {
						c.DecideAt(rule, "errors", construct, name.Pos(), false, "class variable without an initialiser of its own (nil class, or a tuple assignment)")
						continue
					}
					switch x := ast.Unparen(vs.Values[i]).(type) {
					case *ast.SelectorExpr, *ast.Ident:
						var o types.Object
						if se, ok := x.(*ast.SelectorExpr); ok {
							o = pk.TypesInfo.Uses[se.Sel]
						} else {
							o = pk.TypesInfo.Uses[x.(*ast.Ident)]
						}
						fv, isVar := o.(*types.Var)
						if !isVar || fv.Pkg() == nil {
							c.DecideAt(rule, "errors", construct, name.Pos(), false, "class is not initialised from a variable")
							continue
						}
						if fv.Pkg() == pk.Types {
							c.DecideAt(rule, "errors", construct, name.Pos(), false, fmt.Sprintf("class %s is initialised from the class variable %s: the two are one value, errors.Is cannot tell them apart", obj.Name(), fv.Name()))
							continue
						}
						key := fv.Pkg().Path() + "." + fv.Name()
						// os.ErrX are the io/fs values: the same origin under two names
						key = strings.Replace(key, "io/fs.", "os.", 1)
						if prev, dup := origin[key]; dup {
							c.DecideAt(rule, "errors", construct, name.Pos(), false, fmt.Sprintf("classes %s and %s are the same value %s: errors.Is cannot tell them apart", prev.Name(), obj.Name(), key))
							continue
						}
						origin[key] = obj
						c.DecideAt(rule, "errors", construct, name.Pos(), true, "")
					case *ast.CallExpr:
						fnObj := calleeObjAST(pk, x)
						full := ""
						if fnObj != nil {
							full = fnObj.FullName()
						}
						if full != "fmt.Errorf" && full != "errors.New" {
							c.DecideAt(rule, "errors", construct, name.Pos(), false, "class is initialised by a call of "+full+", not by fmt.Errorf/errors.New: its relation to the other classes is not known")
							continue
						}
						okFmt := false
						if len(x.Args) == 1 {
							if tv, ok := pk.TypesInfo.Types[x.Args[0]]; ok && tv.Value != nil && tv.Value.Kind() == constant.String {
								okFmt = !strings.Contains(constant.StringVal(tv.Value), "%w")
							}
						}
						c.DecideAt(rule, "errors", construct, name.Pos(), okFmt, "class initialiser wraps another error or has arguments: the class would also match another class")
					default:
						c.DecideAt(rule, "errors", construct, name.Pos(), false, "unrecognised class initialiser")
					}
				}
			}
		}
	}
	for _, k := range classes {
		if !found[k] {
			c.DecideAt(rule, "errors", "class "+k.Name()+" is a value of its own", k.Pos(), false, "no package-level var declaration with an initialiser found for the class")
		}
	}
	c.R.Floor(rule, len(classes))
}

// depClassesNotReassigned is D2: nothing in the loaded packages stores to a class variable after the package
// initialiser (a class that changes its value at run time stops matching the errors built from the old value).
func (c *Ctx) depClassesNotReassigned(rule string, classes []*types.Var) {
	is := map[types.Object]bool{}
	for _, k := range classes {
		is[k] = true
	}
	bad := map[*types.Var]string{}
	for _, fn := range c.P.SrcFuncs {
		if fn.Name() == "init" && fn.Parent() == nil && fn.Signature.Recv() == nil && fn.Synthetic != "" {
			continue
		}
		ir.Instrs(fn, func(in ssa.Instruction) {
			// a store to the variable, or its address handed to anything but a load
			var ops [16]*ssa.Value
			for _, op := range in.Operands(ops[:0]) {
				g, ok := (*op).(*ssa.Global)
				if !ok || !is[g.Object()] {
					continue
				}
				if u, isLoad := in.(*ssa.UnOp); isLoad && u.Op == token.MUL {
					continue
				}
				if _, isDbg := in.(*ssa.DebugRef); isDbg {
					continue
				}
				bad[g.Object().(*types.Var)] = ir.FnName(fn) + " @ " + c.P.InstrPos(in)
			}
		})
	}
	for _, k := range classes {
		where, isBad := bad[k]
		c.DecideAt(rule, "errors", "class "+k.Name()+" is only read after initialisation", k.Pos(), !isBad,
			"the class variable is written (or its address taken) outside the package initialiser in "+where)
	}
	c.R.Floor(rule, len(classes))
}

// depErrorsIs is D3: the repository's errors.Is(err, target)
//   - answers true only behind a match of the standard errors.Is(x, target) for the same target (it invents no match), and
//   - answers true whenever the standard errors.Is(err, target) on its own arguments does (it loses no match).
//
// Every class test of the anchored code goes through this function.
func (c *Ctx) depErrorsIs(rule string, fn *ssa.Function) {
	c.Saw(fn)
	if len(fn.Params) != 2 || fn.Signature.Results().Len() != 1 {
		c.Undecided(rule, fn, "Is(err, target) bool", nil, "unexpected signature")
		return
	}
	pErr, pTarget := ssa.Value(fn.Params[0]), ssa.Value(fn.Params[1])
	isParam := func(v ssa.Value, p ssa.Value) bool {
		r := ir.Resolve(v)
		return r == p || v == p
	}
	var std, direct []*ssa.Call
	ir.Instrs(fn, func(in ssa.Instruction) {
		call, ok := in.(*ssa.Call)
		if !ok || ir.CalleeFullName(call) != "errors.Is" || len(call.Call.Args) != 2 {
			return
		}
		if isParam(call.Call.Args[1], pTarget) {
			std = append(std, call)
			if isParam(call.Call.Args[0], pErr) {
				direct = append(direct, call)
			}
		}
	})
	isStd := func(v ssa.Value) bool {
		for _, s := range std {
			if ssa.Value(s) == v {
				return true
			}
		}
		return false
	}
	// (a) true only behind a standard match
	w, err := ir.PathQuery{Fn: fn, Target: func(in ssa.Instruction, val *ir.Valuation) bool {
		ret, ok := in.(*ssa.Return)
		if !ok || len(ret.Results) != 1 {
			return false
		}
		x := val.Selected(ret.Results[0])
		if k, known := val.Known(x); known {
			if !k {
				return false
			}
			for _, s := range std {
				if kv, ok := val.Known(s); ok && kv {
					return false
				}
			}
			return true
		}
		return !isStd(x)
	}}.Find()
	switch {
	case err != nil:
		c.Undecided(rule, fn, "true only behind errors.Is(x, target)", nil, err.Error())
	case w != nil:
		c.Decide(rule, fn, "true only behind errors.Is(x, target)", nil, false, "errors.Is of this repository can answer true without a match of the standard errors.Is for its target: every class test of the callers may be taken for a class the error does not have: path "+w.String(c.P))
	default:
		c.Decide(rule, fn, "true only behind errors.Is(x, target)", nil, true, "")
	}
	// (b) a match of the chain is never lost
	w, err = ir.PathQuery{Fn: fn, Target: func(in ssa.Instruction, val *ir.Valuation) bool {
		ret, ok := in.(*ssa.Return)
		if !ok || len(ret.Results) != 1 {
			return false
		}
		x := val.Selected(ret.Results[0])
		if k, known := val.Known(x); known && k {
			return false
		}
		for _, d := range direct {
			if ssa.Value(d) == x {
				return false
			}
			if kv, ok := val.Known(d); ok && !kv {
				return false
			}
		}
		return true
	}}.Find()
	switch {
	case err != nil:
		c.Undecided(rule, fn, "errors.Is(err, target) true gives true", nil, err.Error())
	case w != nil:
		c.Decide(rule, fn, "errors.Is(err, target) true gives true", nil, false, "errors.Is of this repository can answer false (or something undetermined) on a path on which the standard errors.Is(err, target) was not found false: a class carried in the chain is lost: path "+w.String(c.P))
	default:
		c.Decide(rule, fn, "errors.Is(err, target) true gives true", nil, true, "")
	}
	c.R.Floor(rule, 2)
}

// depIsOpened is D4: chans.IsOpened(ch) never blocks, answers false only after a receive from ch reported the channel
// closed, and answers true for a receive that did not. The lock uses it as its shutdown test.
func (c *Ctx) depIsOpened(rule string, fn *ssa.Function) {
	c.Saw(fn)
	if len(fn.Params) != 1 {
		c.Undecided(rule, fn, "IsOpened(ch) bool", nil, "unexpected signature")
		return
	}
	ch := ssa.Value(fn.Params[0])
	var sel *ssa.Select
	blocking := ""
	ir.Instrs(fn, func(in ssa.Instruction) {
		switch x := in.(type) {
		case *ssa.Select:
			if x.Blocking {
				blocking = "a select without default"
			}
			if len(x.States) == 1 && x.States[0].Dir == types.RecvOnly && ir.Resolve(x.States[0].Chan) == ch {
				if sel != nil {
					blocking = "more than one receive"
				}
				sel = x
			} else {
				blocking = "a select over something else than one receive from the argument"
			}
		case *ssa.UnOp:
			if x.Op == token.ARROW {
				blocking = "a bare receive"
			}
		case *ssa.Send:
			blocking = "a send"
		case *ssa.Call:
			if _, isBuiltin := x.Call.Value.(*ssa.Builtin); !isBuiltin {
				blocking = "a call of " + ir.CalleeFullName(x)
			}
		case *ssa.Go, *ssa.Defer:
			blocking = "a go/defer statement"
		}
	})
	c.Decide(rule, fn, "one non-blocking receive from the argument, nothing else that can block", nil, sel != nil && blocking == "",
		"chans.IsOpened is the shutdown test of the lock and must not wait: it contains "+blocking+" / no non-blocking receive from its argument")
	if sel == nil {
		c.R.Floor(rule, 2)
		return
	}
	// the tuple of the select: #0 index, #1 recvOk
	var idx, rok ssa.Value
	for _, r := range *sel.Referrers() {
		if e, ok := r.(*ssa.Extract); ok {
			switch e.Index {
			case 0:
				idx = e
			case 1:
				rok = e
			}
		}
	}
	received := func(val *ir.Valuation) (yes, known bool) { // did the receive case fire on this path
		if idx == nil {
			return false, false
		}
		for _, r := range *idx.Referrers() {
			b, ok := r.(*ssa.BinOp)
			if !ok {
				continue
			}
			k, isC := ir.ConstInt(b.Y)
			if !isC || k != 0 || (b.Op != token.EQL && b.Op != token.NEQ) {
				continue
			}
			if t, ok := val.Known(b); ok {
				return t == (b.Op == token.EQL), true
			}
		}
		return false, false
	}
	w, err := ir.PathQuery{Fn: fn, Target: func(in ssa.Instruction, val *ir.Valuation) bool {
		ret, ok := in.(*ssa.Return)
		if !ok || len(ret.Results) != 1 {
			return false
		}
		x := val.Selected(ret.Results[0])
		if rok != nil && x == rok {
			yes, known := received(val)
			return !(known && yes) // the ok of a receive that did not fire is just false
		}
		k, known := val.Known(x)
		if !known {
			return true
		}
		yes, rk := received(val)
		if !rk {
			return true
		}
		if !yes {
			return !k // nothing received: the channel is open (or empty and open): must say true
		}
		// received: the answer must be the receive's ok
		if rok == nil {
			return true
		}
		ov, okKnown := val.Known(rok)
		return !okKnown || ov != k
	}}.Find()
	switch {
	case err != nil:
		c.Undecided(rule, fn, "answer = ok of the receive, true when nothing was received", nil, err.Error())
	case w != nil:
		c.Decide(rule, fn, "answer = ok of the receive, true when nothing was received", nil, false, "chans.IsOpened answers something else than 'the receive reported the channel open, or nothing was ready': path "+w.String(c.P))
	default:
		c.Decide(rule, fn, "answer = ok of the receive, true when nothing was received", nil, true, "")
	}
	c.R.Floor(rule, 2)
}

// depFreshPtr is D5: cast.Ptr(v) returns the address of a fresh variable holding v (records are copied with it: a shared
// or nil pointer would alias the caller's expiry or drop it).
func (c *Ctx) depFreshPtr(rule string, fn *ssa.Function) {
	c.Saw(fn)
	ok := len(fn.Params) == 1
	why := "unexpected signature"
	if ok {
		for _, ret := range ir.Returns(fn) {
			al, isAlloc := ir.ResultValue(ret, 0).(*ssa.Alloc)
			if !isAlloc || !al.Heap {
				ok, why = false, "a return does not give the address of a fresh variable"
				continue
			}
			sts := ir.StoresTo(al)
			if len(sts) != 1 || sts[0].Val != ssa.Value(fn.Params[0]) {
				ok, why = false, "the fresh variable does not hold exactly the argument"
			}
		}
		if len(ir.Returns(fn)) == 0 {
			ok, why = false, "no return"
		}
	}
	c.Decide(rule, fn, "returns the address of a fresh copy of the argument", nil, ok, "cast.Ptr: "+why)
	c.R.Floor(rule, 1)
}
