package rules

import (
	"go/token"
	"go/types"

	"golang.org/x/tools/go/ssa"

	"verif/checker/ir"
)

// Rule added after seeded round i (C07-i1).
//
// waitCtxSentinelOnlyWhenDone (C07.W14): the property allows "the context's error" as a result of WaitForVersionChange
// ONLY if the context is done. A waiter can hand out the context's error in two ways: by asking the context
// (ctx.Err(), decided by W5) or by naming one of the error values of package context itself (context.Canceled,
// context.DeadlineExceeded). The second form says "the context is done" without having asked it, so it is correct only
// on a path on which the context was SEEN to be done: the ctx.Done() case of a select was taken, or ctx.Err() was
// compared to be non-nil. Returned on any other path (a prediction such as "the deadline is nearer than my next
// poll", a deadline computed from ctx.Deadline(), an elapsed-time estimate) the caller is told that its context
// expired while ctx.Err() is still nil; a change of the key that happens between that return and the real end of the
// context is missed, which is exactly what the property forbids ("the context's error only if the context is done",
// "never misses a change").
//
// Decided per exit point (early-return and single-exit style alike, ir.ExitPoints) of the waiter of each backend and
// of the helpers of the same package it reaches through static calls that take a context.Context. One function-level
// obligation per waiter keeps the clause visible on a tree that names no sentinel at all.
//
// Over-approximation: a sentinel returned under a done-evidence the rule does not understand (e.g. a bool computed from
// ctx.Err() in another function) is reported as undecided when the exit's guards mention the context at all, and as
// a violation otherwise.
func (c *Ctx) waitCtxSentinelOnlyWhenDone(rule string, pkgFns []*ssa.Function, waiter *ssa.Function) {
	if waiter == nil {
		return
	}
	inPkg := map[*ssa.Function]bool{}
	for _, f := range pkgFns {
		inPkg[f] = true
	}
	// the waiter and the same-package helpers with a context parameter it reaches
	seen := map[*ssa.Function]bool{waiter: true}
	work := []*ssa.Function{waiter}
	var fns []*ssa.Function
	for len(work) > 0 {
		fn := work[0]
		work = work[1:]
		fns = append(fns, fn)
		ir.Instrs(fn, func(in ssa.Instruction) {
			call, ok := in.(ssa.CallInstruction)
			if !ok {
				return
			}
			cal := call.Common().StaticCallee()
			if cal == nil || seen[cal] || cal.Pkg != waiter.Pkg || len(cal.Blocks) == 0 {
				return
			}
			if len(inPkg) > 0 && !inPkg[cal] && cal.Parent() == nil {
				return
			}
			hasCtx := false
			for _, p := range cal.Params {
				if isStdContext(p.Type()) {
					hasCtx = true
				}
			}
			if !hasCtx && cal.Parent() == nil {
				return
			}
			seen[cal] = true
			work = append(work, cal)
		})
	}
	clean := true
	for _, fn := range fns {
		for _, e := range ir.ExitPoints(fn) {
			for i := range e.Results {
				g := ctxSentinel(e.Result(i))
				if g == nil {
					continue
				}
				construct := "context." + g.Name() + " only where the context was seen done"
				done, mentions := false, false
				for _, f := range e.Facts() {
					d, m := factSeesCtxDone(f)
					done = done || d
					mentions = mentions || m
				}
				switch {
				case done:
					c.Decide(rule, fn, construct, e.Ret, true, "")
				case mentions:
					clean = false
					c.Undecided(rule, fn, construct, e.Ret, "context."+g.Name()+" is returned under a guard on the context that is not understood (neither the ctx.Done() case of a select nor ctx.Err() != nil)")
				default:
					clean = false
					c.Decide(rule, fn, construct, e.Ret, false, "context."+g.Name()+" is returned on a path on which the context was not seen to be done (no ctx.Done() case taken, no ctx.Err() != nil): the waiter reports the end of a context that is still live and misses a change that happens before its real end")
				}
			}
		}
	}
	c.Decide(rule, waiter, "context's own error values only where the context was seen done", nil, clean, "the waiter returns an error value of package context on a path on which the context was not seen to be done")
}

func isStdContext(t types.Type) bool {
	n, ok := t.(*types.Named)
	return ok && n.Obj().Pkg() != nil && n.Obj().Pkg().Path() == "context" && n.Obj().Name() == "Context"
}

// ctxSentinel: v is (a conversion of) a load of a package-level error variable of package context.
func ctxSentinel(v ssa.Value) *ssa.Global {
	v = ir.Resolve(v)
	u, ok := v.(*ssa.UnOp)
	if !ok || u.Op != token.MUL {
		return nil
	}
	g, ok := u.X.(*ssa.Global)
	if !ok || g.Pkg == nil || g.Pkg.Pkg == nil || g.Pkg.Pkg.Path() != "context" {
		return nil
	}
	return g
}

func ctxInvoke(v ssa.Value, name string) bool {
	call, ok := ir.Resolve(v).(*ssa.Call)
	return ok && call.Call.IsInvoke() && call.Call.Method.Name() == name && isStdContext(call.Call.Value.Type())
}

// factSeesCtxDone: done - the fact establishes that the context is done (the select took its ctx.Done() case, or
// ctx.Err() != nil); mentions - the fact talks about the context's Done/Err in some other way.
func factSeesCtxDone(f ir.Fact) (done, mentions bool) {
	cm, ok := f.Cmp()
	if !ok {
		return false, false
	}
	x, y := cm.X, cm.Y
	if ir.IsNilConst(x) {
		x, y = y, x
	}
	if ctxInvoke(x, "Err") {
		if ir.IsNilConst(y) && cm.Op == token.NEQ {
			return true, true
		}
		if ctxSentinel(y) != nil && cm.Op == token.EQL {
			return true, true // ctx.Err() is one of the non-nil error values of package context
		}
		return false, true
	}
	if _, isC := ir.Resolve(x).(*ssa.Const); isC {
		x, y = y, x
	}
	ex, ok := ir.Resolve(x).(*ssa.Extract)
	if !ok || ex.Index != 0 {
		return false, false
	}
	sel, ok := ex.Tuple.(*ssa.Select)
	if !ok {
		return false, false
	}
	hasDone := false
	for _, st := range sel.States {
		if st.Dir == types.RecvOnly && ctxInvoke(st.Chan, "Done") {
			hasDone = true
		}
	}
	if !hasDone {
		return false, false
	}
	k, ok := ir.Resolve(y).(*ssa.Const)
	if !ok || k.Value == nil || cm.Op != token.EQL {
		return false, true
	}
	idx := int(k.Int64())
	if idx >= 0 && idx < len(sel.States) && sel.States[idx].Dir == types.RecvOnly && ctxInvoke(sel.States[idx].Chan, "Done") {
		return true, true
	}
	return false, false
}
