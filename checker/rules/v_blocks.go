package rules

// Block allocator rules added by the hardening round (C17.R12 - C17.R14).
//
// R12 index <-> (segment, position) agreement: ArrangeBlock composes the index it hands out as
// segment*blocksPerSegment + position; Block and FreeBlock have to take it apart with the inverse arithmetic on the
// very same geometry field - quotient and remainder by blocksPerSegment. A split by a shift / mask is the same
// function only when the divisor is a power of two, which the geometry function does not guarantee (multiples of the
// page size are accepted): the operations then disagree on which header bit and which bytes belong to an index.
//
// R13 storage contract the allocator rules take at their word: the bytes of an in-memory Buffer are zero when it is
// created or grown. The allocator keeps its whole state in those bytes and the constructor rebuilds the free counter
// from whatever headers it finds, so memory that is handed out without being zero makes a brand-new allocator start
// with the allocation set of somebody else.
//
// R14 the error result tells whether the state was changed: once ArrangeBlock has recorded the allocation (bit set,
// counter decremented) it has no failing exit unless that exit undoes both; the same for FreeBlock after the release
// was recorded.

import (
	"go/token"
	"go/types"

	"golang.org/x/tools/go/ssa"

	"verif/checker/ir"
)

// vbEnv is what runC17 resolved and the rules below share.
type vbEnv struct {
	blocks                        *types.Named
	bufIface                      *types.Named
	ctor, geom                    *ssa.Function
	arrange, free, blockFn        *ssa.Function
	arrangeGroup, freeGroup       []*ssa.Function
	pkgFns                        []*ssa.Function
	perSeg                        *types.Var
	isSetBit, isClearBit          func(ssa.Instruction) bool
	atomicAdd                     func(ssa.Instruction, int64) bool
	roleFns                       map[*ssa.Function]bool
	carriers                      map[*types.Named]bool
	ruleSplit, ruleFresh, ruleAck string
}

func (c *Ctx) vbRules(e *vbEnv) {
	c.vbIndexSplit(e)
	c.vbFreshStorage(e)
	// R14 (vbNoFailureAfterRecording: no failing exit after the allocation was recorded, unless undone) is NOT run. C17
	// quantifies over the in-memory and the memory-mapped storage with an accepted geometry; on both Buffer() cannot fail
	// for an in-range block, so a failing exit behind the recording is dead code there and the property holds on a tree
	// that has one: the rule would demand more than the property states. The code is kept for a property that quantifies
	// over storage faults; seed C17-f3 (which needs a test double whose Buffer() fails) is recorded as outside C17.
	_ = c.vbNoFailureAfterRecording
}

// ---------------------------------------------------------------------------
// role fallback

// vbPerSegFromCtor resolves the blocks-per-segment field as the int field into which the functions that carry out the
// constructor store the result of the geometry function, give or take a constant (the header block). It is the
// fallback for trees in which no operation divides an index by the field any more - exactly the trees R12 is about.
func vbPerSegFromCtor(ctorGroup []*ssa.Function, geom *ssa.Function) *types.Var {
	var res []*types.Var
	fromGeom := func(v ssa.Value) bool {
		v = xcStripConv(v)
		if bo, ok := v.(*ssa.BinOp); ok && (bo.Op == token.ADD || bo.Op == token.SUB) {
			if _, isC := ir.ConstInt(bo.Y); isC {
				v = xcStripConv(bo.X)
			}
		}
		call, ok := v.(*ssa.Call)
		return ok && ir.StaticCallee(call) == geom
	}
	for _, fn := range ctorGroup {
		ir.Instrs(fn, func(in ssa.Instruction) {
			st, ok := in.(*ssa.Store)
			if !ok {
				return
			}
			fa, ok := st.Addr.(*ssa.FieldAddr)
			if !ok {
				return
			}
			f := ir.FieldOf(fa)
			if f == nil || !types.Identical(f.Type(), types.Typ[types.Int]) || !fromGeom(st.Val) {
				return
			}
			res = appendUniq(res, f)
		})
	}
	if len(res) == 1 {
		return res[0]
	}
	return nil
}

// ---------------------------------------------------------------------------
// R12

// vbGeomPow2 reports whether every path to a non-sentinel result of the geometry function takes an edge on which the
// block-size parameter is known to be a power of two (p & (p-1) == 0).
func vbGeomPow2(geom *ssa.Function) bool {
	if len(geom.Params) == 0 {
		return false
	}
	p := ssa.Value(geom.Params[0])
	isPm1 := func(v ssa.Value) bool {
		bo, ok := xcStripConv(v).(*ssa.BinOp)
		if !ok || bo.Op != token.SUB || xcStripConv(bo.X) != p {
			return false
		}
		k, isC := ir.ConstInt(bo.Y)
		return isC && k == 1
	}
	pow2 := func(from, to *ssa.BasicBlock) bool {
		ef := ir.EdgeFact(from, to)
		if ef == nil {
			return false
		}
		cm, ok := ef.Cmp()
		if !ok || cm.Op != token.EQL {
			return false
		}
		if k, isC := ir.ConstInt(cm.Y); !isC || k != 0 {
			return false
		}
		and, ok := xcStripConv(cm.X).(*ssa.BinOp)
		if !ok || and.Op != token.AND {
			return false
		}
		return (xcStripConv(and.X) == p && isPm1(and.Y)) || (xcStripConv(and.Y) == p && isPm1(and.X))
	}
	for _, ret := range ir.Returns(geom) {
		if k, isC := ir.ConstInt(ir.Resolve(ret.Results[0])); isC && k < 0 {
			continue
		}
		w, err := (ir.Query{Fn: geom, BlockEdge: pow2, Target: func(x ssa.Instruction) bool { return x == ssa.Instruction(ret) }}).Find()
		if err != nil || w != nil {
			return false
		}
	}
	return true
}

// vbIsPerSeg: v is the blocks-per-segment field, read directly or through a function of the package every return of
// which reads it (an accessor).
func vbIsPerSeg(v ssa.Value, perSeg *types.Var, depth int) bool {
	v = xcStripConv(v)
	if ir.LoadedField(v) == perSeg {
		return true
	}
	call, ok := v.(*ssa.Call)
	if !ok || depth > 2 || call.Call.IsInvoke() {
		return false
	}
	cal := ir.StaticCallee(call)
	if cal == nil || len(cal.Blocks) == 0 || cal.Signature.Results().Len() != 1 {
		return false
	}
	rets := ir.Returns(cal)
	for _, ret := range rets {
		if !vbIsPerSeg(ret.Results[0], perSeg, depth+1) {
			return false
		}
	}
	return len(rets) > 0
}

// vbPerSegOff: v is blocksPerSegment +/- k for a constant k != 0.
func vbPerSegOff(v ssa.Value, perSeg *types.Var) bool {
	bo, ok := xcStripConv(v).(*ssa.BinOp)
	if !ok || (bo.Op != token.ADD && bo.Op != token.SUB) {
		return false
	}
	if k, isC := ir.ConstInt(bo.Y); isC && k != 0 && vbIsPerSeg(bo.X, perSeg, 0) {
		return true
	}
	if k, isC := ir.ConstInt(bo.X); isC && k != 0 && bo.Op == token.ADD && vbIsPerSeg(bo.Y, perSeg, 0) {
		return true
	}
	return false
}

func (c *Ctx) vbIndexSplit(e *vbEnv) {
	rule := e.ruleSplit
	pow2 := vbGeomPow2(e.geom)
	// the raw block index: the int parameter of Block / FreeBlock, followed into the functions of the package it is
	// handed to as it is (function literals see the parameter of their parent through Resolve)
	raw := map[*ssa.Parameter]bool{}
	for _, api := range []*ssa.Function{e.blockFn, e.free} {
		for _, p := range api.Params {
			if p != api.Params[0] && types.Identical(p.Type(), types.Typ[types.Int]) {
				raw[p] = true
			}
		}
	}
	isRaw := func(v ssa.Value) bool {
		p, ok := xcStripConv(v).(*ssa.Parameter)
		return ok && raw[p]
	}
	for changed, round := true, 0; changed && round < 6; round++ {
		changed = false
		for _, fn := range e.pkgFns {
			ir.Instrs(fn, func(in ssa.Instruction) {
				call, ok := in.(ssa.CallInstruction)
				if !ok {
					return
				}
				cal := ir.StaticCallee(call)
				if cal == nil || len(cal.Blocks) == 0 || cal.Pkg != e.blockFn.Pkg {
					return
				}
				for i, a := range call.Common().Args {
					if i < len(cal.Params) && isRaw(a) && !raw[cal.Params[i]] {
						raw[cal.Params[i]] = true
						changed = true
					}
				}
			})
		}
	}
	const construct = "block index split by quotient/remainder of the blocks-per-segment field"
	const why = "ArrangeBlock composes an index as segment*blocksPerSegment + position; "
	holders := map[*ssa.Function]bool{}
	for _, fn := range e.pkgFns {
		fn := fn
		ir.Instrs(fn, func(in ssa.Instruction) {
			bo, ok := in.(*ssa.BinOp)
			if !ok {
				return
			}
			switch bo.Op {
			case token.QUO, token.REM:
				if !isRaw(bo.X) {
					return
				}
				switch {
				case vbIsPerSeg(bo.Y, e.perSeg, 0):
					holders[xcRoot(fn)] = true
					c.Decide(rule, fn, construct, bo, true, "")
				case vbPerSegOff(bo.Y, e.perSeg):
					c.Decide(rule, fn, construct, bo, false, why+"here the index is divided by blocksPerSegment plus/minus a constant, so the operations disagree on the segment and the header bit of an index: a block is addressed inside another segment (or its header), a free clears the bit of somebody else's block")
				default:
					if k, isC := ir.ConstInt(bo.Y); isC && k > 0 && k <= 8 && k&(k-1) == 0 {
						return // the bit inside a header byte
					}
					c.Undecided(rule, fn, construct, bo, "the index is divided by a value that is not recognised as the blocks-per-segment field")
				}
			case token.SHR, token.AND, token.AND_NOT:
				other := bo.Y
				if !isRaw(bo.X) {
					if bo.Op != token.AND || !isRaw(bo.Y) {
						return
					}
					other = bo.X
				}
				if k, isC := ir.ConstInt(xcStripConv(other)); isC {
					if (bo.Op == token.SHR && k <= 3) || (bo.Op != token.SHR && k >= 0 && k <= 7) {
						return // the bit inside a header byte
					}
				}
				if pow2 {
					c.Undecided(rule, fn, construct, bo, "the index is split by a shift/mask; the geometry function accepts only powers of two, but the value of the shift/mask is not followed")
					return
				}
				c.Decide(rule, fn, construct, bo, false, why+"here the index is taken apart by a shift/mask, which is the inverse of that only when blocksPerSegment is a power of two - the geometry function accepts block sizes for which it is not (multiples of the page size: 3 pages give 98304 blocks per segment). For such a geometry Block/FreeBlock address another segment and bit than ArrangeBlock recorded: user blocks overlap headers, a free releases somebody else's block, allocated indices are refused")
			}
		})
	}
	// floor: both Block and FreeBlock take the index apart somewhere in the functions that carry them out
	covered := 0
	for _, api := range []*ssa.Function{e.blockFn, e.free} {
		for _, fn := range xcGroup(api, map[*ssa.Function]bool{e.ctor: true, e.geom: true, e.arrange: true}) {
			if holders[xcRoot(fn)] {
				covered++
				break
			}
		}
	}
	c.xcFloorUnits(rule, 2, covered, "operation(s) (Block, FreeBlock) that split the index by the blocks-per-segment field")

	// the composition side: the index ArrangeBlock hands out
	const construct2 = "handed-out index composed with the blocks-per-segment field"
	found := false
	seenRoot := map[ssa.Value]bool{}
	for _, root := range vbResultRoots(e.arrange, 0, 0, map[*ssa.Function]bool{}) {
		add, ok := xcStripConv(root).(*ssa.BinOp)
		if !ok || add.Op != token.ADD || seenRoot[add] {
			continue
		}
		seenRoot[add] = true
		var terms []ssa.Value
		var flat func(v ssa.Value, op token.Token, out *[]ssa.Value)
		flat = func(v ssa.Value, op token.Token, out *[]ssa.Value) {
			v = xcStripConv(v)
			if b, isBo := v.(*ssa.BinOp); isBo && b.Op == op {
				flat(b.X, op, out)
				flat(b.Y, op, out)
				return
			}
			*out = append(*out, v)
		}
		flat(add, token.ADD, &terms)
		good, bad, shift := false, false, false
		for _, t := range terms {
			switch x := t.(type) {
			case *ssa.BinOp:
				switch x.Op {
				case token.MUL:
					var factors []ssa.Value
					flat(x, token.MUL, &factors)
					for _, f := range factors {
						if vbIsPerSeg(f, e.perSeg, 0) {
							good = true
						} else if vbPerSegOff(f, e.perSeg) {
							bad = true
						}
					}
				case token.SHL:
					if _, isC := ir.ConstInt(xcStripConv(x.Y)); !isC {
						shift = true
					}
				}
			}
		}
		fn := add.Parent()
		switch {
		case bad:
			found = true
			c.Decide(rule, fn, construct2, add, false, "the index handed out is composed with blocksPerSegment plus/minus a constant while Block and FreeBlock divide by blocksPerSegment: the three operations disagree on the header bit and the bytes of an index")
		case shift && !pow2:
			found = true
			c.Decide(rule, fn, construct2, add, false, "the index handed out is composed with a shift, which equals segment*blocksPerSegment only when blocksPerSegment is a power of two - the geometry function accepts block sizes for which it is not")
		case shift:
			found = true
			c.Undecided(rule, fn, construct2, add, "the index is composed with a shift whose value is not followed")
		case good:
			found = true
			c.Decide(rule, fn, construct2, add, true, "")
		}
	}
	if !found {
		c.Undecided(rule, e.arrange, construct2, nil, "the index ArrangeBlock hands out could not be followed to the expression that composes it")
	}
}

// vbResultRoots follows result ri of fn back through merges, result variables (also those a function literal of fn
// writes), conversions and calls of functions of the package to the expressions that compute it.
func vbResultRoots(fn *ssa.Function, ri int, depth int, busy map[*ssa.Function]bool) []ssa.Value {
	if depth > 4 || busy[fn] || len(fn.Blocks) == 0 {
		return nil
	}
	busy[fn] = true
	defer delete(busy, fn)
	var res []ssa.Value
	seen := map[ssa.Value]bool{}
	var rec func(v ssa.Value, d int)
	rec = func(v ssa.Value, d int) {
		if v == nil || d > 8 {
			return
		}
		for _, o := range ir.Origins(v) {
			if seen[o] {
				continue
			}
			seen[o] = true
			switch x := o.(type) {
			case *ssa.Convert:
				rec(x.X, d+1)
			case *ssa.Extract:
				if call, ok := x.Tuple.(*ssa.Call); ok {
					if cal := ir.StaticCallee(call); cal != nil && len(cal.Blocks) > 0 && xcRoot(cal).Pkg == xcRoot(fn).Pkg {
						res = append(res, vbResultRoots(cal, x.Index, depth+1, busy)...)
						continue
					}
				}
				res = append(res, o)
			case *ssa.Call:
				if cal := ir.StaticCallee(x); cal != nil && len(cal.Blocks) > 0 && xcRoot(cal).Pkg == xcRoot(fn).Pkg && cal.Signature.Results().Len() == 1 {
					res = append(res, vbResultRoots(cal, 0, depth+1, busy)...)
					continue
				}
				res = append(res, o)
			default:
				res = append(res, o)
			}
		}
	}
	for _, ret := range ir.Returns(fn) {
		if ri < len(ret.Results) {
			rec(ir.ResultValue(ret, ri), 0)
		}
	}
	return res
}

// ---------------------------------------------------------------------------
// R13

// vbFreshStorage (R13): the byte slice behind an in-memory Buffer only ever becomes nil or memory that is zero: the
// result of make, a part of such a slice, the buffer's own content extended by such memory - or it is cleared over its
// whole length before the function returns. Decided for every store to the backing slice of the types of
// container/bytes that implement Buffer on top of a []byte (the type itself is a byte slice, or a struct with []byte
// fields), in the constructor and in the methods alike. A slice that comes from anywhere else - a sync.Pool, a package
// variable, a parameter, a previously used buffer - carries the bytes of its previous life.
func (c *Ctx) vbFreshStorage(e *vbEnv) {
	rule := e.ruleFresh
	if e.bufIface == nil {
		c.Decide(rule, nil, "in-memory storage is zero-filled", nil, false, "the Buffer interface was not found")
		return
	}
	iface, _ := e.bufIface.Underlying().(*types.Interface)
	isBytes := func(t types.Type) bool {
		s, ok := t.Underlying().(*types.Slice)
		if !ok {
			return false
		}
		b, ok := s.Elem().Underlying().(*types.Basic)
		return ok && b.Kind() == types.Uint8
	}
	sliceTypes := map[*types.Named]bool{}
	backing := map[*types.Var]bool{}
	if iface != nil {
		for _, nt := range c.P.Implementers("container/bytes", iface) {
			switch u := nt.Underlying().(type) {
			case *types.Slice:
				if isBytes(nt) {
					sliceTypes[nt.Origin()] = true
				}
			case *types.Struct:
				for i := 0; i < u.NumFields(); i++ {
					if isBytes(u.Field(i).Type()) {
						backing[u.Field(i).Origin()] = true
					}
				}
			}
		}
	}
	// site: a store to the backing slice
	isSite := func(in ssa.Instruction) (*ssa.Store, bool) {
		st, ok := in.(*ssa.Store)
		if !ok {
			return nil, false
		}
		if fa, isFA := st.Addr.(*ssa.FieldAddr); isFA {
			if f := ir.FieldOf(fa); f != nil && backing[f] {
				return st, true
			}
			return nil, false
		}
		if n, isNamed := st.Val.Type().(*types.Named); isNamed && sliceTypes[n.Origin()] {
			return st, true
		}
		return nil, false
	}
	// own content: a load of the backing slice of the receiver
	isOwn := func(fn *ssa.Function, v ssa.Value) bool {
		u, ok := v.(*ssa.UnOp)
		if !ok || u.Op != token.MUL || fn.Signature.Recv() == nil || len(fn.Params) == 0 {
			return false
		}
		if u.X == ssa.Value(fn.Params[0]) {
			n := namedOf(fn.Params[0].Type())
			return n != nil && sliceTypes[n]
		}
		if fa, isFA := u.X.(*ssa.FieldAddr); isFA && ir.Resolve(fa.X) == ssa.Value(fn.Params[0]) {
			f := ir.FieldOf(fa)
			return f != nil && backing[f]
		}
		return false
	}
	// notFresh returns the origins of v that are not known to be zero memory
	var notFresh func(fn *ssa.Function, v ssa.Value, depth int) []ssa.Value
	notFresh = func(fn *ssa.Function, v ssa.Value, depth int) []ssa.Value {
		var res []ssa.Value
		for _, o := range ir.Origins(v) {
			switch x := o.(type) {
			case *ssa.MakeSlice:
				continue
			case *ssa.Const:
				if x.IsNil() {
					continue
				}
			case *ssa.Slice:
				if depth < 6 {
					res = append(res, notFresh(fn, x.X, depth+1)...)
					continue
				}
			case *ssa.UnOp:
				if isOwn(fn, x) {
					continue
				}
			case *ssa.Call:
				if cc := builtinCall(x, "append"); cc != nil && depth < 6 {
					for _, a := range cc.Args {
						res = append(res, notFresh(fn, a, depth+1)...)
					}
					continue
				}
				if cal := ir.StaticCallee(x); cal != nil && len(cal.Blocks) > 0 && cal.Pkg == fn.Pkg && depth < 3 && cal.Signature.Results().Len() == 1 {
					sub := 0
					for _, ret := range ir.Returns(cal) {
						sub += len(notFresh(cal, ret.Results[0], depth+1))
					}
					if sub == 0 {
						continue
					}
				}
			}
			res = append(res, o)
		}
		return res
	}
	n := 0
	for _, fn := range c.P.FuncsOf("container/bytes") {
		fn := fn
		ir.Instrs(fn, func(in ssa.Instruction) {
			st, ok := isSite(in)
			if !ok {
				return
			}
			n++
			const construct = "in-memory storage is zero-filled when it is created or grown"
			bad := notFresh(fn, st.Val, 0)
			if len(bad) == 0 {
				c.Decide(rule, fn, construct, st, true, "")
				return
			}
			// cleared over its whole length: clear(s), or a loop over range s that stores 0 to every element, for s the
			// stored slice itself (or the content of the cell it was stored to)
			val := ir.Resolve(st.Val)
			sameSlice := func(s ssa.Value) bool {
				r := ir.Resolve(s)
				if r == val {
					return true
				}
				if u, isLoad := r.(*ssa.UnOp); isLoad && u.Op == token.MUL && u.X == st.Addr {
					return true
				}
				if u, isLoad := s.(*ssa.UnOp); isLoad && u.Op == token.MUL && u.X == st.Addr {
					return true
				}
				return false
			}
			clears, partial := vbClears(fn, sameSlice, 0)
			cleared := false
			for k := range clears {
				if ir.Dominates(k, st) {
					cleared = true
				}
			}
			if !cleared && len(clears) > 0 {
				w, err := (ir.Query{Fn: fn, From: st, Block: func(x ssa.Instruction) bool { return clears[x] }, Target: ir.IsExit}).Find()
				cleared = err == nil && w == nil
			}
			switch {
			case cleared:
				c.Decide(rule, fn, construct, st, true, "")
			case len(clears) > 0 || partial:
				c.Undecided(rule, fn, construct, st, "the storage is built on memory that is not fresh ("+bad[0].String()+") and is zeroed in a way the rule does not follow to the whole length on every path")
			default:
				c.Decide(rule, fn, construct, st, false, "the byte slice of an in-memory storage comes from "+bad[0].Name()+" = "+bad[0].String()+" at "+c.vbPosOf(bad[0])+" - not from make, and it is not cleared: the storage starts with the bytes of a previous life. The allocator keeps its whole state in the storage and rebuilds the free counter from the headers it finds, so a brand-new allocator inherits the allocation set of a closed one (Available != Count with nothing handed out, ErrExhausted with free blocks, old user data read as headers)")
			}
		})
	}
	if n == 0 {
		c.Decide(rule, nil, "in-memory storage is zero-filled when it is created or grown", nil, false, "no store to the byte slice of an in-memory Buffer was found in container/bytes")
	}
	c.R.Floor(rule, 1)
}

// vbClears lists the instructions of fn after which the slice recognised by same is zero over its whole length: the
// builtin clear(s); the header of a loop over range s (or i from 0 below len(s)) whose body stores 0 to s[i] and always
// comes back; a call of a function of the package that does one of these to the parameter s is bound to on every path
// to its exit. partial reports that something zeroes, or may zero, the slice in a way that is not followed (a clear of
// another slice value, a loop of another shape, a call the slice is handed to).
func vbClears(fn *ssa.Function, same func(ssa.Value) bool, depth int) (clears map[ssa.Instruction]bool, partial bool) {
	clears = map[ssa.Instruction]bool{}
	ir.Instrs(fn, func(x ssa.Instruction) {
		call, isCall := x.(ssa.CallInstruction)
		if !isCall {
			return
		}
		cc := call.Common()
		if b, isB := cc.Value.(*ssa.Builtin); isB {
			if b.Name() == "clear" && len(cc.Args) == 1 {
				if same(cc.Args[0]) {
					clears[x] = true
				} else {
					partial = true
				}
			}
			return
		}
		for i, a := range cc.Args {
			if !same(a) {
				continue
			}
			cal := ir.StaticCallee(call)
			if cal == nil || len(cal.Blocks) == 0 || cal.Pkg != fn.Pkg || depth > 1 || i >= len(cal.Params) {
				partial = true
				continue
			}
			p := ssa.Value(cal.Params[i])
			sub, _ := vbClears(cal, func(v ssa.Value) bool { return v == p || ir.Resolve(v) == p }, depth+1)
			sure := false
			if len(sub) > 0 {
				w, err := (ir.Query{Fn: cal, Block: func(y ssa.Instruction) bool { return sub[y] }, Target: ir.IsExit}).Find()
				sure = err == nil && w == nil
			}
			if sure {
				clears[x] = true
			} else {
				partial = true
			}
		}
	})
	for _, h := range fn.Blocks {
		s, idx, body, isLoop := ir.RangeHeader(h)
		if !isLoop {
			s, idx, body, isLoop = ir.CountedHeader(h)
		}
		if !isLoop {
			continue
		}
		zeroes := false
		for _, x := range body.Instrs {
			zs, isStore := x.(*ssa.Store)
			if !isStore || !ir.IsZeroConst(zs.Val) {
				continue
			}
			ia, isIA := zs.Addr.(*ssa.IndexAddr)
			if isIA && ia.Index == idx && (ia.X == s || ir.Resolve(ia.X) == ir.Resolve(s) || vbSameCellLoad(ia.X, s, h, body)) {
				zeroes = true
			}
		}
		if !zeroes {
			continue
		}
		if same(s) && len(body.Succs) == 1 && body.Succs[0] == h {
			clears[h.Instrs[len(h.Instrs)-1]] = true
		} else {
			partial = true
		}
	}
	return clears, partial
}

// vbSameCellLoad: a and b are loads of the same cell and the blocks given (the loop) do not store to it - a slice variable
// whose address is taken is re-read at every use.
func vbSameCellLoad(a, b ssa.Value, blocks ...*ssa.BasicBlock) bool {
	la, ok1 := a.(*ssa.UnOp)
	lb, ok2 := b.(*ssa.UnOp)
	if !ok1 || !ok2 || la.Op != token.MUL || lb.Op != token.MUL || la.X != lb.X {
		return false
	}
	if _, isAlloc := la.X.(*ssa.Alloc); !isAlloc {
		return false
	}
	for _, blk := range blocks {
		for _, in := range blk.Instrs {
			if st, isStore := in.(*ssa.Store); isStore && st.Addr == la.X {
				return false
			}
		}
	}
	return true
}

func (c *Ctx) vbPosOf(v ssa.Value) string {
	if in, ok := v.(ssa.Instruction); ok {
		return c.P.InstrPos(in)
	}
	return c.P.Pos(v.Pos())
}

// ---------------------------------------------------------------------------
// R14

// vbNoFailureAfterRecording (R14). ArrangeBlock records an allocation by setting the header bit and decrementing the
// free counter; a caller that gets an error holds no block. So from the point the allocation is recorded no exit may
// report a failure, unless the path to it takes the recording back (clears the bit and increments the counter, or
// frees the index): otherwise the storage says "allocated" for a block nobody was handed - Available is one less
// than Count minus the blocks handed out, a reopened allocator reproduces a block without an owner, ErrExhausted comes
// while a block was never handed out. FreeBlock likewise: after the release is recorded an error would make the
// caller keep using (or free again) a block that is already free. Decided in every function with an error result that
// carries out the operation: points of recording are the recording stores and the calls of functions of the group
// that (may) record; paths on which such a call reported its own failure are left to the callee's obligation.
// Failing exits are exit points whose error is provably non-nil, or is produced by a call made after the recording.
func (c *Ctx) vbNoFailureAfterRecording(e *vbEnv) {
	type side struct {
		api       *ssa.Function
		group     []*ssa.Function
		record    func(ssa.Instruction) bool
		undoBit   func(ssa.Instruction) bool // takes the header bit back
		undoCnt   func(ssa.Instruction) bool // takes the counter back
		construct string
		detail    string
	}
	inFreeGroup := func(in ssa.Instruction) bool {
		call, ok := in.(ssa.CallInstruction)
		if !ok {
			return false
		}
		cal := ir.StaticCallee(call)
		return cal != nil && (cal == e.free || xcInGroup(e.freeGroup, cal))
	}
	sides := []side{
		{e.arrange, e.arrangeGroup,
			func(in ssa.Instruction) bool { return e.isSetBit(in) || e.atomicAdd(in, -1) },
			func(in ssa.Instruction) bool { return e.isClearBit(in) || inFreeGroup(in) },
			func(in ssa.Instruction) bool { return e.atomicAdd(in, 1) || inFreeGroup(in) },
			"no failing exit after the allocation was recorded",
			"ArrangeBlock can report a failure after it has set the header bit / decremented the free counter, without taking that back: the caller holds no block but the storage says one is allocated - Available is one less than Count minus the blocks handed out, a reopened allocator reproduces a block nobody owns and nobody can free, ErrExhausted comes while a block was never handed out"},
		{e.free, e.freeGroup,
			func(in ssa.Instruction) bool { return e.isClearBit(in) || e.atomicAdd(in, 1) },
			func(in ssa.Instruction) bool { return e.isSetBit(in) },
			func(in ssa.Instruction) bool { return e.atomicAdd(in, -1) },
			"no failing exit after the release was recorded",
			"FreeBlock can report a failure after it has cleared the header bit / incremented the free counter: the caller is told the block is still his while the allocator hands it out again"},
	}
	for _, s := range sides {
		s := s
		mayRecord := map[*ssa.Function]bool{}
		for _, fn := range s.group {
			ir.Instrs(fn, func(in ssa.Instruction) {
				if s.record(in) {
					mayRecord[fn] = true
				}
			})
		}
		// a call records when it runs a function of the group that records: the static callee, or a function value among
		// its arguments / its callee value (a literal handed to a wrapper, a literal called in place)
		runs := func(in ssa.Instruction) *ssa.Function {
			call, ok := in.(*ssa.Call)
			if !ok {
				return nil
			}
			if cal := ir.StaticCallee(call); cal != nil && mayRecord[cal] {
				return cal
			}
			if f := xcFuncValue(call.Call.Value, nil); f != nil && mayRecord[f] {
				return f
			}
			for _, a := range call.Call.Args {
				if f := xcFuncValue(a, nil); f != nil && mayRecord[f] {
					return f
				}
			}
			return nil
		}
		for changed, round := true, 0; changed && round < 8; round++ {
			changed = false
			for _, fn := range s.group {
				if mayRecord[fn] {
					continue
				}
				ir.Instrs(fn, func(in ssa.Instruction) {
					if !mayRecord[fn] && runs(in) != nil {
						mayRecord[fn] = true
						changed = true
					}
				})
			}
		}
		for _, fn := range s.group {
			fn := fn
			eidx := ir.ErrResultIndex(fn)
			if !mayRecord[fn] || eidx < 0 {
				continue
			}
			outcomes := xcExitOutcomes(fn)
			eps := ir.ExitPoints(fn)
			var recs []ssa.Instruction
			ir.Instrs(fn, func(in ssa.Instruction) {
				if s.record(in) || runs(in) != nil {
					recs = append(recs, in)
				}
			})
			for _, r := range recs {
				r := r
				// failing exits as seen from r
				targets := map[ssa.Instruction]bool{}
				for i, pt := range outcomes {
					switch pt.Class {
					case ir.ErrNonNil:
						targets[pt.At] = true
					case ir.ErrUnknown:
						if i < len(eps) && vbErrFromLaterCall(fn, r, eps[i].Result(eidx)) {
							targets[pt.At] = true
						}
					}
				}
				if len(targets) == 0 {
					c.Decide(e.ruleAck, fn, s.construct, r, true, "")
					continue
				}
				// when r is a call that reports its own failure, the paths on which it did are the callee's business
				var blockFact func(f ir.Fact) bool
				if call, isCall := r.(*ssa.Call); isCall {
					if cal := runs(r); cal != nil && ir.StaticCallee(call) == cal {
						res := cal.Signature.Results()
						isResult := func(v ssa.Value, want func(t types.Type) bool) bool {
							v = ir.Resolve(v)
							if res.Len() == 1 {
								return v == ssa.Value(call) && want(res.At(0).Type())
							}
							ex, ok := v.(*ssa.Extract)
							return ok && ex.Tuple == ssa.Value(call) && want(res.At(ex.Index).Type())
						}
						isBool := func(t types.Type) bool {
							b, ok := t.Underlying().(*types.Basic)
							return ok && b.Kind() == types.Bool
						}
						blockFact = func(f ir.Fact) bool {
							if cm, ok := f.Cmp(); ok {
								if cm.Op == token.NEQ && ((isResult(cm.X, ir.IsErrorType) && ir.IsNilConst(ir.Resolve(cm.Y))) || (isResult(cm.Y, ir.IsErrorType) && ir.IsNilConst(ir.Resolve(cm.X)))) {
									return true
								}
							}
							g := f.StripNot()
							return !g.True && isResult(g.Cond, isBool)
						}
					}
				}
				// a failing exit is acceptable only behind both halves of the undo
				var w *ir.Witness
				var err error
				for _, undo := range []func(ssa.Instruction) bool{s.undoBit, s.undoCnt} {
					w, err = (ir.Query{Fn: fn, From: r, Block: undo, BlockFact: blockFact, Target: func(in ssa.Instruction) bool { return targets[in] }}).Find()
					if err != nil || w != nil {
						break
					}
				}
				switch {
				case err != nil:
					c.Undecided(e.ruleAck, fn, s.construct, r, err.Error())
				case w != nil:
					c.Decide(e.ruleAck, fn, s.construct, r, false, s.detail+": path "+w.String(c.P))
				default:
					c.Decide(e.ruleAck, fn, s.construct, r, true, "")
				}
			}
		}
	}
	c.R.Floor(e.ruleAck, 2)
}

// vbErrFromLaterCall reports whether error value ev can be the result of a call of fn, other than r, that is made
// after r.
func vbErrFromLaterCall(fn *ssa.Function, r ssa.Instruction, ev ssa.Value) bool {
	if ev == nil {
		return false
	}
	for _, o := range ir.Origins(ev) {
		var call *ssa.Call
		switch x := o.(type) {
		case *ssa.Call:
			call = x
		case *ssa.Extract:
			call, _ = x.Tuple.(*ssa.Call)
		}
		if call == nil || call.Parent() != fn || ssa.Instruction(call) == r {
			continue
		}
		w, err := (ir.Query{Fn: fn, From: r, Target: func(in ssa.Instruction) bool { return in == ssa.Instruction(call) }}).Find()
		if err == nil && w != nil {
			return true
		}
	}
	return false
}
