package rules

import (
	"go/token"
	"go/types"

	"golang.org/x/tools/go/ssa"

	"verif/checker/ir"
)

// Generalisations of the kvs rules for behaviour-preserving refactorings of round t (C03-t3, C06-t2, C07-t2): work
// moved out of the critical section (copies made before the lock is taken / after it is released) and errors annotated
// by a class-preserving wrapper. Each generalisation widens what a rule accepts as THE SAME clause in another spelling;
// none drops a clause.

// ---------------------------------------------------------------------------
// a result slice whose entries are re-copied by a complete pass (ownership rule, hand-out side)

// resultSliceRecopiedV: handOut stores a pointer into result slice `slice` whose pointee still shares memory with the
// record table (it was filled from a lookup). That is accepted when the pointee cannot leave the function that way: every
// path from the hand-out to a return takes the exhaustion edge of a loop that (1) visits every element of the slice from
// the first to the last and has no other way out (no break, no return), (2) on every way round either finds the element
// nil or overwrites the record it points to with a value that shares nothing with the table (Record.Copy(), decided by
// isCopied), and behind that loop nothing is stored into the slice again. The caller then receives private copies only,
// exactly as with "c := r.Copy(); res[i] = &c" - the copy was merely moved behind the critical section.
func resultSliceRecopiedV(fn *ssa.Function, handOut *ssa.Store, slice ssa.Value, isCopied func(ssa.Value, int) bool) bool {
	good := map[[2]*ssa.BasicBlock]bool{}
	var passes []*batchLoopZB
	for _, l := range passLoopsV(fn, slice) {
		l := l
		single := true
		for b := range l.blocks {
			for _, s := range b.Succs {
				if !l.blocks[s] && !(b == l.header && s == l.exitTo) {
					single = false
				}
			}
		}
		if !single {
			continue
		}
		isElemPtr := func(v ssa.Value) bool {
			u, ok := v.(*ssa.UnOp)
			if !ok || u.Op != token.MUL || !l.blocks[u.Block()] {
				return false
			}
			ia, ok := u.X.(*ssa.IndexAddr)
			return ok && l.isElem(ia)
		}
		recopy := func(x ssa.Instruction) bool {
			st, ok := x.(*ssa.Store)
			return ok && isElemPtr(st.Addr) && isCopied(st.Val, 0)
		}
		nilEdge := func(from, to *ssa.BasicBlock) bool {
			ef := ir.EdgeFact(from, to)
			if ef == nil {
				return false
			}
			cm, ok := ef.Cmp()
			if !ok || cm.Op != token.EQL {
				return false
			}
			return (isElemPtr(cm.X) && ir.IsNilConst(cm.Y)) || (isElemPtr(cm.Y) && ir.IsNilConst(cm.X))
		}
		first := l.header.Instrs[0]
		w, err := (ir.Query{Fn: fn, FromBlock: l.body, Block: recopy, BlockEdge: nilEdge,
			Target: func(x ssa.Instruction) bool { return x == first }}).Find()
		if err == nil && w == nil {
			good[[2]*ssa.BasicBlock{l.header, l.exitTo}] = true
			passes = append(passes, l)
		}
	}
	if len(passes) == 0 {
		return false
	}
	w, err := (ir.Query{Fn: fn, From: handOut,
		BlockEdge: func(from, to *ssa.BasicBlock) bool { return good[[2]*ssa.BasicBlock{from, to}] },
		Target:    ir.IsExit}).Find()
	if err != nil || w != nil {
		return false
	}
	// behind a pass the slice is not filled again
	intoSlice := func(x ssa.Instruction) bool {
		st, ok := x.(*ssa.Store)
		if !ok {
			return false
		}
		ia, ok := st.Addr.(*ssa.IndexAddr)
		return ok && same(ia.X, slice)
	}
	for _, l := range passes {
		if w, err := (ir.Query{Fn: fn, FromBlock: l.exitTo, Target: intoSlice}).Find(); err != nil || w != nil {
			return false
		}
	}
	return true
}

// ---------------------------------------------------------------------------
// a local slice of copies (ownership rule, store side)

// localSliceElemStoresV: o is an element read of a slice that is made in this function and touched by nothing but
// element addressing, len and range (it is not passed on, returned, re-sliced or appended to): what the element holds
// is what some element store of this function put there. Returns those stores.
func localSliceElemStoresV(o ssa.Value) ([]*ssa.Store, bool) {
	u, ok := o.(*ssa.UnOp)
	if !ok || u.Op != token.MUL {
		return nil, false
	}
	ia, ok := u.X.(*ssa.IndexAddr)
	if !ok {
		return nil, false
	}
	ms, ok := ir.Resolve(ia.X).(*ssa.MakeSlice)
	if !ok || !localSliceV(ms) {
		return nil, false
	}
	var res []*ssa.Store
	for _, ref := range *ms.Referrers() {
		if a, isIA := ref.(*ssa.IndexAddr); isIA && a.Referrers() != nil {
			for _, r2 := range *a.Referrers() {
				if st, isSt := r2.(*ssa.Store); isSt && st.Addr == ssa.Value(a) {
					res = append(res, st)
				}
			}
		}
	}
	return res, true
}

// localSliceV: the slice made by ms is used for element addressing, len and range only, and no element address escapes.
func localSliceV(ms *ssa.MakeSlice) bool {
	if ms.Referrers() == nil {
		return false
	}
	for _, ref := range *ms.Referrers() {
		switch x := ref.(type) {
		case *ssa.DebugRef:
		case *ssa.IndexAddr:
			if x.X != ssa.Value(ms) || x.Referrers() == nil {
				return false
			}
			for _, r2 := range *x.Referrers() {
				switch y := r2.(type) {
				case *ssa.DebugRef:
				case *ssa.UnOp:
					if y.Op != token.MUL {
						return false
					}
				case *ssa.Store:
					if y.Addr != ssa.Value(x) {
						return false // the element address itself is stored somewhere
					}
				default:
					return false
				}
			}
		case *ssa.Call:
			if builtinCall(x, "len") == nil {
				return false
			}
		case *ssa.Range:
		default:
			return false
		}
	}
	return true
}

// ---------------------------------------------------------------------------
// the batch handed on element by element (C02.R7)

// derivedBatchesV: local slices D = make([]Record, len(batch)) (see localSliceV) - candidates for a copy of the batch
// prepared before the critical section. Whether D really receives every record is decided per iteration of the loop
// over the batch (transferStoreV) and per iteration of the loop over D (the store into the table).
func derivedBatchesV(fn *ssa.Function, batch ssa.Value, recordT *types.Named) map[ssa.Value]bool {
	res := map[ssa.Value]bool{}
	ir.Instrs(fn, func(in ssa.Instruction) {
		ms, ok := in.(*ssa.MakeSlice)
		if !ok || !isLenOf(ms.Len, batch) || !localSliceV(ms) {
			return
		}
		if sl, isSl := ms.Type().Underlying().(*types.Slice); !isSl || namedOf(sl.Elem()) != recordT {
			return
		}
		if _, isPtr := ms.Type().Underlying().(*types.Slice).Elem().Underlying().(*types.Pointer); isPtr {
			return
		}
		res[ms] = true
	})
	return res
}

// transferStoreV: x stores the record of this iteration (marker = &batch[i]) - itself or its Record.Copy() - into the
// element with the same index of a derived batch.
func transferStoreV(x ssa.Instruction, marker *ssa.IndexAddr, derived map[ssa.Value]bool) bool {
	st, ok := x.(*ssa.Store)
	if !ok {
		return false
	}
	dst, ok := st.Addr.(*ssa.IndexAddr)
	if !ok || !derived[ir.Resolve(dst.X)] || dst.Index != marker.Index {
		return false
	}
	v := st.Val
	if call, isCall := v.(*ssa.Call); isCall {
		if recv := copyReceiver(call); recv != nil {
			v = recv
		}
	}
	u, ok := ir.Resolve(v).(*ssa.UnOp)
	return ok && u.Op == token.MUL && u.X == ssa.Value(marker)
}

// elementReadV: ia addresses an element that is read (not only the destination of a store).
func elementReadV(ia *ssa.IndexAddr) bool {
	if ia.Referrers() == nil {
		return false
	}
	for _, ref := range *ia.Referrers() {
		if u, ok := ref.(*ssa.UnOp); ok && u.Op == token.MUL {
			return true
		}
		if _, ok := ref.(*ssa.FieldAddr); ok {
			return true
		}
	}
	return false
}

// ---------------------------------------------------------------------------
// a fresh version handed on from one local record to its prepared copy (C02.R2 and its aliases)

// versionGeneratorV: the value v stored into a record's Version field is a freshly generated version - the result of
// the generator itself, or the Version field of ANOTHER local record read at a point where that field holds a freshly
// generated version (the generator's store dominates the read and neither the field nor the record is written in
// between): `record.Version = NewID(); stored.Version = record.Version`. Returns the generator call, or nil.
func versionGeneratorV(v ssa.Value, verField *types.Var, newID *ssa.Function, depth int) *ssa.Call {
	if v == nil || newID == nil || depth > 2 {
		return nil
	}
	if call, ok := ir.Resolve(v).(*ssa.Call); ok {
		if ir.StaticCallee(call) == newID {
			return call
		}
		return nil
	}
	u, ok := v.(*ssa.UnOp)
	if !ok || u.Op != token.MUL {
		return nil
	}
	fa, ok := u.X.(*ssa.FieldAddr)
	if !ok || ir.FieldOf(fa) != verField {
		return nil
	}
	src, ok := fa.X.(*ssa.Alloc)
	if !ok || src.Referrers() == nil {
		return nil
	}
	fn := u.Parent()
	type genStore struct {
		st   *ssa.Store
		call *ssa.Call
	}
	var gens []genStore
	var others []ssa.Instruction
	unknown := false
	ir.Instrs(fn, func(in ssa.Instruction) {
		switch x := in.(type) {
		case *ssa.Store:
			if x.Addr == ssa.Value(src) {
				others = append(others, in)
				return
			}
			if f2, isFA := x.Addr.(*ssa.FieldAddr); isFA && f2.X == ssa.Value(src) && ir.FieldOf(f2) == verField {
				if call := versionGeneratorV(x.Val, verField, newID, depth+1); call != nil {
					gens = append(gens, genStore{x, call})
				} else {
					others = append(others, in)
				}
			}
		case *ssa.MakeClosure:
			for _, b := range x.Bindings {
				if b == ssa.Value(src) {
					unknown = true // written who knows when
				}
			}
		case ssa.CallInstruction:
			for _, a := range x.Common().Args {
				if a == ssa.Value(src) {
					unknown = true // the record's address is handed out
				}
			}
		}
	})
	if unknown {
		return nil
	}
	for _, g := range gens {
		if !ir.Dominates(g.st, u) {
			continue
		}
		clean := true
		var between []ssa.Instruction
		between = append(between, others...)
		for _, g2 := range gens {
			if g2.st != g.st {
				between = append(between, g2.st)
			}
		}
		for _, o := range between {
			w1, _ := (ir.Query{Fn: fn, From: g.st, Block: func(x ssa.Instruction) bool { return x == ssa.Instruction(u) }, Target: func(x ssa.Instruction) bool { return x == o }}).Find()
			w2, _ := (ir.Query{Fn: fn, From: o, Block: func(x ssa.Instruction) bool { return x == ssa.Instruction(g.st) }, Target: func(x ssa.Instruction) bool { return x == ssa.Instruction(u) }}).Find()
			if w1 != nil && w2 != nil {
				clean = false
			}
		}
		if clean {
			return g.call
		}
	}
	return nil
}

// ---------------------------------------------------------------------------
// Put returns the record it wrote (C02.R6): the stored cell is a prepared copy of the returned one

// ownerOfStoredCopyV: the cell stored into the table holds `x.Copy()` of a local record cell x (its only whole-value
// assignment) and the only field of it that is written afterwards is Version, with x's Version: the table's record and
// x are then the same record field by field, and returning x IS returning the record that was written (not one read
// back). Returns x's cell; in every other case the cell itself.
func ownerOfStoredCopyV(cell ssa.Value, verField *types.Var) ssa.Value {
	al, ok := cell.(*ssa.Alloc)
	if !ok || al.Referrers() == nil {
		return cell
	}
	var src *ssa.Alloc
	whole, versions := 0, 0
	for _, ref := range *al.Referrers() {
		switch x := ref.(type) {
		case *ssa.DebugRef:
		case *ssa.UnOp:
			if x.Op != token.MUL {
				return cell
			}
		case *ssa.Store:
			if x.Addr != ssa.Value(al) {
				return cell // the address of the cell is stored somewhere
			}
			whole++
			call, isCall := x.Val.(*ssa.Call)
			if !isCall {
				return cell
			}
			recv := copyReceiver(call)
			ld, isLd := recv.(*ssa.UnOp)
			if recv == nil || !isLd || ld.Op != token.MUL {
				return cell
			}
			a, isAl := ld.X.(*ssa.Alloc)
			if !isAl {
				return cell
			}
			src = a
		case *ssa.FieldAddr:
			if x.Referrers() == nil {
				continue
			}
			for _, r2 := range *x.Referrers() {
				st, isSt := r2.(*ssa.Store)
				if !isSt {
					if u, isU := r2.(*ssa.UnOp); isU && u.Op == token.MUL {
						continue
					}
					if _, isDbg := r2.(*ssa.DebugRef); isDbg {
						continue
					}
					return cell
				}
				if st.Addr != ssa.Value(x) || ir.FieldOf(x) != verField {
					return cell
				}
				versions++
			}
		default:
			return cell
		}
	}
	if whole != 1 || src == nil || versions == 0 {
		return cell
	}
	// every Version written into the copy is the Version of x
	for _, ref := range *al.Referrers() {
		fa, ok := ref.(*ssa.FieldAddr)
		if !ok || fa.Referrers() == nil {
			continue
		}
		for _, r2 := range *fa.Referrers() {
			st, isSt := r2.(*ssa.Store)
			if !isSt {
				continue
			}
			u, isU := st.Val.(*ssa.UnOp)
			if !isU || u.Op != token.MUL {
				return cell
			}
			f2, isFA := u.X.(*ssa.FieldAddr)
			if !isFA || f2.X != ssa.Value(src) || ir.FieldOf(f2) != verField {
				return cell
			}
		}
	}
	return src
}

// ---------------------------------------------------------------------------
// class-preserving error wrappers (C03.R1 / C02.R5, redis)

// classPassThroughV: call hands an error to a function of the backend that returns the contract class `class`
// unchanged: every exit of the callee either returns that very parameter, or is reached only when the parameter is not
// the class sentinel (the path took the `err != <class>` side of a comparison with the sentinel, or `err == nil`).
// Such a function (an annotating wrapper: "could not get %q: %w" for everything that is not a contract error) does not
// change which class the operation reports, so the rule looks through it. Returns the error argument, or nil.
func classPassThroughV(call *ssa.Call, pkgFn *ssa.Function, class string) ssa.Value {
	cal := ir.StaticCallee(call)
	if cal == nil || len(cal.Blocks) == 0 || call.Call.IsInvoke() || !samePkgV(cal, pkgFn) {
		return nil
	}
	rs := cal.Signature.Results()
	if rs.Len() != 1 || !ir.IsErrorType(rs.At(0).Type()) {
		return nil
	}
	var arg ssa.Value
	var prm *ssa.Parameter
	n := len(call.Call.Args)
	if n > len(cal.Params) {
		n = len(cal.Params)
	}
	for i := 0; i < n; i++ {
		if ir.IsErrorType(cal.Params[i].Type()) {
			if prm != nil {
				return nil // two errors: which one is the result is not decided here
			}
			prm, arg = cal.Params[i], call.Call.Args[i]
		}
	}
	if prm == nil {
		return nil
	}
	isPrm := func(v ssa.Value) bool { return ir.Resolve(v) == ssa.Value(prm) }
	for _, e := range ir.ExitPoints(cal) {
		rv := e.Result(0)
		if rv != nil && isPrm(rv) {
			continue
		}
		notClass := e.HasFact(func(f ir.Fact) bool {
			cm, ok := f.Cmp()
			if !ok {
				return false
			}
			x, y := cm.X, cm.Y
			if isPrm(y) {
				x, y = y, x
			}
			if !isPrm(x) {
				return false
			}
			if cm.Op == token.NEQ {
				g := globalOf(y)
				return g != nil && g.Name() == class
			}
			return cm.Op == token.EQL && ir.IsNilConst(y)
		})
		if !notClass {
			return nil
		}
	}
	return arg
}

// throughClassWrappersV resolves v to the call that produced it, looking through class-preserving wrappers of the
// backend (classPassThroughV). nil when v is not the result of a call.
func throughClassWrappersV(v ssa.Value, pkgFn *ssa.Function, class string) *ssa.Call {
	call, ok := ir.Resolve(v).(*ssa.Call)
	for d := 0; ok && d < 3; d++ {
		arg := classPassThroughV(call, pkgFn, class)
		if arg == nil {
			break
		}
		inner, isCall := ir.Resolve(arg).(*ssa.Call)
		if !isCall {
			break
		}
		call = inner
	}
	if !ok {
		return nil
	}
	return call
}

// passLoopsV: the loops of fn that visit every element of slice from the first to the last when they are left over the
// exhaustion edge (batchLoopsZB), plus the range loop whose body has several ways back to the header (an `if` without
// else in the body gives the header phi one operand per way: i = phi(-1, i+1, i+1)).
func passLoopsV(fn *ssa.Function, slice ssa.Value) []*batchLoopZB {
	res := batchLoopsZB(fn, slice)
	have := map[*ssa.BasicBlock]bool{}
	for _, l := range res {
		have[l.header] = true
	}
	for _, h := range fn.Blocks {
		if have[h] || len(h.Succs) != 2 || len(h.Instrs) == 0 {
			continue
		}
		iff, ok := h.Instrs[len(h.Instrs)-1].(*ssa.If)
		if !ok {
			continue
		}
		cmp, ok := iff.Cond.(*ssa.BinOp)
		if !ok || cmp.Op != token.LSS || !isLenOf(cmp.Y, slice) {
			continue
		}
		next, ok := cmp.X.(*ssa.BinOp)
		if !ok || next.Op != token.ADD || next.Block() != h {
			continue
		}
		one, isC := ir.ConstInt(next.Y)
		phi, isPhi := next.X.(*ssa.Phi)
		if !isC || one != 1 || !isPhi || phi.Block() != h || len(phi.Edges) != len(h.Preds) {
			continue
		}
		// one way in (from outside the loop, with -1), every other operand is the step of the previous round
		inits, shape := 0, true
		for j, e := range phi.Edges {
			back := h.Dominates(h.Preds[j])
			k, isK := ir.ConstInt(e)
			switch {
			case !back && isK && k == -1:
				inits++
			case back && e == ssa.Value(next):
			default:
				shape = false
			}
		}
		if !shape || inits != 1 {
			continue
		}
		// the length the index is compared with is taken before the loop
		if lc, isCall := ir.Resolve(cmp.Y).(*ssa.Call); !isCall || h.Dominates(lc.Block()) {
			continue
		}
		l := &batchLoopZB{header: h, body: h.Succs[0], exitTo: h.Succs[1]}
		l.isElem = func(ia *ssa.IndexAddr) bool { return same(ia.X, slice) && ia.Index == ssa.Value(next) }
		l.blocks = map[*ssa.BasicBlock]bool{h: true}
		var up func(b *ssa.BasicBlock)
		up = func(b *ssa.BasicBlock) {
			if l.blocks[b] {
				return
			}
			l.blocks[b] = true
			for _, q := range b.Preds {
				up(q)
			}
		}
		for _, p := range h.Preds {
			if h.Dominates(p) {
				up(p)
			}
		}
		if len(l.blocks) == 1 || !l.blocks[l.body] || l.blocks[l.exitTo] {
			continue
		}
		res = append(res, l)
	}
	return res
}

// liveWrapperV: fn hands out, unchanged, what a live-lookup helper returned (a "lookup under the lock" wrapper): every
// return yields the results of one and the same call of such a helper. What it returns is a record read from the table
// (for the ownership rule only: whether the caller may still rely on it after the wrapper released the mutex is the
// business of the critical-section rules, which do not look at wrappers).
func (r *inmemRoles) liveWrapperV(fn *ssa.Function, depth int) bool {
	if fn == nil || len(fn.Blocks) == 0 || depth > 2 || !r.isPrivateHelper(fn) || fn.Pkg == nil {
		return false
	}
	inPkg := false
	for _, f := range r.all {
		if f == fn {
			inPkg = true
		}
	}
	rs := fn.Signature.Results()
	if !inPkg || rs.Len() != 2 || namedOf(rs.At(0).Type()) != r.recordT {
		return false
	}
	rets := ir.Returns(fn)
	for _, ret := range rets {
		if ret.Block() == fn.Recover {
			continue
		}
		ex, ok := ir.Resolve(ir.ResultValue(ret, 0)).(*ssa.Extract)
		if !ok || ex.Index != 0 {
			return false
		}
		call, ok := ex.Tuple.(*ssa.Call)
		if !ok {
			return false
		}
		cal := ir.StaticCallee(call)
		if cal == nil || !(r.liveHelpers[cal] || r.liveWrapperV(cal, depth+1)) {
			return false
		}
	}
	return len(rets) > 0
}

// classLeakV: some exit of fn (or of its function literals) returns an error that is computed from the error of the
// redis command cmd but is not the mapped error handed on unchanged (directly or through class-preserving wrappers),
// and nothing on the way excluded the class: the exit lies under no fact "mapped error != <class>". That is how an
// annotation applied to EVERY error ("could not get %q: %w") turns the missing-key answer into something callers that
// compare with the class value no longer recognise. The existence of a mapped exit alone does not exclude it when the
// annotation is written in line (or inlined by the normal form): the annotated value is then just another alternative of
// the same return.
func classLeakV(r *redisRoles, fn *ssa.Function, cmd, class string) bool {
	var cmdErr func(v ssa.Value, d int) bool
	cmdErr = func(v ssa.Value, d int) bool {
		if v == nil || d > 5 {
			return false
		}
		switch x := ir.Resolve(v).(type) {
		case *ssa.Extract:
			if res, ok := x.Tuple.(*ssa.Call); ok {
				if inner, isInner := ir.Recv(res).(*ssa.Call); isInner && redisCmd(inner, cmd) != nil {
					return true
				}
			}
		case *ssa.Call:
			// .Err() of the command
			if inner, isInner := ir.Recv(x).(*ssa.Call); isInner && redisCmd(inner, cmd) != nil && ir.IsErrorType(x.Type()) {
				return true
			}
			for _, a := range x.Call.Args {
				if cmdErr(a, d+1) {
					return true
				}
			}
			if len(x.Call.Args) > 0 {
				for _, a := range variadicArgs(x.Call.Args[len(x.Call.Args)-1]) {
					if cmdErr(a, d+1) {
						return true
					}
				}
			}
		case *ssa.Phi:
			for _, e := range x.Edges {
				if cmdErr(e, d+1) {
					return true
				}
			}
		}
		return false
	}
	for _, f := range withClosures(fn) {
		idx := ir.ErrResultIndex(f)
		if idx < 0 {
			continue
		}
		for _, e := range ir.ExitPoints(f) {
			rv := e.Result(idx)
			if rv == nil || ir.IsNilConst(ir.Resolve(rv)) || globalOf(rv) != nil || !cmdErr(rv, 0) {
				continue
			}
			if call := throughClassWrappersV(rv, f, class); call != nil && ir.StaticCallee(call) == r.mapErr {
				continue
			}
			excluded := e.HasFact(func(ft ir.Fact) bool {
				cm, ok := ft.Cmp()
				if !ok || cm.Op != token.NEQ {
					return false
				}
				x, y := cm.X, cm.Y
				if g := globalOf(x); g != nil {
					x, y = y, x
				}
				g := globalOf(y)
				if g == nil || g.Name() != class {
					return false
				}
				call, isCall := ir.Resolve(x).(*ssa.Call)
				return isCall && ir.StaticCallee(call) == r.mapErr
			})
			if !excluded {
				return true
			}
		}
	}
	return false
}
