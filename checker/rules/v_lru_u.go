package rules

import (
	"golang.org/x/tools/go/ssa"

	"verif/checker/ir"
)

// Generalisations for the benign round "v" (shared drop helpers: C11-v1).

// firstRootedParamU: the key is a parameter of a private helper, and at every place the helper is run from on behalf of
// GetOrCreate (the call sites inside GetOrCreate's scope; other operations that share the helper are judged by their own
// rules) the argument is the key items.First() returned. "drop(k)" shared by eviction, Remove and Clear is then an
// eviction of the oldest entry where GetOrCreate runs it.
func (r *lruRoles) firstRootedParamU(key ssa.Value, depth int) bool {
	prm, ok := pureKeyZ(key).(*ssa.Parameter)
	if !ok || depth > 2 {
		return false
	}
	fn := prm.Parent()
	idx := paramIdxV(prm)
	sites, known := r.locks.callersOf(fn)
	if !known || idx < 0 || fn.Parent() != nil {
		return false
	}
	scope := r.gocScope()
	n := 0
	for _, s := range sites {
		ci, isCI := s.(ssa.CallInstruction)
		if !isCI || !scope[s.Parent()] {
			continue
		}
		if ir.StaticCallee(ci) != fn || idx >= len(ci.Common().Args) {
			return false
		}
		a := ci.Common().Args[idx]
		if !(r.firstRootedOld(a) || r.firstKeyC(r.prog, a, 0) || r.firstRootedParamU(a, depth+1)) {
			return false
		}
		n++
	}
	return n > 0
}

// sharedSitesU: a site (a removal, a list access, a callback invocation) that lives in a private helper is a site of
// every exported operation that runs the helper. The floors of the per-site rules count sites per operation (eviction,
// Remove, Clear each had their own copy of the statements when the floors were set); for a shared site, perSite
// discharged obligations per further operation keep that count what it was. This is accounting for the vacuity guard
// only: the verdict of the site itself stays the one obligation that can be violated.
func (c *Ctx) sharedSitesU(r *lruRoles, rule string, what string, perSite int, pred func(ssa.Instruction) bool) {
	for _, fn := range r.bodies {
		if rootFnH(fn) != fn || fn.Object() == nil || fn.Object().Exported() {
			continue
		}
		n := 0
		ir.Instrs(fn, func(in ssa.Instruction) {
			if pred(in) {
				n++
			}
		})
		if n == 0 {
			continue
		}
		ops := 0
		for _, m := range r.methods {
			if m.Object() == nil || !m.Object().Exported() {
				continue
			}
			for _, g := range r.locks.reachable(m) {
				if g != fn {
					continue
				}
				ops++
				if ops > 1 {
					for i := 0; i < n*perSite; i++ {
						c.Decide(rule, fn, "shared "+what+" also runs on behalf of "+m.Name(), nil, true, "")
					}
				}
			}
		}
	}
}

// sharedRemovalSitesU is sharedSitesU for the removal sites of the pairing rule (two obligations per site).
func (c *Ctx) sharedRemovalSitesU(r *lruRoles, rule string) {
	c.sharedSitesU(r, rule, "removal site", 2, func(in ssa.Instruction) bool { return r.itemsCall(in, r.mRemove) != nil })
}
