package rules

import (
	"go/token"
	"go/types"

	"golang.org/x/tools/go/ssa"

	"verif/checker/ai"
	"verif/checker/ir"
)

// Generalisations of the timer rules (c12_c13.go) added in the second robustness round.

// tmHeapRecvVal is the abstract receiver the index rules (R1) interpret a heap method with. A method with a pointer
// receiver gets the address of the heap object (obj). A method with a value receiver (the canonical container/heap form
// `func (h H) Swap(i, j int)`) gets the heap object itself: a slice of futures is the abstract array "arr" (as a load of
// the heap object yields it), a struct is read field by field with its slice-of-futures fields bound to the same array.
// The element stores and index stores of the method then hit the same abstract cells in both spellings.
func (r *timerRoles) tmHeapRecvVal(fn *ssa.Function, obj ai.Ptr) ai.Val {
	if fn == nil || len(fn.Params) == 0 {
		return obj
	}
	t := fn.Params[0].Type()
	if _, isPtr := t.Underlying().(*types.Pointer); isPtr {
		return obj
	}
	if r.isHeapSlice(t) {
		return ai.Ptr{Path: "arr"}
	}
	if st, ok := t.Underlying().(*types.Struct); ok {
		res := ai.Struct{Fields: map[string]ai.Val{}}
		for i := 0; i < st.NumFields(); i++ {
			f := st.Field(i)
			if r.isHeapSlice(f.Type()) {
				res.Fields[f.Name()] = ai.Ptr{Path: "arr"}
			} else {
				res.Fields[f.Name()] = ai.Tok{Name: "init:" + obj.Path + "." + f.Name()}
			}
		}
		return res
	}
	return obj
}

// tmIndexOfOneFuture reports whether v, as it can be at block at, is always a load of the index field of one and the same
// future (base). v may be the load itself or a variable merged from several alternatives - the (idx, ok) result of an
// accessor, inlined: alternatives that contradict a flag of the same merge known at `at` cannot have been selected
// (tmFeasibleEdges); every remaining one must be the index field of the same future.
func (r *timerRoles) tmIndexOfOneFuture(v ssa.Value, at *ssa.BasicBlock) (base ssa.Value, ok bool) {
	if b, direct := loadOfField(v, r.fIdx); direct {
		return b, true
	}
	ok = tmAllFeasibleOrigins(v, at, func(o ssa.Value) bool {
		b, isIdx := loadOfField(o, r.fIdx)
		if !isIdx || (base != nil && !same(b, base)) {
			return false
		}
		base = b
		return true
	})
	return base, ok && base != nil
}


// ---------------------------------------------------------------------------
// function literals that are part of their function's own activation

// tmLocalClosure is a function literal of fn that only ever runs as a plain call made by fn itself: the literal is
// turned into a value in fn (or needs none: it captures nothing) and that value is used for nothing but being called by
// fn - it is not stored, passed on, returned, deferred or started with go. Its body is then a piece of fn's body written
// aside (`sleep := func(d) bool {...}` in front of the loop that calls it), entered exactly at Calls.
type tmLocalClosure struct {
	Fn    *ssa.Function
	Calls []*ssa.Call
}

// tmLocalClosures lists the function literals of fn that qualify as tmLocalClosure, in source order.
func tmLocalClosures(fn *ssa.Function) []tmLocalClosure {
	var res []tmLocalClosure
	if fn == nil {
		return nil
	}
	// every function in which a use of a literal of fn could be written down
	var scope []*ssa.Function
	var walk func(f *ssa.Function)
	walk = func(f *ssa.Function) {
		scope = append(scope, f)
		for _, a := range f.AnonFuncs {
			walk(a)
		}
	}
	walk(fn)
	for _, g := range fn.AnonFuncs {
		ok := true
		var calls []*ssa.Call
		isVal := map[ssa.Value]bool{g: true}
		ir.Instrs(fn, func(in ssa.Instruction) {
			if mc, isMC := in.(*ssa.MakeClosure); isMC && mc.Fn == ssa.Value(g) {
				isVal[mc] = true
			}
		})
		for _, f := range scope {
			ir.Instrs(f, func(in ssa.Instruction) {
				if _, isDbg := in.(*ssa.DebugRef); isDbg {
					return
				}
				var ops [24]*ssa.Value
				for _, op := range in.Operands(ops[:0]) {
					if op == nil || *op == nil || !isVal[*op] {
						continue
					}
					if mc, isMC := in.(*ssa.MakeClosure); isMC && f == fn && mc.Fn == *op && *op == ssa.Value(g) {
						continue // the literal becoming a value
					}
					call, isCall := in.(*ssa.Call)
					if !isCall || f != fn || call.Call.IsInvoke() || call.Call.Value != *op {
						ok = false // stored, passed, deferred, started with go, captured, or used by another literal
						continue
					}
					for _, a := range call.Call.Args {
						if isVal[a] {
							ok = false
						}
					}
					dup := false
					for _, c0 := range calls {
						dup = dup || c0 == call
					}
					if !dup {
						calls = append(calls, call)
					}
				}
			})
		}
		if ok && len(calls) > 0 {
			res = append(res, tmLocalClosure{Fn: g, Calls: calls})
		}
	}
	return res
}

func tmIsBlockingSelect(in ssa.Instruction) bool {
	sel, ok := in.(*ssa.Select)
	return ok && sel.Blocking
}

// tmSleepClosures splits the local closures of the worker that contain a blocking select into those that may sleep
// (contain one) and those that always sleep (no path from their entry to a return avoids every blocking select).
// The result maps the call sites in the worker to the closure.
func tmSleepClosures(worker *ssa.Function) (all []tmLocalClosure, may, must map[ssa.Instruction]*ssa.Function) {
	may, must = map[ssa.Instruction]*ssa.Function{}, map[ssa.Instruction]*ssa.Function{}
	for _, lc := range tmLocalClosures(worker) {
		has := false
		ir.Instrs(lc.Fn, func(in ssa.Instruction) { has = has || tmIsBlockingSelect(in) })
		if !has {
			continue
		}
		all = append(all, lc)
		w, err := (ir.Query{Fn: lc.Fn, Block: tmIsBlockingSelect, Target: ir.IsExit}).Find()
		for _, c := range lc.Calls {
			may[c] = lc.Fn
			if w == nil && err == nil {
				must[c] = lc.Fn
			}
		}
	}
	return all, may, must
}

// tmWokenBlocks lists the blocks of fn entered exactly when the blocking select sel took its case number idx.
func tmWokenBlocks(fn *ssa.Function, sel *ssa.Select, idx int) []*ssa.BasicBlock {
	var res []*ssa.BasicBlock
	for _, b := range fn.Blocks {
		if len(b.Preds) != 1 {
			continue
		}
		f := ir.EdgeFact(b.Preds[0], b)
		if f == nil {
			continue
		}
		cm, isCmp := f.Cmp()
		if !isCmp || cm.Op != token.EQL {
			continue
		}
		ex, isEx := ir.Resolve(cm.X).(*ssa.Extract)
		k, isC := ir.ConstInt(cm.Y)
		if !isEx || !isC || ex.Tuple != ssa.Value(sel) || ex.Index != 0 || int(k) != idx {
			continue
		}
		res = append(res, b)
	}
	return res
}

// tmNoFeasiblePathAfterCall decides "no feasible path of fn from right after call to a target passes no stop", given that
// the call returned the boolean `result` (known == false: nothing is known about what it returned). Same two engines as
// tmNoFeasiblePath: the CFG query with constant tracking, then the per-path valuation search.
func tmNoFeasiblePathAfterCall(fn *ssa.Function, call *ssa.Call, known, result bool, stop, target func(ssa.Instruction) bool) (proved bool, witness *ir.Witness, err error) {
	q := ir.Query{Fn: fn, From: call, TrackConsts: true, Block: stop, Target: target}
	fs := tmFeasSearch{Fn: fn, From: call, Stop: stop, Target: target, MaxStates: 20000}
	if known {
		q.Assume = []ir.Fact{{Cond: call, True: result}}
		fs.Known = map[ssa.Value]bool{call: result}
	}
	w, qerr := q.Find()
	if qerr == nil && w == nil {
		return true, nil, nil
	}
	found, ferr := fs.find()
	if ferr == nil && !found {
		return true, nil, nil
	}
	if qerr != nil {
		return false, nil, qerr
	}
	return false, w, nil
}

// tmIsWakeChan reports whether v is the wake channel of the control block: a load of the wake field, or - inside a local
// literal lc of the worker - a parameter of the literal that is bound to a load of the wake field at every call of it.
func (r *timerRoles) tmIsWakeChan(v ssa.Value, lc *tmLocalClosure) bool {
	if _, isWake := loadOfField(v, r.wake); isWake {
		return true
	}
	if lc == nil {
		return false
	}
	prm, ok := ir.Resolve(v).(*ssa.Parameter)
	if !ok || prm.Parent() != lc.Fn {
		return false
	}
	idx := -1
	for i, p := range lc.Fn.Params {
		if p == prm {
			idx = i
		}
	}
	if idx < 0 || len(lc.Calls) == 0 {
		return false
	}
	for _, call := range lc.Calls {
		if idx >= len(call.Call.Args) {
			return false
		}
		if _, isWake := loadOfField(call.Call.Args[idx], r.wake); !isWake {
			return false
		}
	}
	return true
}
