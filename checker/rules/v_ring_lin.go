package rules

// Extensions of the symbolic linear-bounds engine of the ring buffer rules (y_f_lin.go), made for behaviour-preserving
// spellings of the index arithmetic that the engine lost track of. Each of them only adds knowledge that holds on every
// execution; anything not understood stays an unbounded atom as before.

import (
	"go/token"
	"go/types"
	"sync"

	"golang.org/x/tools/go/ssa"

	"verif/checker/ir"
)

// unwrittenSinceIdomV: b is a join block (or a loop header) and no instruction that may write index field f lies on a
// path from the end of b's immediate dominator d to the entry of b - not in the alternatives merged at b, and, for a
// loop header, not in the loop body either (the backward walk from b's predecessors stops only at d). The field then
// holds at the entry of b what it held at the end of d. Returns d, or nil.
//
// Example: `cnt := len(buf) - r.r; if n < cnt { cnt = n }; ...; r.r = wrap(r.r + cnt)`: the second read of r.r sits
// behind the merge of the `if` and is the same number as the first.
func (k *c14) unwrittenSinceIdomV(b *ssa.BasicBlock, f *types.Var) *ssa.BasicBlock {
	d := b.Idom()
	if d == nil || len(b.Preds) < 2 {
		return nil
	}
	seen := map[*ssa.BasicBlock]bool{d: true}
	work := append([]*ssa.BasicBlock{}, b.Preds...)
	for len(work) > 0 {
		x := work[len(work)-1]
		work = work[:len(work)-1]
		if seen[x] {
			continue
		}
		seen[x] = true
		for _, in := range x.Instrs {
			if k.writesField(in, f) {
				return nil
			}
		}
		if len(x.Preds) == 0 {
			return nil // reached the entry without passing d: d does not dominate after all
		}
		work = append(work, x.Preds...)
	}
	return d
}

// overBackEdgeV: under the current choice the phi p takes the operand that arrives over a back edge of the loop p's
// block is the header of. That operand was computed in the previous iteration from the previous iteration's values of
// the SSA values of the loop body; expanding it would mix them up with the values of the current iteration, which carry
// the same names (n' = n - cnt: the cnt of the last round, not of this one). The loop variable is then one unknown
// number about which the branch facts that mention it speak - the same atom wherever it occurs.
func (e *c14env) overBackEdgeV(p *ssa.Phi) bool {
	i, ok := e.choice[p.Block()]
	if !ok || i >= len(p.Block().Preds) {
		return false
	}
	return p.Block().Dominates(p.Block().Preds[i])
}

// ---------------------------------------------------------------------------
// counts handed to a private helper

// countParamsV remembers, per parameter, whether every call proves it to be a count in [0, Len()]: 1 yes, 2 no, 3 being
// decided (a cycle in the call graph: no).
var countParamsV sync.Map // *ssa.Parameter -> int

// countParamV: x is an integer parameter of a private function of the package all of whose calls are known (never used
// as a value, never reached through an interface), and at every call the argument is proved - by the same linear
// evaluation, in the caller, under every choice of phi edges - to satisfy 0 <= argument <= Len(), for a call of Len()
// that dominates the call and is not separated from it by a write to an index. Inside the helper the parameter then is
// a number in [0, Len()] with Len() <= len(buf)-1 on entry: the refactoring "clamp once in the exported method, do the
// index arithmetic in a helper" keeps the bound the arithmetic relies on. When a caller stops clamping, the proof at
// that call fails, the parameter is an unbounded atom again and the helper's index arithmetic is reported as before.
func (k *c14) countParamV(x *ssa.Parameter) bool {
	if st, ok := countParamsV.Load(x); ok {
		return st.(int) == 1
	}
	countParamsV.Store(x, 3)
	res := k.decideCountParamV(x)
	if res {
		countParamsV.Store(x, 1)
	} else {
		countParamsV.Store(x, 2)
	}
	return res
}

func (k *c14) decideCountParamV(x *ssa.Parameter) bool {
	fn := x.Parent()
	if fn == nil || !types.Identical(x.Type(), types.Typ[types.Int]) {
		return false
	}
	i := c14paramIndex(x)
	sites := k.callSites(fn)
	if i < 0 || !sites.complete || len(sites.calls) == 0 {
		return false
	}
	for _, ci := range sites.calls {
		call, ok := ci.(*ssa.Call)
		if !ok || i >= len(call.Call.Args) || call.Parent() == nil {
			return false
		}
		if !k.countArgV(call, call.Call.Args[i]) {
			return false
		}
	}
	return true
}

// writeBetweenV: an index may be written after `from` was evaluated and before control is at `to` (on the way from `from`
// to `to`, or on a way from `to` back to `to` that does not pass `from` again).
func (k *c14) writeBetweenV(from, to ssa.Instruction) bool {
	fn := from.Parent()
	if fn == nil || fn != to.Parent() {
		return true
	}
	writes := func(x ssa.Instruction) bool {
		return x != to && x != from && (k.writesField(x, k.rIdx) || k.writesField(x, k.wIdx))
	}
	var ws []ssa.Instruction
	ir.Instrs(fn, func(in ssa.Instruction) {
		if writes(in) {
			ws = append(ws, in)
		}
	})
	path := func(a, b, avoid ssa.Instruction) bool {
		w, err := (ir.Query{Fn: fn, From: a, Target: func(x ssa.Instruction) bool { return x == b }, Block: func(x ssa.Instruction) bool { return avoid != nil && x == avoid }}).Find()
		return w != nil || err != nil
	}
	for _, w := range ws {
		if path(from, w, to) && path(w, to, nil) {
			return true
		}
		if path(to, w, from) && path(w, to, from) {
			return true
		}
	}
	// the call `to` itself may write the indices: it must not be re-entered without a fresh Len()
	if k.writesField(to, k.rIdx) || k.writesField(to, k.wIdx) {
		if path(to, to, from) {
			return true
		}
	}
	return false
}

// countArgV: at call, argument a lies in [0, Len()].
func (k *c14) countArgV(call *ssa.Call, a ssa.Value) bool {
	h := call.Parent()
	var lens []*ssa.Call
	ir.Instrs(h, func(in ssa.Instruction) {
		if lc, ok := in.(*ssa.Call); ok && k.lenCall(lc) && lc != call && ir.Dominates(lc, call) && !k.writeBetweenV(lc, call) {
			lens = append(lens, lc)
		}
	})
	base := k.guardFacts(call.Block())
	for _, lc := range lens {
		lc := lc
		ok := k.forAllChoices(h, func(e *c14env, efs []ir.Fact) bool {
			f := e.lin(a)
			l := e.lin(lc)
			if len(e.need) > 0 {
				return false
			}
			e.c14shared.frozen = true
			facts := append(e.factForms(append(append([]ir.Fact{}, base...), k.expandFacts(efs, 0)...)), e.extra...)
			return e.geq0(f, facts, 0) && e.geq0(l.add(f, -1), facts, 0)
		})
		if ok {
			return true
		}
	}
	return false
}

// ---------------------------------------------------------------------------
// full = the slot after the write index is the read index

// nextOfWriteIsReadV: the comparison cm is between the read index and next(w), the slot that follows the write index:
// one side is a load of the read index that sees the value the method was entered with, the other side x is proved, under
// every choice of phi edges / helper exits, to be a valid slot (0 <= x <= len(buf)-1) with x = w+1 or x = w+1-len(buf)
// for the write index w the method was entered with.
//
// Why this is the full test: the ring keeps one slot empty, Cap() = len(buf)-1 (R4) and Len() = (w - r) mod len(buf).
// Len() == Cap()  <=>  (w - r) mod len(buf) == len(buf)-1  <=>  (w + 1) mod len(buf) == r  <=>  next(w) == r. Likewise
// Len() == 0 <=> r == w (which R3 already takes as the empty test). `w == r` in the place of `next(w) == r` is the EMPTY
// test and is not accepted: the difference of the two sides must be 1 (mod len(buf)), not 0.
func (k *c14) nextOfWriteIsReadV(fn *ssa.Function, cm ir.Cmp) bool {
	x, y := cm.X, cm.Y
	if _, isR := loadOfField(x, k.rIdx); isR {
		x, y = y, x
	}
	if _, isR := loadOfField(y, k.rIdx); !isR {
		return false
	}
	var base []ir.Fact
	if in, ok := ir.Resolve(x).(ssa.Instruction); ok && in.Block() != nil {
		base = k.guardFacts(in.Block())
	}
	rEntry := c14atom("f:" + k.rIdx.Name() + "@entry")
	wEntry := c14atom("f:" + k.wIdx.Name() + "@entry")
	return k.forAllChoices(fn, func(e *c14env, efs []ir.Fact) bool {
		fx, fr := e.lin(x), e.lin(y)
		if len(e.need) > 0 {
			return false
		}
		if !c14sameForm(fr, rEntry) {
			return false
		}
		e.c14shared.frozen = true
		all := append(append([]ir.Fact{}, base...), k.expandFacts(efs, 0)...)
		facts := append(e.factForms(all), e.extra...)
		zero := func(f c14lform) bool { return e.geq0(f, facts, 0) && e.geq0(f.scale(-1), facts, 0) }
		L := c14atom("L")
		// a valid slot: 0 <= x, and x <= L-1 - or x <= L together with a fact x != L
		if !e.geq0(fx, facts, 0) {
			return false
		}
		if !e.geq0(L.add(c14const(1), -1).add(fx, -1), facts, 0) {
			if !e.geq0(L.add(fx, -1), facts, 0) {
				return false
			}
			differs := false
			for _, ft := range all {
				c2, ok := ft.Cmp()
				if !ok || c2.Op != token.NEQ {
					continue
				}
				if b, isB := c2.X.Type().Underlying().(*types.Basic); !isB || b.Info()&types.IsInteger == 0 {
					continue
				}
				d := e.lin(c2.X).add(e.lin(c2.Y), -1)
				if c14sameForm(d, fx.add(L, -1)) || c14sameForm(d.scale(-1), fx.add(L, -1)) {
					differs = true
				}
			}
			if !differs {
				return false
			}
		}
		d := fx.add(wEntry, -1).add(c14const(1), -1) // x - w - 1
		return zero(d) || zero(d.add(L, 1))
	})
}
