package rules

import (
	"go/token"

	"golang.org/x/tools/go/ssa"

	"verif/checker/ir"
)

// identityParam returns the index of the parameter that fn returns (as its first result) at every return, or -1.
func identityParam(fn *ssa.Function) int {
	if fn == nil || len(fn.Blocks) == 0 {
		return -1
	}
	idx := -1
	rets := ir.Returns(fn)
	if len(rets) == 0 {
		return -1
	}
	for _, ret := range rets {
		if len(ret.Results) == 0 {
			return -1
		}
		prm, ok := ir.Resolve(ir.ResultValue(ret, 0)).(*ssa.Parameter)
		if !ok {
			return -1
		}
		j := -1
		for i, p := range fn.Params {
			if p == prm {
				j = i
			}
		}
		if j < 0 || (idx >= 0 && idx != j) {
			return -1
		}
		idx = j
	}
	return idx
}

// peelIdentity resolves v and sees through calls of functions that hand back one of their own arguments
// (x.pin(), touch(x)): the result of such a call is that argument.
func peelIdentity(v ssa.Value) ssa.Value {
	for i := 0; i < 8 && v != nil; i++ {
		v = ir.Resolve(v)
		call, ok := v.(*ssa.Call)
		if !ok {
			return v
		}
		j := identityParam(ir.StaticCallee(call))
		if j < 0 || j >= len(call.Call.Args) {
			return v
		}
		v = call.Call.Args[j]
	}
	return v
}

// zeroCell reports whether the local cell a holds the zero value of its type whenever it is read: nothing is ever written
// to it or through it. Its only uses are loads - and, for a struct cell (a composite literal T{} / T{f: zero}), field
// addresses that are themselves only loaded from or assigned zero values. A cell whose address goes anywhere else (a
// call, a closure, another cell) is not known to stay zero.
func zeroCell(a *ssa.Alloc, depth int) bool {
	refs := a.Referrers()
	if refs == nil {
		return true
	}
	for _, ref := range *refs {
		switch x := ref.(type) {
		case *ssa.DebugRef:
		case *ssa.UnOp:
			if x.Op != token.MUL {
				return false
			}
		case *ssa.FieldAddr:
			frefs := x.Referrers()
			if frefs == nil {
				continue
			}
			for _, fr := range *frefs {
				switch y := fr.(type) {
				case *ssa.DebugRef:
				case *ssa.UnOp:
					if y.Op != token.MUL {
						return false
					}
				case *ssa.Store:
					if y.Addr != ssa.Value(x) || !zeroValued(y.Val, depth+1) {
						return false
					}
				default:
					return false
				}
			}
		default:
			return false
		}
	}
	return true
}

// zeroValued reports whether v is the zero value of its type in every spelling: a zero constant, *new(T) / var z T /
// T{} (the load of a cell that is never written, see zeroCell), or the call of a parameterless function all of whose
// returns are zero valued (a generic zero[T]() helper).
func zeroValued(v ssa.Value, depth int) bool {
	if v == nil || depth > 3 {
		return false
	}
	if ir.IsZeroConst(v) {
		return true
	}
	if u, ok := v.(*ssa.UnOp); ok && u.Op == token.MUL {
		if a, ok := u.X.(*ssa.Alloc); ok && len(ir.StoresTo(a)) == 0 && zeroCell(a, depth) {
			return true
		}
	}
	if rv := ir.Resolve(v); rv != v {
		return zeroValued(rv, depth+1)
	}
	if call, ok := v.(*ssa.Call); ok {
		cal := ir.StaticCallee(call)
		if cal == nil || len(cal.Blocks) == 0 || len(cal.Params) != 0 || len(call.Call.Args) != 0 {
			return false
		}
		rets := ir.Returns(cal)
		if len(rets) == 0 {
			return false
		}
		for _, ret := range rets {
			if len(ret.Results) != 1 || !zeroValued(ret.Results[0], depth+1) {
				return false
			}
		}
		return true
	}
	return false
}
