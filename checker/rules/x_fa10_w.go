package rules

// Helper-transparent forms of two clauses of the ordered map (C10.R5/R1 = C08.M5/M1 = C09.M5/M1 = C11.M5/M1(R2)), added
// after the benign refactoring C10-w1 (the advance routine gives the reference on the node it leaves back by calling
// the release routine instead of decrementing in place; the unlink-and-retarget-head code lives in one helper).
//
// refDeltaDeep: the decisive operation "the counter of node X changes by d" is recognised
//   - in place (refDelta, which already sees through a straight-line helper), or
//   - as a call of a statically resolved routine of the same package that changes the counter of ONE of its parameters
//     by d exactly once on EVERY path to its return and changes no counter anywhere else ('must' summary; the change in
//     the callee may again be such a call; followed through xfaDepth levels). The node is the argument at that
//     parameter. A callee with a dynamic call, or one that stores the counter in any other way, has no summary (the
//     call then is no counter event, exactly as before): the rule remains a necessary condition, because a call is
//     accepted as "-1" only when the decrement is unavoidable in the callee.

import (
	"golang.org/x/tools/go/ssa"

	"verif/checker/ir"
)

const xfaDepth = 3

func (r *mapRoles) refDeltaDeep(in ssa.Instruction, d int64) (ssa.Value, bool) {
	if b, ok := r.refDelta(in, d); ok {
		return b, true
	}
	call, ok := in.(*ssa.Call)
	if !ok {
		return nil, false
	}
	cal := ir.StaticCallee(call)
	if cal == nil || len(cal.Blocks) == 0 || r.next == nil || cal.Pkg != r.next.Pkg {
		return nil, false
	}
	idx, ok := r.refDeltaSummary(cal, d, xfaDepth)
	if !ok || idx >= len(call.Call.Args) {
		return nil, false
	}
	return call.Call.Args[idx], true
}

// refDeltaSummary: fn changes the counter of its parameter #idx by d exactly once on every path to a return, and does
// not touch a counter otherwise.
func (r *mapRoles) refDeltaSummary(fn *ssa.Function, d int64, depth int) (int, bool) {
	if depth == 0 || fn == nil || len(fn.Blocks) == 0 {
		return -1, false
	}
	idx, bad := -1, false
	events := map[ssa.Instruction]bool{}
	paramIdx := func(v ssa.Value) int {
		if prm, isP := ir.Resolve(v).(*ssa.Parameter); isP {
			for i, p := range fn.Params {
				if p == prm {
					return i
				}
			}
		}
		return -1
	}
	ir.Instrs(fn, func(x ssa.Instruction) {
		if bad {
			return
		}
		if _, _, isSt := storeToField(x, r.refCnt); isSt {
			b, isD := isFieldDelta(x, r.refCnt, d)
			i := -1
			if isD {
				i = paramIdx(b)
			}
			if i < 0 || (idx >= 0 && idx != i) {
				bad = true
				return
			}
			idx = i
			events[x] = true
			return
		}
		ci, isCall := x.(ssa.CallInstruction)
		if !isCall {
			return
		}
		if _, isPlain := x.(*ssa.Call); !isPlain {
			bad = true // defer / go: not summarised
			return
		}
		cal := ir.StaticCallee(ci)
		if cal == nil {
			bad = true // dynamic call: unknown effect on the counters
			return
		}
		if cal.Pkg != fn.Pkg || len(cal.Blocks) == 0 {
			return // another package cannot reach the unexported counter
		}
		if !r.touchesCounter(cal, depth-1) {
			return
		}
		j, ok := r.refDeltaSummary(cal, d, depth-1)
		if !ok || j >= len(ci.Common().Args) {
			bad = true
			return
		}
		i := paramIdx(ci.Common().Args[j])
		if i < 0 || (idx >= 0 && idx != i) {
			bad = true
			return
		}
		idx = i
		events[x] = true
	})
	if bad || idx < 0 || len(events) == 0 {
		return -1, false
	}
	isEv := func(x ssa.Instruction) bool { return events[x] }
	// every path to a return passes the change
	if w, err := (ir.Query{Fn: fn, Block: isEv, Target: ir.IsExit}).Find(); w != nil || err != nil {
		return -1, false
	}
	// and no path passes it twice
	for ev := range events {
		if w, err := (ir.Query{Fn: fn, From: ev, Target: isEv}).Find(); w != nil || err != nil {
			return -1, false
		}
	}
	return idx, true
}

// touchesCounter: fn, or a routine of its package it calls (bounded; beyond the bound or through a dynamic call: assumed
// yes), stores the reference counter.
func (r *mapRoles) touchesCounter(fn *ssa.Function, depth int) bool {
	if depth < 0 {
		return true
	}
	res := false
	ir.Instrs(fn, func(x ssa.Instruction) {
		if res {
			return
		}
		if _, _, isSt := storeToField(x, r.refCnt); isSt {
			res = true
			return
		}
		if ci, isCall := x.(ssa.CallInstruction); isCall {
			cal := ir.StaticCallee(ci)
			if cal == nil {
				res = true
				return
			}
			if cal.Pkg == fn.Pkg && len(cal.Blocks) > 0 && cal != fn && r.touchesCounter(cal, depth-1) {
				res = true
			}
		}
	})
	return res
}

// floorThroughHelpersFA10 is the floor of the head-propagation rule in a stable unit: the routines of the map that
// unlink a node. When the unlink routine also re-targets the head and recycles the node, routines that used to unlink in
// place become callers of a routine that does (next -> release -> unlink): they have no call site of their own to
// decide (the call sites inside the helper are decided), but they are no sign of a lost anchor either. Counted only
// when the direct call sites alone are below the floor, so the numbers of the unchanged tree stay as they were.
func (c *Ctx) floorThroughHelpersFA10(rule string, min int, r *mapRoles) {
	n := c.R.Count(rule)
	if n >= min {
		c.R.Floor(rule, min)
		return
	}
	var reaches func(fn *ssa.Function, depth int) bool
	reaches = func(fn *ssa.Function, depth int) bool {
		if depth == 0 || fn == nil {
			return false
		}
		if len(callsTo(fn, r.unlink)) > 0 {
			return true
		}
		for _, ci := range ir.Calls(fn) {
			if cal := ir.StaticCallee(ci); cal != nil && cal != fn && cal.Pkg == fn.Pkg && len(cal.Blocks) > 0 && reaches(cal, depth-1) {
				return true
			}
		}
		return false
	}
	for _, fn := range c.P.FuncsOf("container/iterable") {
		if fn.Signature.Recv() == nil || namedOf(fn.Signature.Recv().Type()) != r.Map || len(callsTo(fn, r.unlink)) > 0 || fn == r.unlink {
			continue
		}
		if reaches(fn, xfaDepth) {
			n++
		}
	}
	c.xcFloorUnits(rule, min, n, "routine(s) of the map that unlink a node, in place or through a helper")
}
