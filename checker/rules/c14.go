package rules

import (
	"go/token"
	"go/types"
	"strings"

	"golang.org/x/tools/go/ssa"

	"verif/checker/ir"
)

func init() {
	register(&Check{
		ID: "C14", Title: "Ring buffer is a bounded FIFO queue for every call sequence",
		Pkgs:      []string{"container"},
		Run:       runC14,
		Technique: "static analysis: must-pass-through path queries and guard dominance on go/ssa of container/ringbuffer.go (zeroing before the read index advances, wrap test after every index advance, full/empty/range guards and their error classes, slot-boundary operator)",
		Explanation: "R1: every advance of the read index is preceded on all paths by a zero-value store (direct or via SliceFill with the zero value) into the backing array, so consumed slots do not keep references. " +
			"R2: every non-reset store to the read or write index is followed, before the exit or the next use of that index, by the comparison of the updated index with len(buf) (== or >=) whose true edge resets it to 0 (or the stored value is taken modulo len(buf)). " +
			"R3: the store in Write is dominated by the not-full edge of Len()==Cap() and the full edge returns an error wrapping ErrExhausted; the load in Read is dominated by the not-empty edge and the empty edge returns io.EOF; the load in At is dominated by the in-range edges of idx<0 || idx>=Len() and the out-of-range edge panics. " +
			"R4: the constructor allocates size+1 slots and Cap() returns len(buf)-1. " +
			"R6: the count a caller passes to Skip is clamped to Len() (guard or phi over the clamped edge) before it is added to an index. " +
			"R5: where At folds read index + i back into the array, the fold (subtract len(buf)) is selected by the test >= len(buf): slot len(buf) does not exist.",
		NotDecided: "FIFO order, the min(requested, Len) arithmetic of ReadN/Skip, the Len() formula: value statements. This is the thinnest claim of the twenty.",
	})
}

func runC14(c *Ctx) {
	ctor := c.RequireFn(c.P.Func("container", "NewRingBuffer"), "container.NewRingBuffer")
	var ring *types.Named
	for _, ret := range ir.Returns(ctor) {
		ring = namedOf(ret.Results[0].Type())
	}
	if ring == nil {
		c.Fatalf("role ring type: NewRingBuffer does not return a named type")
	}
	c.Role("ring", ring.Obj().Name(), ring.Obj().Pos())
	buf := c.oneField("ring.buf", ring, func(f *types.Var) bool { _, ok := f.Type().Underlying().(*types.Slice); return ok })
	method := func(name string) *ssa.Function {
		return c.RequireFn(c.P.MethodOf(ring, name), "ring."+name)
	}
	write, read, at, lenFn, capFn := method("Write"), method("Read"), method("At"), method("Len"), method("Cap")
	// read index = the int field Read advances by one; write index = the one Write advances
	advanced := func(fn *ssa.Function) *types.Var {
		var res []*types.Var
		for _, f := range fieldsWhere(ring, func(f *types.Var) bool { return types.Identical(f.Type(), types.Typ[types.Int]) }) {
			found := false
			ir.Instrs(fn, func(in ssa.Instruction) {
				if _, v, ok := storeToField(in, f); ok {
					if k, isC := ir.ConstInt(v); !isC || k != 0 {
						found = true
					}
				}
			})
			if found {
				res = appendUniq(res, f)
			}
		}
		if len(res) != 1 {
			c.Fatalf("role index advanced by %s: found %d candidates", fn.Name(), len(res))
		}
		return res[0]
	}
	rIdx, wIdx := advanced(read), advanced(write)
	c.Role("ring.readIndex", rIdx.Name(), rIdx.Pos())
	c.Role("ring.writeIndex", wIdx.Name(), wIdx.Pos())
	if rIdx == wIdx {
		c.Fatalf("read and write index resolve to the same field")
	}

	isBufLoad := func(v ssa.Value) bool { _, ok := loadOfField(v, buf); return ok }
	isLenBuf := func(v ssa.Value) bool {
		call, ok := ir.Resolve(v).(*ssa.Call)
		if !ok {
			return false
		}
		cc := builtinCall(call, "len")
		return cc != nil && isBufLoad(cc.Args[0])
	}
	zeroing := func(in ssa.Instruction) bool {
		switch x := in.(type) {
		case *ssa.Store:
			if ia, ok := x.Addr.(*ssa.IndexAddr); ok && isBufLoad(ia.X) && ir.IsZeroConst(x.Val) {
				return true
			}
		case *ssa.Call:
			if strings.HasSuffix(ir.CalleeFullName(x), "container.SliceFill") && len(x.Call.Args) == 2 {
				if s, ok := ir.Resolve(x.Call.Args[0]).(*ssa.Slice); ok && isBufLoad(s.X) && ir.IsZeroConst(x.Call.Args[1]) {
					return true
				}
			}
		}
		return false
	}
	// in-package callees that always zero+advance (Clear -> Skip) are covered by analysing every method
	methods := c.P.MethodsOf(ring)
	idxStore := func(in ssa.Instruction, f *types.Var) (ssa.Value, bool) {
		_, v, ok := storeToField(in, f)
		if !ok {
			return nil, false
		}
		if k, isC := ir.ConstInt(v); isC && k == 0 {
			return nil, false // reset
		}
		return v, true
	}
	for _, fn := range methods {
		if len(fn.Blocks) == 0 {
			continue
		}
		c.Saw(fn)
		// R1
		var advs []ssa.Instruction
		ir.Instrs(fn, func(in ssa.Instruction) {
			if _, ok := idxStore(in, rIdx); ok {
				advs = append(advs, in)
			}
		})
		for _, adv := range advs {
			adv := adv
			q := ir.Query{Fn: fn, Block: zeroing, Target: func(x ssa.Instruction) bool { return x == adv }}
			ok := c.NoPath("C14.R1", "zeroed before read index advances", adv, q, "the read index advances although the consumed slots were not overwritten with the zero value: the buffer keeps references to consumed values")
			if ok {
				// also from one advance to the next (loop iterations)
				for _, prev := range advs {
					w, _ := (ir.Query{Fn: fn, From: prev, Block: zeroing, Target: func(x ssa.Instruction) bool { return x == adv }}).Find()
					if w != nil {
						c.Decide("C14.R1", fn, "zeroed before read index advances (next iteration)", adv, false, "a later iteration advances the read index without zeroing: "+w.String(c.P))
					}
				}
			}
		}
		// R2
		for _, f := range []*types.Var{rIdx, wIdx} {
			f := f
			ir.Instrs(fn, func(in ssa.Instruction) {
				v, ok := idxStore(in, f)
				if !ok {
					return
				}
				if bo, isBin := ir.Resolve(v).(*ssa.BinOp); isBin && bo.Op == token.REM && isLenBuf(bo.Y) {
					c.Decide("C14.R2", fn, "index advance wraps ("+f.Name()+")", in, true, "")
					return
				}
				isWrapIf := func(x ssa.Instruction) bool {
					iff, ok := x.(*ssa.If)
					if !ok {
						return false
					}
					cm, ok := ir.AsCmp(iff.Cond)
					if !ok {
						return false
					}
					op, a, b := cm.Op, cm.X, cm.Y
					if isLenBuf(a) {
						a, b = b, a
						op = ir.SwapOp(op)
					}
					if !isLenBuf(b) || (op != token.EQL && op != token.GEQ) {
						return false
					}
					_, isField := loadOfField(a, f)
					if !isField && ir.Resolve(a) != ir.Resolve(v) {
						return false
					}
					// the true edge resets the index
					reset := false
					for _, y := range iff.Block().Succs[0].Instrs {
						if _, val, ok := storeToField(y, f); ok {
							if k, isC := ir.ConstInt(val); isC && k == 0 {
								reset = true
							}
						}
					}
					return reset
				}
				wrapOperand := func(x ssa.Instruction) bool {
					// a load of the index whose only use is the wrap comparison
					u, ok := x.(*ssa.UnOp)
					if !ok || u.Referrers() == nil {
						return false
					}
					for _, r := range *u.Referrers() {
						b, isBin := r.(*ssa.BinOp)
						if !isBin || !(isLenBuf(b.X) || isLenBuf(b.Y)) {
							return false
						}
					}
					return len(*u.Referrers()) > 0
				}
				c.NoPath("C14.R2", "index advance wraps ("+f.Name()+")", in, ir.Query{Fn: fn, From: in, Block: isWrapIf,
					Target: func(x ssa.Instruction) bool {
						if ir.IsExit(x) {
							return true
						}
						if u, ok := x.(*ssa.UnOp); ok && u.Op == token.MUL {
							if _, isF := fieldAddrOf(u.X, f); isF && !wrapOperand(x) {
								return true
							}
						}
						return false
					}}, "the index is advanced and then used or left without the wrap test against len(buf) (== or >=, resetting to 0): it can equal len(buf), a slot that does not exist")
			})
		}
	}
	c.R.Floor("C14.R1", 3)
	c.R.Floor("C14.R2", 4)

	lenCall := func(v ssa.Value) bool {
		call, ok := ir.Resolve(v).(*ssa.Call)
		return ok && ir.StaticCallee(call) == lenFn
	}
	// R3 guards and classes
	capCall := func(v ssa.Value) bool {
		call, ok := ir.Resolve(v).(*ssa.Call)
		return ok && ir.StaticCallee(call) == capFn
	}
	{
		// Write
		var st ssa.Instruction
		ir.Instrs(write, func(in ssa.Instruction) {
			if s, ok := in.(*ssa.Store); ok {
				if ia, ok := s.Addr.(*ssa.IndexAddr); ok && isBufLoad(ia.X) {
					st = in
				}
			}
		})
		if st == nil {
			c.Decide("C14.R3", write, "Write stores under the not-full guard", nil, false, "Write has no store into the backing array")
		} else {
			ok := hasFactCmp(st.Block(), func(cm ir.Cmp) bool {
				// not full: Len() != Cap(), Len() < Cap()
				if lenCall(cm.X) && capCall(cm.Y) {
					return cm.Op == token.NEQ || cm.Op == token.LSS
				}
				if capCall(cm.X) && lenCall(cm.Y) {
					return cm.Op == token.NEQ || cm.Op == token.GTR
				}
				return false
			})
			c.Decide("C14.R3", write, "Write stores under the not-full guard", st, ok, "the store of Write is not dominated by the Len()==Cap() test: a full buffer is overwritten (or an element is refused while there is room)")
		}
		// failure exits wrap ErrExhausted
		n := 0
		for _, ret := range ir.Returns(write) {
			ev := ir.ResultValue(ret, 0)
			if ir.ClassifyErr(ev, ret.Block()) != ir.ErrNonNil {
				continue
			}
			n++
			okCls := wrapsGlobal(ev, "ErrExhausted")
			okEdge := hasFactCmp(ret.Block(), func(cm ir.Cmp) bool {
				return (lenCall(cm.X) && capCall(cm.Y) || capCall(cm.X) && lenCall(cm.Y)) && (cm.Op == token.EQL || cm.Op == token.GEQ || cm.Op == token.LEQ)
			})
			c.Decide("C14.R3", write, "full -> ErrExhausted", ret, okCls && okEdge, "the failure exit of Write is not the Len()==Cap() edge returning an error that wraps ErrExhausted")
		}
		if n == 0 {
			c.Decide("C14.R3", write, "full -> ErrExhausted", nil, false, "Write never fails")
		}
	}
	{
		// Read
		var ld ssa.Instruction
		ir.Instrs(read, func(in ssa.Instruction) {
			if u, ok := in.(*ssa.UnOp); ok && u.Op == token.MUL {
				if ia, ok := u.X.(*ssa.IndexAddr); ok && isBufLoad(ia.X) && ld == nil {
					ld = in
				}
			}
		})
		if ld == nil {
			c.Decide("C14.R3", read, "Read loads under the not-empty guard", nil, false, "Read has no load from the backing array")
		} else {
			ok := hasFactCmp(ld.Block(), func(cm ir.Cmp) bool {
				k, isC := ir.ConstInt(cm.Y)
				return lenCall(cm.X) && isC && ((cm.Op == token.NEQ && k == 0) || (cm.Op == token.GTR && k == 0) || (cm.Op == token.GEQ && k == 1))
			})
			c.Decide("C14.R3", read, "Read loads under the not-empty guard", ld, ok, "the load of Read is not dominated by the Len()==0 test")
		}
		n := 0
		for _, ret := range ir.Returns(read) {
			ev := ir.ResultValue(ret, 1)
			if ir.ClassifyErr(ev, ret.Block()) != ir.ErrNonNil {
				continue
			}
			n++
			g := globalOf(ev)
			okCls := g != nil && g.Pkg.Pkg.Path() == "io" && g.Name() == "EOF"
			okEdge := hasFactCmp(ret.Block(), func(cm ir.Cmp) bool {
				k, isC := ir.ConstInt(cm.Y)
				return lenCall(cm.X) && isC && ((cm.Op == token.EQL && k == 0) || (cm.Op == token.LEQ && k == 0) || (cm.Op == token.LSS && k == 1))
			})
			c.Decide("C14.R3", read, "empty -> io.EOF", ret, okCls && okEdge, "the failure exit of Read is not the Len()==0 edge returning io.EOF")
		}
		if n == 0 {
			c.Decide("C14.R3", read, "empty -> io.EOF", nil, false, "Read never reports io.EOF")
		}
	}
	{
		// At
		var ld *ssa.UnOp
		ir.Instrs(at, func(in ssa.Instruction) {
			if u, ok := in.(*ssa.UnOp); ok && u.Op == token.MUL {
				if ia, ok := u.X.(*ssa.IndexAddr); ok && isBufLoad(ia.X) {
					ld = u
				}
			}
		})
		if ld == nil || len(at.Params) < 2 {
			c.Decide("C14.R3", at, "At loads under the range guard", nil, false, "At has no load from the backing array")
		} else {
			idx := at.Params[1]
			lower := hasFactCmp(ld.Block(), func(cm ir.Cmp) bool {
				k, isC := ir.ConstInt(cm.Y)
				return cm.X == ssa.Value(idx) && isC && ((cm.Op == token.GEQ && k == 0) || (cm.Op == token.GTR && k == -1))
			})
			upper := hasFactCmp(ld.Block(), func(cm ir.Cmp) bool {
				return (cm.X == ssa.Value(idx) && lenCall(cm.Y) && cm.Op == token.LSS) || (lenCall(cm.X) && cm.Y == ssa.Value(idx) && cm.Op == token.GTR)
			})
			c.Decide("C14.R3", at, "At loads under the range guard", ld, lower && upper, "the load of At is not dominated by both idx>=0 and idx<Len()")
			// the out-of-range edges panic: no Return is reachable where idx<0 or idx>=Len() holds
			for _, ret := range ir.Returns(at) {
				lo := hasFactCmp(ret.Block(), func(cm ir.Cmp) bool {
					k, isC := ir.ConstInt(cm.Y)
					return cm.X == ssa.Value(idx) && isC && cm.Op == token.GEQ && k == 0
				})
				hi := hasFactCmp(ret.Block(), func(cm ir.Cmp) bool { return cm.X == ssa.Value(idx) && lenCall(cm.Y) && cm.Op == token.LSS })
				c.Decide("C14.R3", at, "out of range -> panic", ret, lo && hi, "At can return normally for an index out of range")
			}
			// R5 fold operator
			ia := ld.X.(*ssa.IndexAddr)
			c.foldOperator(at, ia, rIdx, isLenBuf)
		}
	}
	c.R.Floor("C14.R3", 6)

	// R6 request arguments are clamped against Len() before they enter index arithmetic
	for _, fn := range methods {
		if len(fn.Blocks) == 0 {
			continue
		}
		for _, prm := range fn.Params[1:] {
			if !types.Identical(prm.Type(), types.Typ[types.Int]) || fn == at {
				continue
			}
			// values derived from the parameter through phis and subtraction of consumed counts
			derived := map[ssa.Value]bool{prm: true}
			for changed := true; changed; {
				changed = false
				ir.Instrs(fn, func(in ssa.Instruction) {
					v, ok := in.(ssa.Value)
					if !ok || derived[v] {
						return
					}
					switch x := in.(type) {
					case *ssa.Phi:
						for _, e := range x.Edges {
							if derived[e] {
								derived[v] = true
								changed = true
							}
						}
					case *ssa.BinOp:
						if x.Op == token.SUB && derived[x.X] {
							derived[v] = true
							changed = true
						}
					}
				})
			}
			var bounded func(v ssa.Value, from, to *ssa.BasicBlock, depth int) bool
			bounded = func(v ssa.Value, from, to *ssa.BasicBlock, depth int) bool {
				if depth > 6 {
					return false
				}
				if !derived[v] {
					return true // Len(), indices, constants
				}
				var facts []ir.Fact
				if from != nil {
					facts = append(ir.Facts(from), edgeFacts(from, to)...)
				} else if in, ok := v.(ssa.Instruction); ok {
					facts = ir.Facts(in.Block())
				}
				for _, f := range facts {
					cm, ok := f.Cmp()
					if !ok {
						continue
					}
					op, a, b := cm.Op, cm.X, cm.Y
					if b == v {
						a, b = b, a
						op = ir.SwapOp(op)
					}
					if a == v && (op == token.LEQ || op == token.LSS) && (lenCall(b) || isLenBuf(b)) {
						return true
					}
				}
				if p, ok := v.(*ssa.Phi); ok {
					for i, e := range p.Edges {
						if e == v {
							continue
						}
						if !bounded(e, p.Block().Preds[i], p.Block(), depth+1) {
							return false
						}
					}
					return true
				}
				if bo, ok := v.(*ssa.BinOp); ok && bo.Op == token.SUB {
					return bounded(bo.X, from, to, depth+1)
				}
				return false
			}
			ir.Instrs(fn, func(in ssa.Instruction) {
				bo, ok := in.(*ssa.BinOp)
				if !ok || (bo.Op != token.ADD && bo.Op != token.MUL) {
					return
				}
				for _, o := range []ssa.Value{bo.X, bo.Y} {
					if !derived[o] {
						continue
					}
					// counters (res += cnt) are not index arithmetic: only sums that involve an index field or len(buf)
					other := bo.X
					if o == bo.X {
						other = bo.Y
					}
					_, isR := loadOfField(other, rIdx)
					_, isW := loadOfField(other, wIdx)
					if !isR && !isW && !isLenBuf(other) {
						continue
					}
					c.Decide("C14.R6", fn, "requested count clamped to Len() before index arithmetic", in, bounded(o, nil, nil, 0),
						"the caller's count enters index arithmetic without being clamped to Len(): a huge argument overflows (negative slice bound, panic) instead of moving min(requested, Len) elements")
				}
			})
		}
	}
	c.R.Floor("C14.R6", 1)

	// R4 geometry
	{
		ok := false
		ir.Instrs(ctor, func(in ssa.Instruction) {
			if ms, isMake := in.(*ssa.MakeSlice); isMake {
				l := ir.Resolve(ms.Len)
				if cv, isCv := l.(*ssa.Convert); isCv {
					l = cv.X
				}
				if bo, isBin := l.(*ssa.BinOp); isBin && bo.Op == token.ADD {
					if k, isC := ir.ConstInt(bo.Y); isC && k == 1 && ir.Resolve(bo.X) == ssa.Value(ctor.Params[0]) {
						ok = true
					}
				}
			}
		})
		c.Decide("C14.R4", ctor, "allocates size+1 slots", nil, ok, "the constructor does not allocate size+1 slots (one slot stays empty to tell full from empty)")
		ok = false
		for _, ret := range ir.Returns(capFn) {
			if bo, isBin := ir.Resolve(ret.Results[0]).(*ssa.BinOp); isBin && bo.Op == token.SUB && isLenBuf(bo.X) {
				if k, isC := ir.ConstInt(bo.Y); isC && k == 1 {
					ok = true
				}
			}
		}
		c.Decide("C14.R4", capFn, "Cap = len(buf)-1", nil, ok, "Cap() is not len(buf)-1")
	}
}

// wrapsGlobal reports whether error value v is fmt.Errorf(... %w ...) with the repository sentinel `name`
// among its arguments, or the sentinel itself.
func wrapsGlobal(v ssa.Value, name string) bool {
	v = ir.Resolve(v)
	if g := globalOf(v); g != nil && g.Name() == name {
		return true
	}
	call, ok := v.(*ssa.Call)
	if !ok || ir.CalleeFullName(call) != "fmt.Errorf" || len(call.Call.Args) < 2 {
		return false
	}
	for _, a := range variadicArgs(call.Call.Args[1]) {
		if g := globalOf(a); g != nil && g.Name() == name {
			return true
		}
	}
	return false
}

// foldOperator is C14.R5: index = x - d with d = phi(0, len(buf)) (or phi(x, x-len(buf))) selected by x >= len(buf).
func (c *Ctx) foldOperator(fn *ssa.Function, ia *ssa.IndexAddr, rIdx *types.Var, isLenBuf func(ssa.Value) bool) {
	idx := ir.Resolve(ia.Index)
	var phi *ssa.Phi
	if bo, ok := idx.(*ssa.BinOp); ok && bo.Op == token.SUB {
		phi, _ = ir.Resolve(bo.Y).(*ssa.Phi)
	} else if p, ok := idx.(*ssa.Phi); ok {
		phi = p
	}
	if phi == nil {
		c.Undecided("C14.R5", fn, "fold selected by >= len(buf)", ia, "the element index of At is not of the form x - phi(0,len(buf)) or phi(x, x-len(buf))")
		return
	}
	// the edge that brings len(buf) (or the subtraction) into the phi must be the true edge of x >= len(buf)
	ok, found := false, false
	for i, e := range phi.Edges {
		folds := isLenBuf(e)
		if bo, isBin := ir.Resolve(e).(*ssa.BinOp); isBin && bo.Op == token.SUB && isLenBuf(bo.Y) {
			folds = true
		}
		if !folds {
			continue
		}
		found = true
		pred := phi.Block().Preds[i]
		for _, f := range append(ir.Facts(pred), edgeFacts(pred, phi.Block())...) {
			cm, isCmp := f.Cmp()
			if !isCmp {
				continue
			}
			op, a, b := cm.Op, cm.X, cm.Y
			if isLenBuf(a) {
				a, b = b, a
				op = ir.SwapOp(op)
			}
			if isLenBuf(b) {
				if op == token.GEQ {
					ok = true
				}
				if op == token.GTR {
					c.Decide("C14.R5", fn, "fold selected by >= len(buf)", ia, false, "the index is folded back only when it is > len(buf): for read index + i == len(buf) the access hits slot len(buf), which does not exist")
					return
				}
			}
		}
	}
	if !found {
		c.Undecided("C14.R5", fn, "fold selected by >= len(buf)", ia, "no fold by len(buf) found in the element index of At")
		return
	}
	c.Decide("C14.R5", fn, "fold selected by >= len(buf)", ia, ok, "the fold of the element index is not selected by the test >= len(buf)")
}

func edgeFacts(from, to *ssa.BasicBlock) []ir.Fact {
	if f := ir.EdgeFact(from, to); f != nil {
		return []ir.Fact{*f}
	}
	return nil
}
