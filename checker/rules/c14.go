package rules

import (
	"fmt"
	"go/constant"
	"go/token"
	"go/types"
	"sort"
	"strings"

	"golang.org/x/tools/go/ssa"

	"verif/checker/ir"
)

func init() {
	register(&Check{
		ID: "C14", Title: "Ring buffer is a bounded FIFO queue for every call sequence",
		Pkgs:      []string{"container"},
		Run:       runC14,
		Technique: "static analysis: must-pass-through path queries and guard dominance on go/ssa of container/ringbuffer.go (zeroing before the read index advances, wrap test after every index advance, full/empty/range guards and their error classes, slot-boundary operator)",
		Explanation: "Roles: the indices are the int fields of the ring (also inside a struct it holds by value) that Read resp. Write advance; a parameter of a private helper to which every call passes len(buf) stands for len(buf). " +
			"R1: every advance of the read index (in the methods of the ring and in the private helpers they call; a call of a private helper that only does the index arithmetic counts as the advance where it is called; index -= len(buf) is the same slot and no advance) is preceded on all paths by a zero-value store (direct, via SliceFill with the zero value, or via a helper that always does one of these) into the backing array or a sub-slice of it, so consumed slots do not keep references. " +
			"R2: every non-reset store to the read or write index stores a value that is known to be a valid slot - taken modulo len(buf); guarded by value < len(buf) (or != len(buf)); a phi/helper result each alternative of which is 0 or so guarded; a count clamped to Len(); or (index + count clamped to Len()) - len(buf) on the >= len(buf) branch - or is proved to lie in [0, len(buf)-1] by symbolic linear bounds (atoms len(buf), the indices on entry in [0, len(buf)-1], Len() in [0, len(buf)-1], copy() <= len(src); one evaluation per choice of phi edges with the branch facts of the chosen edges; all choices must succeed) - or is followed, before the exit or the next use of that index, by the comparison of the updated index with len(buf) whose at-or-behind-the-end edge (true edge of ==, >=; false edge of !=, <) resets it to 0, or subtracts len(buf) from it when the advanced index is proved to be below 2*len(buf). A store of 0 to one index alone must sit on such an edge (reported when it does not). " +
			"R3: the store in Write is dominated by the not-full edge of Len()==Cap() - or of next(write index)==read index, next(w) being a value proved to be a valid slot equal to w+1 or w+1-len(buf): with one slot kept empty (Cap()=len(buf)-1, Len()=(w-r) mod len(buf)) the two tests are the same - and the full edge returns an error wrapping ErrExhausted; the load in Read is dominated by the not-empty edge (Len() != 0, or read index != write index) and the empty edge returns io.EOF; every load in At is dominated by the in-range edges of idx<0 || idx>=Len() and the out-of-range edge panics. " +
			"R4: the constructor allocates size+1 slots and Cap() returns len(buf)-1. " +
			"R6: the count a caller passes to Skip is clamped to Len(), len(buf) or another quantity of the buffer state that cannot exceed len(buf) (guard or phi over the clamped edge; a loop variable that enters the loop clamped and is only decreased in it - every back-edge operand is the variable minus something - stays clamped) before it is added to an index; the parameters of a private helper count as requests unless every call passes a count that is already clamped or was not a request (the obligation is then recorded at those calls). " +
			"R5: where At folds read index + i back into the array, the fold (subtract len(buf), as an offset variable, a re-assigned position or a separate load) is selected by the test >= len(buf), or is the remainder modulo len(buf): slot len(buf) does not exist; other spellings (two-segment views, an offset len(buf)-r, a slot helper) are located symbolically: a load at read index + idx - len(buf) must sit behind a test that says exactly read index + idx - len(buf) >= 0. R7: a readable segment whose end is chosen by the order of read and write index (by the value of its upper bound, or by a branch on the order of the indices that selects the segment up to the end of the array) is taken only behind a test that the indices differ (Len() > 0, r != w, r < w, r > w, also made by a boolean or classifying helper) that holds from the entry and from every advance of the read index; buf[r:w] alone is the empty segment when the ring is empty. R8: helpers the buffer hands parts of its backing array to re-slice them with a constant bound only behind a test that the part is that long. R9: where the position of an access into the backing array (a segment bound, an element index) both uses an index by value and is chosen among alternatives by a test that reads the same index (up to the write index or to the end of the array; clamp at the end of the array; fold by len(buf)), the test and the position read the same value of that index: no write to the index (direct, in a callee, through a function value) separates the read the test was made on from the access unless it separates the by-value read as well; counts planned from an earlier state and loop-carried variables are not positions and are not followed. R10: for every advance of the read index from o to v with zeroing attached (zero stores, SliceFill(part, zero), also in a private helper it calls), the parts released on every path chain up from o to v (to v+len(buf) when the index wrapped, a part [lo,hi) standing also for [lo+len(buf),hi+len(buf))) and every part that may be released lies inside that range, unless the call consumes everything; proved with the symbolic linear bounds under every choice of phi edges and helper exits. R11: at every exit of an exported method with an int result that advances the read index (Skip, ReadN) the result is proved >= 0 with the same bounds (a loop variable by induction over its back edges): 0 for non-positive requests, never the negative request itself. R12: every advance of the write index from o to v (any method, block writes included) keeps the spare slot: v <= r-1 when o < r and v <= r-1+len(buf) when o >= r, proved with the same bounds in both cases; an advance by one element behind the not-full guard is R3's case. R13: an element access at index field +/- constant (the neighbour slot of the read or write index) is dominated by a range test on that index - every slot is a legal position of an eagerly wrapped index in every fill state, so without the test the access leaves the array at the edge and the call panics (x_c14_i.go).",
		NotDecided: "FIFO order, the min(requested, Len) arithmetic of ReadN/Skip, the Len() formula: value statements. This is the thinnest claim of the twenty.",
	})
}

// c14 holds the resolved roles of the ring buffer.
type c14 struct {
	*Ctx
	ring         *types.Named
	buf          *types.Var
	rIdx, wIdx   *types.Var
	lenFn, capFn *ssa.Function
	pkg          *ssa.Package
	sites        map[*ssa.Function]*c14sites
}

func c14root(fn *ssa.Function) *ssa.Function {
	for fn != nil && fn.Parent() != nil {
		fn = fn.Parent()
	}
	return fn
}

func (k *c14) inPkg(fn *ssa.Function) bool {
	r := c14root(fn)
	return r != nil && r.Pkg != nil && r.Pkg == k.pkg && len(fn.Blocks) > 0
}

// closure returns fn and the in-package functions it reaches through static calls and function literals.
func (k *c14) closure(fn *ssa.Function) []*ssa.Function {
	seen := map[*ssa.Function]bool{}
	var res []*ssa.Function
	var rec func(f *ssa.Function)
	rec = func(f *ssa.Function) {
		if f == nil || seen[f] || !k.inPkg(f) {
			return
		}
		seen[f] = true
		res = append(res, f)
		ir.Instrs(f, func(in ssa.Instruction) {
			if ci, ok := in.(ssa.CallInstruction); ok {
				rec(ir.StaticCallee(ci))
			}
			if mc, ok := in.(*ssa.MakeClosure); ok {
				if cf, ok := mc.Fn.(*ssa.Function); ok {
					rec(cf)
				}
			}
		})
	}
	rec(fn)
	return res
}

func (k *c14) isBufLoad(v ssa.Value) bool { _, ok := loadOfField(v, k.buf); return ok }

// bufDerived: v is the backing array or a sub-slice of it (through re-slicing, local variables and phis).
func (k *c14) bufDerived(v ssa.Value) bool { return k.bufDerivedRec(v, map[ssa.Value]bool{}) }

func (k *c14) bufDerivedRec(v ssa.Value, seen map[ssa.Value]bool) bool {
	v = ir.Resolve(v)
	if v == nil || seen[v] {
		return false
	}
	seen[v] = true
	if k.isBufLoad(v) {
		return true
	}
	switch x := v.(type) {
	case *ssa.Slice:
		return k.bufDerivedRec(x.X, seen)
	case *ssa.Phi:
		n := 0
		for _, e := range x.Edges {
			if ir.Resolve(e) == v {
				continue
			}
			if !k.bufDerivedRec(e, seen) {
				return false
			}
			n++
		}
		return n > 0
	}
	return false
}

func (k *c14) isLenBuf(v ssa.Value) bool {
	call, ok := ir.Resolve(v).(*ssa.Call)
	if !ok {
		return k.lenBufParam(ir.Resolve(v), 0)
	}
	cc := builtinCall(call, "len")
	return cc != nil && k.isBufLoad(cc.Args[0])
}

func (k *c14) lenCall(v ssa.Value) bool {
	call, ok := ir.Resolve(v).(*ssa.Call)
	return ok && ir.StaticCallee(call) == k.lenFn
}

func (k *c14) capCall(v ssa.Value) bool {
	call, ok := ir.Resolve(v).(*ssa.Call)
	return ok && ir.StaticCallee(call) == k.capFn
}

func (k *c14) isIdxLoad(v ssa.Value) bool {
	if _, ok := loadOfField(v, k.rIdx); ok {
		return true
	}
	_, ok := loadOfField(v, k.wIdx)
	return ok
}

// loadsElsewhere: a helper or function literal run by fn reads an element of the backing array or of a slice handed to it.
func (k *c14) loadsElsewhere(fn *ssa.Function) bool {
	found := false
	for _, g := range k.closure(fn) {
		if g == fn || g == k.lenFn || g == k.capFn {
			continue
		}
		ir.Instrs(g, func(in ssa.Instruction) {
			u, ok := in.(*ssa.UnOp)
			if !ok || u.Op != token.MUL {
				return
			}
			ia, ok := u.X.(*ssa.IndexAddr)
			if !ok {
				return
			}
			if k.bufDerived(ia.X) {
				found = true
			}
			switch ir.Resolve(ia.X).(type) {
			case *ssa.Parameter, *ssa.FreeVar:
				if _, isSlice := ia.X.Type().Underlying().(*types.Slice); isSlice {
					found = true
				}
			}
		})
	}
	return found
}

// guardFacts are the branch facts that hold at b, with the facts established by boolean helpers of the package added: when
// "h() is true" is known and h returns true at exactly one exit, whatever guards that exit (and the returned comparison)
// holds as well.
func (k *c14) guardFacts(b *ssa.BasicBlock) []ir.Fact { return k.expandFacts(ir.Facts(b), 0) }

func (k *c14) expandFacts(fs []ir.Fact, depth int) []ir.Fact {
	if depth > 2 {
		return fs
	}
	res := append([]ir.Fact{}, fs...)
	for _, f := range fs {
		res = append(res, k.expandFacts(k.classifierFacts(f), depth+1)...)
		f = f.StripNot()
		call, ok := ir.Resolve(f.Cond).(*ssa.Call)
		if !ok {
			continue
		}
		g := ir.StaticCallee(call)
		if g == nil || !k.inPkg(g) || g.Signature.Results().Len() != 1 || !types.Identical(g.Signature.Results().At(0).Type(), types.Typ[types.Bool]) {
			continue
		}
		var cands []ir.ExitPoint
		for _, ep := range ir.ExitPoints(g) {
			if cv := ir.ConstVal(ep.Result(0)); cv != nil && cv.Kind() == constant.Bool && constant.BoolVal(cv) != f.True {
				continue
			}
			cands = append(cands, ep)
		}
		if len(cands) != 1 {
			continue
		}
		var add []ir.Fact
		if ir.ConstVal(cands[0].Result(0)) == nil {
			add = append(add, ir.Fact{Cond: cands[0].Result(0), True: f.True})
		}
		add = append(add, cands[0].Facts()...)
		res = append(res, k.expandFacts(add, depth+1)...)
	}
	return res
}

// zeroing: the instruction overwrites slots of the backing array with the zero value.
func (k *c14) zeroing(in ssa.Instruction) bool {
	switch x := in.(type) {
	case *ssa.Store:
		if ia, ok := x.Addr.(*ssa.IndexAddr); ok && k.bufDerived(ia.X) && ir.IsZeroConst(x.Val) {
			return true
		}
	case *ssa.Call:
		if strings.HasSuffix(ir.CalleeFullName(x), "container.SliceFill") && len(x.Call.Args) == 2 {
			if k.bufDerived(x.Call.Args[0]) && ir.IsZeroConst(x.Call.Args[1]) {
				return true
			}
		}
	}
	return false
}

// idxStore: in stores a non-reset value to index field f.
func (k *c14) idxStore(in ssa.Instruction, f *types.Var) (ssa.Value, bool) {
	_, v, ok := storeToField(in, f)
	if !ok {
		return nil, false
	}
	if c, isC := ir.ConstInt(v); isC && c == 0 {
		return nil, false // reset
	}
	return v, true
}

func (k *c14) isReset(in ssa.Instruction, f *types.Var) bool {
	if _, val, ok := storeToField(in, f); ok {
		if c, isC := ir.ConstInt(val); isC && c == 0 {
			return true
		}
	}
	return false
}

// writesField: in stores to field f, directly or in an in-package callee.
func (k *c14) writesField(in ssa.Instruction, f *types.Var) bool {
	if _, _, ok := storeToField(in, f); ok {
		return true
	}
	if ci, ok := in.(ssa.CallInstruction); ok {
		if g := ir.StaticCallee(ci); g != nil && k.inPkg(g) {
			return ir.MayReach(g, func(x ssa.Instruction) bool { _, _, ok := storeToField(x, f); return ok }, 4)
		}
		if ci.Common().StaticCallee() == nil && !ci.Common().IsInvoke() {
			if _, isB := ci.Common().Value.(*ssa.Builtin); !isB {
				return true // a function value: may be a closure over the ring
			}
		}
	}
	return false
}

// storeBetween: a write to field f can happen after load a and before load b (or the other way round).
func (k *c14) storeBetween(a, b *ssa.UnOp, f *types.Var) bool {
	fn := a.Parent()
	if fn == nil || fn != b.Parent() {
		return true
	}
	var ws []ssa.Instruction
	ir.Instrs(fn, func(in ssa.Instruction) {
		if k.writesField(in, f) {
			ws = append(ws, in)
		}
	})
	between := func(x, y ssa.Instruction) bool {
		for _, s := range ws {
			s := s
			w1, e1 := (ir.Query{Fn: fn, From: x, Target: func(i ssa.Instruction) bool { return i == s }, Block: func(i ssa.Instruction) bool { return i == y }}).Find()
			if e1 == nil && w1 == nil {
				continue
			}
			w2, e2 := (ir.Query{Fn: fn, From: s, Target: func(i ssa.Instruction) bool { return i == y }, Block: func(i ssa.Instruction) bool { return i == x }}).Find()
			if e2 != nil || w2 != nil {
				return true
			}
		}
		return false
	}
	return between(a, b) || between(b, a)
}

// sameVal: a and b denote the same number - the same SSA value, or structurally equal expressions over constants,
// len(buf), len(x) and loads of the same field with no write to it in between.
func (k *c14) sameVal(a, b ssa.Value, depth int) bool {
	a, b = ir.Resolve(a), ir.Resolve(b)
	if a == nil || b == nil {
		return false
	}
	if a == b {
		return true
	}
	if depth > 4 {
		return false
	}
	if ka, ok := ir.ConstInt(a); ok {
		kb, ok2 := ir.ConstInt(b)
		return ok2 && ka == kb
	}
	switch x := a.(type) {
	case *ssa.BinOp:
		y, ok := b.(*ssa.BinOp)
		if !ok || x.Op != y.Op {
			return false
		}
		if k.sameVal(x.X, y.X, depth+1) && k.sameVal(x.Y, y.Y, depth+1) {
			return true
		}
		if x.Op == token.ADD || x.Op == token.MUL {
			return k.sameVal(x.X, y.Y, depth+1) && k.sameVal(x.Y, y.X, depth+1)
		}
	case *ssa.UnOp:
		y, ok := b.(*ssa.UnOp)
		if !ok || x.Op != token.MUL || y.Op != token.MUL {
			return false
		}
		fa, ok1 := x.X.(*ssa.FieldAddr)
		fb, ok2 := y.X.(*ssa.FieldAddr)
		if !ok1 || !ok2 || ir.FieldOf(fa) == nil || ir.FieldOf(fa) != ir.FieldOf(fb) || !same(fa.X, fb.X) {
			return false
		}
		return !k.storeBetween(x, y, ir.FieldOf(fa))
	case *ssa.Call:
		y, ok := b.(*ssa.Call)
		if !ok {
			return false
		}
		if k.isLenBuf(x) && k.isLenBuf(y) {
			return true
		}
		cx, cy := builtinCall(x, "len"), builtinCall(y, "len")
		if cx != nil && cy != nil {
			return ir.Resolve(cx.Args[0]) == ir.Resolve(cy.Args[0])
		}
	}
	return false
}

func c14edgeFacts(p *ssa.Phi, i int) []ir.Fact {
	pred := p.Block().Preds[i]
	fs := append([]ir.Fact{}, ir.Facts(pred)...)
	return append(fs, edgeFacts(pred, p.Block())...)
}

// cmpVsLenBuf calls f for every fact of fs that compares something with len(buf), normalised to "a op len(buf)".
func (k *c14) cmpVsLenBuf(fs []ir.Fact, f func(op token.Token, a ssa.Value)) {
	for _, ft := range fs {
		cm, ok := ft.Cmp()
		if !ok {
			continue
		}
		op, a, b := cm.Op, cm.X, cm.Y
		if k.isLenBuf(a) {
			a, b = b, a
			op = ir.SwapOp(op)
		}
		if k.isLenBuf(b) {
			f(op, a)
		}
	}
}

// belowLen: a fact of fs says v < len(buf) (or v != len(buf): the index never exceeds len(buf)).
func (k *c14) belowLen(v ssa.Value, fs []ir.Fact) bool {
	res := false
	k.cmpVsLenBuf(fs, func(op token.Token, a ssa.Value) {
		if (op == token.LSS || op == token.NEQ) && k.sameVal(a, v, 0) {
			res = true
		}
	})
	return res
}

// nonNeg: v is a count that cannot be negative.
func (k *c14) nonNeg(v ssa.Value, fs []ir.Fact, depth int) bool {
	v = ir.Resolve(v)
	if v == nil || depth > 5 {
		return false
	}
	if c, ok := ir.ConstInt(v); ok {
		return c >= 0
	}
	if k.lenCall(v) || k.capCall(v) || k.isIdxLoad(v) {
		return true // (an index is a slot number, or len(buf) between an advance and its wrap test)
	}
	for _, ft := range fs {
		cm, ok := ft.Cmp()
		if !ok {
			continue
		}
		op, a, b := cm.Op, cm.X, cm.Y
		if ir.Resolve(b) == v {
			a, b = b, a
			op = ir.SwapOp(op)
		}
		if ir.Resolve(a) != v {
			continue
		}
		if c, ok := ir.ConstInt(b); ok && ((op == token.GEQ && c >= 0) || (op == token.GTR && c >= -1)) {
			return true
		}
	}
	switch x := v.(type) {
	case *ssa.Call:
		if _, isB := x.Call.Value.(*ssa.Builtin); isB {
			switch x.Call.Value.Name() {
			case "len", "cap", "copy":
				return true
			}
		}
	case *ssa.BinOp:
		switch x.Op {
		case token.SUB:
			// len(buf) - index: the index never exceeds len(buf)
			return k.isLenBuf(x.X) && k.isIdxLoad(x.Y)
		case token.ADD:
			return k.nonNeg(x.X, fs, depth+1) && k.nonNeg(x.Y, fs, depth+1)
		}
	case *ssa.Phi:
		n := 0
		for i, e := range x.Edges {
			if ir.Resolve(e) == v {
				continue
			}
			if !k.nonNeg(e, c14edgeFacts(x, i), depth+1) {
				return false
			}
			n++
		}
		return n > 0
	}
	return false
}

// leLen: v is positively known not to exceed Len(): it is Len(), or guarded by v <= Len() / v < Len(), or a phi of
// such values, or such a value minus a non-negative count.
func (k *c14) leLen(v ssa.Value, fs []ir.Fact, depth int) bool {
	v = ir.Resolve(v)
	if v == nil || depth > 5 {
		return false
	}
	if k.lenCall(v) {
		return true
	}
	if c, ok := ir.ConstInt(v); ok {
		return c <= 0
	}
	for _, ft := range fs {
		cm, ok := ft.Cmp()
		if !ok {
			continue
		}
		op, a, b := cm.Op, cm.X, cm.Y
		if k.lenCall(a) {
			a, b = b, a
			op = ir.SwapOp(op)
		}
		if k.lenCall(b) && (op == token.LEQ || op == token.LSS) && k.sameVal(a, v, 0) {
			return true
		}
	}
	switch x := v.(type) {
	case *ssa.Phi:
		n := 0
		for i, e := range x.Edges {
			if ir.Resolve(e) == v {
				continue
			}
			if !k.leLen(e, c14edgeFacts(x, i), depth+1) {
				return false
			}
			n++
		}
		return n > 0
	case *ssa.BinOp:
		if x.Op == token.SUB {
			return k.leLen(x.X, fs, depth+1) && k.nonNeg(x.Y, fs, depth+1)
		}
	}
	return false
}

// validSlot: the value v, about to be stored to an index field, is known to denote an existing slot (given that the
// indices are valid slots and Len() < len(buf) when the method is entered).
func (k *c14) validSlot(v ssa.Value, fs []ir.Fact, recv ssa.Value, depth int) bool {
	v = ir.Resolve(v)
	if v == nil || depth > 5 {
		return false
	}
	if c, ok := ir.ConstInt(v); ok {
		return c == 0
	}
	if bo, ok := v.(*ssa.BinOp); ok && bo.Op == token.REM && k.isLenBuf(bo.Y) {
		return true
	}
	if k.belowLen(v, fs) {
		return true
	}
	switch x := v.(type) {
	case *ssa.Phi:
		n := 0
		for i, e := range x.Edges {
			if ir.Resolve(e) == v {
				continue
			}
			if !k.validSlot(e, c14edgeFacts(x, i), recv, depth+1) {
				return false
			}
			n++
		}
		return n > 0
	case *ssa.Call:
		// a wrapping helper, recognised by what it returns: every exit yields a valid slot of the same ring
		g := ir.StaticCallee(x)
		if g == nil || !k.inPkg(g) || g == k.lenFn || g == k.capFn || g.Signature.Recv() == nil || len(x.Call.Args) == 0 || len(g.Params) == 0 {
			return false
		}
		if recv == nil || !same(x.Call.Args[0], recv) {
			return false
		}
		eps := ir.ExitPoints(g)
		for _, ep := range eps {
			if len(ep.Results) != 1 || !k.validSlot(ep.Results[0], ep.Facts(), g.Params[0], depth+1) {
				return false
			}
		}
		return len(eps) > 0
	case *ssa.BinOp:
		if x.Op == token.SUB && k.isLenBuf(x.Y) {
			// (index + count) - len(buf) with count <= Len() < len(buf), taken on the >= len(buf) side
			sum, ok := ir.Resolve(x.X).(*ssa.BinOp)
			if !ok || sum.Op != token.ADD {
				return false
			}
			cnt := sum.Y
			if !k.isIdxLoad(sum.X) {
				if !k.isIdxLoad(sum.Y) {
					return false
				}
				cnt = sum.X
			}
			atOrBehind := false
			k.cmpVsLenBuf(fs, func(op token.Token, a ssa.Value) {
				if (op == token.GEQ || op == token.GTR) && k.sameVal(a, sum, 0) {
					atOrBehind = true
				}
			})
			return atOrBehind && k.leLen(cnt, fs, 0)
		}
	}
	return k.leLen(v, fs, 0)
}

// wrapIf: the If instruction compares the index field f (or the value v just stored to it) with len(buf), and the edge
// on which the index can be at/behind the end of the array resets it to 0.
func (k *c14) wrapIf(x ssa.Instruction, f *types.Var, v ssa.Value) bool {
	iff, ok := x.(*ssa.If)
	if !ok {
		return false
	}
	cm, ok := ir.AsCmp(iff.Cond)
	if !ok {
		return false
	}
	op, a, b := cm.Op, cm.X, cm.Y
	if k.isLenBuf(a) {
		a, b = b, a
		op = ir.SwapOp(op)
	}
	if !k.isLenBuf(b) {
		return false
	}
	hit := -1
	switch op {
	case token.EQL, token.GEQ:
		hit = 0
	case token.NEQ, token.LSS:
		hit = 1
	default:
		return false
	}
	if _, isField := loadOfField(a, f); !isField && ir.Resolve(a) != ir.Resolve(v) {
		return false
	}
	if len(iff.Block().Succs) != 2 {
		return false
	}
	for _, y := range iff.Block().Succs[hit].Instrs {
		if k.isReset(y, f) {
			return true
		}
		// the other spelling of the wrap: subtract len(buf) on the at-or-behind-the-end edge. It yields a valid slot when
		// the advanced index is known to be below 2*len(buf) (a valid slot plus a count of at most len(buf))
		if k.isFoldStore(y, f) && k.belowTwiceLin(iff, a) {
			return true
		}
	}
	return false
}

func runC14(c *Ctx) {
	ctor := c.RequireFn(c.P.Func("container", "NewRingBuffer"), "container.NewRingBuffer")
	var ring *types.Named
	for _, ret := range ir.Returns(ctor) {
		ring = namedOf(ret.Results[0].Type())
	}
	if ring == nil {
		c.Fatalf("role ring type: NewRingBuffer does not return a named type")
	}
	c.Role("ring", ring.Obj().Name(), ring.Obj().Pos())
	k := &c14{Ctx: c, ring: ring, pkg: c14root(ctor).Pkg}
	k.buf = c.oneField("ring.buf", ring, func(f *types.Var) bool { _, ok := f.Type().Underlying().(*types.Slice); return ok })
	method := func(name string) *ssa.Function {
		return c.RequireFn(c.P.MethodOf(ring, name), "ring."+name)
	}
	write, read, at, lenFn, capFn := method("Write"), method("Read"), method("At"), method("Len"), method("Cap")
	k.lenFn, k.capFn = lenFn, capFn
	// read index = the int field Read advances (itself or in the private helpers it runs); write index = the one Write
	// advances
	advanced := func(fn *ssa.Function) *types.Var {
		var res []*types.Var
		for _, f := range c14intFieldsDeep(ring) {
			found := false
			for _, g := range k.closure(fn) {
				ir.Instrs(g, func(in ssa.Instruction) {
					if _, v, ok := storeToField(in, f); ok {
						if kk, isC := ir.ConstInt(v); !isC || kk != 0 {
							found = true
						}
					}
				})
			}
			if found {
				res = appendUniq(res, f)
			}
		}
		if len(res) != 1 {
			c.Fatalf("role index advanced by %s: found %d candidates", fn.Name(), len(res))
		}
		return res[0]
	}
	rIdx, wIdx := advanced(read), advanced(write)
	c.Role("ring.readIndex", rIdx.Name(), rIdx.Pos())
	c.Role("ring.writeIndex", wIdx.Name(), wIdx.Pos())
	if rIdx == wIdx {
		c.Fatalf("read and write index resolve to the same field")
	}
	k.rIdx, k.wIdx = rIdx, wIdx

	isLenBuf := k.isLenBuf
	// a helper that zeroes on every path counts as zeroing where it is called
	zeroEff := ir.NewEffects(c.P, k.zeroing)
	zeroing := zeroEff.Is

	// the functions the rules look at: the methods of the ring and the private helpers (and function literals) they run
	methods := c.P.MethodsOf(ring)
	var scope []*ssa.Function
	{
		inScope := map[*ssa.Function]bool{}
		var extra []*ssa.Function
		for _, m := range methods {
			if len(m.Blocks) > 0 {
				inScope[m] = true
				scope = append(scope, m)
			}
		}
		for _, m := range methods {
			for _, g := range k.closure(m) {
				if !inScope[g] {
					inScope[g] = true
					extra = append(extra, g)
				}
			}
		}
		sort.Slice(extra, func(i, j int) bool { return ir.FnName(extra[i]) < ir.FnName(extra[j]) })
		scope = append(scope, extra...)
	}
	// floors are counted per API method: the exported methods from which an advance of the index is reached
	apiReaching := func(fields ...*types.Var) int {
		n := 0
		for _, m := range methods {
			if len(m.Blocks) == 0 || m.Object() == nil || !m.Object().Exported() {
				continue
			}
			found := false
			for _, g := range k.closure(m) {
				ir.Instrs(g, func(in ssa.Instruction) {
					for _, f := range fields {
						if _, ok := k.idxStore(in, f); ok {
							found = true
						}
					}
				})
			}
			if found {
				n++
			}
		}
		return n
	}
	apiFloor := func(rule string, min int, fields ...*types.Var) {
		n := apiReaching(fields...)
		if c.R.Count(rule) == 0 {
			n = 0
		}
		c.R.Floors[rule] = [2]int{min, n}
		if n < min {
			c.R.Errorf("rule %s covers %d API method(s) that advance the index, below its floor of %d: the anchored code changed shape and the rule would pass vacuously", rule, n, min)
		}
	}

	// A private helper that advances the read index without zeroing first (it only does the index arithmetic) leaves the
	// zeroing to its callers: when every call of it is known, the call counts as the advance and the obligation is decided
	// at each call site instead of inside the helper.
	bare := map[*ssa.Function]bool{}
	advsOf := func(fn *ssa.Function) []ssa.Instruction {
		var advs []ssa.Instruction
		ir.Instrs(fn, func(in ssa.Instruction) {
			if _, ok := k.idxStore(in, rIdx); ok && !k.isFoldStore(in, rIdx) {
				// (index = index - len(buf) names the same slot of the ring: it consumes nothing, R2 decides whether it is valid)
				advs = append(advs, in)
			}
			if ci, ok := in.(ssa.CallInstruction); ok && bare[ir.StaticCallee(ci)] {
				advs = append(advs, in)
			}
		})
		return advs
	}
	unzeroedFromEntry := func(fn *ssa.Function, adv ssa.Instruction) bool {
		w, err := (ir.Query{Fn: fn, Block: zeroing, Target: func(x ssa.Instruction) bool { return x == adv }}).Find()
		return w != nil || err != nil
	}
	for round, changed := 0, true; changed && round < 4; round++ {
		changed = false
		for _, fn := range scope {
			if bare[fn] || !k.callSites(fn).complete {
				continue
			}
			for _, adv := range advsOf(fn) {
				if unzeroedFromEntry(fn, adv) {
					bare[fn] = true
					changed = true
					break
				}
			}
		}
	}
	for _, fn := range scope {
		c.Saw(fn)
		// R1
		advs := advsOf(fn)
		for _, adv := range advs {
			adv := adv
			q := ir.Query{Fn: fn, Block: zeroing, Target: func(x ssa.Instruction) bool { return x == adv }}
			ok := true
			if !(bare[fn] && unzeroedFromEntry(fn, adv)) { // (else: decided at the call sites of fn)
				ok = c.NoPath("C14.R1", "zeroed before read index advances", adv, q, "the read index advances although the consumed slots were not overwritten with the zero value: the buffer keeps references to consumed values")
			}
			if ok {
				// also from one advance to the next (loop iterations)
				for _, prev := range advs {
					w, _ := (ir.Query{Fn: fn, From: prev, Block: zeroing, Target: func(x ssa.Instruction) bool { return x == adv }}).Find()
					if w != nil {
						c.Decide("C14.R1", fn, "zeroed before read index advances (next iteration)", adv, false, "a later iteration advances the read index without zeroing: "+w.String(c.P))
					}
				}
			}
		}
		// R2
		for fi, f := range []*types.Var{rIdx, wIdx} {
			f := f
			other := []*types.Var{wIdx, rIdx}[fi]
			ir.Instrs(fn, func(in ssa.Instruction) {
				if k.isReset(in, f) && !k.resetAtEnd(in, f, other) {
					// (reported only when it fails, like the next-iteration clause of R1: on the wrap edge the reset is part of
					// the advance it belongs to)
					c.Decide("C14.R2", fn, "index reset only at the end of the array ("+f.Name()+")", in, false,
						"the index is set back to 0 at a place where it is not known to have reached len(buf) (no ==/>= len(buf) edge): the slots between it and the end of the array are skipped (read index) or left out (write index), Len() jumps")
				}
				v, ok := k.idxStore(in, f)
				if !ok {
					return
				}
				recv, _, _ := storeToField(in, f)
				if k.validSlot(v, ir.Facts(in.Block()), recv, 0) || k.slotLin(in, v) {
					c.Decide("C14.R2", fn, "index advance wraps ("+f.Name()+")", in, true, "")
					return
				}
				isWrapIf := func(x ssa.Instruction) bool { return k.wrapIf(x, f, v) }
				wrapOperand := func(x ssa.Instruction) bool {
					// a load of the index whose only use is the wrap comparison
					u, ok := x.(*ssa.UnOp)
					if !ok || u.Referrers() == nil {
						return false
					}
					for _, r := range *u.Referrers() {
						b, isBin := r.(*ssa.BinOp)
						if !isBin || !(isLenBuf(b.X) || isLenBuf(b.Y)) {
							return false
						}
					}
					return len(*u.Referrers()) > 0
				}
				c.NoPath("C14.R2", "index advance wraps ("+f.Name()+")", in, ir.Query{Fn: fn, From: in, Block: isWrapIf,
					Target: func(x ssa.Instruction) bool {
						if ir.IsExit(x) {
							return true
						}
						if u, ok := x.(*ssa.UnOp); ok && u.Op == token.MUL {
							if _, isF := fieldAddrOf(u.X, f); isF && !wrapOperand(x) {
								return true
							}
						}
						return false
					}}, "the index is advanced and then used or left without the wrap test against len(buf) (== or >=, resetting to 0): it can equal len(buf), a slot that does not exist")
			})
		}
	}
	// Read, ReadN, Skip, Clear consume; Write produces
	apiFloor("C14.R1", 4, rIdx)
	apiFloor("C14.R2", 5, rIdx, wIdx)

	lenCall, capCall := k.lenCall, k.capCall
	// the guard of an exit is computed by a helper the rules do not look into
	opaqueGuard := func(fs []ir.Fact) bool {
		for _, ft := range fs {
			cm, ok := ft.Cmp()
			if !ok {
				continue
			}
			for _, o := range []ssa.Value{cm.X, cm.Y} {
				if call, ok := ir.Resolve(o).(*ssa.Call); ok {
					if g := ir.StaticCallee(call); g != nil && k.inPkg(g) && g != lenFn && g != capFn {
						return true
					}
				}
			}
		}
		return false
	}
	factsHave := func(fs []ir.Fact, pred func(ir.Cmp) bool) bool {
		for _, ft := range fs {
			if cm, ok := ft.Cmp(); ok && pred(cm) {
				return true
			}
		}
		return false
	}
	// R3 guards and classes
	{
		// Write
		var sts []ssa.Instruction
		ir.Instrs(write, func(in ssa.Instruction) {
			if s, ok := in.(*ssa.Store); ok {
				if ia, ok := s.Addr.(*ssa.IndexAddr); ok && k.bufDerived(ia.X) {
					sts = append(sts, in)
				}
			}
		})
		if len(sts) == 0 {
			c.Decide("C14.R3", write, "Write stores under the not-full guard", nil, false, "Write has no store into the backing array")
		}
		for _, st := range sts {
			ok := factsHave(k.guardFacts(st.Block()), func(cm ir.Cmp) bool {
				// not full: Len() != Cap(), Len() < Cap()
				if lenCall(cm.X) && capCall(cm.Y) {
					return cm.Op == token.NEQ || cm.Op == token.LSS
				}
				if capCall(cm.X) && lenCall(cm.Y) {
					return cm.Op == token.NEQ || cm.Op == token.GTR
				}
				// not full, spelled with the indices: next(write index) != read index (v_ring_lin.go)
				return cm.Op == token.NEQ && k.nextOfWriteIsReadV(write, cm)
			})
			c.Decide("C14.R3", write, "Write stores under the not-full guard", st, ok, "the store of Write is not dominated by the Len()==Cap() test: a full buffer is overwritten (or an element is refused while there is room)")
		}
		// failure exits wrap ErrExhausted
		n := 0
		for _, ep := range ir.ExitPoints(write) {
			ev := ep.Result(0)
			if ev == nil || ir.ClassifyErr(ev, ep.Block) != ir.ErrNonNil {
				continue
			}
			n++
			okCls := wrapsGlobal(ev, "ErrExhausted")
			okEdge := factsHave(k.expandFacts(ep.Facts(), 0), func(cm ir.Cmp) bool {
				return (lenCall(cm.X) && capCall(cm.Y) || capCall(cm.X) && lenCall(cm.Y)) && (cm.Op == token.EQL || cm.Op == token.GEQ || cm.Op == token.LEQ) ||
					cm.Op == token.EQL && k.nextOfWriteIsReadV(write, cm)
			})
			c.Decide("C14.R3", write, "full -> ErrExhausted", ep.Ret, okCls && okEdge, "the failure exit of Write is not the Len()==Cap() edge returning an error that wraps ErrExhausted")
		}
		if n == 0 {
			c.Decide("C14.R3", write, "full -> ErrExhausted", nil, false, "Write never fails")
		}
	}
	// emptiness: Len() compared with 0, or the read index compared with the write index (Len() == 0 iff they are equal)
	idxPair := func(a, b ssa.Value) bool {
		_, ar := loadOfField(a, rIdx)
		_, aw := loadOfField(a, wIdx)
		_, br := loadOfField(b, rIdx)
		_, bw := loadOfField(b, wIdx)
		return (ar && bw) || (aw && br)
	}
	notEmpty := func(cm ir.Cmp) bool {
		op, a, b := cm.Op, cm.X, cm.Y
		if lenCall(b) {
			a, b = b, a
			op = ir.SwapOp(op)
		}
		if kk, isC := ir.ConstInt(b); lenCall(a) && isC {
			return (op == token.NEQ && kk == 0) || (op == token.GTR && kk == 0) || (op == token.GEQ && kk == 1)
		}
		return op == token.NEQ && idxPair(a, b)
	}
	isEmpty := func(cm ir.Cmp) bool {
		op, a, b := cm.Op, cm.X, cm.Y
		if lenCall(b) {
			a, b = b, a
			op = ir.SwapOp(op)
		}
		if kk, isC := ir.ConstInt(b); lenCall(a) && isC {
			return (op == token.EQL && kk == 0) || (op == token.LEQ && kk == 0) || (op == token.LSS && kk == 1)
		}
		return op == token.EQL && idxPair(a, b)
	}
	{
		// Read
		var ld ssa.Instruction
		ir.Instrs(read, func(in ssa.Instruction) {
			if u, ok := in.(*ssa.UnOp); ok && u.Op == token.MUL {
				if ia, ok := u.X.(*ssa.IndexAddr); ok && k.bufDerived(ia.X) && ld == nil {
					ld = in
				}
			}
		})
		if ld == nil {
			if k.loadsElsewhere(read) {
				c.Undecided("C14.R3", read, "Read loads under the not-empty guard", nil, "Read has no load from the backing array itself: it takes the value through a helper or a callback, which this rule does not follow")
			} else {
				c.Decide("C14.R3", read, "Read loads under the not-empty guard", nil, false, "Read has no load from the backing array")
			}
		} else {
			ok := factsHave(k.guardFacts(ld.Block()), notEmpty)
			c.Decide("C14.R3", read, "Read loads under the not-empty guard", ld, ok, "the load of Read is not dominated by the Len()==0 test")
		}
		n := 0
		for _, ep := range ir.ExitPoints(read) {
			ev := ep.Result(1)
			if ev == nil || ir.ClassifyErr(ev, ep.Block) != ir.ErrNonNil {
				continue
			}
			n++
			g := globalOf(ev)
			okCls := g != nil && g.Pkg.Pkg.Path() == "io" && g.Name() == "EOF"
			okEdge := factsHave(k.expandFacts(ep.Facts(), 0), isEmpty)
			if okCls && !okEdge && opaqueGuard(ep.Facts()) {
				c.Undecided("C14.R3", read, "empty -> io.EOF", ep.Ret, "the io.EOF exit of Read is guarded by the result of a helper, which this rule does not follow")
				continue
			}
			c.Decide("C14.R3", read, "empty -> io.EOF", ep.Ret, okCls && okEdge, "the failure exit of Read is not the Len()==0 edge returning io.EOF")
		}
		if n == 0 {
			c.Decide("C14.R3", read, "empty -> io.EOF", nil, false, "Read never reports io.EOF")
		}
	}
	{
		// At
		var lds []*ssa.UnOp
		ir.Instrs(at, func(in ssa.Instruction) {
			if u, ok := in.(*ssa.UnOp); ok && u.Op == token.MUL {
				if ia, ok := u.X.(*ssa.IndexAddr); ok && k.bufDerivedOrNil(ia.X) {
					lds = append(lds, u)
				}
			}
		})
		if len(lds) == 0 || len(at.Params) < 2 {
			c.Decide("C14.R3", at, "At loads under the range guard", nil, false, "At has no load from the backing array")
		} else {
			idx := at.Params[1]
			isIdx := func(v ssa.Value) bool { return ir.Resolve(v) == ssa.Value(idx) }
			lowerOK := func(cm ir.Cmp) bool {
				kk, isC := ir.ConstInt(cm.Y)
				return isIdx(cm.X) && isC && ((cm.Op == token.GEQ && kk == 0) || (cm.Op == token.GTR && kk == -1))
			}
			upperOK := func(cm ir.Cmp) bool {
				return (isIdx(cm.X) && lenCall(cm.Y) && cm.Op == token.LSS) || (lenCall(cm.X) && isIdx(cm.Y) && cm.Op == token.GTR)
			}
			for _, ld := range lds {
				lower := hasFactCmp(ld.Block(), lowerOK)
				upper := hasFactCmp(ld.Block(), upperOK)
				c.Decide("C14.R3", at, "At loads under the range guard", ld, lower && upper, "the load of At is not dominated by both idx>=0 and idx<Len()")
			}
			// the out-of-range edges panic: no Return is reachable where idx<0 or idx>=Len() holds
			for _, ret := range ir.Returns(at) {
				lo := hasFactCmp(ret.Block(), lowerOK)
				hi := hasFactCmp(ret.Block(), upperOK)
				c.Decide("C14.R3", at, "out of range -> panic", ret, lo && hi, "At can return normally for an index out of range")
			}
			// R5 fold operator
			k.foldOperator(at, lds)
		}
	}
	c.R.Floor("C14.R3", 6)

	// R6 request arguments are clamped against Len() before they enter index arithmetic
	// values derived from the parameter through phis and subtraction of consumed counts
	derivedOf := func(fn *ssa.Function, prm *ssa.Parameter) map[ssa.Value]bool {
		derived := map[ssa.Value]bool{prm: true}
		for changed := true; changed; {
			changed = false
			ir.Instrs(fn, func(in ssa.Instruction) {
				v, ok := in.(ssa.Value)
				if !ok || derived[v] {
					return
				}
				switch x := in.(type) {
				case *ssa.Phi:
					for _, e := range x.Edges {
						if derived[e] {
							derived[v] = true
							changed = true
						}
					}
				case *ssa.BinOp:
					if x.Op == token.SUB && derived[x.X] {
						derived[v] = true
						changed = true
					}
				}
			})
		}
		return derived
	}
	mkBounded := func(derived map[ssa.Value]bool) func(v ssa.Value) bool {
		var bounded func(v ssa.Value, from, to *ssa.BasicBlock, depth int) bool
		loopVar := map[*ssa.Phi]bool{} // loop variables whose edges are being examined (v_ring_u_clamp.go)
		bounded = func(v ssa.Value, from, to *ssa.BasicBlock, depth int) bool {
			if depth > 6 {
				return false
			}
			if !derived[v] {
				return true // Len(), indices, constants
			}
			if p, isPhi := v.(*ssa.Phi); isPhi && loopVar[p] {
				return true // the loop variable itself, reached again through what is subtracted from it: induction
			}
			var facts []ir.Fact
			if from != nil {
				facts = append(ir.Facts(from), edgeFacts(from, to)...)
			} else if in, ok := v.(ssa.Instruction); ok {
				facts = ir.Facts(in.Block())
			}
			for _, f := range facts {
				cm, ok := f.Cmp()
				if !ok {
					continue
				}
				op, a, b := cm.Op, cm.X, cm.Y
				if b == v {
					a, b = b, a
					op = ir.SwapOp(op)
				}
				// (the bound may be any quantity of the buffer state that cannot exceed len(buf): the count then cannot overflow)
				if a == v && (op == token.LEQ || op == token.LSS) && (lenCall(b) || isLenBuf(b) || (!derived[b] && k.leBufLen(b, facts, 0))) {
					return true
				}
			}
			if p, ok := v.(*ssa.Phi); ok {
				if clampedLoopVarV(p) {
					loopVar[p] = true
					defer delete(loopVar, p)
				}
				for i, e := range p.Edges {
					if e == v {
						continue
					}
					if !bounded(e, p.Block().Preds[i], p.Block(), depth+1) {
						return false
					}
				}
				return true
			}
			if bo, ok := v.(*ssa.BinOp); ok && bo.Op == token.SUB {
				return bounded(bo.X, from, to, depth+1)
			}
			return false
		}
		return func(v ssa.Value) bool { return bounded(v, nil, nil, 0) }
	}
	intParams := func(fn *ssa.Function) []*ssa.Parameter {
		prms := fn.Params
		if fn.Signature.Recv() != nil && len(prms) > 0 {
			prms = prms[1:]
		}
		var res []*ssa.Parameter
		for _, prm := range prms {
			if types.Identical(prm.Type(), types.Typ[types.Int]) {
				res = append(res, prm)
			}
		}
		return res
	}
	// internalCount: prm belongs to a private helper all of whose calls are known, and no call passes it a caller's request
	// that is still unclamped there: the helper computes with a count the ring itself produced, the request was dealt with
	// in the caller (where this rule looks at it). At is exempt as a caller for the reason it is exempt itself: R3 decides
	// its range check.
	internalCount := func(fn *ssa.Function, prm *ssa.Parameter) bool {
		sites := k.callSites(fn)
		i := c14paramIndex(prm)
		if !sites.complete || i < 0 {
			return false
		}
		for _, ci := range sites.calls {
			h := ci.Parent()
			args := ci.Common().Args
			if h == nil || i >= len(args) {
				return false
			}
			if h == at {
				continue
			}
			a := args[i]
			for _, q := range intParams(h) {
				d := derivedOf(h, q)
				if d[a] && !mkBounded(d)(a) {
					return false
				}
			}
		}
		return true
	}
	for _, fn := range scope {
		if fn.Parent() != nil {
			continue // a function literal: its parameters are not a caller's request
		}
		for _, prm := range intParams(fn) {
			if fn != at && internalCount(fn, prm) {
				k.requestsClampedAtCallsV(fn, prm, at, derivedOf, mkBounded, intParams, isLenBuf) // v_ring_r6.go
			}
			if fn == at || internalCount(fn, prm) {
				continue
			}
			derived := derivedOf(fn, prm)
			bounded := mkBounded(derived)
			ir.Instrs(fn, func(in ssa.Instruction) {
				bo, ok := in.(*ssa.BinOp)
				if !ok || (bo.Op != token.ADD && bo.Op != token.MUL) {
					return
				}
				for _, o := range []ssa.Value{bo.X, bo.Y} {
					if !derived[o] {
						continue
					}
					// counters (res += cnt) are not index arithmetic: only sums that involve an index field or len(buf)
					other := bo.X
					if o == bo.X {
						other = bo.Y
					}
					_, isR := loadOfField(other, rIdx)
					_, isW := loadOfField(other, wIdx)
					if !isR && !isW && !isLenBuf(other) {
						continue
					}
					c.Decide("C14.R6", fn, "requested count clamped to Len() before index arithmetic", in, bounded(o),
						"the caller's count enters index arithmetic without being clamped to Len(): a huge argument overflows (negative slice bound, panic) instead of moving min(requested, Len) elements")
				}
			})
		}
	}
	c.R.Floor("C14.R6", 1)

	// R4 geometry
	{
		ok := false
		ir.Instrs(ctor, func(in ssa.Instruction) {
			if ms, isMake := in.(*ssa.MakeSlice); isMake {
				l := ir.Resolve(ms.Len)
				if cv, isCv := l.(*ssa.Convert); isCv {
					l = cv.X
				}
				if bo, isBin := l.(*ssa.BinOp); isBin && bo.Op == token.ADD {
					if kk, isC := ir.ConstInt(bo.Y); isC && kk == 1 && ir.Resolve(bo.X) == ssa.Value(ctor.Params[0]) {
						ok = true
					}
				}
			}
		})
		c.Decide("C14.R4", ctor, "allocates size+1 slots", nil, ok, "the constructor does not allocate size+1 slots (one slot stays empty to tell full from empty)")
		ok = false
		for _, ret := range ir.Returns(capFn) {
			if bo, isBin := ir.Resolve(ret.Results[0]).(*ssa.BinOp); isBin && bo.Op == token.SUB && isLenBuf(bo.X) {
				if kk, isC := ir.ConstInt(bo.Y); isC && kk == 1 {
					ok = true
				}
			}
		}
		c.Decide("C14.R4", capFn, "Cap = len(buf)-1", nil, ok, "Cap() is not len(buf)-1")
	}
	// R7: a readable segment whose end is chosen by the order of the two indices ("up to the write index if it lies
	// ahead, else up to the end of the array") is only taken when the buffer is known to be non-empty: with read index ==
	// write index the choice says "up to the end of the array" about a buffer that holds nothing. The test has to hold
	// at the segment, i.e. on every path from the entry AND from every advance of the read index.
	{
		nonEmpty := func(f ir.Fact) bool {
			cm, ok := f.Cmp()
			if !ok {
				return false
			}
			x, y, op := cm.X, cm.Y, cm.Op
			if _, isC := ir.ConstInt(x); isC {
				x, y, op = y, x, ir.SwapOp(op)
			}
			if kk, isC := ir.ConstInt(y); isC && k.lenCall(x) {
				return (op == token.GTR && kk >= 0) || (op == token.NEQ && kk == 0) || (op == token.GEQ && kk >= 1)
			}
			_, xr := loadOfField(x, k.rIdx)
			_, xw := loadOfField(x, k.wIdx)
			_, yr := loadOfField(y, k.rIdx)
			_, yw := loadOfField(y, k.wIdx)
			// the indices differ: tested as such, or known by their strict order (empty means read index == write index)
			return (op == token.NEQ || op == token.LSS || op == token.GTR) && ((xr && yw) || (xw && yr))
		}
		// (a test made by a boolean or classifying helper of the package counts with what it establishes)
		nonEmptyX := func(f ir.Fact) bool {
			for _, g := range k.expandFacts([]ir.Fact{f}, 0) {
				if nonEmpty(g) {
					return true
				}
			}
			return false
		}
		n := 0
		for _, fn := range scope {
			fn := fn
			ir.Instrs(fn, func(in ssa.Instruction) {
				sl, ok := in.(*ssa.Slice)
				if !ok || !k.bufDerived(sl.X) || sl.Low == nil {
					return
				}
				if _, isR := loadOfField(sl.Low, k.rIdx); !isR {
					return
				}
				// how the segment ends: at the write index, at the end of the array, or at one of the two
				toW, toEnd := false, sl.High == nil
				if sl.High != nil {
					for _, o := range ir.Origins(sl.High) {
						if _, isW := loadOfField(o, k.wIdx); isW {
							toW = true
						}
						if k.isLenBuf(o) {
							toEnd = true
						}
					}
				}
				switch {
				case toW && sl.High != nil && !k.segmentEndsAtWriteIndexOnly(sl):
					// the end is chosen between the write index and something else by the value of High (as before)
				case toW:
					// buf[r:w] and nothing else: with read index == write index this is the empty segment. The hazard of R7
					// is the alternative "up to the end of the array"; where the choice is made by a branch, that
					// alternative is a segment of its own and is looked at below
					return
				case toEnd && k.orderGuarded(in.Block()):
					// "up to the end of the array", selected by a branch on the order of the indices
				default:
					return
				}
				n++
				q := ir.Query{Fn: fn, BlockFact: nonEmptyX, Target: func(x ssa.Instruction) bool { return x == in }}
				bad := ""
				if w, err := q.Find(); err != nil || w != nil {
					bad = "from the entry of " + fn.Name()
				}
				ir.Instrs(fn, func(x ssa.Instruction) {
					if _, isAdv := k.idxStore(x, k.rIdx); !isAdv || bad != "" {
						return
					}
					q2 := q
					q2.From = x
					if w, err := q2.Find(); err != nil || w != nil {
						bad = "after the read index was advanced (" + c.P.Pos(x.Pos()) + ")"
					}
				})
				c.Decide("C14.R7", fn, "index-ordered segment taken from a non-empty buffer only", in, bad == "",
					"the segment 'from the read index up to the write index or the end of the array' is taken without a test that the buffer is not empty "+bad+": with read index == write index the empty array counts as data, the read index runs past the write index and Len() reports phantom elements")
			})
		}
		if n == 0 {
			c.Decide("C14.R7", read, "index-ordered segment taken from a non-empty buffer only", nil, true, "")
		}
	}
	// R8: the helpers the buffer hands parts of its backing array to (to clear released slots) stay inside the slice they
	// are given: a re-slice of the parameter with a constant bound is dominated by a test that the slice is that long -
	// s[:64] of a shorter slice silently extends up to the capacity, i.e. over the live elements behind the released part
	{
		seen := map[*ssa.Function]bool{}
		n := 0
		for _, fn := range scope {
			ir.Instrs(fn, func(in ssa.Instruction) {
				call, ok := in.(*ssa.Call)
				if !ok {
					return
				}
				cal := ir.StaticCallee(call)
				if cal == nil || len(cal.Blocks) == 0 || seen[cal] || !k.inPkg(cal) {
					return
				}
				for ai, a := range call.Call.Args {
					if !k.bufDerived(a) || ai >= len(cal.Params) {
						continue
					}
					if _, isSl := a.(*ssa.Slice); !isSl {
						continue
					}
					seen[cal] = true
					prm := cal.Params[ai]
					ir.Instrs(cal, func(x ssa.Instruction) {
						sl, isSl := x.(*ssa.Slice)
						if !isSl || ir.Resolve(sl.X) != ssa.Value(prm) {
							return
						}
						for _, bnd := range []ssa.Value{sl.Low, sl.High} {
							if bnd == nil {
								continue
							}
							kk, isC := ir.ConstInt(bnd)
							if !isC || kk == 0 {
								continue
							}
							n++
							c.Decide("C14.R8", cal, "constant re-slice stays within the slice it was given", x, lenLowerBound(x.Block(), sl.X) >= kk,
								fmt.Sprintf("%s re-slices the part of the backing array it was given with the constant bound %d without a test that the part is that long: a shorter part is silently extended up to its capacity and the live elements behind the released slots are overwritten (or the call panics at the end of the array)", cal.Name(), kk))
						}
					})
				}
			})
		}
		if n == 0 {
			c.Decide("C14.R8", read, "constant re-slice stays within the slice it was given", nil, true, "")
		}
	}
	// R9: one state of the indices per access (z_f_c14.go)
	k.oneState(scope, read)
	// R10: what is released is what is consumed (v_ring_g_release.go)
	k.releasedIsConsumed(scope, read)
	// R11: the consuming methods report a non-negative count (v_ring_u_count.go)
	k.countsAreNonNegative(methods)
	// R12: every advance of the write index leaves one slot empty (v_ring_h_write.go)
	k.writeAdvancesKeepSpareSlot(scope)
	// R13: a neighbour slot of an index is accessed only under a range test on the index (x_c14_i.go)
	k.neighbourSlotsGuarded(scope, write)
}

// wrapsGlobal reports whether error value v is fmt.Errorf(... %w ...) with the repository sentinel `name`
// among its arguments, or the sentinel itself.
func wrapsGlobal(v ssa.Value, name string) bool {
	v = ir.Resolve(v)
	if g := globalOf(v); g != nil && g.Name() == name {
		return true
	}
	call, ok := v.(*ssa.Call)
	if !ok || ir.CalleeFullName(call) != "fmt.Errorf" || len(call.Call.Args) < 2 {
		return false
	}
	for _, a := range variadicArgs(call.Call.Args[1]) {
		if g := globalOf(a); g != nil && g.Name() == name {
			return true
		}
	}
	return false
}

// foldOperator is C14.R5. The element index of At folds x = read index + i back into the array. Accepted spellings of
// the fold: x - d with d = phi(0, len(buf)); phi(x, x-len(buf)); a separate load at x-len(buf) next to the one at x;
// x % len(buf). In every spelling but the last, the alternative that subtracts len(buf) must be selected by
// x >= len(buf) (x > len(buf) leaves slot len(buf), which does not exist, to the unfolded alternative).
func (k *c14) foldOperator(fn *ssa.Function, lds []*ssa.UnOp) {
	c := k.Ctx
	isLenBuf := k.isLenBuf
	type alt struct {
		facts []ir.Fact
	}
	var folded []alt
	modulo := false
	var first *ssa.IndexAddr
	for _, ld := range lds {
		ia := ld.X.(*ssa.IndexAddr)
		if first == nil {
			first = ia
		}
		idx := ir.Resolve(ia.Index)
		subLen := func(v ssa.Value) bool {
			bo, isBin := ir.Resolve(v).(*ssa.BinOp)
			return isBin && bo.Op == token.SUB && isLenBuf(bo.Y)
		}
		switch x := idx.(type) {
		case *ssa.BinOp:
			switch {
			case x.Op == token.REM && isLenBuf(x.Y):
				modulo = true
			case x.Op == token.SUB && isLenBuf(x.Y):
				folded = append(folded, alt{ir.Facts(ia.Block())})
			case x.Op == token.SUB:
				if phi, ok := ir.Resolve(x.Y).(*ssa.Phi); ok {
					for i, e := range phi.Edges {
						if isLenBuf(e) {
							folded = append(folded, alt{c14edgeFacts(phi, i)})
						}
					}
				}
			}
		case *ssa.Phi:
			for i, e := range x.Edges {
				if isLenBuf(e) || subLen(e) {
					folded = append(folded, alt{c14edgeFacts(x, i)})
				}
			}
		}
	}
	if len(folded) == 0 {
		if modulo {
			c.Decide("C14.R5", fn, "fold selected by >= len(buf)", first, true, "")
			return
		}
		if k.foldLinear(fn, lds, first) {
			return
		}
		c.Undecided("C14.R5", fn, "fold selected by >= len(buf)", first, "no fold by len(buf) found in the element index of At (x - phi(0,len(buf)), phi(x, x-len(buf)), a load at x-len(buf), x % len(buf))")
		return
	}
	// the alternative that brings len(buf) in must be the true edge of x >= len(buf)
	ok := true
	for _, a := range folded {
		sel, gtr := false, false
		k.cmpVsLenBuf(a.facts, func(op token.Token, _ ssa.Value) {
			if op == token.GEQ {
				sel = true
			}
			if op == token.GTR {
				gtr = true
			}
		})
		if gtr {
			c.Decide("C14.R5", fn, "fold selected by >= len(buf)", first, false, "the index is folded back only when it is > len(buf): for read index + i == len(buf) the access hits slot len(buf), which does not exist")
			return
		}
		if !sel {
			ok = false
		}
	}
	c.Decide("C14.R5", fn, "fold selected by >= len(buf)", first, ok, "the fold of the element index is not selected by the test >= len(buf)")
}

func edgeFacts(from, to *ssa.BasicBlock) []ir.Fact {
	if f := ir.EdgeFact(from, to); f != nil {
		return []ir.Fact{*f}
	}
	return nil
}
