package rules

import (
	"fmt"
	"os"
	"go/token"
	"go/types"
	"strings"

	"golang.org/x/tools/go/ssa"

	"verif/checker/ir"
)

var lockPkgs = []string{"kvs/distlock", "kvs", "kvs/inmem", "timeout", "sync", "ulidutils"}

func init() {
	register(&Check{
		ID: "C01", Title: "Distributed lock: at most one holder at any instant",
		Pkgs:      lockPkgs,
		Run:       runC01,
		Technique: "static analysis: must-pass-through over the success edge of Storage.Create with bottom-up helper summaries, who-may-call/who-may-write census of the lock record, guard dominance, atomic-only census (go/ssa)",
		Explanation: "R1: in TryLock, Lock and LockWithCtx every path to a possible success exit crosses the success edge (err==nil) of an interface call kvs.Storage.Create, directly or through a private helper all of whose success exits do. " +
			"R2: the package calls only Create, CasByVersion, Delete, WaitForVersionChange and Get on the storage (never Put/PutMany), and the renewal CAS carries the tenure's version. " +
			"R3: Storage.Delete is dominated by the true edge of CompareAndSwap(held,1,0) on the same Locker. R4: every storage call uses the Locker's own key field, which is stored only by NewLocker. R5: the held flag is touched only through sync/atomic. " +
			"L1: the lock record is always written with ExpiresAt = now + lease, the clock read at the time of the write (a record born expired lets a second caller in). S1/S2: the in-memory storage the lockers race on executes every operation as one critical section and lets Create succeed only on the key-absent edge. " +
			"R7: the lease renewal writes only by CasByVersion. R8: an attempt that ran its failure epilogue (token given back) cannot report success. " +
			"R6: a tenure issues at most one Delete (a by-key delete repeated after a lost reply removes a successor's record). L2: the lease renewal does not run under the context of the acquisition call (that context normally ends right after the call returned; every renewal would fail and the record lapse under the holder). " +
			"L3: every acquisition arms its first renewal with this Create's version and a period of lease/k, k>=2 (a renewal due at the end of the lease finds the record expired, the chain ends and a second caller creates the record under the live holder). " +
			"L4: what runs on the renewal timer's goroutine never cancels a timer it has read from the Locker's timer slot - the slot is per Locker object, a renewal of a finished tenure that is still in flight would cancel the live timer of the next tenure, whose record then lapses under its holder; it may cancel only a timer it armed itself. " +
			"S3: every record the in-memory storage writes gets a fresh ulidutils.NewID() version drawn under the generator's lock (the renewal CAS tells tenures apart by the version alone; a counter that restarts with the record lets a stale renewal of the previous tenure hit the next one). T1-T8: the timer package's index/cancel rules of C12 (a Cancel issued through a stale or recycled future object removes another lock's renewal timer, whose lease then runs out under its holder). " +
			"L5: a run of the lease renewal returns without having attempted the compare-and-set or armed a later attempt only on a path that has found its tenure over - the held flag read and clear, a tenure generation that differs, or a word of the Locker that Unlock sets (before the token goes back) and EVERY way of taking the local token resets before it can succeed (sibling agreement of the token helpers); a word one sibling forgets to reset is inherited by the next tenure, whose renewal steps aside at once: the record lapses under the holder and a second caller acquires.",
		NotDecided: "exclusion itself over interleavings and fault placements (needs C02 for the storage and the lease assumption).",
	})
	register(&Check{
		ID: "C04", Title: "Distributed lock: hand-off, cancellation and shutdown leave no residue",
		Pkgs:      lockPkgs,
		Run:       runC04,
		Technique: "static analysis: must-pass-through path queries with exit classification (token and flag returned on every failure exit), guard dominance, origin analysis of the retry loop, path enumeration with a per-path boolean valuation (shutdown re-check after every storage wait), plus the notify/registration/registration-balance rules of the in-memory WaitForVersionChange the hand-off relies on (go/ssa)",
		Explanation: "R1: after the local token was taken every failure exit of TryLock/LockWithCtx/Lock gives the token back and resets the held flag. R2: every normal exit of Unlock passes Storage.Delete(key) and a token send. " +
			"R3: on the ErrExist edge the loop waits with WaitForVersionChange(ctx,key,v), v the version returned by the failed Create, and goes round again on a fresh ctx.Err(). " +
			"R4: the token helpers return nil only on the 'still open' edge of a shutdown test made after taking the token. R5: the local wait has a ctx.Done() case returning ctx.Err(); Shutdown closes the done channel. " +
			"R6: the lease renewal writes only by CasByVersion (it never re-creates a record: ErrNotExist also means the holder unlocked). R7: an attempt that gave the token back reports failure. " +
			"W1/W2: in the in-memory store every mutation notifies the key's waiters and the waiter's check and registration are one critical section (no lost wake-up at the storage level). R8: on every path from the return of the storage wait to the next Create the shutdown channel is tested and found open (paths enumerated with phi operands resolved per path). W7: a waiter registers again on its entry only after the previous registration was withdrawn or consumed by a notification. R9: an attempt resets the held flag before it puts the local token back (in the other order a goroutine sharing the Locker takes the token while the flag still reads held, fails on the flag and the token is lost). " +
			"R10: on no path from the success outcome of Storage.Create does an attempt reach a failing exit without deleting the record it has created (a refused attempt that leaves its record behind keeps every other Locker out for a lease although nobody holds the lock). " +
			"R10 also: a clean-up Delete on such a path does not count when it runs under a context the path has just found ended (ctx.Err() != nil; a storage that honours the context refuses it). R11: between the return of the local wait (a select over the token and ctx.Done(): with an ended context it may still take the token) and every success exit the caller's context is looked at again - a ctx.Err() found nil, or a Storage.Create under that context while the in-memory Create is shown to refuse an ended context. R12: a token helper that fails after it received the token puts it back, except on paths that found the shutdown channel closed (assigned only at construction; tested directly or through a predicate whose true implies closed) - any other refusal state can be called off and the Locker would have lost its token for good. " +
			"W8: from the Done() case of the caller's context (or of a context derived from it) the parked in-memory waiter does not go back to park again unless the path found the caller's own context alive - otherwise an ended context does not bring the storage wait, and so LockWithCtx, back.",
		NotDecided: "absence of lost wake-ups over all schedules as such; fairness.",
	})
	register(&Check{
		ID: "C05", Title: "Distributed lock: lease is kept while held and lapses after holder death",
		Pkgs:      lockPkgs,
		Run:       runC05,
		Technique: "static analysis: argument provenance (lease on every write), must-pass-through (arm on acquire, re-arm on renewal, silence on loss), guard dominance on error classes, plus the timer's cancel/index rules and the in-memory expiry rules the clause depends on (go/ssa)",
		Explanation: "L1: every record passed to Create/CasByVersion has ExpiresAt = now + lease. L2: between the Create success edge and the success exit a renewal is armed with timeout.Call(fn, lease/k), k>=2, fn reaching the renewal routine with that Create's version, and stored in the Locker's timer slot. " +
			"L3: the renewal's CAS success edge re-arms with the new version; exits after a definitive loss (ErrNotExist/ErrConflict) arm nothing and write nothing. L4: every exit of the renewal that arms nothing is dominated by a positive class test for ErrNotExist or ErrConflict (a transient error must not end the chain). " +
			"L8: the renewal writes only by CasByVersion; a retry after an error is armed only when both ErrNotExist and ErrConflict were excluded. L5: the renewal is a CAS on the Locker's key with the tenure's version. L6: the renewal does not use the acquisition's context. L7: Unlock cancels the armed timer before deleting the record. " +
			"T1-T7: the timer keeps heap indices current and Cancel is guarded (C12 rules). U1-U9: a queued renewal is not slept through (C13 rules). U10: the timer worker waits only with a time bound - a blocking select has a timer case, a bare receive is a receive from a timer (C13.R10): a worker blocked for good is still counted, the others retire around it and the renewal is not started. E1/E2: the in-memory store treats an expired record as absent and bounds a parked waiter by the expiry (dead-holder clause). L9: the renewal cancels the timer it has just armed under a condition that reads the Locker's held flag / tenure - the compare-and-swap of the timer slot alone does not see an Unlock (open finding). L10: Unlock deletes the lock record on every path (the Delete is what makes a renewal that is still in flight - see L9 - fail on the version and die out; a record that survives Unlock is renewed for ever). " +
			"L11: what runs on the renewal timer's goroutine never cancels a timer it has read from the Locker's timer slot (per Locker object, not per tenure: an attempt of a finished tenure that is still in flight would cancel the live timer of the next tenure - it has to change nothing); it may cancel only a timer it armed itself. " +
			"L12: a storage wait that runs under a context the library derived itself (own deadline or cancellation) never decides the attempt: behind it the attempt fails only after re-reading the caller's context and finding it ended, after seeing the shutdown, or on a later Create - otherwise a waiter whose own context is alive gives up when the dead holder's record is about to lapse instead of acquiring. " +
			"L13: a run of the renewal (the scheduled function and the routine) returns without having attempted the compare-and-set or armed a later attempt only on a path that has found the tenure over (the held flag read and clear) - not because the provider was shut down: Shutdown() does not unlock, the holder's record would lapse under it. " +
			"L14: the version a renewal compare-and-sets and re-arms with travels with the attempt (parameter / captured variable of the scheduled function); it is never read from a field of the Locker object, which outlives the tenure and is shared with a late renewal of the previous tenure (the renewal routine is also resolved when the scheduled function is a function value bound once and kept in a field). " +
			"L2/L3 also: when the lease can be changed after construction (a store outside the constructor), the period of the armed renewal and the ExpiresAt of the record write it follows derive from ONE read of the lease (the lease is a time.Duration field, or an integer word read atomically / through an accessor). L13 also accepts a word that Unlock sets and every way of taking the local token resets (see C01.L5). " +
			"L15: Storage.Delete (by key) is issued only where the Locker is known to own the record - behind its held-flag compare-and-swap or behind the success edge of its own Create, directly or at every call site of the private helper that deletes; a Delete behind a failed Create removes the holder's record and the lease is not kept.",
		NotDecided: "every timing statement ('within about one lease period'), clock behaviour.",
	})
}

type lockRoles struct {
	provider, locker                  *types.Named
	storageF, doneF, leaseF           *types.Var // provider fields
	dlpF, keyF, tokenF, timerF, heldF *types.Var // locker fields
	storageIface                      *types.Named
	recordT                           *types.Named
	recKey, recVersion, recExpires    *types.Var
	tryLock, lock, lockCtx, unlock    *ssa.Function
	newLocker, shutdown               *ssa.Function
	renewal                           *ssa.Function
	// when the scheduled function is built per tenure by a function of the package (timeout.Call(l.step(ver), d)): that
	// function and the closure it returns (which is the renewal routine, or forwards to it)
	renewalFactory, renewalClosure *ssa.Function
	tokenHelpers                      map[*ssa.Function]bool
	acquiring                         map[*ssa.Function]bool
	all, lockerFns                    []*ssa.Function
}

func resolveLockRoles(c *Ctx) *lockRoles {
	r := &lockRoles{tokenHelpers: map[*ssa.Function]bool{}, acquiring: map[*ssa.Function]bool{}}
	r.recordT, r.recKey, r.recVersion, r.recExpires, r.storageIface = resolveRecordRoles(c)
	lp := c.P.LookupType("sync", "LockProvider")
	if lp == nil {
		c.Fatalf("role sync.LockProvider not found")
	}
	impls := c.P.Implementers("kvs/distlock", lp.Underlying().(*types.Interface))
	if len(impls) != 1 {
		c.Fatalf("role lock provider: expected one implementation of sync.LockProvider, found %d", len(impls))
	}
	r.provider = impls[0]
	c.Role("lock.provider", r.provider.Obj().Name(), r.provider.Obj().Pos())
	r.storageF = c.oneField("provider.storage", r.provider, func(f *types.Var) bool { return namedOf(f.Type()) == r.storageIface })
	r.doneF = c.providerDoneVG(r) // the provider's channel field; among several, the one Shutdown closes (v_lock_g4.go)
	r.leaseF = c.providerLeaseVG(r) // the time.Duration field, or the integer word read as the lease (v_lock_g5.go)
	r.newLocker = c.RequireFn(c.P.MethodOf(r.provider, "NewLocker"), "provider.NewLocker")
	r.shutdown = c.RequireFn(c.P.MethodOf(r.provider, "Shutdown"), "provider.Shutdown")
	for _, ret := range ir.Returns(r.newLocker) {
		if mi, ok := ir.ResultValue(ret, 0).(*ssa.MakeInterface); ok {
			r.locker = namedOf(mi.X.Type())
		}
	}
	if r.locker == nil {
		c.Fatalf("role Locker: NewLocker does not return a concrete named type")
	}
	c.Role("lock.locker", r.locker.Obj().Name(), r.locker.Obj().Pos())
	r.dlpF = c.oneField("locker.provider", r.locker, func(f *types.Var) bool { return namedOf(f.Type()) == r.provider })
	r.keyF = c.oneField("locker.key", r.locker, func(f *types.Var) bool {
		b, ok := f.Type().Underlying().(*types.Basic)
		return ok && b.Kind() == types.String
	})
	r.tokenF = c.oneField("locker.token", r.locker, func(f *types.Var) bool { _, ok := f.Type().Underlying().(*types.Chan); return ok })
	// the timer slot: the atomic.Value field a timeout.Call result is stored into (other atomic.Value fields may exist)
	holdsTimer := map[*types.Var]bool{}
	for _, fn := range c.P.FuncsOf("kvs/distlock") {
		ir.Instrs(fn, func(in ssa.Instruction) {
			call, ok := in.(*ssa.Call)
			if !ok || len(call.Call.Args) != 2 {
				return
			}
			if m := slotMethodVV(call); m != "Store" && m != "CompareAndSwap" && m != "Swap" { // atomic.Value or atomic.Pointer[T] (v_lock_v.go)
				return
			}
			fa, isFA := call.Call.Args[0].(*ssa.FieldAddr)
			if !isFA {
				return
			}
			for _, o := range storedTimersVV(call.Call.Args[len(call.Call.Args)-1]) {
				if tc, isTC := o.(*ssa.Call); isTC && strings.HasSuffix(ir.CalleeFullName(tc), "/timeout.Call") {
					holdsTimer[ir.FieldOf(fa)] = true
				}
			}
		})
	}
	r.timerF = c.oneFieldDeep("locker.timer", r.locker, func(f *types.Var) bool {
		return isSlotTypeVV(f.Type()) && (len(holdsTimer) == 0 || holdsTimer[f])
	})
	lm := func(name string) *ssa.Function { return c.RequireFn(c.P.MethodOf(r.locker, name), "locker."+name) }
	r.tryLock, r.lock, r.lockCtx, r.unlock = lm("TryLock"), lm("Lock"), lm("LockWithCtx"), lm("Unlock")
	// held flag: the int32 field passed to CompareAndSwapInt32(.,1,0) in Unlock
	// (either style of sync/atomic: the functions on an int32 field, or the methods of an atomic.Int32 field; Unlock
	// itself or a private helper it calls)
	findHeld := func(fn *ssa.Function) {
		ir.Instrs(fn, func(in ssa.Instruction) {
			if op, addr, args, ok := ir.AtomicCall(in); ok && op == "CompareAndSwap" && len(args) == 2 {
				o, _ := ir.ConstInt(args[0])
				n, _ := ir.ConstInt(args[1])
				if fa, isFA := addr.(*ssa.FieldAddr); isFA && o == 1 && n == 0 && namedOf(fa.X.Type()) == r.locker {
					r.heldF = ir.FieldOf(fa)
				}
			}
		})
	}
	findHeld(r.unlock)
	if r.heldF == nil {
		for _, call := range ir.Calls(r.unlock) {
			if cal := ir.StaticCallee(call); cal != nil && len(cal.Blocks) > 0 && cal.Signature.Recv() != nil && namedOf(cal.Signature.Recv().Type()) == r.locker {
				findHeld(cal)
			}
		}
	}
	if r.heldF == nil {
		c.Fatalf("role locker.held: Unlock has no compare-and-swap (1 -> 0) of a Locker field")
	}
	c.Role("locker.held", r.heldF.Name(), r.heldF.Pos())
	r.all = c.P.FuncsOf("kvs/distlock")
	for _, fn := range r.all {
		root := fn
		for root.Parent() != nil {
			root = root.Parent()
		}
		if root.Signature.Recv() != nil && namedOf(root.Signature.Recv().Type()) == r.locker {
			r.lockerFns = append(r.lockerFns, fn)
		}
	}
	// token helpers: private locker methods that receive from the token channel
	for _, fn := range c.P.MethodsOf(r.locker) {
		if fn.Object().Exported() || len(fn.Blocks) == 0 {
			continue
		}
		ir.Instrs(fn, func(in ssa.Instruction) {
			if r.tokenRecv(in) {
				r.tokenHelpers[fn] = true
			}
		})
	}
	for h := range r.tokenHelpers {
		c.Role("locker.tokenHelper", relName(h), h.Pos())
	}
	// renewal routine: the locker method reached from a closure passed to timeout.Call
	for _, fn := range r.lockerFns {
		ir.Instrs(fn, func(in ssa.Instruction) {
			call, ok := in.(*ssa.Call)
			if !ok || !strings.HasSuffix(ir.CalleeFullName(call), "/timeout.Call") {
				return
			}
			if mc, isMC := call.Call.Args[0].(*ssa.MakeClosure); isMC {
				// the closure (or the bound-method wrapper of a method value) calls the routine: a locker method, or a
				// function / method of a helper type of the same package that reaches the locker through its receiver
				var other *ssa.Function
				for _, cc := range ir.Calls(mc.Fn.(*ssa.Function)) {
					cal := ir.StaticCallee(cc)
					if cal == nil || len(cal.Blocks) == 0 || cal.Pkg != fn.Pkg {
						continue
					}
					if cal.Signature.Recv() != nil && namedOf(cal.Signature.Recv().Type()) == r.locker {
						r.renewal = cal
					} else {
						other = cal
					}
				}
				if r.renewal == nil && other != nil {
					r.renewal = other
				}
			}
			if fc, isCall := call.Call.Args[0].(*ssa.Call); isCall && r.renewal == nil {
				// the scheduled function is built per tenure by a function of the package (`timeout.Call(l.step(ver), d)`,
				// step returning a closure): what runs when the timer fires is that closure
				if fac, cl := closureFactoryYA(fc); cl != nil && fac.Pkg == fn.Pkg {
					r.renewal, r.renewalFactory, r.renewalClosure = renewalOfClosureYA(r, cl), fac, cl
				}
			}
		})
	}
	if r.renewalFactory != nil {
		claimFn(r.renewalFactory)
		c.Role("locker.renewalFactory", ir.FnName(r.renewalFactory), r.renewalFactory.Pos())
	}
	if r.renewal == nil {
		// the scheduled function is a function value kept in a field (bound once per Locker): v_lock.go
		r.renewal = r.renewalViaFuncFieldVL()
	}
	c.RequireFn(r.renewal, "locker.renewal")
	c.Role("locker.renewal", relName(r.renewal), r.renewal.Pos())
	c.KeyByRole(r.renewal, "locker.renewal")
	return r
}

// tokenRecv reports whether in receives from the Locker's token channel (plain receive or select case).
func (r *lockRoles) tokenRecv(in ssa.Instruction) bool {
	switch x := in.(type) {
	case *ssa.UnOp:
		if x.Op == token.ARROW {
			_, ok := loadOfField(x.X, r.tokenF)
			return ok
		}
	case *ssa.Select:
		for _, st := range x.States {
			if st.Dir == types.RecvOnly {
				if _, ok := loadOfField(st.Chan, r.tokenF); ok {
					return true
				}
			}
		}
	}
	return false
}

// tokenHelperCall returns in as a call of a token helper: a static call, or a call of the helper as a method value
// (`take := l.tryLockInternal; take()`), nil otherwise.
func (r *lockRoles) tokenHelperCall(in ssa.Instruction) *ssa.Call {
	call, ok := in.(*ssa.Call)
	if !ok {
		return nil
	}
	if cal := calleeYA(call); cal != nil && r.tokenHelpers[cal] {
		return call
	}
	return nil
}

func (r *lockRoles) tokenSend(in ssa.Instruction) bool {
	if s, ok := in.(*ssa.Send); ok {
		_, isTok := loadOfField(s.Chan, r.tokenF)
		return isTok
	}
	return false
}

func (r *lockRoles) flagReset(in ssa.Instruction) bool {
	call, ok := in.(*ssa.Call)
	if !ok {
		return false
	}
	op, addr, args, isAtomic := ir.AtomicCall(call)
	if !isAtomic {
		return false
	}
	_, isFlag := fieldAddrOf(addr, r.heldF)
	switch {
	case op == "Store" && len(args) == 1:
		k, isC := ir.ConstInt(args[0])
		return isFlag && isC && k == 0
	case op == "CompareAndSwap" && len(args) == 2:
		k, isC := ir.ConstInt(args[1])
		return isFlag && isC && k == 0
	}
	return false
}

// openFact: the fact says the provider's shutdown channel was found open: chans.IsOpened(done) is true, or a
// non-blocking select with a receive case on done took another case (its default).
func (r *lockRoles) openFact(f ir.Fact) bool {
	ff := f.StripNot()
	if call, ok := ff.Cond.(*ssa.Call); ok && ff.True && strings.HasSuffix(ir.CalleeFullName(call), "chans.IsOpened") && len(call.Call.Args) == 1 {
		return ir.LoadedField(call.Call.Args[0]) == r.doneF
	}
	if cm, ok := f.Cmp(); ok && (cm.Op == token.EQL || cm.Op == token.NEQ) {
		ex, isEx := ir.Resolve(cm.X).(*ssa.Extract)
		k, isC := ir.ConstInt(cm.Y)
		if !isEx || !isC || ex.Index != 0 {
			return false
		}
		sel, isSel := ex.Tuple.(*ssa.Select)
		// a pure poll of the shutdown channel: one receive case plus default. In a select with further cases another
		// ready case may be chosen although the channel is closed - that is why the token helpers test again
		if !isSel || sel.Blocking || len(sel.States) != 1 {
			return false
		}
		doneIdx := int64(-1)
		for i, st := range sel.States {
			if st.Dir == types.RecvOnly && ir.LoadedField(st.Chan) == r.doneF {
				doneIdx = int64(i)
			}
		}
		if doneIdx < 0 {
			return false
		}
		// index != doneIdx, or index == some other case / default (-1)
		return (cm.Op == token.NEQ && k == doneIdx) || (cm.Op == token.EQL && k != doneIdx)
	}
	return r.openByPredicateVG(f) // a predicate of the package whose answer implies "open" (v_lock_g4.go)
}

// storageCall returns the interface call when in invokes method `name` ("" = any) of kvs.Storage.
func (r *lockRoles) storageCall(in ssa.Instruction, name string) *ssa.Call {
	call, ok := in.(*ssa.Call)
	if !ok || !call.Call.IsInvoke() || namedOf(call.Call.Value.Type()) != r.storageIface {
		return nil
	}
	if name != "" && call.Call.Method.Name() != name {
		return nil
	}
	return call
}

// errOf returns the error result value (extract) of a call returning (..., error) or error.
func errOf(call *ssa.Call) ssa.Value {
	rs := call.Call.Signature().Results()
	if rs.Len() == 1 && ir.IsErrorType(rs.At(0).Type()) {
		return call
	}
	if call.Referrers() == nil {
		return nil
	}
	for _, ref := range *call.Referrers() {
		if ex, ok := ref.(*ssa.Extract); ok && ex.Index == rs.Len()-1 && ir.IsErrorType(ex.Type()) {
			return ex
		}
	}
	return nil
}

// successEdgeOf reports whether the CFG edge from->to establishes "the error of call is nil" (or the bool result true).
func successEdgeOf(call *ssa.Call, from, to *ssa.BasicBlock) bool {
	f := ir.EdgeFact(from, to)
	if f == nil {
		return false
	}
	if cm, ok := f.Cmp(); ok {
		ev := errOf(call)
		if ev != nil && cm.Op == token.EQL && ((ir.Resolve(cm.X) == ev && ir.IsNilConst(cm.Y)) || (ir.Resolve(cm.Y) == ev && ir.IsNilConst(cm.X))) {
			return true
		}
	}
	ff := f.StripNot()
	if ff.Cond == ssa.Value(call) && ff.True {
		return true
	}
	// a phi of the error (loop variable) tested against nil: the edge counts when the tested value's only
	// non-initial source is this call and the edge is the nil edge taken right after the call
	return false
}

// possibleSuccessExit reports whether ret may be a success exit of fn.
// successExitPoint is possibleSuccessExit for one exit point (a return split by the alternatives of its results).
func successExitPoint(fn *ssa.Function, e ir.ExitPoint) bool {
	rs := fn.Signature.Results()
	if rs.Len() == 0 {
		return true
	}
	last := rs.At(rs.Len() - 1).Type()
	v := e.Result(rs.Len() - 1)
	if ir.IsErrorType(last) {
		if v != nil && knownNonNilErr(v) {
			return false
		}
		return ir.ClassifyErr(v, e.Block) != ir.ErrNonNil
	}
	if types.Identical(last, types.Typ[types.Bool]) {
		if b := ir.ConstVal(ir.Resolve(v)); b != nil {
			return b.String() == "true"
		}
		return true
	}
	return true
}

// knownNonNilErr: an error built by fmt.Errorf / errors.New, a package-level sentinel, or the result of a repository
// function all of whose returns are such.
func knownNonNilErr(v ssa.Value) bool {
	v = ir.Resolve(v)
	switch x := v.(type) {
	case *ssa.Call:
		switch ir.CalleeFullName(x) {
		case "fmt.Errorf", "errors.New":
			return true
		}
		if cal := ir.StaticCallee(x); cal != nil && len(cal.Blocks) > 0 {
			all := true
			rets := ir.Returns(cal)
			for _, r := range rets {
				if len(r.Results) != 1 {
					all = false
					break
				}
				if call2, ok := ir.Resolve(r.Results[0]).(*ssa.Call); !ok || (ir.CalleeFullName(call2) != "fmt.Errorf" && ir.CalleeFullName(call2) != "errors.New") {
					all = false
				}
			}
			return all && len(rets) > 0
		}
	case *ssa.UnOp:
		if _, ok := x.X.(*ssa.Global); ok {
			return true
		}
	}
	return false
}

func possibleSuccessExit(fn *ssa.Function, ret *ssa.Return) bool {
	rs := fn.Signature.Results()
	if rs.Len() == 0 {
		return true
	}
	last := rs.At(rs.Len() - 1).Type()
	v := ir.ResultValue(ret, rs.Len()-1)
	if ir.IsErrorType(last) {
		return ir.ClassifyErr(v, ret.Block()) != ir.ErrNonNil
	}
	if types.Identical(last, types.Typ[types.Bool]) {
		if b := ir.ConstVal(ir.Resolve(v)); b != nil {
			return b.String() == "true"
		}
		return true
	}
	return true
}

// acquires computes R1 for fn given the set of acquiring calls; returns a witness description or "".
func (c *Ctx) acquirePath(r *lockRoles, fn *ssa.Function) (bool, string, ssa.Instruction) {
	isAcqCall := func(in ssa.Instruction) *ssa.Call {
		if cr := r.storageCall(in, "Create"); cr != nil {
			return cr
		}
		if call, ok := in.(*ssa.Call); ok && r.acquiring[ir.StaticCallee(call)] {
			return call
		}
		return nil
	}
	var acqCalls []*ssa.Call
	ir.Instrs(fn, func(in ssa.Instruction) {
		if a := isAcqCall(in); a != nil {
			acqCalls = append(acqCalls, a)
		}
	})
	blockEdge := func(from, to *ssa.BasicBlock) bool {
		for _, a := range acqCalls {
			if successEdgeOf(a, from, to) {
				return true
			}
		}
		return false
	}
	target := func(in ssa.Instruction) bool {
		ret, ok := in.(*ssa.Return)
		if !ok || !ir.IsReturn(in) || !possibleSuccessExit(fn, ret) {
			return false
		}
		// delegation: the returned error is the result of an acquiring call
		rs := fn.Signature.Results()
		if rs.Len() > 0 {
			v := ir.Resolve(ir.ResultValue(ret, rs.Len()-1))
			for _, a := range acqCalls {
				if v == ssa.Value(a) || v == errOf(a) {
					return false
				}
			}
		}
		return true
	}
	// a loop variable carrying the error: `for err == nil { ver, err = Create() ... }` leaves the loop with err != nil;
	// the path engine's facts on the phi make that exit a failure exit (ClassifyErr) - nothing else to do here
	w, err := (ir.Query{Fn: fn, BlockEdge: blockEdge, Target: target}).Find()
	if err != nil {
		return false, "undecided: " + err.Error(), nil
	}
	if w != nil {
		// the same question per path, with phi operands resolved by the path and == nil / != nil on one value identified:
		// a loop that is left by break with the error in a variable, and tests that variable once behind the loop
		pq := ir.PathQuery{Fn: fn, Target: func(in ssa.Instruction, val *ir.Valuation) bool {
			if !target(in) {
				return false
			}
			if exitFailsOnPathYA(fn, in.(*ssa.Return), val) {
				return false // a failure exit on this path (error known non-nil / boolean known false)
			}
			for _, a := range acqCalls {
				if e := errOf(a); e != nil {
					if isNil, known := val.KnownIsNil(e); known && isNil {
						return false // the acquisition succeeded on this path
					}
				}
			}
			return true
		}}
		w2, err2 := pq.Find()
		if err2 == nil && w2 == nil {
			return true, "", nil
		}
		if w2 != nil {
			return false, w2.String(c.P), w2.End
		}
		return false, w.String(c.P), w.End
	}
	return true, "", nil
}

// acquiringSummaries computes, to a fixed point, the private Locker methods that "acquire": every possible success exit
// of theirs lies behind the success edge of Storage.Create (C01.R1 for helpers). record: list them in the role table.
func (c *Ctx) acquiringSummaries(r *lockRoles, record bool) {
	for changed := true; changed; {
		changed = false
		for _, fn := range c.P.MethodsOf(r.locker) {
			if fn.Object().Exported() || len(fn.Blocks) == 0 || r.acquiring[fn] {
				continue
			}
			// a candidate must contain an acquiring call at all
			has := false
			ir.Instrs(fn, func(in ssa.Instruction) {
				if r.storageCall(in, "Create") != nil {
					has = true
				}
				if call, ok := in.(*ssa.Call); ok && r.acquiring[ir.StaticCallee(call)] {
					has = true
				}
			})
			if !has {
				continue
			}
			ok, why, _ := c.acquirePath(r, fn)
			if !ok && os.Getenv("VERIF_DEBUG") != "" {
				fmt.Fprintf(os.Stderr, "debug: %s is not an acquiring helper: %s\n", ir.FnName(fn), why)
			}
			if ok {
				r.acquiring[fn] = true
				changed = true
				if record {
					c.Role("locker.acquiringHelper", ir.FnName(fn), fn.Pos()) // tolerated, not required: the normal form may inline it
				}
			}
		}
	}
}

func runC01(c *Ctx) {
	r := resolveLockRoles(c)
	// helper summaries to a fixed point
	c.acquiringSummaries(r, true)
	for _, fn := range []*ssa.Function{r.tryLock, r.lock, r.lockCtx} {
		ok, w, at := c.acquirePath(r, fn)
		if strings.HasPrefix(w, "undecided") {
			c.Undecided("C01.R1", fn, "success only through a successful Create", nil, w)
			continue
		}
		c.Decide("C01.R1", fn, "success only through a successful Create", at, ok, "a caller is told it holds the lock on a path that does not pass the success edge of Storage.Create (create-if-absent is the only acquisition point): "+w)
	}
	// helpers that contain Create but are not acquiring are reported too (they can leak success)
	c.R.Floor("C01.R1", 3)

	// R2 census
	allowed := map[string]bool{"Create": true, "CasByVersion": true, "Delete": true, "WaitForVersionChange": true, "Get": true}
	n := 0
	for _, fn := range r.all {
		ir.Instrs(fn, func(in ssa.Instruction) {
			call := r.storageCall(in, "")
			if call == nil {
				return
			}
			n++
			name := call.Call.Method.Name()
			c.Decide("C01.R2", fn, "storage call "+name+" may touch the lock record", in, allowed[name], "the lock record is written with "+name+": an unconditional write can overwrite the record of another holder")
			if name == "CasByVersion" {
				// the version of the CAS record is a non-constant value
				cell := recordArgCell(call.Call.Args[len(call.Call.Args)-1])
				okV := false
				if cell != nil {
					for _, st := range fieldStores(cell, r.recVersion) {
						if ir.ConstVal(ir.Resolve(st.Val)) == nil {
							okV = true
						}
					}
				}
				c.Decide("C01.R2", fn, "CAS carries the tenure's version", in, okV, "the renewal CAS does not carry a version: it would overwrite any record")
			}
		})
	}
	c.R.Floor("C01.R2", 5)

	// R3 delete by holder only, R6 at most one delete
	for _, fn := range r.all {
		ir.Instrs(fn, func(in ssa.Instruction) {
			del := r.storageCall(in, "Delete")
			if del == nil {
				return
			}
			guarded := ir.HasFact(in.Block(), func(f ir.Fact) bool {
				ff := f.StripNot()
				call, ok := ff.Cond.(*ssa.Call)
				if !ok || !ff.True {
					return false
				}
				op, addr, args, isAtomic := ir.AtomicCall(call)
				if !isAtomic || op != "CompareAndSwap" || len(args) != 2 {
					return false
				}
				o, _ := ir.ConstInt(args[0])
				nn, _ := ir.ConstInt(args[1])
				_, isFlag := fieldAddrOf(addr, r.heldF)
				return isFlag && o == 1 && nn == 0
			})
			c.Decide("C01.R3", fn, "Delete only by the holder", in, guarded, "the lock record is deleted on a path that is not the holder's (CompareAndSwap(held,1,0) true edge): a failed or foreign attempt removes the holder's record")
			w, _ := (ir.Query{Fn: fn, From: in, Target: func(x ssa.Instruction) bool { return r.storageCall(x, "Delete") != nil }}).Find()
			c.Decide("C01.R6", fn, "at most one Delete per tenure", in, w == nil, "Delete can be issued again after a first Delete (retry): if the first was applied but its reply lost, the repeat removes the record of the next holder")
		})
	}
	c.R.Floor("C01.R3", 1)

	// R4 same key
	for _, fn := range r.all {
		ir.Instrs(fn, func(in ssa.Instruction) {
			call := r.storageCall(in, "")
			if call == nil {
				return
			}
			var keyV ssa.Value
			switch call.Call.Method.Name() {
			case "Create", "CasByVersion":
				cell := recordArgCell(call.Call.Args[1])
				if cell != nil {
					for _, st := range fieldStores(cell, r.recKey) {
						keyV = st.Val
					}
				}
			case "Delete", "WaitForVersionChange", "Get":
				keyV = call.Call.Args[1]
			default:
				return
			}
			ok := keyV != nil && ir.LoadedField(keyV) == r.keyF
			c.Decide("C01.R4", fn, "storage call uses the Locker's key", in, ok, "a storage call of the lock uses a key that is not the Locker's own key field")
		})
		ir.Instrs(fn, func(in ssa.Instruction) {
			if _, _, ok := storeToField(in, r.keyF); ok {
				c.Decide("C01.R4", fn, "key assigned only by NewLocker", in, fn == r.newLocker, "the Locker's key is modified after construction")
			}
		})
	}
	c.R.Floor("C01.R4", 6)

	// R5 atomic only
	for _, fn := range r.all {
		ir.Instrs(fn, func(in ssa.Instruction) {
			fa, ok := in.(*ssa.FieldAddr)
			if !ok || ir.FieldOf(fa) != r.heldF || fa.Referrers() == nil {
				return
			}
			okA := true
			for _, ref := range *fa.Referrers() {
				if _, _, _, isAtomic := ir.AtomicCall(ref); !isAtomic {
					okA = false
				}
			}
			c.Decide("C01.R5", fn, "held flag touched atomically", in, okA, "the held flag is read or written without sync/atomic")
		})
	}
	c.R.Floor("C01.R5", 5)

	c.renewalOnlyCAS(r, "C01.R7")
	c.noSuccessAfterGiveBack(r, "C01.R8")
	c.renewalContext(r, "C01.L2")
	// L3: the first renewal is due before the lease of the record it renews runs out; L4: a renewal never cancels the
	// timer it finds in the slot (it may be the live timer of a later tenure)
	c.armOnAcquire(r, "C01.L3", false)
	c.R.Floor("C01.L3", 2)
	c.renewalCancelsOwnTimer(r, "C01.L4")
	// L5: a renewal run that steps aside without a CAS attempt is justified only by the end of its tenure (C05.L13): a
	// tenure that is never renewed lapses under its holder and a second caller creates the record
	c.renewalAttemptsUnlessTenureOver(r, "C01.L5")
	// L1: a record written with a stale or missing lease lapses under its holder and a second caller acquires
	c.leaseOnWrite(r, "C01.L1")
	// S: the storage the lock races on is atomic per operation and decides Create on the absent edge (in-memory backend)
	im := resolveInmemRoles(c)
	c.inmemCriticalSections(im, "C01.S1")
	c.inmemClassEdges(im, "C01.S2", "")
	// S3: the renewal CAS tells the tenures of one lock name apart by the record version only ("a stale timer of a previous
	// tenure can never touch a newer record"): every record the storage writes gets a version no earlier record of the key
	// had - a per-record counter restarts when the record is deleted and re-created, tenure 2 starts at the version tenure
	// 1 started at, a renewal of tenure 1 still in flight renews (and re-versions) the record of tenure 2, whose own
	// renewal then meets a conflict and stops: the record lapses under the holder
	c.inmemFreshVersions(im, "C01.S3")
	c.idGenerator("C01.S3")
	// S4: the lock record is not dropped while its (renewed) lease runs: a record leaves the table only on the expired edge
	// of an expiry decision taken on it under the lock, or by Delete (the rule of C06.R9) - a live lock record purged early lets
	// a second locker Create it: two holders
	c.inmemDeleteExamined(im, "C01.S4")
	// T: the lease timers. Unlock cancels the timer object it finds in the Locker's slot; that this can only ever be a
	// timer armed for this Locker (and, once fired, a dead object) is the timer package's index/cancel discipline and its
	// "Call hands out a fresh object" rule (C12): a recycled future makes a late Cancel hit the live renewal timer of
	// another lock, whose lease then runs out under its holder
	timerRules(c, "C01.T")
}

// recordArgCell returns the local cell a record argument (load of an alloc) was read from.
func recordArgCell(v ssa.Value) *ssa.Alloc {
	if u, ok := v.(*ssa.UnOp); ok && u.Op == token.MUL {
		a, _ := u.X.(*ssa.Alloc)
		return a
	}
	return nil
}

// fieldStores returns the stores into field f of cell.
func fieldStores(cell *ssa.Alloc, f *types.Var) []*ssa.Store {
	var res []*ssa.Store
	if cell.Referrers() == nil {
		return nil
	}
	for _, ref := range *cell.Referrers() {
		fa, ok := ref.(*ssa.FieldAddr)
		if !ok || ir.FieldOf(fa) != f || fa.Referrers() == nil {
			continue
		}
		for _, r2 := range *fa.Referrers() {
			if st, ok := r2.(*ssa.Store); ok && st.Addr == ssa.Value(fa) {
				res = append(res, st)
			}
		}
	}
	return res
}

func runC04(c *Ctx) {
	r := resolveLockRoles(c)
	// R1 token back on failure: in every locker function that calls a token helper
	n := 0
	for _, fn := range r.lockerFns {
		for _, in := range ir.Calls(fn) {
			call := r.tokenHelperCall(in)
			if call == nil {
				continue
			}
			// the block entered on the helper's success edge
			var okBlk *ssa.BasicBlock
			for _, b := range fn.Blocks {
				for _, s := range b.Succs {
					if successEdgeOf(call, b, s) {
						okBlk = s
					}
				}
			}
			// Two forms of one obligation. The dominance form starts on the helper's success edge and looks for exits that
			// are failures by their shape (`return false`, `return <error known non-nil here>`). The per-path form starts at
			// the call, follows every path on which the helper is not known to have failed (so: the token was taken), and
			// counts an exit as failing also when the path decided so about the returned value (`return err == nil` behind
			// err != nil; a result variable assigned on several ways). It asks about more paths and more exits, never
			// fewer; C01.R1 classifies exits per path in the same way, so every exit of every path is either obligated here
			// (failure: token and flag go back) or there (possible success: through a successful Create).
			helperErr := errOf(call)
			failing := func(x ssa.Instruction, val *ir.Valuation) bool {
				ret, isRet := x.(*ssa.Return)
				if !isRet || !ir.IsReturn(x) {
					return false
				}
				if helperErr != nil {
					if isNil, known := val.KnownIsNil(helperErr); known && !isNil {
						return false // the token was not taken on this path
					}
				} else if k, known := val.Known(call); known && !k {
					return false
				}
				return !possibleSuccessExit(fn, ret) || exitFailsOnPathYA(fn, ret, val)
			}
			failure := func(x ssa.Instruction) bool {
				ret, isRet := x.(*ssa.Return)
				return isRet && ir.IsReturn(x) && !possibleSuccessExit(fn, ret)
			}
			n++
			for _, ob := range []struct {
				construct string
				passes    func(ssa.Instruction) bool
				what      string
			}{
				{"failure exit returns the token", r.tokenSend, "an attempt fails after taking the local token and does not put it back: this Locker can never acquire again (TryLock false forever, Lock blocks) although the lock is free"},
				{"failure exit resets the held flag", r.flagReset, "an attempt fails after taking the local token and leaves the held flag set"},
			} {
				if okBlk != nil {
					w, err := (ir.Query{Fn: fn, FromBlock: okBlk, Block: ob.passes, Target: failure}).Find()
					if err != nil {
						c.Undecided("C04.R1", fn, ob.construct, call, err.Error())
						continue
					}
					if w != nil {
						c.Decide("C04.R1", fn, ob.construct, call, false, ob.what+": path "+w.String(c.P))
						continue
					}
				}
				c.pathVerdict("C04.R1", fn, ob.construct, call, ir.PathQuery{Fn: fn, From: call, Stop: ob.passes, Target: failing}, ob.what)
			}
			// a success exit keeps both (the token is returned by Unlock)
		}
	}
	if n == 0 {
		c.Decide("C04.R1", r.tryLock, "attempts take the local token", nil, false, "no call of a token helper found")
	}
	c.R.Floor("C04.R1", 4)

	// R2 unlock releases
	{
		fn := r.unlock
		c.unlockDeletes(r, "C04.R2")
		c.NoPath("C04.R2", "Unlock returns the token", nil, ir.Query{Fn: fn, Block: r.tokenSend, Target: ir.IsExit},
			"Unlock can return without putting the local token back: goroutines sharing this Locker block forever")
	}

	// R3 closed retry loop
	for fn := range r.acquiringFns(c) {
		ir.Instrs(fn, func(in ssa.Instruction) {
			wait := r.storageCall(in, "WaitForVersionChange")
			if wait == nil {
				return
			}
			// on the ErrExist edge
			onExist := ir.HasFact(in.Block(), func(f ir.Fact) bool {
				ff := f.StripNot()
				call, ok := ff.Cond.(*ssa.Call)
				if !ok || !ff.True || !strings.HasSuffix(ir.CalleeFullName(call), "errors.Is") || len(call.Call.Args) != 2 {
					return false
				}
				g := globalOf(call.Call.Args[1])
				return g != nil && g.Name() == "ErrExist"
			})
			c.Decide("C04.R3", fn, "wait only when the record exists", in, onExist, "WaitForVersionChange is not on the errors.Is(err, ErrExist) edge of the failed Create")
			// version argument = result #0 of the Create
			okVer := false
			for _, o := range ir.Origins(wait.Call.Args[2]) {
				if ex, isEx := o.(*ssa.Extract); isEx && ex.Index == 0 {
					if cr, isCall := ex.Tuple.(*ssa.Call); isCall && r.storageCall(cr, "Create") != nil {
						okVer = true
					}
				}
			}
			c.Decide("C04.R3", fn, "wait on the version the failed Create reported", in, okVer, "the waiter does not wait on the version returned by the failed Create (a stale or empty version returns at once: busy loop, or misses the hand-off)")
			// Create reachable again
			w, _ := (ir.Query{Fn: fn, From: in, Target: func(x ssa.Instruction) bool { return r.storageCall(x, "Create") != nil }}).Find()
			c.Decide("C04.R3", fn, "Create is retried after the wait", in, w != nil, "after the wait the attempt does not go back to Create")
			// the loop condition on the back edge is a fresh ctx.Err()
			okFresh := false
			ir.Instrs(fn, func(x ssa.Instruction) {
				p, isPhi := x.(*ssa.Phi)
				if !isPhi || !ir.IsErrorType(p.Type()) {
					return
				}
				for i, e := range p.Edges {
					pred := p.Block().Preds[i]
					if pred == in.Block() || in.Block().Dominates(pred) {
						if call, isCall := ir.Resolve(e).(*ssa.Call); isCall && call.Call.IsInvoke() && call.Call.Method.Name() == "Err" && ir.Dominates(in, call) {
							okFresh = true
						}
					}
				}
			})
			if !okFresh {
				// the same requirement without the loop-variable shape: knowing what is known at the wait (the Create failed
				// with ErrExist), some path leads back to Create - a loop test on the stale error would cut every one of them
				pw, perr := (ir.PathQuery{Fn: fn, From: in, FromFacts: true, Target: func(x ssa.Instruction, _ *ir.Valuation) bool {
					return r.storageCall(x, "Create") != nil
				}}).Find()
				okFresh = perr == nil && pw != nil
			}
			c.Decide("C04.R3", fn, "loop continues on a fresh ctx.Err()", in, okFresh, "after the wait the loop variable still holds the stale ErrExist: the loop ends and the hand-off is lost")
		})
	}
	c.R.Floor("C04.R3", 4)

	// R4 shutdown re-check; R5 cancellable local wait
	for h := range r.tokenHelpers {
		for _, e := range ir.ExitPoints(h) {
			ret := e.Ret
			if !successExitPoint(h, e) {
				continue
			}
			ok := e.HasFact(r.openFact)
			c.Decide("C04.R4", h, "token granted only while not shut down", ret, ok, "the token helper succeeds without re-checking the shutdown channel after taking the token: an attempt can acquire after Shutdown")
			// and the token was received on this path
			c.NoPath("C04.R4", "success exit passed the token receive", ret, ir.Query{Fn: h, Block: r.tokenRecv, Target: func(x ssa.Instruction) bool { return x == ssa.Instruction(ret) }},
				"the token helper can succeed without having taken the token")
		}
		// ctx-taking helper: select has ctx.Done() case whose branch returns ctx.Err()
		hasCtx := false
		for _, p := range h.Params {
			if ir.IsNamed(p.Type(), "context", "Context") {
				hasCtx = true
			}
		}
		if hasCtx {
			okDone, okErr := false, false
			ir.Instrs(h, func(in ssa.Instruction) {
				if sel, isSel := in.(*ssa.Select); isSel {
					for _, st := range sel.States {
						if call, isCall := ir.Resolve(st.Chan).(*ssa.Call); isCall && call.Call.IsInvoke() && call.Call.Method.Name() == "Done" {
							okDone = true
						}
					}
				}
			})
			for _, ret := range ir.Returns(h) {
				if call, isCall := ir.Resolve(ir.ResultValue(ret, 0)).(*ssa.Call); isCall && call.Call.IsInvoke() && call.Call.Method.Name() == "Err" {
					okErr = true
				}
			}
			c.Decide("C04.R5", h, "local wait is cancellable and returns ctx.Err()", nil, okDone && okErr, "the wait for the local token has no ctx.Done() case returning ctx.Err()")
		}
		// every helper listens to the done channel
		okShut := false
		ir.Instrs(h, func(in ssa.Instruction) {
			if sel, isSel := in.(*ssa.Select); isSel {
				for _, st := range sel.States {
					if ir.LoadedField(st.Chan) == r.doneF {
						okShut = true
					}
				}
			}
		})
		c.Decide("C04.R5", h, "local wait ends on Shutdown", nil, okShut, "the wait for the local token does not listen to the shutdown channel")
	}
	{
		ok := false
		ir.Instrs(r.shutdown, func(in ssa.Instruction) {
			if cc := builtinCall(in, "close"); cc != nil && ir.LoadedField(cc.Args[0]) == r.doneF {
				ok = true
			}
		})
		c.Decide("C04.R5", r.shutdown, "Shutdown closes the done channel", nil, ok, "Shutdown does not close the done channel")
	}
	// failure exits of LockWithCtx return ctx.Err(), the Create error or the helper's error (not nil): by exit classification

	c.renewalOnlyCAS(r, "C04.R6")
	c.noSuccessAfterGiveBack(r, "C04.R7")
	c.epilogueOrder(r, "C04.R9")
	c.createdRecordNotLeftBehind(r, "C04.R10")
	c.R.Floor("C04.R10", 2)

	// R8 shutdown is re-checked after every storage wait: an attempt that was parked in WaitForVersionChange when
	// Shutdown happened must not go back to Create - on every path from the return of the wait to the next Create the
	// shutdown test (chans.IsOpened(done), decided "open") lies in between, or the path goes through a token helper
	// (which tests, R4). Paths are enumerated with phi operands resolved per path, so "the loop variable is the fresh
	// ctx.Err()" is followed precisely.
	isShutdownTest := func(v ssa.Value) bool {
		call, ok := v.(*ssa.Call)
		return ok && strings.HasSuffix(ir.CalleeFullName(call), "chans.IsOpened") && len(call.Call.Args) == 1 && ir.LoadedField(call.Call.Args[0]) == r.doneF
	}
	nR8 := 0
	for fn := range r.acquiringFns(c) {
		var tests []ssa.Value
		type selTest struct {
			v        ssa.Value
			wantTrue bool // the value being wantTrue means "open"
		}
		var selTests []selTest
		ir.Instrs(fn, func(in ssa.Instruction) {
			if v, ok := in.(ssa.Value); ok && isShutdownTest(v) {
				tests = append(tests, v)
			}
			if bo, ok := in.(*ssa.BinOp); ok && (bo.Op == token.EQL || bo.Op == token.NEQ) {
				if r.openFact(ir.Fact{Cond: bo, True: true}) {
					selTests = append(selTests, selTest{bo, true})
				} else if r.openFact(ir.Fact{Cond: bo, True: false}) {
					selTests = append(selTests, selTest{bo, false})
				}
			}
			if pc, ok := in.(*ssa.Call); ok && !isShutdownTest(pc) {
				// a predicate of the package whose answer implies "open" (v_lock_g4.go)
				if r.openByPredicateVG(ir.Fact{Cond: pc, True: false}) {
					selTests = append(selTests, selTest{pc, false})
				} else if r.openByPredicateVG(ir.Fact{Cond: pc, True: true}) {
					selTests = append(selTests, selTest{pc, true})
				}
			}
		})
		ir.Instrs(fn, func(in ssa.Instruction) {
			w := r.storageCall(in, "WaitForVersionChange")
			if w == nil {
				return
			}
			nR8++
			q := ir.PathQuery{Fn: fn, From: in,
				Stop: func(x ssa.Instruction) bool {
					return r.tokenHelperCall(x) != nil
				},
				Target: func(x ssa.Instruction, val *ir.Valuation) bool {
					if r.storageCall(x, "Create") == nil {
						return false
					}
					for _, t := range tests {
						if k, ok := val.Known(t); ok && k {
							return false
						}
					}
					for _, t := range selTests {
						if k, ok := val.Known(t.v); ok && k == t.wantTrue {
							return false
						}
					}
					return true
				}}
			c.pathVerdict("C04.R8", fn, "shutdown is re-checked between the storage wait and the next Create", in, q,
				"an attempt that returns from the storage wait goes back to Create without testing the shutdown channel: a caller parked in WaitForVersionChange when Shutdown() ran acquires the lock afterwards")
		})
	}
	if nR8 == 0 {
		c.R.Errorf("C04.R8 matched no storage wait in an acquiring function")
	}

	// W: the storage-level hand-off (in-memory)
	im := resolveInmemRoles(c)
	c.inmemNotifyAfterMutate(im, "C04.W1")
	c.inmemWaitRules(im, "C04.W2", "C04.W3", "", "", "C04.W6")
	c.inmemRegistrationBalance(im, "C04.W7")
	c.contextObservedAfterLocalWait(r, im, "C04.R11")
	c.tokenKeptOnlyAfterShutdown(r, "C04.R12")
	c.waiterReturnsOnEndedContext(im, "C04.W8")
}

// acquiringFns returns the locker functions that contain the Create retry logic.
func (r *lockRoles) acquiringFns(c *Ctx) map[*ssa.Function]bool {
	res := map[*ssa.Function]bool{}
	for _, fn := range r.lockerFns {
		ir.Instrs(fn, func(in ssa.Instruction) {
			if r.storageCall(in, "WaitForVersionChange") != nil {
				res[fn] = true
			}
		})
	}
	return res
}

func runC05(c *Ctx) {
	r := resolveLockRoles(c)
	isTimeoutCall := func(in ssa.Instruction) *ssa.Call {
		call, ok := in.(*ssa.Call)
		if ok && strings.HasSuffix(ir.CalleeFullName(call), "/timeout.Call") {
			return call
		}
		return nil
	}
	c.leaseOnWrite(r, "C05.L1")

	// L2 arm on acquire
	c.armOnAcquire(r, "C05.L2", true)
	c.R.Floor("C05.L2", 4)

	// L3/L4/L5/L6 in the renewal routine
	{
		fn := r.renewal
		var cas *ssa.Call
		ir.Instrs(fn, func(in ssa.Instruction) {
			if x := r.storageCall(in, "CasByVersion"); x != nil {
				cas = x
			}
		})
		if cas == nil {
			c.Decide("C05.L5", fn, "renewal is a CAS on the lock record", nil, false, "the renewal routine does not renew with CasByVersion")
		} else {
			cell := recordArgCell(cas.Call.Args[1])
			okVer, okKey := false, false
			if cell != nil {
				for _, st := range fieldStores(cell, r.recVersion) {
					if _, isInput := r.renewalInput(st.Val); isInput {
						okVer = true
					}
				}
				for _, st := range fieldStores(cell, r.recKey) {
					if ir.LoadedField(st.Val) == r.keyF {
						okKey = true
					}
				}
			}
			c.Decide("C05.L5", fn, "renewal CAS carries the version it was armed with, on the Locker's key", cas, okVer && okKey, "the renewal does not compare-and-set the Locker's key with the version of its tenure: a stale timer could touch a newer record")
			// L6 context
			c.renewalContext(r, "C05.L6")
			// L3: success edge re-arms with the new version
			var okBlk *ssa.BasicBlock
			for _, b := range fn.Blocks {
				for _, s := range b.Succs {
					if successEdgeOf(cas, b, s) {
						okBlk = s
					}
				}
				// `if err != nil {return}` : the false edge of err != nil
			}
			if okBlk == nil {
				// the success block is the false successor of (err != nil)
				for _, b := range fn.Blocks {
					if len(b.Succs) != 2 {
						continue // exit blocks have no successor: nothing to index
					}
					if f := ir.EdgeFact(b, b.Succs[1]); f != nil {
						if cm, ok := f.Cmp(); ok && cm.Op == token.EQL && ir.Resolve(cm.X) == errOf(cas) && ir.IsNilConst(cm.Y) {
							okBlk = b.Succs[1]
						}
					}
				}
			}
			rearm := func(x ssa.Instruction) bool {
				tc := isTimeoutCall(x)
				return tc != nil && r.armsRenewalWithNewVersion(tc, cas)
			}
			if okBlk == nil {
				c.Undecided("C05.L3", fn, "successful renewal re-arms", cas, "cannot find the success edge of the renewal CAS")
			} else {
				c.NoPath("C05.L3", "successful renewal re-arms with the new version", cas, ir.Query{Fn: fn, FromBlock: okBlk, Block: rearm, Target: ir.IsExit},
					"after a successful renewal no further renewal is armed with the new version: the lease is renewed once and then lapses under the holder")
			}
			// L3b: exits after a definitive loss arm nothing and write nothing; L4: exits that arm nothing are definitive losses
			definitive := func(b *ssa.BasicBlock) bool {
				return ir.HasFact(b, func(f ir.Fact) bool {
					ff := f.StripNot()
					call, ok := ff.Cond.(*ssa.Call)
					if !ok || !ff.True || !strings.HasSuffix(ir.CalleeFullName(call), "errors.Is") || len(call.Call.Args) != 2 {
						return false
					}
					g := globalOf(call.Call.Args[1])
					return g != nil && (g.Name() == "ErrNotExist" || g.Name() == "ErrConflict") && ir.Resolve(call.Call.Args[0]) == errOf(cas)
				})
			}
			// a renewal re-armed on the error side of the CAS must have excluded BOTH definitive losses
			ir.Instrs(fn, func(in ssa.Instruction) {
				tc := isTimeoutCall(in)
				if tc == nil {
					return
				}
				onErr := hasFactCmp(in.Block(), func(cm ir.Cmp) bool {
					return cm.Op == token.NEQ && ir.Resolve(cm.X) == errOf(cas) && ir.IsNilConst(cm.Y)
				})
				if !onErr {
					return
				}
				excluded := map[string]bool{}
				for _, f := range ir.Facts(in.Block()) {
					ff := f.StripNot()
					call, ok := ff.Cond.(*ssa.Call)
					if !ok || ff.True || !strings.HasSuffix(ir.CalleeFullName(call), "errors.Is") || len(call.Call.Args) != 2 {
						continue
					}
					if g := globalOf(call.Call.Args[1]); g != nil && ir.Resolve(call.Call.Args[0]) == errOf(cas) {
						excluded[g.Name()] = true
					}
				}
				c.Decide("C05.L3", fn, "retry only after a non-definitive error", in, excluded["ErrNotExist"] && excluded["ErrConflict"],
					"a renewal is re-armed after a CAS error without excluding ErrNotExist AND ErrConflict: after Unlock (or after another holder took over) the stale renewal keeps hitting the storage for as long as anyone holds the lock")
			})
			for _, ret := range ir.Returns(fn) {
				ret := ret
				// does some path from the CAS to this return avoid arming?
				w, _ := (ir.Query{Fn: fn, From: cas, Block: func(x ssa.Instruction) bool { return isTimeoutCall(x) != nil }, Target: func(x ssa.Instruction) bool { return x == ssa.Instruction(ret) }}).Find()
				if w == nil {
					continue // every path to this exit arms a renewal
				}
				if definitive(ret.Block()) {
					c.Decide("C05.L3", fn, "definitive loss: chain ends silently", ret, true, "")
					continue
				}
				c.Decide("C05.L4", fn, "cas-error-exit", ret, false, "the renewal chain ends on an exit that is not dominated by a positive test for ErrNotExist/ErrConflict: one transient storage error stops all further renewals and the record expires under a live holder")
			}
		}
	}

	c.renewalOnlyCAS(r, "C05.L8")
	c.unlockDeletes(r, "C05.L10")
	c.renewalCancelsOwnTimer(r, "C05.L11")
	c.waitEndsForCallerReasons(r, "C05.L12")
	c.renewalAttemptsUnlessTenureOver(r, "C05.L13")
	c.renewalVersionPerTenure(r, "C05.L14")
	c.periodFromWrittenLease(r, "C05.L2", "C05.L3")
	c.deleteOnlyAsHolder(r, "C05.L15")

	// L9: a renewal that is in flight while the holder unlocks arms nothing. Unlock can cancel only the timer it finds in
	// the slot; a renewal whose timer has already fired arms its successor after that. The renewal therefore has to look
	// at the tenure itself: the timer it has just armed is cancelled under a condition that depends on the Locker's
	// held flag / tenure (an atomic load of a Locker field, or a Locker method reading one) - the compare-and-swap of the
	// timer slot alone does not see an Unlock, which leaves the slot untouched.
	{
		fn := r.renewal
		lockerLoads := func(v ssa.Value) bool {
			found := false
			var visit func(v ssa.Value, d int)
			visit = func(v ssa.Value, d int) {
				if d > 5 || v == nil || found {
					return
				}
				switch x := ir.Resolve(v).(type) {
				case *ssa.Call:
					name := ir.CalleeFullName(x)
					if op, addr, _, isAtomic := ir.AtomicCall(x); isAtomic && op == "Load" {
						_ = name
						if fa, ok := addr.(*ssa.FieldAddr); ok && namedOf(fa.X.Type()) == r.locker {
							found = true
							return
						}
					}
					if cal := ir.StaticCallee(x); cal != nil && cal.Signature.Recv() != nil && namedOf(cal.Signature.Recv().Type()) == r.locker && len(cal.Blocks) > 0 {
						// a Locker method that reads an atomic field (isLocked())
						ir.Instrs(cal, func(in ssa.Instruction) {
							if op, _, _, isAtomic := ir.AtomicCall(in); isAtomic && op == "Load" {
								found = true
							}
						})
					}
				case *ssa.BinOp:
					visit(x.X, d+1)
					visit(x.Y, d+1)
				case *ssa.UnOp:
					visit(x.X, d+1)
				case *ssa.Phi:
					for _, e := range x.Edges {
						visit(e, d+1)
					}
				}
			}
			visit(v, 0)
			return found
		}
		allGuarded, nArm := true, 0
		var firstBad ssa.Instruction
		ir.Instrs(fn, func(in ssa.Instruction) {
			tc := isTimeoutCall(in)
			if tc == nil {
				return
			}
			nArm++
			guarded := false
			ir.Instrs(fn, func(x ssa.Instruction) {
				call, ok := x.(*ssa.Call)
				if !ok || !call.Call.IsInvoke() || call.Call.Method.Name() != "Cancel" {
					return
				}
				isNew := false
				for _, o := range ir.Origins(call.Call.Value) {
					if o == ssa.Value(tc) {
						isNew = true
					}
				}
				if !isNew {
					return
				}
				// the cancellation is controlled by a tenure test: some branch condition between the arming and the
				// Cancel (facts of the Cancel's block, and the phi-merged conditions feeding them) reads a Locker field
				for _, f := range ir.Facts(call.Block()) {
					if lockerLoads(f.StripNot().Cond) {
						guarded = true
					}
				}
				for _, p := range call.Block().Preds {
					if iff, ok := p.Instrs[len(p.Instrs)-1].(*ssa.If); ok && lockerLoads(iff.Cond) {
						guarded = true
					}
					for _, pp := range p.Preds {
						if iff, ok := pp.Instrs[len(pp.Instrs)-1].(*ssa.If); ok && lockerLoads(iff.Cond) && ir.Dominates(tc, iff) {
							guarded = true
						}
					}
				}
			})
			if !guarded {
				allGuarded = false
				if firstBad == nil {
					firstBad = in
				}
			}
		})
		if nArm > 0 {
			// one obligation for the routine (every arming site of it): the defect is the missing tenure test of the chain
			c.Decide("C05.L9", fn, "rearm-without-tenure-test", firstBad, allGuarded,
				"the renewal arms the next attempt without looking at the tenure: a renewal that is in flight while the holder calls Unlock (its timer has fired, so Unlock's Cancel is a no-op and the timer slot is unchanged) wins the compare-and-swap of the slot and leaves an armed attempt behind after Unlock returned - 'renewal for that tenure dies out ... arms nothing' is broken (the extra attempt reaches the storage half a lease later and fails on the version)")
		}
		c.R.Floor("C05.L9", 1)
	}

	// L7 Unlock cancels the armed timer
	{
		fn := r.unlock
		// the timer read from the slot (plain or comma-ok assertion); the edge on which the slot is found to hold no timer
		// has nothing to cancel (v_lock_shapes.go)
		isCancel := r.cancelsSlotTimerVL
		c.NoPath("C05.L7", "Unlock cancels the armed renewal", nil, ir.Query{Fn: fn, Block: isCancel, BlockFact: r.slotHoldsNoTimerVL, Target: ir.IsExit},
			"Unlock can return without cancelling the armed renewal: the renewal of a finished tenure keeps running")
		// cancel before delete
		ir.Instrs(fn, func(in ssa.Instruction) {
			if r.storageCall(in, "Delete") != nil {
				c.NoPath("C05.L7", "renewal cancelled before the record is deleted", in, ir.Query{Fn: fn, Block: isCancel, BlockFact: r.slotHoldsNoTimerVL, Target: func(x ssa.Instruction) bool { return x == in }},
					"the record is deleted before the renewal timer is cancelled")
			}
		})
	}

	// T: timer rules; E: in-memory expiry
	timerRules(c, "C05.T")
	timerLiveRules(c, "C05.U")
	im := resolveInmemRoles(c)
	c.inmemExpiry(im, "C05.E1")
	c.inmemBoundedPark(im, "C05.E2")
}

// timeoutCallZA returns in as a call of timeout.Call, or nil.
func timeoutCallZA(in ssa.Instruction) *ssa.Call {
	call, ok := in.(*ssa.Call)
	if ok && strings.HasSuffix(ir.CalleeFullName(call), "/timeout.Call") {
		return call
	}
	return nil
}

// armOnAcquire is C05.L2 / C01.L3: every path from a Create to a success exit, on which the Create did not fail, arms a
// renewal with this Create's version and a period of lease/k, k >= 2 (and, withStored, stores it in the timer slot). For
// C01 the period is the point: a first renewal that is due at (or after) the end of the lease finds the record expired,
// the chain ends and a second caller creates the record while the first still holds the lock.
func (c *Ctx) armOnAcquire(r *lockRoles, rule string, withStored bool) {
	isTimeoutCall := timeoutCallZA
	for _, fn := range r.lockerFns {
		ir.Instrs(fn, func(in ssa.Instruction) {
			cr := r.storageCall(in, "Create")
			if cr == nil {
				return
			}
			var okBlk *ssa.BasicBlock
			for _, b := range fn.Blocks {
				for _, s := range b.Succs {
					if successEdgeOf(cr, b, s) {
						okBlk = s
					}
				}
			}
			if okBlk == nil {
				c.Undecided(rule, fn, "renewal armed on acquisition", in, "cannot find the success edge of Create")
				return
			}
			armed := func(x ssa.Instruction) bool {
				tc := isTimeoutCall(x)
				if tc == nil {
					return false
				}
				return r.armsRenewal(tc, cr)
			}
			stored := func(x ssa.Instruction) bool {
				call, ok := x.(*ssa.Call)
				if !ok || slotMethodVV(call) != "Store" {
					return false
				}
				if _, isSlot := fieldAddrOf(call.Call.Args[0], r.timerF); !isSlot {
					return false
				}
				return timeoutCallOfVV(call.Call.Args[1]) != nil // the timer itself, or the box it was put into
			}
			success := func(x ssa.Instruction) bool {
				ret, ok := x.(*ssa.Return)
				return ok && ir.IsReturn(x) && possibleSuccessExit(fn, ret)
			}
			_ = okBlk
			// every path from this Create to a success exit, on which the Create did not fail, arms the renewal (and
			// stores it): paths are enumerated with a per-path valuation, so "err == nil" tested in one place and
			// "err != nil" in another are the same decision
			var errTests []*ssa.BinOp
			ir.Instrs(fn, func(x ssa.Instruction) {
				bo, ok := x.(*ssa.BinOp)
				if !ok || (bo.Op != token.EQL && bo.Op != token.NEQ) {
					return
				}
				for _, pair := range [][2]ssa.Value{{bo.X, bo.Y}, {bo.Y, bo.X}} {
					if ex, isEx := ir.Resolve(pair[0]).(*ssa.Extract); isEx && ex.Tuple == ssa.Value(cr) && ir.IsNilConst(pair[1]) {
						errTests = append(errTests, bo)
					}
				}
			})
			createFailed := func(val *ir.Valuation) bool {
				for _, t := range errTests {
					if k, ok := val.Known(t); ok {
						isNil := k == (t.Op == token.EQL)
						if !isNil {
							return true
						}
					}
				}
				return false
			}
			pq := func(good func(ssa.Instruction) bool) ir.PathQuery {
				return ir.PathQuery{Fn: fn, From: in,
					Stop: func(x ssa.Instruction) bool { return good(x) || (x != in && r.storageCall(x, "Create") != nil) },
					Target: func(x ssa.Instruction, val *ir.Valuation) bool {
						// (an exit the path knows to report failure - `return ok` behind ok = false - is no success exit)
						return success(x) && !createFailed(val) && !exitFailsOnPathYA(fn, x.(*ssa.Return), val)
					}}
			}
			c.pathVerdict(rule, fn, "renewal armed on acquisition", in, pq(armed),
				"the lock is acquired without arming a renewal of the lease (period < lease, closure renewing with this Create's version): the record expires under a live holder")
			if withStored {
				c.pathVerdict(rule, fn, "armed renewal stored in the timer slot", in, pq(stored),
					"the armed renewal is not stored in the Locker's timer slot: Unlock cannot cancel it")
			}
		})
	}
}

// verInput names an input of the renewal routine: parameter param, or - when field is set - that field of the struct
// the parameter (or value receiver) is.
type verInput struct {
	param int
	field *types.Var
	// factory: the routine is a closure built per tenure and the input is parameter `param` of the function that builds
	// it (captured by the closure, written by nothing)
	factory bool
}

// renewalInput: v (inside the renewal routine) is one of the routine's inputs - a parameter, or a field of a struct
// parameter / receiver (`func (lr leaseRenewal) run()` using lr.ver).
func (r *lockRoles) renewalInput(v ssa.Value) (verInput, bool) {
	fn := r.renewal
	idx := func(p *ssa.Parameter) int {
		for i, q := range fn.Params {
			if q == p {
				return i
			}
		}
		return -1
	}
	if fn == r.renewalClosure {
		if k, ok := r.factoryParamYA(v); ok {
			return verInput{param: k, factory: true}, true
		}
	}
	v = ir.Resolve(v)
	if p, ok := v.(*ssa.Parameter); ok && p.Parent() == fn {
		return verInput{param: idx(p)}, idx(p) >= 0
	}
	var base ssa.Value
	var f *types.Var
	switch x := v.(type) {
	case *ssa.UnOp:
		fa, ok := x.X.(*ssa.FieldAddr)
		if x.Op != token.MUL || !ok {
			return verInput{}, false
		}
		base, f = fa.X, ir.FieldOf(fa)
	case *ssa.Field:
		base, f = x.X, ir.FieldOf(x)
	default:
		return verInput{}, false
	}
	if f == nil {
		return verInput{}, false
	}
	// the struct is the parameter itself (pointer or value), or the local the value parameter is spilled to
	holder := base
	if al, ok := base.(*ssa.Alloc); ok && al.Referrers() != nil {
		var stored []ssa.Value
		for _, ref := range *al.Referrers() {
			if st, isSt := ref.(*ssa.Store); isSt && st.Addr == ssa.Value(al) {
				stored = append(stored, st.Val)
			}
		}
		if len(stored) != 1 {
			return verInput{}, false
		}
		base = stored[0]
	}
	if p, ok := ir.Resolve(base).(*ssa.Parameter); ok && p.Parent() == fn && idx(p) >= 0 {
		// never written in the routine: the field still is what the arming site put there
		written := false
		ir.Instrs(fn, func(in ssa.Instruction) {
			if st, isSt := in.(*ssa.Store); isSt {
				if fa, isFA := st.Addr.(*ssa.FieldAddr); isFA && ir.FieldOf(fa) == f && (fa.X == holder || fa.X == ssa.Value(p)) {
					written = true
				}
			}
		})
		return verInput{param: idx(p), field: f}, !written
	}
	return verInput{}, false
}

// renewalVersionInput: the input of the renewal routine its CAS takes the version from.
func (r *lockRoles) renewalVersionInput() (verInput, bool) {
	var res verInput
	found := false
	ir.Instrs(r.renewal, func(in ssa.Instruction) {
		cas := r.storageCall(in, "CasByVersion")
		if cas == nil {
			return
		}
		if cell := recordArgCell(cas.Call.Args[1]); cell != nil {
			for _, st := range fieldStores(cell, r.recVersion) {
				if vi, ok := r.renewalInput(st.Val); ok {
					res, found = vi, true
				}
			}
		}
	})
	return res, found
}

// armedVersions: timeout.Call(f, d) - the values (in terms of the function that arms) that arrive at the renewal
// routine's version input when f runs. f is a closure calling the routine, or the routine as a bound method value.
func (r *lockRoles) armedVersions(tc *ssa.Call) []ssa.Value {
	vi, ok := r.renewalVersionInput()
	if !ok {
		// a routine whose CAS does not use an input (reported by L5): fall back to the first string parameter
		vi = verInput{param: 1}
	}
	if fc, isCall := tc.Call.Args[0].(*ssa.Call); isCall && r.renewalFactory != nil && ir.StaticCallee(fc) == r.renewalFactory {
		// the scheduled function is built by the factory: its inputs are the factory's arguments at this arming site
		var res []ssa.Value
		if r.renewal == r.renewalClosure {
			if vi.factory && vi.param < len(fc.Call.Args) {
				res = append(res, fc.Call.Args[vi.param])
			}
			return res
		}
		// the built closure forwards to the routine: the routine's input in terms of the factory's parameters
		for _, cc := range ir.Calls(r.renewalClosure) {
			call, isC := cc.(*ssa.Call)
			if !isC || ir.StaticCallee(call) != r.renewal || len(call.Call.Args) <= vi.param || vi.field != nil {
				continue
			}
			if k, isParam := r.factoryParamYA(call.Call.Args[vi.param]); isParam && k < len(fc.Call.Args) {
				res = append(res, fc.Call.Args[k])
			}
		}
		return res
	}
	mc, isMC := tc.Call.Args[0].(*ssa.MakeClosure)
	if !isMC {
		return nil
	}
	cl := mc.Fn.(*ssa.Function)
	var res []ssa.Value
	for _, cc := range ir.Calls(cl) {
		call, isCall := cc.(*ssa.Call)
		if !isCall || ir.StaticCallee(call) != r.renewal || len(call.Call.Args) <= vi.param {
			continue
		}
		arg := call.Call.Args[vi.param]
		// a captured variable of a bound-method wrapper has no enclosing function to look its binding up in
		if fv, isFV := arg.(*ssa.FreeVar); isFV && cl.Parent() == nil {
			for i, f := range cl.FreeVars {
				if f == fv && i < len(mc.Bindings) {
					arg = mc.Bindings[i]
				}
			}
		}
		if vi.field == nil {
			res = append(res, arg)
			continue
		}
		for _, o := range ir.Origins(arg) {
			// the struct value loaded from the local it was composed in
			var cell *ssa.Alloc
			switch x := o.(type) {
			case *ssa.UnOp:
				if x.Op == token.MUL {
					cell, _ = x.X.(*ssa.Alloc)
					if fv, isFV := x.X.(*ssa.FreeVar); isFV {
						cell, _ = ir.BindingOf(fv).(*ssa.Alloc)
					}
				}
			case *ssa.Alloc:
				cell = x
			}
			if cell == nil {
				continue
			}
			for _, st := range fieldStores(cell, vi.field) {
				res = append(res, st.Val)
			}
		}
	}
	return res
}

// armsRenewal: timeout.Call(fn, d) where fn is a closure that calls the renewal routine with the version of
// create (through the captured variable) and d = lease / k with k >= 2.
func (r *lockRoles) armsRenewal(tc *ssa.Call, create *ssa.Call) bool {
	if !r.periodBelowLease(tc.Call.Args[1]) {
		return false
	}
	for _, v := range r.armedVersions(tc) {
		for _, o := range ir.Origins(v) {
			if ex, isEx := o.(*ssa.Extract); isEx && ex.Tuple == ssa.Value(create) && ex.Index == 0 {
				return true
			}
		}
	}
	return false
}

// armsRenewalWithNewVersion: the closure renews with the Version of the record returned by cas.
func (r *lockRoles) armsRenewalWithNewVersion(tc *ssa.Call, cas *ssa.Call) bool {
	if !r.periodBelowLease(tc.Call.Args[1]) {
		return false
	}
	for _, v := range r.armedVersions(tc) {
		if ir.LoadedField(v) != r.recVersion {
			continue
		}
		for _, o := range pairFieldOrigins(v) {
			if ex, isEx := o.(*ssa.Extract); isEx && ex.Tuple == ssa.Value(cas) && ex.Index == 0 {
				return true
			}
		}
	}
	return false
}

// periodBelowLease: d = lease / k (k >= 2) or lease * a / b with a < b is accepted only in the division form.
func (r *lockRoles) periodBelowLease(d ssa.Value) bool {
	bo, ok := ir.Resolve(d).(*ssa.BinOp)
	if !ok || bo.Op != token.QUO {
		return false
	}
	k, isC := ir.ConstInt(bo.Y)
	return isC && k >= 2 && r.leaseReadVG(bo.X) != nil
}

// leaseOnWrite is C05.L1 / C01.L1: every lock record is written with ExpiresAt = now + lease, the clock read at
// the time of the write.
func (c *Ctx) leaseOnWrite(r *lockRoles, rule string) {
	leaseLoad := func(v ssa.Value) bool { return r.leaseReadVG(v) != nil }
	n := 0
	for _, fn := range r.all {
		ir.Instrs(fn, func(in ssa.Instruction) {
			call := r.storageCall(in, "Create")
			if call == nil {
				call = r.storageCall(in, "CasByVersion")
			}
			if call == nil {
				return
			}
			n++
			cell := recordArgCell(call.Call.Args[1])
			ok := false
			if cell != nil {
				for _, st := range fieldStores(cell, r.recExpires) {
					// cast.Ptr(time.Now().Add(lease))
					if ptr, isCall := ir.Resolve(st.Val).(*ssa.Call); isCall && len(ptr.Call.Args) == 1 {
						if add, isAdd := ir.Resolve(ptr.Call.Args[0]).(*ssa.Call); isAdd && ir.CalleeFullName(add) == "(time.Time).Add" {
							if now, isNow := ir.Resolve(add.Call.Args[0]).(*ssa.Call); isNow && ir.CalleeFullName(now) == "time.Now" && leaseLoad(add.Call.Args[1]) {
								ok = true
							}
						}
					}
				}
			}
			if !ok && cell != nil {
				// the record points to a cell of the call that is refreshed before every attempt (v_lock_shapes.go)
				if shape, lease, fresh, why := c.leaseCellVL(r, fn, call, cell); shape {
					what := "the lock record is written without (or with another) expiration than now + lease: a dead holder's record never lapses, or a live holder's record lapses early"
					c.Decide(rule, fn, call.Call.Method.Name()+" writes the record with ExpiresAt = now + lease", in, lease, what+" ("+why+")")
					if lease {
						c.Decide(rule, fn, "lease counted from the moment of the write", in, fresh, "the expiration is computed once and reused for later attempts: a caller that waited behind another holder creates a record that is already (nearly) expired, its first renewal finds nothing and the record lapses under the holder ("+why+")")
					}
					return
				}
			}
			c.Decide(rule, fn, call.Call.Method.Name()+" writes the record with ExpiresAt = now + lease", in, ok, "the lock record is written without (or with another) expiration than now + lease: a dead holder's record never lapses, or a live holder's record lapses early")
			// the lease is computed at the time of the write: every way from one attempt to the next re-reads the clock
			if ok && cell != nil {
				for _, st := range fieldStores(cell, r.recExpires) {
					if ptr, isCall := ir.Resolve(st.Val).(*ssa.Call); isCall && len(ptr.Call.Args) == 1 {
						if add, isAdd := ir.Resolve(ptr.Call.Args[0]).(*ssa.Call); isAdd {
							if now, isNow := ir.Resolve(add.Call.Args[0]).(*ssa.Call); isNow {
								w, _ := (ir.Query{Fn: fn, From: in, Block: func(x ssa.Instruction) bool { return x == ssa.Instruction(now) }, Target: func(x ssa.Instruction) bool { return x == in }}).Find()
								c.Decide(rule, fn, "lease counted from the moment of the write", in, w == nil && now.Parent() == call.Parent(), "the expiration is computed once and reused for later attempts: a caller that waited behind another holder creates a record that is already (nearly) expired, its first renewal finds nothing and the record lapses under the holder")
							}
						}
					}
				}
			}
		})
	}
	c.R.Floor(rule, 6)

}

// renewalContext: the renewal CAS does not run under the context of the acquisition call (C05.L6, C01.L2).
func (c *Ctx) renewalContext(r *lockRoles, rule string) {
	fn := r.renewal
	n := 0
	ir.Instrs(fn, func(in ssa.Instruction) {
		cas := r.storageCall(in, "CasByVersion")
		if cas == nil {
			return
		}
		n++
		ctxOK := false
		if call, isCall := ir.Resolve(cas.Call.Args[0]).(*ssa.Call); isCall {
			switch ir.CalleeFullName(call) {
			case "context.Background", "context.TODO":
				ctxOK = true
			}
		}
		c.Decide(rule, fn, "renewal does not use the acquisition's context", cas, ctxOK, "the renewal CAS runs under a caller-supplied context: when the acquisition's context ends (it normally bounds only the acquisition) every renewal fails and the record expires under the holder")
	})
	if n == 0 {
		c.Decide(rule, fn, "renewal does not use the acquisition's context", nil, false, "the renewal routine does not renew with CasByVersion")
	}
}

// unlockDeletes: Unlock deletes the lock record on every path (C04.R2, C05.L10). A record that survives Unlock keeps
// every other Locker waiting for the lease to run out - and, when a renewal of the finished tenure is still in flight
// (see C05.L9), is renewed for ever: the Delete is what makes that renewal's compare-and-set fail.
func (c *Ctx) unlockDeletes(r *lockRoles, rule string) {
	fn := r.unlock
	isDel := func(x ssa.Instruction) bool { return r.storageCall(x, "Delete") != nil }
	c.NoPath(rule, "Unlock deletes the lock record", nil, ir.Query{Fn: fn, Block: isDel, Target: ir.IsExit},
		"Unlock can return without deleting the lock record: other lockers wait for the lease to run out (and a renewal in flight keeps the ownerless record alive)")
}

// epilogueOrder: an attempt resets the held flag before it puts the local token back (C04.R9). In the other order a
// goroutine sharing the Locker can take the token while the flag still says "held": its own 0 -> 1 transition fails
// (panic / refusal) and the token it took is never returned.
func (c *Ctx) epilogueOrder(r *lockRoles, rule string) {
	n := 0
	for _, fn := range r.lockerFns {
		if fn.Parent() != nil {
			continue
		}
		ir.Instrs(fn, func(in ssa.Instruction) {
			if !r.tokenSend(in) {
				return
			}
			n++
			isReset := func(x ssa.Instruction) bool {
				op, addr, args, ok := ir.AtomicCall(x)
				if !ok {
					return false
				}
				if _, isHeld := fieldAddrOf(addr, r.heldF); !isHeld {
					return false
				}
				switch op {
				case "Store", "Swap":
					k, isC := ir.ConstInt(args[0])
					return isC && k == 0
				case "CompareAndSwap":
					k, isC := ir.ConstInt(args[len(args)-1])
					return isC && k == 0
				}
				return false
			}
			// a reset reached from the send without passing another token receive: the flag was still set when the token went back
			c.NoPath(rule, "held flag reset before the token goes back", in, ir.Query{Fn: fn, From: in,
				Block:  func(x ssa.Instruction) bool { return r.tokenRecv(x) },
				Target: isReset},
				"the local token is returned before the held flag is reset: a goroutine sharing the Locker can take the token while the flag still reads 'held', its own acquisition then fails on the flag (panic: invalid state) and the token is lost")
		})
	}
	if n == 0 {
		c.Decide(rule, r.tryLock, "held flag reset before the token goes back", nil, false, "no token send found in the Locker's functions")
	}
}

// renewalOnlyCAS: the renewal routine (and what it calls inside the package) talks to the storage only through
// CasByVersion: a renewal that creates, puts or deletes can resurrect or destroy a record after its tenure ended.
func (c *Ctx) renewalOnlyCAS(r *lockRoles, rule string) {
	seen := map[*ssa.Function]bool{}
	var visit func(fn *ssa.Function, depth int)
	n := 0
	visit = func(fn *ssa.Function, depth int) {
		if fn == nil || seen[fn] || depth > 3 || len(fn.Blocks) == 0 {
			return
		}
		seen[fn] = true
		ir.Instrs(fn, func(in ssa.Instruction) {
			if call := r.storageCall(in, ""); call != nil {
				n++
				name := call.Call.Method.Name()
				c.Decide(rule, fn, "renewal touches the record only by CasByVersion", in, name == "CasByVersion",
					"the lease renewal calls Storage."+name+": a renewal that lost its record (ErrNotExist also means: the holder unlocked meanwhile) must not write - it would re-create or remove a record for a tenure that is over, and the lock is never free again")
			}
			if call, ok := in.(*ssa.Call); ok {
				if cal := ir.StaticCallee(call); cal != nil && cal.Pkg == r.renewal.Pkg && cal != r.renewal {
					// helpers of the package, but not the acquisition entry points
					if cal != r.tryLock && cal != r.lock && cal != r.lockCtx && cal != r.unlock {
						visit(cal, depth+1)
					}
				}
			}
		})
	}
	visit(r.renewal, 0)
	if n == 0 {
		c.Decide(rule, r.renewal, "renewal touches the record only by CasByVersion", nil, false, "the renewal routine makes no storage call")
	}
}

// noSuccessAfterGiveBack: once an attempt has put the local token back it must fail (C04.R7).
func (c *Ctx) noSuccessAfterGiveBack(r *lockRoles, rule string) {
	n := 0
	for _, fn := range r.lockerFns {
		if fn == r.unlock || fn.Parent() != nil {
			continue
		}
		usesHelper := false
		for _, in := range ir.Calls(fn) {
			if r.tokenHelperCall(in) != nil {
				usesHelper = true
			}
		}
		if !usesHelper {
			continue
		}
		ir.Instrs(fn, func(in ssa.Instruction) {
			if !r.tokenSend(in) {
				return
			}
			n++
			target := func(x ssa.Instruction) bool {
				ret, ok := x.(*ssa.Return)
				return ok && ir.IsReturn(x) && possibleSuccessExit(fn, ret)
			}
			q := ir.Query{Fn: fn, From: in, Target: target}
			if w, err := q.Find(); err == nil && w != nil {
				// the epilogue runs under a test of the very value that is returned behind it (`if err != nil { give back }; return err`):
				// the same question per path, starting with what is known where the token is given back
				pq := ir.PathQuery{Fn: fn, From: in, FromFacts: true, Target: func(x ssa.Instruction, val *ir.Valuation) bool {
					return target(x) && !exitFailsOnPathYA(fn, x.(*ssa.Return), val)
				}}
				if w2, err2 := pq.Find(); err2 == nil && w2 == nil {
					c.Decide(rule, fn, "an attempt that gave the token back reports failure", in, true, "")
					return
				}
				// the epilogue is a join of several failing ways (loop left by its condition, or by break), so no single
				// test dominates it: the same question over whole paths from the entry - a path that passed this send is
				// marked, and an exit counts when the marked path does not know its result to be an error / false
				pq = ir.PathQuery{Fn: fn, Target: func(x ssa.Instruction, val *ir.Valuation) bool {
					if x == in {
						val.Mark("token given back")
						return false
					}
					return val.Marked("token given back") && target(x) && !exitFailsOnPathYA(fn, x.(*ssa.Return), val)
				}}
				if w2, err2 := pq.Find(); err2 == nil && w2 == nil {
					c.Decide(rule, fn, "an attempt that gave the token back reports failure", in, true, "")
					return
				}
			}
			c.NoPath(rule, "an attempt that gave the token back reports failure", in, q, "the attempt returns the local token and resets the flag (its failure epilogue) but can still report success (nil / true): the caller believes it holds the lock while it holds nothing")
		})
	}
	if n == 0 {
		c.Decide(rule, r.tryLock, "failure epilogue returns the token", nil, false, "no token send found in the acquiring functions")
	}
}
