package rules

import (
	"fmt"
	"go/constant"
	"go/token"
	"sort"
	"strings"

	"golang.org/x/tools/go/ssa"

	"verif/checker/ir"
)

// Generalisations of the zip rules for the refactorings of round "u".
//
// (1) R1 / R12, a guard that lives in the function the name is handed to. A call of a repository function is a sink
// for R1 because one of its parameters reaches a file-system call inside it. Where the containment test is made is not
// part of the clause: what the property needs is that the file-system call is never made on an unchecked path. So
// when the caller has not tested the argument, the rule asks the same question where the sink is - in the callee, with
// the parameter as the source: every file-system call (of the rule's sink set) fed by that parameter is, on every path
// to it, covered by a containment test known to have succeeded (dominating test, checked phi operands, or per path;
// a nested repository call is asked recursively, depth 2). At least one such call must exist (the summary that made
// the call a sink found one), and all of them must be covered. That holds for any value of the parameter, so it holds
// for the entry name. A callee that touches the file system before it tests, or tests only on some paths, is reported
// as before.
//
// (2) R13, the clause is about the property's entry point. "UnzipToFolder reproduces every regular file" is a promise
// of UnzipToFolder. It is demanded of the functions UnzipToFolder reaches (static calls, closures, functions taken as
// values), each analysed under what UnzipToFolder makes of it: a parameter for which every call on that path passes the
// same constant (nil for a filter, false for a flag), in a function that is not taken as a value on that path, is that
// constant in every execution the property speaks about, and a path on which a branch has decided otherwise (the filter
// is known non-nil) is no path of such an execution. A new exported entry point that adds a caller-supplied filter is
// then analysed as what the existing entry point runs - the filter branch is dead - and is not itself held to a
// promise the property does not make about it. When UnzipToFolder is not found, every function is analysed as before.

// calleeGuards: call hands argument a to a repository function in which every sink (as `sinks` lists them) fed by the
// corresponding parameter is covered by a containment test of the callee itself.
func (h *zipHard) calleeGuards(call ssa.CallInstruction, a ssa.Value, sinks func(ssa.CallInstruction) []ssa.Value, depth int) bool {
	cal := ir.StaticCallee(call)
	if cal == nil || !h.env.inPkg[cal] || len(cal.Blocks) == 0 || depth > 2 {
		return false
	}
	args := call.Common().Args
	if len(args) != len(cal.Params) {
		return false
	}
	from := map[ssa.Value]bool{}
	for i, x := range args {
		if x == a && isStringType(cal.Params[i].Type()) {
			from[cal.Params[i]] = true
		}
	}
	if len(from) == 0 {
		return false
	}
	t := h.env.derives(cal, from)
	n := 0
	for _, c2 := range ir.Calls(cal) {
		for _, a2 := range sinks(c2) {
			if !t[a2] {
				continue
			}
			n++
			guarded, _, err := h.guardedSink(cal, t, c2, a2)
			if err != nil {
				return false
			}
			if !guarded && !h.calleeGuards(c2, a2, sinks, depth+1) {
				return false
			}
		}
	}
	return n > 0
}

// CalleeGuards is the entry for R1 (runC20): the sink set is R1's.
func (c *Ctx) zipCalleeGuards(env *r1Env, fns []*ssa.Function, call ssa.CallInstruction, a ssa.Value, sinks func(ssa.CallInstruction) []ssa.Value) bool {
	h := &zipHard{c: c, env: env, fns: fns}
	return h.calleeGuards(call, a, sinks, 0)
}

// extractionScope: the functions UnzipToFolder reaches, and for each the parameters that are a constant on that path.
// scope is nil when the entry point is not found.
func (h *zipHard) extractionScope() (scope map[*ssa.Function]bool, bound map[*ssa.Function]map[*ssa.Parameter]*ssa.Const) {
	root := h.c.P.Func("files", "UnzipToFolder")
	if root == nil || len(root.Blocks) == 0 {
		return nil, nil
	}
	scope = map[*ssa.Function]bool{}
	asValue := map[*ssa.Function]bool{}
	var order []*ssa.Function
	var visit func(fn *ssa.Function, d int)
	visit = func(fn *ssa.Function, d int) {
		if fn == nil || scope[fn] || d > 8 || len(fn.Blocks) == 0 {
			return
		}
		if !h.env.inPkg[fn] && fn.Synthetic == "" {
			return
		}
		scope[fn] = true
		order = append(order, fn)
		ir.Instrs(fn, func(in ssa.Instruction) {
			var callee ssa.Value
			if call, ok := in.(ssa.CallInstruction); ok {
				visit(ir.StaticCallee(call), d+1)
				if !call.Common().IsInvoke() {
					callee = call.Common().Value
				}
			}
			for _, op := range in.Operands(nil) {
				if op == nil || *op == nil {
					continue
				}
				switch x := (*op).(type) {
				case *ssa.Function:
					if ssa.Value(x) != callee {
						asValue[x] = true
					}
					visit(x, d+1)
				case *ssa.MakeClosure:
					if f, ok := x.Fn.(*ssa.Function); ok {
						if ssa.Value(x) != callee {
							asValue[f] = true
						}
						visit(f, d+1)
					}
				}
			}
		})
		for _, an := range fn.AnonFuncs {
			visit(an, d+1)
		}
	}
	visit(root, 0)
	bound = map[*ssa.Function]map[*ssa.Parameter]*ssa.Const{}
	type site struct{ args []ssa.Value }
	sites := map[*ssa.Function][]site{}
	for _, fn := range order {
		for _, call := range ir.Calls(fn) {
			if cal := ir.StaticCallee(call); cal != nil && scope[cal] {
				sites[cal] = append(sites[cal], site{call.Common().Args})
			}
		}
	}
	for fn, ss := range sites {
		if fn == root || asValue[fn] || len(ss) == 0 {
			continue
		}
		for i, p := range fn.Params {
			var cst *ssa.Const
			ok := true
			for _, s := range ss {
				if i >= len(s.args) {
					ok = false
					break
				}
				c, isConst := s.args[i].(*ssa.Const)
				if !isConst || !bindable(c) || (cst != nil && !sameConst(cst, c)) {
					ok = false
					break
				}
				cst = c
			}
			if ok && cst != nil {
				if bound[fn] == nil {
					bound[fn] = map[*ssa.Parameter]*ssa.Const{}
				}
				bound[fn][p] = cst
			}
		}
	}
	return scope, bound
}

// bindable: nil or a boolean constant - what a branch can decide.
func bindable(c *ssa.Const) bool {
	return c.Value == nil || c.Value.Kind() == constant.Bool
}

func sameConst(a, b *ssa.Const) bool {
	if a.Value == nil || b.Value == nil {
		return a.Value == nil && b.Value == nil
	}
	return a.Value.Kind() == b.Value.Kind() && constant.Compare(a.Value, token.EQL, b.Value)
}

// constArgs: the parameters of cal that this very call binds to nil or to a boolean constant.
func constArgs(cal *ssa.Function, call *ssa.Call) (map[*ssa.Parameter]*ssa.Const, string) {
	res := map[*ssa.Parameter]*ssa.Const{}
	var tags []string
	for i, p := range cal.Params {
		if i >= len(call.Call.Args) {
			break
		}
		if c, ok := call.Call.Args[i].(*ssa.Const); ok && bindable(c) {
			res[p] = c
			tags = append(tags, fmt.Sprintf("c%d=%s", i, c.Name()))
		}
	}
	sort.Strings(tags)
	return res, strings.Join(tags, ",")
}

// excluded: the path has decided a bound parameter to be something else than the constant it is bound to - it is no
// path of an execution under the property's entry point.
func (w *writeCtx) excluded(val *ir.Valuation) bool {
	for p, c := range w.bound {
		if c.Value == nil {
			if isNil, ok := val.KnownIsNil(p); ok && !isNil {
				return true
			}
			continue
		}
		if k, ok := val.Known(p); ok && k != constant.BoolVal(c.Value) {
			return true
		}
	}
	return false
}
