package rules

// C18.T11 - the typestate exploration is closed under every exported method of the Mixer that changes it.
//
// The exploration of c18.go interprets Init/HasNext/Next/Reset from every reachable abstract state. A further exported
// method of the Mixer that writes a field, advances or resets a source (found by the footprint of its static call
// closure, v_mixer.go) is part of the mixer's state machine as well: it is interpreted like Reset from every reachable
// abstract state, for every answer of the environment (its function-typed parameters are answered
// nondeterministically, loops whose iteration count the environment decides are cut when the abstract state repeats),
// and the states it produces are explored with HasNext/Next/Reset and with the method itself: the merge-step clauses
// T1-T4 (and T9) must hold there too. Such a method may discard look-ahead elements (that is what a skipping or
// seeking operation is for): a source that is advanced while its look-ahead is pending is not "an element lost" while
// the method runs, and a look-ahead the method dropped without asking the source is taken over from the
// implementation through the flag that, on all states reachable without the method, is equal to "the look-ahead of
// source k is pending" (learned from the exploration, no name is used). Everything else stays as it is: a decision
// made by the selector is void once a head changed, so a selection the implementation keeps in force across the method
// shows up as an element emitted without consulting the selector for the current heads (or emitted from an empty
// look-ahead). Findings are booked as C18.T11 on the method. A method that cannot be interpreted, or a mixer for which
// no such flag exists, is reported as not established.

import (
	"fmt"
	"go/types"
	"sort"
	"strings"

	"golang.org/x/tools/go/ssa"

	"verif/checker/ai"
)

const c18T11 = "C18.T11"

type c18Ext struct {
	c       *Ctx
	fns     []*ssa.Function
	on      bool   // the extension methods are part of the exploration (second round)
	mode    bool   // an extension method is being interpreted
	after   string // the state being explored was produced by (or after) this extension method
	afterFn *ssa.Function
	witness [2][]string
	bad     map[string]bool
	env     *ai.Env
}

// c18Extensions finds the exported methods of the mixer, other than the interpreted ones and Close, that change state.
func (c *Ctx) c18Extensions(mixer *types.Named, rel string, core ...*ssa.Function) *c18Ext {
	x := &c18Ext{c: c, bad: map[string]bool{}}
	roles := c.iteratorRoles(rel)
	pkg := c.P.SSAPkg(rel)
	isCore := map[*ssa.Function]bool{}
	for _, f := range core {
		isCore[f] = true
	}
	for _, fn := range c.P.MethodsOf(mixer) {
		if isCore[fn] || len(fn.Blocks) == 0 || fn.Object() == nil || !fn.Object().Exported() || fn.Name() == roles.closing.Name() {
			continue
		}
		cl := closureOf([]*ssa.Function{fn}, pkg)
		fp := footprintOf(cl, roles)
		closes := false
		for _, g := range cl {
			for _, b := range g.Blocks {
				for _, in := range b.Instrs {
					if ci, ok := in.(ssa.CallInstruction); ok && ci.Common().IsInvoke() && roles.isClosing(ci.Common().Method) {
						closes = true
					}
				}
			}
		}
		if len(fp.writes)+len(fp.advances)+len(fp.resets) == 0 && !closes {
			continue // a method that only reads
		}
		x.fns = append(x.fns, fn)
		c.Role("mixer.state-changing method "+fn.Name(), relName(fn), fn.Pos())
		c.Saw(fn)
	}
	sort.Slice(x.fns, func(i, j int) bool { return x.fns[i].Name() < x.fns[j].Name() })
	return x
}

// relabel books a finding made in or after an extension method as T11 of that method.
func (x *c18Ext) relabel(rule, what, detail string) (string, string, string, *ssa.Function) {
	x.bad[x.after] = true
	return c18T11, "after " + x.after + ": " + what,
		"in or after " + x.after + " (a state-changing method outside Init/HasNext/Next/Reset; look-ahead elements it discards are not counted as lost) [" + rule + "]: " + detail, x.afterFn
}

// tag reads the extension method in the history of a state.
func (x *c18Ext) tag(st *ai.State) {
	x.after, x.afterFn = "", nil
	if t, ok := st.Mem["model.ext"].(ai.Tok); ok {
		for _, fn := range x.fns {
			if fn.Name() == t.Name {
				x.after, x.afterFn = t.Name, fn
			}
		}
	}
}

// answerParam answers a call of a function-typed parameter of an extension method.
func (x *c18Ext) answerParam(recv ai.Val, name string, res *types.Tuple, choose func() bool) ai.Val {
	t, ok := recv.(ai.Tok)
	if !ok || name != "call" || !strings.HasPrefix(t.Name, "arg:") {
		return nil
	}
	if res != nil && res.Len() == 1 {
		if b, ok := res.At(0).Type().Underlying().(*types.Basic); ok && b.Info()&types.IsBoolean != 0 {
			return ai.Bool(choose())
		}
	}
	if res == nil || res.Len() == 0 {
		return ai.Tuple{}
	}
	return nil
}

// begin starts the second round: it learns, from the states reachable without the extension methods, which boolean
// locations of the implementation are equal to "look-ahead k pending" everywhere.
func (x *c18Ext) begin(seen map[string]*ai.State, clean bool, pend func(*ai.State) [2]bool) bool {
	if x.on || len(x.fns) == 0 || !clean {
		return false
	}
	x.on = true
	for k := 0; k < 2; k++ {
		cand := map[string]bool{}
		first := true
		for _, st := range seen {
			p := pend(st)[k]
			if first {
				for path, v := range st.Mem {
					if b, ok := ai.AsBool(v); ok && strings.HasPrefix(path, "M.") && b == p {
						cand[path] = true
					}
				}
				first = false
				continue
			}
			for path := range cand {
				if b, ok := ai.AsBool(st.Mem[path]); !ok || b != p {
					delete(cand, path)
				}
			}
		}
		for path := range cand {
			x.witness[k] = append(x.witness[k], path)
		}
		sort.Strings(x.witness[k])
		x.c.R.Role(fmt.Sprintf("mixer.look-ahead flag of source %d (learned)", k+1), strings.Join(x.witness[k], ", "))
	}
	return true
}

// step interprets every extension method from state s and pushes the states it produces. It returns false when the
// check cannot go on (an undecided obligation was recorded).
func (x *c18Ext) step(s *ai.State, env *ai.Env, recv ai.Val, setOp func(string), fresh func(*ai.State) *ai.State, push func(*ai.State),
	getPend func(*ai.State) [2]bool, dropPend func(*ai.State, int), fail func(rule, what, detail string)) bool {
	if !x.on {
		return true
	}
	if x.env == nil {
		e := *env
		e.CutCycles = true
		x.env = &e
	}
	prevAfter, prevFn := x.after, x.afterFn
	defer func() { x.after, x.afterFn, x.mode = prevAfter, prevFn, false }()
	for _, fn := range x.fns {
		x.after, x.afterFn, x.mode = fn.Name(), fn, true
		setOp(fn.Name())
		args := []ai.Val{recv}
		for i := 1; i < len(fn.Params); i++ {
			args = append(args, ai.Tok{Name: fmt.Sprintf("arg:%d", i)})
		}
		outs, err := ai.Explore(x.env, fn, args, fresh(s))
		if err != nil {
			x.c.Undecided(c18T11, fn, "the exploration covers this state-changing method", nil,
				"this exported method changes the state of the mixer (control state, look-aheads or sources) but cannot be interpreted ("+err.Error()+"): it is not established that HasNext/Next/Reset stay a faithful merge after it was called")
			return false
		}
		for _, o := range outs {
			if o.Panic {
				fail("C18.T4", fn.Name()+" does not panic", fn.Name()+" can panic")
				continue
			}
			ns := fresh(o.State)
			pend := getPend(ns)
			for k := 0; k < 2; k++ {
				if len(x.witness[k]) == 0 {
					x.c.Undecided(c18T11, fn, "the exploration covers this state-changing method", nil,
						fmt.Sprintf("no location of the implementation is equal to \"the look-ahead of source %d is pending\" on the states reachable without this method, so the look-aheads it discards cannot be taken over: not established", k+1))
					return false
				}
				loaded, known := ai.AsBool(ns.Mem[x.witness[k][0]])
				for _, w := range x.witness[k][1:] {
					if b, ok := ai.AsBool(ns.Mem[w]); !ok || b != loaded {
						known = false
					}
				}
				switch {
				case !known:
					fail("C18.T2", "look-ahead flags stay definite", fmt.Sprintf("%s leaves the look-ahead flag of source %d undetermined or inconsistent (%s)", fn.Name(), k+1, strings.Join(x.witness[k], ", ")))
				case pend[k] && !loaded:
					dropPend(ns, k) // discarded without asking the source: allowed here, the decision made on it is void
				case !pend[k] && loaded:
					fail("C18.T2", "look-ahead loaded only with an element of the source", fmt.Sprintf("%s marks the look-ahead of source %d as loaded although no element was taken from the source for it", fn.Name(), k+1))
				}
			}
			ns.Mem["model.ext"] = ai.Tok{Name: fn.Name()}
			push(ns)
		}
	}
	return true
}

// finish records the obligations of the extension methods that held.
func (x *c18Ext) finish() {
	if !x.on {
		return
	}
	for _, fn := range x.fns {
		if !x.bad[fn.Name()] {
			x.c.Decide(c18T11, fn, "the merge-step clauses hold in and after this state-changing method", nil, true, "")
		}
	}
}
