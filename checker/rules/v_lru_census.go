package rules

import (
	"go/token"

	"golang.org/x/tools/go/ssa"

	"verif/checker/ir"
)

// LRU rules added in the second hardening pass of round "f":
//
//   insert census (C09.R4 / C11.R4, lruInsertCensusV): EVERY insert into the recency list made by the code of the
//       package - not only the miss path of ECache.GetOrCreate - is followed by the capacity test inside its critical
//       section, unless it puts back the entry a lookup of the list has just found
//   sole resident (C08.R6 / C09.Q6, soleResidentEdgeV): a hit may skip the move to the most-recent end on an edge on
//       which the list is known to hold at most one entry

// betweenV: some path from a to b passes an instruction for which pred holds (a path a -> d that avoids b, and a path
// d -> b that avoids a).
func betweenV(fn *ssa.Function, a, b ssa.Instruction, pred func(ssa.Instruction) bool) bool {
	found := false
	ir.Instrs(fn, func(d ssa.Instruction) {
		if found || d == a || d == b || !pred(d) {
			return
		}
		w1, e1 := (ir.Flow{Fn: fn, From: a, Target: func(x ssa.Instruction) bool { return x == d }, Block: func(x ssa.Instruction) bool { return x == b }}).Find()
		if w1 == nil && e1 == nil {
			return
		}
		w2, e2 := (ir.Flow{Fn: fn, From: d, Target: func(x ssa.Instruction) bool { return x == b }, Block: func(x ssa.Instruction) bool { return x == a }}).Find()
		if w2 != nil || e2 != nil {
			found = true
		}
	})
	return found
}

// soleResidentEdgeV returns the predicate of the CFG edges of fn on which the recency list is known to hold at most one
// entry, judged by a comparison of items.Len() with a constant: Len() <= 1, Len() < 2, Len() == 1 / == 0 (and the
// negations of > 1, >= 2, != 1 ...). The Len() call is evaluated behind the lookup `get` with nothing in between that
// changes the list or ends the critical section. On such an edge behind a successful lookup the found entry is the only
// one, hence already the most recently used: Remove + Add would change nothing (C09-t2 style "re-link only when
// Len() > 1"). A weaker bound (Len() <= 2) does not qualify.
func (r *lruRoles) soleResidentEdgeV(fn *ssa.Function, get *ssa.Call) func(from, to *ssa.BasicBlock) bool {
	okLen := map[*ssa.Call]bool{}
	lenAfterGet := func(v ssa.Value) bool {
		call, ok := ir.Resolve(v).(*ssa.Call)
		if !ok || r.itemsCall(call, r.mLen) == nil || call.Parent() != fn {
			return false
		}
		if res, done := okLen[call]; done {
			return res
		}
		res := ir.Dominates(get, call) && !betweenV(fn, get, call, func(x ssa.Instruction) bool {
			if _, isDefer := x.(*ssa.Defer); isDefer {
				return false
			}
			return r.itemsCall(x, r.mAdd) != nil || r.itemsCall(x, r.mRemove) != nil || r.isMutexBoundaryZ(x)
		})
		okLen[call] = res
		return res
	}
	return func(from, to *ssa.BasicBlock) bool {
		f := ir.EdgeFact(from, to)
		if f == nil {
			return false
		}
		cm, ok := f.Cmp()
		if !ok {
			return false
		}
		op, x, y := cm.Op, cm.X, cm.Y
		if _, isC := ir.ConstInt(x); isC {
			op, x, y = ir.SwapOp(op), y, x
		}
		k, isC := ir.ConstInt(y)
		if !isC || !lenAfterGet(x) {
			return false
		}
		switch op {
		case token.LEQ, token.EQL:
			return k <= 1
		case token.LSS:
			return k <= 2
		}
		return false
	}
}

// lruInsertCensusV (C09.R4, C11.R4: one census over all insert sites). "The cache holds at most its capacity" is kept
// by one mechanism: whoever makes the list longer tests Len() against the capacity before it lets go of the mutex, and
// evicts. So for EVERY call of Add on the recency list in the package - in ECache, in the wrappers that share its state
// (Cache, ExpirableCache), in private helpers and literals:
//   - either it puts back an entry that was read from the list by a lookup (the hit's move to the most-recent end: the
//     key is resident, Remove + Add leave the length unchanged; that the lookup lies in the same critical section is
//     C09.R7 / C11.R8),
//   - or it is an insert - the key may be absent, the list may grow - and every path from it to the end of its critical
//     section (an Unlock, the return of a function that unlocks in a deferred call, the return of an exported function;
//     a private helper or literal is followed to every place it is run from) passes the test of Len() against the
//     capacity, in place or in a helper that performs it on every path.
//
// An insert without the test behind it (a wrapper that "swaps" a new version in for one that may have been evicted
// meanwhile; a replay of buffered hits that re-adds entries which may have been removed since) leaves the cache one
// entry above its capacity for good, once per occurrence: unbounded in the length of the history.
// (The miss-path insert of GetOrCreate is judged here as well as by the older intra-procedural clause of the rule.)
func (c *Ctx) lruInsertCensusV(r *lruRoles, rule string) {
	lv := r.locks
	isCapTest := func(x ssa.Instruction) bool {
		iff, ok := x.(*ssa.If)
		if !ok {
			return false
		}
		cm, ok := ir.AsCmp(iff.Cond)
		if !ok {
			return false
		}
		lenX := r.itemsCall(asInstr(cm.X), r.mLen) != nil
		lenY := r.itemsCall(asInstr(cm.Y), r.mLen) != nil
		_, capX := loadOfField(cm.X, r.capacity)
		_, capY := loadOfField(cm.Y, r.capacity)
		return (lenX && capY) || (capX && lenY)
	}
	capEff := newMustEffectH(lv, isCapTest)
	isUnlockNow := func(x ssa.Instruction) bool {
		if _, isDefer := x.(*ssa.Defer); isDefer {
			return false
		}
		return r.isUnlock(x)
	}
	// tested: every path from `from` to the end of the critical section passes the capacity test
	var tested func(fn *ssa.Function, from ssa.Instruction, depth int) (ok bool, why string, undecided bool)
	tested = func(fn *ssa.Function, from ssa.Instruction, depth int) (bool, string, bool) {
		w, err := (ir.Flow{Fn: fn, From: from, Block: capEff.Is, Target: isUnlockNow}).Find()
		if err != nil {
			return false, err.Error(), true
		}
		if w != nil {
			return false, "the mutex is released without the test of Len() against the capacity: path " + w.String(c.P), false
		}
		w, err = (ir.Flow{Fn: fn, From: from, Block: capEff.Is, Target: ir.IsExit}).Find()
		if err != nil {
			return false, err.Error(), true
		}
		if w == nil {
			return true, "", false
		}
		if r.hasDeferredBoundaryZ(fn) {
			return false, "the function returns (its deferred Unlock ends the critical section) without the test of Len() against the capacity: path " + w.String(c.P), false
		}
		sites, known := lv.callersOf(fn)
		if !known || depth >= 3 {
			return false, ir.FnName(fn) + " returns without the test of Len() against the capacity, and it is not a private helper whose callers could perform it: path " + w.String(c.P), false
		}
		for _, s := range sites {
			if ok, why, und := tested(s.Parent(), s, depth+1); !ok {
				return false, "through " + ir.FnName(fn) + ": " + why, und
			}
		}
		return true, "", false
	}
	n := 0
	for _, fn := range c.P.FuncsOf("container/lru") {
		fn := fn
		if len(fn.Blocks) == 0 {
			continue
		}
		ir.Instrs(fn, func(in ssa.Instruction) {
			add := r.itemsCall(in, r.mAdd)
			if add == nil || len(add.Call.Args) < 3 {
				return
			}
			n++
			if found, _ := r.lookedUpInSectionZ(add.Call.Args[2], add, 0); found {
				c.Decide(rule, fn, "insert census: a looked-up entry is put back (length unchanged)", add, true, "")
				return
			}
			const what = "insert census: insert followed by the capacity test in its critical section"
			ok, why, und := tested(fn, add, 0)
			if und {
				c.Undecided(rule, fn, what, add, why)
				return
			}
			c.Decide(rule, fn, what, add, ok, "an entry is inserted into the recency list (the key may be absent: it is not the entry a lookup has just found) and "+why+
				" - the list grows by one and nothing is evicted: the cache stays above its capacity for good, once per occurrence")
		})
	}
	if n == 0 {
		c.Decide(rule, r.getOrCreate, "insert census: the package inserts into the recency list", nil, false, "no call of Add on the recency list found")
	}
}
